#!/bin/bash
# Offline setup: build the static Coq theories (full .vo build) and validate the manifest.
set -e
HERE="$(cd "$(dirname "$0")" && pwd)"
export OCAMLRUNPARAM="${OCAMLRUNPARAM:-s=4M,i=256M}"
cd "$HERE/coq"
coq_makefile -f _CoqProject -o Makefile > /dev/null
timeout 3000 make -j8 2>&1 | grep -v '^Axioms:\|^  \|^Closed under\|^[A-Za-z.]*$' | tail -40
test "${PIPESTATUS[0]}" = 0
cd "$HERE"
mkdir -p evidence replays
if command -v python3-vt >/dev/null; then
python3-vt - <<'PY'
import json, jsonschema
m = json.load(open('MANIFEST.json'))
jsonschema.validate(m, json.load(open('/root/.vp/MANIFEST.schema.json')))
print('MANIFEST.json valid:', len(m['checks']), 'checks')
PY
fi
echo setup done
