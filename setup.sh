#!/bin/bash
# Offline setup: build the static Coq theories (full .vo build) and validate the manifest.
set -e
HERE="$(cd "$(dirname "$0")" && pwd)"
export OCAMLRUNPARAM="${OCAMLRUNPARAM:-s=4M,i=256M}"
cd "$HERE"
PYTHONPATH="$HERE/tools" python3 -c "import vlib; vlib.gen_coqproject()"
cd "$HERE/coq"
# build the dependency cone of every claimed property (files of properties still under construction are not built)
TARGETS=$(python3 -c "
import json, glob, os
ids = [c['property_id'] for c in json.load(open('$HERE/MANIFEST.json'))['checks']]
# Props/Cxx.v plus its companion files (Cxxb.v, Cxxc.v, Cxxh.v ...)
fs = sorted(f for i in ids for f in glob.glob('theories/Props/%s*.v' % i))
print(' '.join(f[:-2] + '.vo' for f in fs))")
timeout 3400 make -j6 $TARGETS > "$HERE/.setup_make.log" 2>&1 || { tail -60 "$HERE/.setup_make.log"; echo "setup: make failed"; exit 1; }
cd "$HERE"
mkdir -p evidence replays
if command -v python3-vt >/dev/null; then
python3-vt - <<'PY'
import json, jsonschema
m = json.load(open('MANIFEST.json'))
jsonschema.validate(m, json.load(open('/root/.vp/MANIFEST.schema.json')))
print('MANIFEST.json valid:', len(m['checks']), 'checks')
PY
fi
echo setup done
