# C17 / minimize_oc: after fix ebed191 (bracket growing, F19) the multiplier bisection `while l2 - l1 > l1l2tol` can spin
# forever: its tolerance is absolute (1e-4), and once an end of the interval is >= 2^40 adjacent doubles are further apart
# than 1e-4, so lmid rounds to l1 or l2.  The bracket-growing loop produces such intervals whenever the volume target is not
# reachable from below and some lower bound is exactly 0 (default xmin = 0.0, x_i <= move): x*sqrt(-g/l2) > 0 = lower for
# every l2, so l2 grows to 1e300.  (Also for reachable targets whose multiplier exceeds ~1e12.)
import signal
import numpy as np, pymoto as pym

w = np.array([1.7, 7.08, 7.3, 3.0, 5.85, 4.49, 3.19])


class Obj(pym.Module):
    def _response(self, x):
        return float(100.0 - np.sum(w * x))

    def _sensitivity(self, df):
        return -w * df


def on_alarm(*a):
    raise TimeoutError


x = pym.Signal('x', state=np.array([0.78, 0.66, 0.36, 0.75, 0.47, 0.44, 0.21]))
f = pym.Signal('f')
signal.signal(signal.SIGALRM, on_alarm)
signal.alarm(10)
try:
    pym.minimize_oc(pym.Network(Obj(x, f)), [x], f, verbosity=0, move=0.5, maxvol=0.207, maxit=1)
    returned = True
except TimeoutError:
    returned = False
signal.alarm(0)
assert returned, "minimize_oc did not return within 10 s (infinite bisection loop)"
assert np.all(x.state >= 0) and np.all(x.state <= 1)
print("ok")
# Smallest patch (pymoto/routines.py, inside the bisection loop right after `lmid = 0.5 * (l1 + l2)`):
#             if lmid <= l1 or lmid >= l2:   # no representable midpoint left: the interval cannot shrink further
#                 break
