"""C05 -- CG.solve raises for a matrix held in scipy's DOK container when no initial guess is given.

pymoto/solvers/iterative.py, CG.solve allocates the start vector with
    x = np.zeros_like(rhs, dtype=np.result_type(rhs, A)) if x0 is None else x0.copy()
np.result_type receives the MATRIX OBJECT.  For csc/csr/coo/dia/bsr/lil containers numpy reads the object's .dtype
attribute; a dok_matrix / dok_array is a dict subclass, which numpy interprets as a structured-dtype specification
(np.dtype({'names': ..., 'formats': ...})) and looks up A['names']:
  * dok_matrix -> IndexError('Indexing with sparse matrices is not supported except boolean indexing ...')
  * dok_array  -> ValueError('Inexact indices into sparse matrices are not allowed')
So CG (with any preconditioner, any trans, vector or block right-hand side) cannot solve a Hermitian positive definite
system stored as DOK, although update() (DampedJacobi / SOR / ILU / GeometricMultigrid set-up) accepts the container,
the same call with an explicit x0 returns the correct solution, every other sparse container works, and
SolverSparseLU / auto_determine_solver / the matrix predicates accept DOK.

Smallest patch:   dtype=np.result_type(rhs.dtype, A.dtype)        (CG.solve)

Run:  PYTHONPATH=/repo /venv/bin/python -W ignore findings/NEW_C05_cg_dok_matrix_no_x0.py     (fails on the current tree)
"""
import numpy as np
import scipy.sparse as sps
import pymoto as pym

A = np.array([[4., 1, 0], [1, 5, 2], [0, 2, 6]])      # symmetric positive definite
b = np.array([1., 2, 3])
S = pym.solvers

# every other container, and DOK with an initial guess, are solved
for ctor in (sps.csc_matrix, sps.csr_matrix, sps.coo_matrix, sps.dia_matrix, sps.bsr_matrix, sps.lil_matrix):
    x = S.CG(ctor(A), preconditioner=S.DampedJacobi()).solve(b)
    assert np.allclose(A @ x, b, atol=1e-5), ctor.__name__
for ctor in (sps.dok_matrix, sps.dok_array):
    x = S.CG(ctor(A), preconditioner=S.DampedJacobi()).solve(b, x0=np.zeros(3))
    assert np.allclose(A @ x, b, atol=1e-5), ctor.__name__

# DOK without initial guess
for ctor in (sps.dok_matrix, sps.dok_array):
    for trans in 'NTH':
        try:
            x = S.CG(ctor(A), preconditioner=S.DampedJacobi()).solve(b, trans=trans)
        except Exception as e:
            raise AssertionError(f'CG.solve(b, trans={trans!r}) raises {type(e).__name__} for a {ctor.__name__}: {e}') from e
        assert x.shape == b.shape and np.allclose(A @ x, b, atol=1e-5), (ctor.__name__, trans, x)
print('OK')
