"""C07 — SystemOfEquations and StaticCondensation document `A (dense or sparse matrix)` but raise for a dense A.

SystemOfEquations._response uses `self.Afp * xp`, `self.Afp.T * xf`, `self.App * xp`: for scipy sparse matrices `*` is the
matrix product, for numpy arrays it is element-wise -> ValueError (shape mismatch) for every dense A.
StaticCondensation._response calls `A[self.f, ...][..., self.m].todense()` -> AttributeError for every dense A.

Smallest patch: use `@` instead of `*` (four places in _response/_sensitivity of SystemOfEquations);
in StaticCondensation convert with `rhs = A[self.f, ...][..., self.m]; rhs = rhs.toarray() if sps.issparse(rhs) else rhs`.

Run:  PYTHONPATH=/repo /venv/bin/python findings/NEW_C07_dense_input.py     (fails on the current tree)
"""
import numpy as np
import pymoto as pym

A = np.array([[2., 1, 0], [1, 4, 1], [0, 1, 6]])     # symmetric positive definite, dense
errors = []
try:
    m = pym.SystemOfEquations([pym.Signal('A', A), pym.Signal('bf', np.array([1., 2.])), pym.Signal('xp', np.array([1.]))],
                              free=np.array([0, 1]), prescribed=np.array([2]))
    m.response()
    x, b = [s.state for s in m.sig_out]
    assert np.allclose(A @ x, b)
except Exception as e:
    errors.append(f'SystemOfEquations: {type(e).__name__}: {str(e).splitlines()[0]}')
try:
    m = pym.StaticCondensation([pym.Signal('A', A)], main=np.array([0]), free=np.array([1, 2]))
    m.response()
    S = np.asarray(m.sig_out[0].state)
    assert np.allclose(S, A[:1, :1] - A[:1, 1:] @ np.linalg.solve(A[1:, 1:], A[1:, :1]))
except Exception as e:
    errors.append(f'StaticCondensation: {type(e).__name__}: {str(e).splitlines()[0]}')
print('\n'.join(errors))
assert not errors, errors
print('ok')
