# C01: every module's sensitivity is the exact adjoint of its response.
# EigenSolve accepts sparse NON-symmetric matrices (`_sparse_eigs` has an explicit branch for them: scipy.sparse.linalg.eigs), but
# both sparse sensitivity routines silently assume A^T = A and B^T = B:
#   * `_sparse_eigval_sens` returns dA = dw q q^T / (q.Bq): the adjoint needs the LEFT eigenvector, dA = dw p q^T / (p.Bq);
#   * `_sparse_eigvec_sens` solves the singular system (A - lam B)^T vp = r and removes the homogeneous component with
#     `v = vp + c * phi`; the null vector of (A - lam B)^T is the left eigenvector p, not phi, so the component of vp along p
#     (which is determined by rounding inside the LU factorisation) stays in the result.
# The dense path (`_dense_sens`, bordered system) is correct for the same matrices, so dense and sparse input give different
# sensitivities for the same pencil.  Theorems: Props/C01d.v C01_eig_sparse_eigval_nonsym_refuted, C01_eig_sparse_eigvec_nonsym_refuted
# (2 x 2 witness over every field), C01_eig_sparse_*_partial (correct under A^T = A, B^T = B), C01_eig_dense_adjoint (general).
# The same holds for complex Hermitian sparse input (A^T = conj(A) != A).
# Smallest patch: in `_sensitivity`, route non-symmetric input to a correct formula -- e.g.
#     if self.is_sparse and not (matrix_is_symmetric(A) and (B is None or matrix_is_symmetric(B))): raise NotImplementedError(...)
# or compute the left eigenvectors (eigs of A^T) and use p in place of phi in `dA_u`, `c` and the homogeneous correction.
import warnings
import numpy as np
import scipy.sparse as sps
import pymoto as pym

warnings.filterwarnings('ignore')
n = 7
kd = 2.0 + 0.7 * np.arange(n)
ku = -np.array([0.81, 0.62, 0.55, 0.73, 0.68, 0.59])
kl = -np.array([0.31, 0.22, 0.35, 0.27, 0.38, 0.24])          # ku * kl > 0: real spectrum


def tri(lo, d, up):
    return sps.diags([lo, d, up], [-1, 0, 1], format='csc')


A0 = tri(kl, kd, ku)
D = tri(np.array([0.3, -0.5, 0.2, 0.4, -0.1, 0.6]), np.array([0.5, -0.25, 0.75, 0.1, -0.6, 0.3, 0.2]),
        np.array([-0.4, 0.1, 0.7, -0.2, 0.5, 0.3]))             # direction inside the matrix class (general tridiagonal)
wW = np.array([1.0, -0.5])
wQ = np.array([[0.5, -1.0], [1.0, 0.25], [-0.75, 0.5], [0.25, 1.0], [1.0, -0.5], [-0.5, 0.75], [0.25, -0.25]])


def run(A, sparse, seed_w=None, seed_q=None):
    sA, sW, sQ = pym.Signal('A', A if sparse else A.toarray()), pym.Signal('W'), pym.Signal('Q')
    m = pym.EigenSolve([sA], [sW, sQ], nmodes=2, sigma=0.0) if sparse else pym.EigenSolve([sA], [sW, sQ])
    m.response()
    W, Q = np.real(sW.state)[:2], np.real(sQ.state)[:, :2]
    g = None
    if seed_w is not None or seed_q is not None:
        if seed_w is not None:
            sW.sensitivity = np.concatenate([seed_w, np.zeros(sW.state.size - 2)])
        if seed_q is not None:
            sq = np.zeros(sQ.state.shape)
            sq[:, :2] = seed_q
            sQ.sensitivity = sq
        m.sensitivity()
        g = sA.sensitivity
        g = np.real(g.todense() if hasattr(g, 'todense') else g)
    return W, Q, g


def fd(sparse, seed_w, seed_q, h=1e-6):
    def f(t):
        W, Q, _ = run(A0 + t * D, sparse)
        return (0.0 if seed_w is None else float(seed_w @ W)) + (0.0 if seed_q is None else float(np.sum(seed_q * Q)))
    d1, d2 = (f(h) - f(-h)) / (2 * h), (f(2 * h) - f(-2 * h)) / (4 * h)
    return (4 * d1 - d2) / 3


results = {}
for label, sw, sq in (('eigenvalue seed', wW, None), ('eigenvector seed', None, wQ)):
    for sparse in (False, True):
        _, _, g = run(A0, sparse, sw, sq)
        an = float(np.sum(g * D.toarray()))
        num = fd(sparse, sw, sq)
        results[(label, sparse)] = (an, num)
        print(f"{label:17s} {'sparse' if sparse else 'dense '}: <g, D> = {an:+.9f}   finite differences = {num:+.9f}")

for (label, sparse), (an, num) in results.items():
    if not sparse:                               # the dense routine is the adjoint
        assert abs(an - num) <= 1e-6 * max(1.0, abs(num)), (label, 'dense', an, num)
for (label, sparse), (an, num) in results.items():
    if sparse:                                   # fails on the current tree
        assert abs(an - num) <= 1e-4 * max(1.0, abs(num)), \
            f"EigenSolve sparse non-symmetric, {label}: sensitivity gives {an}, finite differences give {num}"
print('ok')
