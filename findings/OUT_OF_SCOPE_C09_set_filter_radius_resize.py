"""C09 candidate finding (found while widening the C09 check to option-changing methods between responses).

FilterConv.set_filter_radius(radius) is a public method; _prepare calls it and then derives pad_sizes, el3d_orig and
el3d_pad from the kernel shape ONCE.  Calling set_filter_radius again later (e.g. a continuation on the filter radius)
re-assigns self.weights only.  If int((radius - 1e-10*dx)/dx) differs from the value at construction, the kernel no
longer fits the stored padding:
  * larger radius:  convolve(xpad, weights, 'valid') is smaller than the domain and np.add.at(y, el3d_orig, y3d)
    BROADCASTS it when a dimension collapses to 1 -> a silently wrong output (here: every element gets the same value);
    otherwise a ValueError;
  * smaller radius: ValueError "array is not broadcastable to correct shape".
The output is then not "the convolution of the kernel with the field extended beyond each boundary".

Smallest patch: in set_filter_radius (or in _response) recompute pad_sizes / el3d_pad when the kernel shape changed,
or raise a clear error when it is called after _prepare with a radius that changes the kernel shape.

Run:  PYTHONPATH=/repo /venv/bin/python /verif/findings/NEW_C09_set_filter_radius_resize.py   (fails on the current tree)
"""
import numpy as np
from scipy.signal import convolve
import pymoto as pym

d = pym.DomainDefinition(3, 3)
x = np.arange(9.0)
s = pym.Signal('x', x)
m = pym.FilterConv(s, domain=d, radius=1.5)          # symmetric padding on all sides, 3x3 kernel
m.response()
m.set_filter_radius(2.5)                              # 5x5 kernel
m.response()
y = m.sig_out[0].state

w = m.weights
p = [k // 2 for k in w.shape]
x3 = x[d.elements]
xp = np.pad(x3, [(p[0], p[0]), (p[1], p[1]), (p[2], p[2])], mode='symmetric')
yref = np.zeros(9)
yref[d.elements] = convolve(xp, w, mode='valid')
assert np.allclose(y, yref, atol=1e-12), f"after set_filter_radius(2.5): got {y}, convolution with the new kernel is {yref}"
print("OK")
