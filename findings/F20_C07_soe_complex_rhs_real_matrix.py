"""C07 — SystemOfEquations silently drops the imaginary part of complex loads / prescribed values when A is real (dense).

pymoto/modules/linalg.py, SystemOfEquations._response allocates the outputs with
    self.x = np.zeros(..., dtype=complex) if np.iscomplexobj(A) else np.zeros(..., dtype=float)
so for a REAL matrix with complex `bf` or `xp` the assignments self.x[p] = xp, b[f] = bf, self.x[f] = xf, b[p] = ...
cast complex to float (only a ComplexWarning is emitted): the returned x is not xp on the prescribed dofs, b is not bf on
the free dofs, and the imaginary part of the solution is lost.  (For a real SPARSE matrix the inner LinSolve raises its
documented TypeError instead; the dense case is supported by LinSolve and by every dense solver.)

Smallest patch:   dtype = np.result_type(A.dtype, bf.dtype, xp.dtype);  self.x = np.zeros((self.n, *bf.shape[1:]), dtype=dtype)

Run:  PYTHONPATH=/repo /venv/bin/python -W ignore findings/NEW_C07_soe_complex_rhs_real_matrix.py    (fails on the current tree)
"""
import numpy as np
import pymoto as pym

A = np.array([[2., 1, 0], [1, 4, 1], [0, 1, 6]])        # real, dense, symmetric positive definite
f, p = np.array([0, 1]), np.array([2])
bf, xp = np.array([1. + 1j, 2.]), np.array([1j])
m = pym.SystemOfEquations([pym.Signal('A', A), pym.Signal('bf', bf), pym.Signal('xp', xp)], free=f, prescribed=p)
m.response()
x, b = [s.state for s in m.sig_out]
print('x =', x, ' b =', b)
assert np.allclose(x[p], xp), f'x is not the prescribed value on the prescribed dofs: x[p] = {x[p]}, xp = {xp}'
assert np.allclose(b[f], bf), f'b is not the applied load on the free dofs: b[f] = {b[f]}, bf = {bf}'
assert np.allclose(A @ x, b)
print('ok')
