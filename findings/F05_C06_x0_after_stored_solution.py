# C06: solve(b, x0=...) after an earlier solve must not fail (a fresh wrapper serves it).
import numpy as np
from pymoto.solvers import LDAWrapper, SolverDenseLU
A = np.array([[4., 1., 0.], [1., 3., 1.], [0., 1., 5.]])
s = LDAWrapper(SolverDenseLU(), A=A)
s.solve(np.array([1., 0., 0.]))
b = np.array([0., 1., 2.])
x = s.solve(b, x0=np.array([0.1, 0.2, 0.3]))
assert np.allclose(A @ x, b)
B = np.array([[0., 1.], [1., 0.], [2., 5.]])
X = s.solve(B, x0=np.ones((3, 2)))
assert np.allclose(A @ X, B)
print("ok")
