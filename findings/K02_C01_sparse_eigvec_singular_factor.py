# C01: sensitivity() completes without raising.  EigenSolve._sparse_eigvec_sens factorises Z = A - lambda_i B, which is
# singular by construction; it relies on rounding to keep the LU factor non-singular.  For some (small, well-conditioned)
# pencils SuperLU hits an exactly zero pivot and raises "Factor is exactly singular".
# Not repaired: a robust adjoint needs a bordered / deflated solve (not a small patch).  Recorded as known finding K02.
import numpy as np, scipy.sparse as sps, pymoto as pym, warnings
warnings.filterwarnings('ignore')
kd = [2.239029198833421, 2.8351055785704418, 2.7706403496489083, 2.4662574094643377, 2.224918447228546, 2.961416679604558, 2.4428948249552898, 2.2254566515513665]
ko = [-0.8561227102316857, -0.8535854865933759, -0.5864285301801442, -0.641984743258993, -0.5234362600305738, -0.5157827953165477, -0.8076043719003243]
md = [1.7184098122272626, 1.729107313488699, 1.2733824954914361, 1.1264971209181445, 1.7771166310629405, 1.1950011534868739, 1.8912324442125605, 1.6098492084788023]
mo = [0.0483100599086593, 0.00410483612880227, 0.04452560490801786, 0.030043561469184632, 0.07876472679444765, 0.07642180147213448, 0.0700612184900164]
K = sps.diags([ko, kd, ko], [-1, 0, 1], format='csc')
M = sps.diags([mo, md, mo], [-1, 0, 1], format='csc')
sW, sQ = pym.Signal('W'), pym.Signal('Q')
m = pym.EigenSolve([pym.Signal('K', K), pym.Signal('M', M)], [sW, sQ], hermitian=True, nmodes=3, sigma=0.5)
m.response()
sQ.sensitivity = np.ones_like(sQ.state)
m.sensitivity()   # RuntimeError: Factor is exactly singular
print("ok")
