# C16: a removal fraction that rounds down to zero entries must remove nothing.
import numpy as np, pymoto as pym
x = np.array([3., 1., 4., 1.5, 5.])
sel = pym.AggActiveSet(upper_amt=0.9)(x)          # int(5*(1-0.9)) == 0 entries to remove
assert np.all(sel), f"expected everything kept, got {sel}"
x = np.arange(10.) + 1
sel = pym.AggActiveSet(upper_amt=0.9)(x)          # 10*(1-0.9) = 0.9999999999999998 -> 0
assert np.all(sel), f"expected everything kept, got {sel}"
print("ok")
