# C03: LinSolve keeps the previous solution self.u and hands it to the solver as initial guess x0.  When the number
# of right-hand sides changes between two response() calls (vector -> block, block with another number of columns,
# block -> vector), LDAWrapper._do_solve_1rhs indexes the stale x0 with the new column mask and raises IndexError;
# a freshly constructed LinSolve evaluates the same inputs without problems.
# Smallest patch (LinSolve._response):   x0 = self.u if (self.u is not None and np.shape(self.u) == np.shape(rhs)) else None
#                                        self.u = self.solver.solve(rhs, x0=x0)
import numpy as np, pymoto as pym
A = np.array([[4., 1, 0], [1, 3, 1], [0, 1, 5]])
sA, sb = pym.Signal('A', A), pym.Signal('b', np.array([[1., 0], [0, 1], [1, 1]]))
m = pym.LinSolve([sA, sb])
m.response()
sb.state = np.array([1., 2, 3])          # input update: one load case instead of two
m.response()                             # raises IndexError on the current tree
fresh = pym.LinSolve([sA, sb])
fresh.response()
assert np.allclose(m.sig_out[0].state, fresh.sig_out[0].state)
print("ok")
