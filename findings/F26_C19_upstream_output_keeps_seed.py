# C19: after the call no sensitivity is left set.
# For a Network the routine only executes / resets the modules i_first..i_last.  An output of interest that is produced
# BEFORE the first module using an input of interest and is not an input of the executed modules (tosig upstream of
# fromsig) gets the seed installed as its sensitivity and is never reset, because no executed module touches it.
# Smallest patch (pymoto/routines.py, analytical loop, after blk.reset()):   Sout.reset()
import io, contextlib
import numpy as np, pymoto as pym
class Two(pym.Module):
    def _response(self, x): return 2.0 * x, 5.0 * x
    def _sensitivity(self, d1, d2): return (0 if d1 is None else 2.0 * d1) + (0 if d2 is None else 5.0 * d2)
class Scale(pym.Module):
    def _response(self, x): return 3.0 * x
    def _sensitivity(self, dy): return 3.0 * dy
a, b, b2, c = pym.Signal('a', np.array([1., 2.])), pym.Signal('b'), pym.Signal('b2'), pym.Signal('c')
net = pym.Network(Two([a], [b, b2]), Scale([b], [c]))
with contextlib.redirect_stdout(io.StringIO()):
    pym.finite_difference(net, fromsig=[b], tosig=[b2, c], dx=0.25, random=False, test_fn=lambda *args: None)
left = {s.tag: s.sensitivity for s in (a, b, b2, c) if s.sensitivity is not None}
assert not left, ("sensitivity left set", left)
print("ok")
