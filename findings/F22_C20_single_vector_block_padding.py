# C20 (new, not fixed): a block that holds ONE 2-D nodal vector field, shape (1, 2*nnodes) or (2*nnodes, 1), on a 2-D
# domain: nvectors == 1, so the 2-D array itself goes into the padding code and `vec_pad[0::3] = vec_to_write[0::2]`
# cannot broadcast -> ValueError (the same arrays with 1 or 3 components are written fine).
# Smallest patch: flatten in the single-vector branch:  vec_to_write = vec.astype(np.float32).ravel()
# Run: PYTHONPATH=/repo /venv/bin/python findings/NEW_C20_single_vector_block_padding.py   (fails on the current tree)
import os, tempfile, shutil, base64
import xml.etree.ElementTree as ET
import numpy as np
from pymoto import DomainDefinition
dom = DomainDefinition(2, 2)
d = tempfile.mkdtemp()
try:
    for shape in ((1, 18), (18, 1)):
        u = np.arange(18, dtype=float).reshape(shape)
        fn = os.path.join(d, 'u.vti')
        dom.write_to_vti({'u': u}, fn)              # raises ValueError on the current tree
        a, = ET.parse(fn).getroot().find('ImageData').find('Piece').find('PointData').findall('DataArray')
        assert a.get('NumberOfComponents') == '3'
        got = np.frombuffer(base64.b64decode(a.text.strip()[12:]), dtype='<f4')
        exp = np.zeros(27, dtype='<f4'); exp[0::3] = u.ravel()[0::2]; exp[1::3] = u.ravel()[1::2]
        assert np.array_equal(got, exp)
finally:
    shutil.rmtree(d)
print("ok")
