# C20 (new, not fixed): ScalarToFile ("can also handle small vectors of scalars, i.e. eigenfrequencies or multiple
# constraints") raises TypeError when a logged array has exactly one entry (one eigenfrequency, one constraint):
# `np.size(np.asarray(s.state)) > 1` is False, so `s.state.__format__(fmt)` is called on the ndarray itself.
# Smallest patch: branch on the dimension instead of the size:  `if np.ndim(s.state) > 0:`  (0-d arrays and scalars
# keep the scalar branch).
# Run: PYTHONPATH=/repo /venv/bin/python findings/NEW_C20_scalartofile_single_entry_array.py   (fails on the current tree)
import os, tempfile, shutil
import numpy as np
from pymoto import Signal, ScalarToFile
d = tempfile.mkdtemp()
try:
    f, lam = Signal('f', 1.5), Signal('lam', np.array([2.5]))
    m = ScalarToFile([f, lam], saveto=os.path.join(d, 'log.txt'), fmt='.3e')
    m.response()                                    # raises TypeError on the current tree
    lam.state = np.array([3.5])
    m.response()
    lines = open(os.path.join(d, 'log.txt')).read().split('\n')
    assert len(lines) == 4 and lines[3] == ''
    assert [float(c) for c in lines[1].split('\t')] == [0.0, 1.5, 2.5]
    assert [float(c) for c in lines[2].split('\t')] == [1.0, 1.5, 3.5]
    assert len(lines[0].split('\t')) == 3
finally:
    shutil.rmtree(d)
print("ok")
