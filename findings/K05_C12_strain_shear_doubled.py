# C12: "Strain returns in every element the symmetric gradient (engineering shear in Voigt form)".
# For the affine field u = (g*y, 0) the engineering shear is gamma_xy = du/dy + dv/dx = g.
# Strain(voigt=True) returns 2*g (the shear rows of the averaged B matrix are multiplied by 2 although B already holds the
# engineering shear), and Strain(voigt=False) returns g in the off-diagonal entries where the tensor strain is g/2.
# Stress = D @ strain and the energy identity inherit the factor.  The behaviour is pinned by
# tests/test_element_operations.py::TestStressStrain::test_pure_shear (expects 2*gamma), so it cannot be repaired
# without editing the test suite: recorded as a known finding.
import numpy as np, pymoto as pym
d = pym.DomainDefinition(2, 2, unitx=0.5, unity=0.25)
g = 0.125
pos = d.get_node_position()             # (2, nnodes)
u = np.zeros(d.nnodes * 2)
u[0::2] = g * pos[1]                    # u_x = g*y
s = pym.Signal('u', u)
e_voigt = pym.Strain(s, domain=d, voigt=True); e_voigt.response()
e_tens = pym.Strain(s, domain=d, voigt=False); e_tens.response()
ev = e_voigt.sig_out[0].state
et = e_tens.sig_out[0].state
assert np.allclose(ev[0], 0) and np.allclose(ev[1], 0)
assert np.allclose(ev[2], g), ("Voigt shear should be the engineering shear g = %g" % g, ev[2])
assert np.allclose(et[0, 1], g / 2), ("tensor shear should be g/2", et[0, 1])
print("ok")
