# C15: contract_multi with a list of sparse matrices gives sum_ij A_ij B_ij for every matrix of the list.
# Fails on the current tree: the result array takes its dtype from mats[0] only, so a complex matrix later in the list
# silently loses its imaginary part (ComplexWarning) when the first matrix and the carrier are real.
# Smallest patch (pymoto/common/dyadcarrier.py, contract_multi):
#  -            dtype = np.result_type(self.dtype, mats[0].dtype)
#  +            dtype = np.result_type(self.dtype, *[m.dtype for m in mats if m is not None])
import warnings
import numpy as np
import scipy.sparse as sp
from pymoto import DyadCarrier

warnings.simplefilter('ignore')
D = DyadCarrier([np.array([1., 2., 3.])], [np.array([1., -1.])])
S = sp.coo_matrix(np.array([[1., 0.], [0., 2.], [3., 0.]]))
Sc = sp.coo_matrix(np.array([[1., 0.], [0., 2j], [3., 0.]]))
A = D.todense()
exp = np.array([(A * S.toarray()).sum(), (A * Sc.toarray()).sum()])
got = D.contract_multi([S, Sc])
assert np.array_equal(got, exp), f"got {got}, expected {exp}"
print("ok")
