# C06: a block right-hand side whose columns are linearly dependent on each other (both new) must not
# corrupt later answers.  _do_solve_1rhs orthogonalises the second column against the first one, is left
# with rounding noise (norm ~1e-16, not exactly 0), normalises the noise (`bnrm == 0` is an exact test)
# and stores the pair (noise_x/|noise_b|, noise_b/|noise_b|), for which A x = b does NOT hold.
# Every later solve whose rhs has a component along the noise vector returns a wrong x (O(1) residual)
# and is never answered from the database again.
# Smallest patch: make the acceptance test relative, e.g. remember `bnrm0 = np.linalg.norm(badd)` before
# the orthogonalisation loop and `continue` when `bnrm <= self.tol * bnrm0` (or not finite).
import numpy as np
from pymoto.solvers import LDAWrapper, SolverDenseLU
A = np.array([[4., 1., 2.], [1., 3., 1.], [3., 1., 5.]])
b = np.array([1., 2., 3.])
c = np.array([2., -1., 1.])
s = LDAWrapper(SolverDenseLU(), A=A)
B = np.stack([b, 3 * b], axis=1)
X = s.solve(B)
assert np.allclose(A @ X, B)
x = s.solve(c)
assert np.allclose(A @ x, c), (x, A @ x, c)          # residual 0.38 on the current tree
assert len(s.b_stored) == 2, f"{len(s.b_stored)} vectors stored for rank 2"
print("ok")
