# C19: complex inputs are perturbed in the imaginary direction too, also through an integer-array slice.
import numpy as np, pymoto as pym
class Sq(pym.Module):
    def _response(self, x): return x * x
    def _sensitivity(self, dy): return 2 * self.sig_in[0].state * dy
base = pym.Signal('z', np.array([1 + 2j, 3 - 1j, -2 + 0.5j, 0.5 + 0.25j]))
sl = base[np.array([0, 2])]
m = Sq([sl], pym.Signal('y'))
rec = []
pym.finite_difference(m, dx=2.0**-20, test_fn=lambda x0, dx, an, fd: rec.append((an, fd)), verbose=False)
assert len(rec) == 4
for an, fd in rec:
    assert abs(an - fd) < 1e-4, rec
assert np.array_equal(base.state, np.array([1 + 2j, 3 - 1j, -2 + 0.5j, 0.5 + 0.25j]))
print("ok")
