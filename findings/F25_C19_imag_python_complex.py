# C19: complex inputs are perturbed in the imaginary direction too, for scalar signals as well.
# The real-direction branch reads the stored sensitivity with `except (IndexError, TypeError)`, the imaginary-direction
# branch only with `except IndexError`: a complex Python-scalar input whose module returns a Python complex
# sensitivity makes the routine raise TypeError ('complex' object is not subscriptable).
# Smallest patch (pymoto/routines.py, imaginary branch):   except (IndexError, TypeError):
import io, contextlib
import pymoto as pym
class Sq(pym.Module):
    def _response(self, x): return x * x
    def _sensitivity(self, dy): return complex(2 * self.sig_in[0].state * dy)
x = pym.Signal('x', 2 + 1j)
rec = []
with contextlib.redirect_stdout(io.StringIO()):
    pym.finite_difference(Sq([x], pym.Signal('y')), dx=0.25, random=False,
                          test_fn=lambda x0, dx, an, fd: rec.append((an, fd)))
assert len(rec) == 2, rec
assert rec[0] == (2.0, 2.25) and rec[1] == (6.0, 6.25), rec
print("ok")
