# C14: the print direction may be a string such as '-y' or 'x-'.
import numpy as np, pymoto as pym
d = pym.DomainDefinition(3, 4)
for s, exp in (('-y', [0, -1, 0]), ('y-', [0, -1, 0]), ('x-', [-1, 0, 0]), ('+x', [1, 0, 0]), ('y', [0, 1, 0])):
    m = pym.OverhangFilter([pym.Signal('x', np.ones(d.nel))], pym.Signal('y'), d, direction=s)
    assert np.array_equal(m.direction, np.array(exp, dtype=float)), (s, m.direction)
print("ok")
