# C15: zeroing rows/columns of a DyadCarrier behaves like the dense matrix.
# Fails on the current tree: `D[:, :] = 0` is silently ignored (DyadCarrier.__setitem__ only touches an axis whose
# subscript is NOT the null slice, so with two null slices nothing is set), the dense matrix becomes all zero.
# Smallest patch (pymoto/common/dyadcarrier.py, __setitem__), before the loop:
#  +        if isnullslice(subscript[0]) and isnullslice(subscript[1]):
#  +            self.u, self.v = [], []   # everything is set to zero
#  +            return
import numpy as np
from pymoto import DyadCarrier

D = DyadCarrier([np.array([1., 2., 3.])], [np.array([1., -1.])])
A = D.todense()
D[:, :] = 0
A[:, :] = 0
assert np.array_equal(D.todense(), A), f"D[:, :] = 0 left {D.todense().tolist()}"
print("ok")
