"""C07 — LinSolve / SystemOfEquations / StaticCondensation return a silently WRONG answer for an integer-typed dense
non-symmetric matrix that reaches SolverDenseLU in Fortran (column-major) memory order.

pymoto/solvers/dense.py, SolverDenseLU.update hands the matrix straight to
    self.p, self.l, self.u = spla.lu(A)
and scipy.linalg.lu (scipy 1.18.1 of this environment) returns factors with P L U != A when A has an INTEGER dtype and is
Fortran-ordered (float / complex input, C-ordered integer input, lu(..., permute_l=True) and lu_factor are all fine).
No exception, no warning: x is simply wrong (relative residual O(1)).

How such a matrix arises without the user doing anything unusual:
  * SystemOfEquations and StaticCondensation build the free block with `A[self.f, :][:, self.f]`; numpy returns the second
    fancy index as a Fortran-ordered array, so EVERY integer-typed dense non-symmetric A is affected there
    (symmetric blocks go to Cholesky / LDL, diagonal ones to SolverDiagonal, which are fine);
  * LinSolve directly: `np.asfortranarray(A)`, `A.T` of a C-ordered array, or any block sliced as above.

Smallest patch (pyMOTO side): factorise in floating point,
    self.p, self.l, self.u = spla.lu(np.asarray(A, dtype=np.result_type(A.dtype, float)))       (SolverDenseLU.update)

Run:  PYTHONPATH=/repo /venv/bin/python -W ignore findings/NEW_C07_dense_lu_integer_fortran_order.py   (fails on the current tree)
"""
import numpy as np
import pymoto as pym

A = np.array([[6, 1, 0, -2], [2, -7, 1, 0], [0, 3, 8, 1], [1, 0, -2, 5]])      # integer dtype, non-symmetric, non-singular

# LinSolve on the Fortran-ordered matrix
b = np.array([1., 2., 3., 4.])
m = pym.LinSolve([pym.Signal('A', np.asfortranarray(A)), pym.Signal('b', b)])
m.response()
x = m.sig_out[0].state
assert np.allclose(A @ x, b), f'LinSolve: A x != b for an integer Fortran-ordered matrix, residual {np.linalg.norm(A @ x - b):.3f}'

# StaticCondensation on the plain (C-ordered) integer matrix: the free block it slices is Fortran-ordered
main, free = np.array([0, 3]), np.array([1, 2])
m = pym.StaticCondensation([pym.Signal('A', A)], main=main, free=free)
m.response()
S = A[np.ix_(main, main)] - A[np.ix_(main, free)] @ np.linalg.solve(A[np.ix_(free, free)].astype(float), A[np.ix_(free, main)].astype(float))
assert np.allclose(m.sig_out[0].state, S), f'StaticCondensation is not the Schur complement:\n{m.sig_out[0].state}\nexpected\n{S}'

# SystemOfEquations on the plain integer matrix
f, p = np.array([1, 2, 3]), np.array([0])
m = pym.SystemOfEquations([pym.Signal('A', A), pym.Signal('bf', np.array([1., 2., 3.])), pym.Signal('xp', np.array([1.]))], free=f, prescribed=p)
m.response()
x, bb = [s.state for s in m.sig_out]
assert np.allclose(A @ x, bb) and np.allclose(bb[f], [1., 2., 3.]), 'SystemOfEquations: A x != b'
print('ok')
