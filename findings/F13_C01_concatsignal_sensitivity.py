# C01: ConcatSignal.sensitivity() completes and returns the adjoint for scalar and matrix inputs.
import numpy as np, pymoto as pym
s1, s2, s3 = pym.Signal('a', np.array([1., 2., 3.])), pym.Signal('b', 0.75), pym.Signal('c', np.array([[1., 2.], [3., 4.]]))
so = pym.Signal('y')
m = pym.ConcatSignal([s1, s2, s3], so); m.response()
assert np.array_equal(so.state, [1, 2, 3, 0.75, 1, 2, 3, 4])
so.sensitivity = np.arange(8.)
m.sensitivity()
assert np.array_equal(s1.sensitivity, [0, 1, 2]) and s2.sensitivity == 3.0 and type(s2.sensitivity) is float
assert np.array_equal(s3.sensitivity, [[4, 5], [6, 7]])
print("ok")
