# C17: "every design produced by minimize_oc ... has total volume equal to the prescribed maximum volume to bisection
# tolerance whenever that volume is reachable within the move limits".
# minimize_oc searches the Lagrange multiplier by bisection in the FIXED interval [l1init, l2init] (default [0, 1e5]).
# When the sensitivities are large (-df/dx * x^2 / x_lower^2 > l2init) the multiplier that meets the volume lies above l2init;
# the bisection then silently returns the update at ~l2init and the volume constraint is violated, although the target volume
# is reachable within the move limits.  Multiplying the objective by a constant does not change the optimisation problem,
# but changes the result:
import numpy as np, pymoto as pym


class Obj(pym.Module):
    def _prepare(self, c):
        self.c = c

    def _response(self, x):
        self.x = x
        return float(np.sum(self.c / x))

    def _sensitivity(self, df):
        return -self.c / self.x ** 2 * df


def run(scale):
    x = pym.Signal('x', state=np.array([0.5, 0.5, 0.5]))
    f = pym.Signal('f')
    net = pym.Network(Obj(x, f, scale * np.array([1., 4., 9.])))
    pym.minimize_oc(net, [x], f, verbosity=0, maxit=30, xmin=0.01)      # maxvol defaults to the initial volume 1.5
    return x.state


x1 = run(1.0)
assert abs(x1.sum() - 1.5) < 1e-3, x1                                   # fine: (0.25, 0.5, 0.75)
x2 = run(1e4)
assert abs(x2.sum() - 1.5) < 1e-3, f"objective scaled by 1e4: volume {x2.sum()} instead of 1.5, design {x2}"
print("ok")
# Smallest patch (pymoto/routines.py, before the bisection loop): enlarge the upper multiplier until the update at l2 meets the
# volume or has reached its lower bounds everywhere, e.g.
#     lower, upper = np.maximum(xmin, xval-move), np.minimum(xmax, xval+move)
#     l1, l2 = l1init, l2init
#     while np.sum(np.clip(xval*np.sqrt(-dfdx/l2), lower, upper)) > maxvol and np.any(xval*np.sqrt(-dfdx/l2) > lower) and l2 < 1e300:
#         l2 *= 10
