# C06: solve(b, x0=...) with a real initial guess after a complex solution was stored must not fail
# (a fresh wrapper serves it; the inner direct solvers ignore x0).
# `x0_loc[isel, ...] -= x[:, None] * beta` (solvers.py:207) is an in-place update of a copy of x0 that keeps
# x0's dtype: real x0 with complex stored x -> UFuncTypeError (likewise an integer x0 with any stored x).
# Smallest patch: `x0_loc = x0_loc.astype(np.result_type(dtype, x0_loc, *x_data))` before the loop.
import numpy as np
from pymoto.solvers import LDAWrapper, SolverDenseLU
A = np.array([[4., 1., 2.], [1., 3., 1.], [3., 1., 5.]])
s = LDAWrapper(SolverDenseLU(), A=A)
b1 = np.array([1 + 2j, 2 - 1j, 3 + 0j])
assert np.allclose(A @ s.solve(b1), b1)
b2 = np.array([1. + 1j, 0., 2.])
x2 = s.solve(b2, x0=np.array([1., 2., 3.]))   # UFuncTypeError on the current tree
assert np.allclose(A @ x2, b2)
print("ok")
