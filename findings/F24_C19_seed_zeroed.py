# C19: the numerical value must be the seed-weighted difference quotient, a correct module must be reported with a
# matching pair, and arrays passed as use_df must not be written.
# finite_difference installs the seed array ITSELF as the output's sensitivity (Sout.sensitivity = df_an[Iout]);
# when the output Signal keeps its allocation (it was constructed with a sensitivity), blk.reset() zeroes that array in
# place: every later sum(df * df_an) is 0 and the caller's use_df array is overwritten with zeros.
# Smallest patch (pymoto/routines.py, analytical loop):   Sout.sensitivity = copy.deepcopy(df_an[Iout])
import io, contextlib
import numpy as np, pymoto as pym
class Lin(pym.Module):
    def _response(self, x): return np.array([[2., 1.], [0., 3.]]) @ x
    def _sensitivity(self, dy): return np.array([[2., 1.], [0., 3.]]).T @ dy
x = pym.Signal('x', np.array([1., 2.]))
y = pym.Signal('y', sensitivity=np.zeros(2))          # keep_alloc = True
seed = [np.array([1., 1.])]
rec = []
with contextlib.redirect_stdout(io.StringIO()):
    pym.finite_difference(Lin([x], [y]), dx=0.25, use_df=seed, test_fn=lambda x0, dx, an, fd: rec.append((an, fd)))
assert np.array_equal(seed[0], [1., 1.]), ("use_df array was modified", seed)
for an, fd in rec:
    assert an == fd, ("correct module reported with a non-matching pair", rec)
print("ok")
