# C06: a real right-hand side after a complex one (real matrix) must not fail: a fresh wrapper serves it.
# The Gram-Schmidt loop skips the complex stored vector (warning + continue), the inner solver is called,
# and the new real solution is orthogonalised in place against the complex stored vectors:
# `badd -= beta * b` (solvers.py:226) raises UFuncTypeError (complex result into a float64 array).
# Smallest patch that also keeps the reuse clause for real right-hand sides: work in the dtype of the database,
#   dtype = np.result_type(A, rhs, *b_data)      # rhs_loc / sol / xnew become complex when the database is
# and return `sol.real` at the end when neither A nor rhs is complex (the two warning branches become dead code);
# the bare minimum against the exception alone is `xadd = xnew[isel, i].astype(np.result_type(xnew, *x_data))`
# (same for badd), but then a repeated real rhs is never answered from the database.
import numpy as np, warnings
from pymoto.solvers import LDAWrapper, SolverDenseLU
A = np.array([[4., 1., 2.], [1., 3., 1.], [3., 1., 5.]])
s = LDAWrapper(SolverDenseLU(), A=A)
b1 = np.array([1 + 2j, 2 - 1j, 3 + 0j])
assert np.allclose(A @ s.solve(b1), b1)
b2 = np.array([1., 0., 2.])
with warnings.catch_warnings():
    warnings.simplefilter('ignore')
    x2 = s.solve(b2)          # UFuncTypeError on the current tree
assert np.allclose(A @ x2, b2)
print("ok")
