# C05: "auto_determine_solver returns, for any non-singular square matrix, a solver for which [A x = b] holds."
# matrix_is_diagonal / matrix_is_symmetric / matrix_is_hermitian compare with np.allclose(., 0) resp. np.allclose(A, A.T),
# i.e. with the ABSOLUTE tolerance 1e-8: a well-conditioned matrix whose entries are all below 1e-8 in magnitude (a
# matter of physical units) is classified as diagonal (and symmetric), auto_determine_solver returns SolverDiagonal and
# the off-diagonal entries are ignored.  The same matrix scaled by 1e9 is solved correctly.
# Repair would change the tolerance semantics of all matrix predicates (relative to the matrix magnitude): recorded as a
# known finding rather than patched.
import numpy as np, scipy.sparse as sps
import pymoto as pym
A0 = np.array([[4., 1, 0], [2, 5, 2], [0, 3, 6]])
b0 = np.array([1., 2, 3])
for make in (np.asarray, sps.csc_matrix):
    for scale in (1.0, 1e-9):
        A = make(A0 * scale)
        s = pym.solvers.auto_determine_solver(A)
        s.update(A)
        x = s.solve(b0 * scale)
        r = np.linalg.norm(A0 @ x - b0) / np.linalg.norm(b0)
        assert r < 1e-8, (make.__name__, scale, type(s).__name__, r)
print('OK')
