# C05: solve(b) returns x with A x = b for one or many right-hand sides, including linearly dependent ones.
# The zero vector is the simplest dependent right-hand side.  CG.solve measures the residual relative to |b| per column:
# for b = 0 (or a block with an all-zero column) that is 0/0 = nan, the convergence tests fail and nan is returned.
# Smallest patch: use 1 instead of |b| for zero columns (absolute residual).
import warnings
import numpy as np, scipy.sparse as sps
import pymoto as pym
warnings.simplefilter('ignore')
A = sps.csc_matrix(np.array([[4., 1, 0], [1, 5, 2], [0, 2, 6]]))
S = pym.solvers
for pre in (S.DampedJacobi(), S.SOR(), S.ILU()):
    x = S.CG(A, preconditioner=pre).solve(np.zeros(3))
    assert np.array_equal(x, np.zeros(3)), (type(pre).__name__, x)
    B = np.array([[1., 0, 2], [2., 0, 4], [3., 0, -1]])          # zero column, and a column pair without dependency
    X = S.CG(A, preconditioner=pre).solve(B)
    assert np.allclose(A @ X, B, atol=1e-4), (type(pre).__name__, X)
    x = S.CG(A, preconditioner=pre).solve(np.zeros(3), x0=np.ones(3))
    assert np.allclose(x, 0, atol=1e-4), (type(pre).__name__, x)
print('OK')
