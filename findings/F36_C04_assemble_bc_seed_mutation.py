# C04 (anchor "AssembleGeneral bc masking", pymoto/modules/assembly.py AssembleGeneral._sensitivity):
# sensitivity() must treat the seed (the sensitivity stored on the OUTPUT signal, handed over by reference) as
# read-only.  With boundary conditions (bc=...) the module executes `dgdmat[self.bc, :] = 0.0; dgdmat[:, self.bc] = 0.0`
# on the seed itself: a dense seed array the caller still holds loses its bc rows/columns, a DyadCarrier seed gets the
# bc entries of its vectors zeroed.  Consequences: (a) the caller's array is silently changed (the total derivative
# dg/dK read from the matrix signal after backpropagation is wrong in the bc rows/columns); (b) a seed array that is
# reused for a second module (what finite_difference-like tools and multi-load-case scripts do) gives a wrong
# sensitivity there.
# Smallest patch: mask a copy --  `dgdmat = dgdmat.copy()` (ndarray and DyadCarrier both have copy()) before the two
# assignments, or skip the bc dofs while contracting.
import numpy as np
import pymoto as pym

rng = np.random.default_rng(0)
d = pym.DomainDefinition(3, 2)
bc = np.array([0, 1, 5])
x = rng.random(d.nel) + 0.2

sx, sK = pym.Signal('x', x.copy()), pym.Signal('K')
m = pym.AssembleStiffness([sx], [sK], d, bc=bc)
m.response()
n = sK.state.shape[0]

# (1) dense seed held by the caller
W = rng.standard_normal((n, n))
W0 = W.copy()
sK.sensitivity = W
m.sensitivity()
g_bc = sx.sensitivity.copy()
m.reset()

# (2) the same seed array reused for a module WITHOUT boundary conditions (e.g. the mass matrix of the same mesh)
sx2, sM = pym.Signal('x', x.copy()), pym.Signal('M')
m2 = pym.AssembleMass([sx2], [sM], d, ndof=2)
m2.response()
sM.sensitivity = W
m2.sensitivity()
g_reused = sx2.sensitivity.copy()
m2.reset()
sM.sensitivity = W0.copy()
m2.sensitivity()
g_fresh = sx2.sensitivity.copy()

# (3) DyadCarrier seed held by the caller
a, b = rng.standard_normal(n), rng.standard_normal(n)
D = pym.DyadCarrier(a, b)
D0 = D.todense().copy()
sK.sensitivity = D
m.sensitivity()

assert np.allclose(g_reused, g_fresh), "a seed array reused after AssembleStiffness(bc=...).sensitivity() gives another sensitivity"
assert np.array_equal(W, W0), "AssembleGeneral._sensitivity modified the dense seed in place (bc rows/columns zeroed)"
assert np.array_equal(D.todense(), D0), "AssembleGeneral._sensitivity modified the DyadCarrier seed in place"
print("ok")
