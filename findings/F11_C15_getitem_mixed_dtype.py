# C15: slicing / paired-index access of a DyadCarrier behaves like the dense matrix.
# Fails on the current tree (DyadCarrier.__getitem__, uni-slice / paired-array branch):
#   (a) `res = 0; res += ui*vi` accumulates IN PLACE into the array created by the first dyad, so a carrier whose first
#       dyad is real and a later dyad complex raises UFuncTypeError (cannot cast complex128 -> float64);
#   (b) with zero dyads the integer 0 is returned instead of an array of zeros of the slice's shape.
# Smallest patch (pymoto/common/dyadcarrier.py, __getitem__):
#       if is_uni_slice or is_np_slice:
#  -        res = 0
#  +        res = np.zeros(np.broadcast(usample, vsample).shape, dtype=self.dtype)
#           for (ui, vi) in zip(usub, vsub):
#  -            res += ui*vi
#  +            res = res + ui*vi
#           return res
import numpy as np
from pymoto import DyadCarrier

u1, v1 = np.array([1., 2., 3.]), np.array([1., -1.])
u2, v2 = np.array([1j, 2., 0.]), np.array([2., 5.])
D = DyadCarrier([u1, u2], [v1, v2])          # first dyad real, second complex
A = D.todense()
assert np.array_equal(D[0, 1], A[0, 1])      # element access works (numpy scalars are not added in place)
for sub in [(0, slice(None)), (slice(None), 1), (np.array([0, 1]), np.array([1, 0])), (slice(0, 2), 0)]:
    try:
        got = D[sub]
    except TypeError as e:                   # UFuncTypeError is a TypeError
        raise AssertionError(f"D[{sub}] raised {type(e).__name__}: {e}")
    assert np.array_equal(got, A[sub])

D0 = DyadCarrier(shape=(3, 2))               # no dyads
got = D0[0, :]
assert np.shape(got) == (2,), f"zero-dyad slice returned {got!r} instead of zeros(2)"
print("ok")
