"""C07 — SystemOfEquations returns a load vector b with A x != b on the prescribed rows when A is not symmetric.

pymoto/modules/linalg.py, SystemOfEquations._response computes the reaction rows as
    b[self.p, ...] = self.Afp.T * xf + self.App * xp
i.e. with the TRANSPOSE of the free/prescribed block instead of the prescribed/free block A[p, :][:, f].
For symmetric A the two coincide; for any other matrix the returned (x, b) does not satisfy A x = b.
(_sensitivity has the mirror-image use of self.Afp.T and needs the same change.)

Smallest patch:  in _response store  self.Apf = A[self.p, :][:, self.f]  and use
    b[self.p, ...] = self.Apf * xf + self.App * xp
(and in _sensitivity: adjoint_load += self.Apf.T * dgdb[self.p, ...];  dgdup += self.Afp.T * lam[self.f, ...] stays).

Run:  PYTHONPATH=/repo /venv/bin/python findings/NEW_C07_soe_nonsymmetric.py     (fails on the current tree)
"""
import numpy as np
import scipy.sparse as sps
import pymoto as pym

A = sps.csc_matrix(np.array([[2., 1, 0], [3, 4, 1], [0, 5, 6]]))     # not symmetric, non-singular
f, p = np.array([0, 1]), np.array([2])
m = pym.SystemOfEquations([pym.Signal('A', A), pym.Signal('bf', np.array([1., 2.])), pym.Signal('xp', np.array([1.]))],
                          free=f, prescribed=p)
m.response()
x, b = [s.state for s in m.sig_out]
print('x =', x, ' b =', b, ' A x =', A @ x)
assert np.allclose(x[p], [1.0]), 'prescribed values'
assert np.allclose(b[f], [1.0, 2.0]), 'applied loads'
assert np.allclose((A @ x)[f], b[f]), 'free rows'
assert np.allclose(A @ x, b), f'A x = b violated on the prescribed rows: (A x)[p] = {(A @ x)[p]}, b[p] = {b[p]}'
print('ok')
