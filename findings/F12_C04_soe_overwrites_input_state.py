# C04: response() never changes the state of its inputs.
# SystemOfEquations and StaticCondensation wired their internal LinSolve to the user's matrix signal and then
# assigned the free-free sub-block to it, so after response() the input signal A held A[f, f].
import numpy as np, scipy.sparse as sps, pymoto as pym
rng = np.random.default_rng(0)
M = rng.standard_normal((5, 5)); K = sps.csc_matrix(M @ M.T + 5 * np.eye(5))
free, pre = np.array([0, 2, 3]), np.array([1, 4])
sA, sb, sx = pym.Signal('A', K.copy()), pym.Signal('bf', rng.standard_normal(3)), pym.Signal('xp', rng.standard_normal(2))
m = pym.SystemOfEquations([sA, sb, sx], [pym.Signal('x'), pym.Signal('b')], free=free, prescribed=pre)
m.response()
assert sA.state.shape == (5, 5) and np.array_equal(sA.state.toarray(), K.toarray()), f"input A now has shape {sA.state.shape}"
m.response()  # a second evaluation must work as well
sA = pym.Signal('A', K.copy())
m = pym.StaticCondensation([sA], [pym.Signal('Ared')], main=np.array([0, 1]), free=np.array([2, 3, 4]))
m.response()
assert sA.state.shape == (5, 5) and np.array_equal(sA.state.toarray(), K.toarray()), f"input A now has shape {sA.state.shape}"
print("ok")
