"""C07 — LinSolve (default solver stack) raises, or answers in int64, for an INTEGER-typed matrix with an integer / bool
right-hand side; SystemOfEquations inherits it when A, bf and xp are all integer-typed.

pymoto/solvers/solvers.py, LDAWrapper._do_solve_1rhs allocates its work arrays with
    dtype = np.result_type(A, rhs)
which is int64 for an integer matrix and an integer (or bool) right-hand side.  Then
  * `sol[idia, ...] = rhs_loc[idia, ...] / A.diagonal()[idia, None]` truncates the quotients of decoupled dofs,
  * `sol[...] += xnew[...]` raises numpy's _UFuncOutputCastingError (float64 -> int64), which Module.response() re-raises
    as a TypeError with a garbled message ("__init__() missing 4 required positional arguments"),
  * only when every entry of the solution happens to be an integer an int64 answer comes back.
So whether LinSolve answers depends on the VALUES of the data.  A float matrix with the same integer right-hand side,
or the same integer matrix with use_lda_solver = False, is solved correctly (float64), and so is every other
combination of int64 / float64 / complex128 operands.

Smallest patch:   dtype = np.result_type(A, rhs, float)      (LDAWrapper._do_solve_1rhs)

Run:  PYTHONPATH=/repo /venv/bin/python -W ignore findings/NEW_C07_linsolve_integer_matrix_integer_rhs.py   (fails on the current tree)
"""
import numpy as np
import scipy.sparse as sps
import pymoto as pym

A = np.array([[2, 1], [1, 3]])                 # integer dtype, symmetric positive definite
b = np.array([1, 2])                           # integer dtype;  x = [1/5, 3/5]
for name, mat in (('dense', A), ('csc', sps.csc_matrix(A))):
    m = pym.LinSolve([pym.Signal('A', mat), pym.Signal('b', b)])
    try:
        m.response()
    except Exception as e:
        raise AssertionError(f'LinSolve raises {type(e).__name__} for an integer {name} matrix with integer rhs') from e
    x = m.sig_out[0].state
    assert np.allclose(A @ x, b), (name, x)

# SystemOfEquations with integer matrix, loads and prescribed values
A3 = np.array([[4, 1, 0], [1, 5, 2], [0, 2, 6]])
m = pym.SystemOfEquations([pym.Signal('A', A3), pym.Signal('bf', np.array([1, 2])), pym.Signal('xp', np.array([3]))],
                          free=np.array([0, 1]), prescribed=np.array([2]))
try:
    m.response()
except Exception as e:
    raise AssertionError(f'SystemOfEquations raises {type(e).__name__} for integer A, bf, xp') from e
x, bb = [s.state for s in m.sig_out]
assert np.allclose(A3 @ x, bb)
print('ok')
