# C10 (new, not fixed): pymoto.common.mma.subsolv gives up silently.
# The inner Newton loop of every epsi level is limited to maxittt = 400 steps ("while residumax > 0.9*epsi and ittt < maxittt");
# when the limit is hit the function only prints "MMA Subsolver: itt = 400, at epsi = ...", lowers epsi and finally RETURNS a point
# whose KKT residual is orders of magnitude above the requested accuracy 0.9*epsi_last (epsi_last <= 10*epsimin).
# MMA.mmasub uses that point as the next design without any check.  On random convex problems this happens in ~5 % of all
# subproblems and almost exclusively when no constraint is active at the subproblem optimum (lam -> 0): the undamped Newton
# direction is correct (checked against a numerical Jacobian) but, with asymptotes close to x, a full step increases the residual
# norm, the backtracking line search accepts only steps ~2^-7 .. 2^-10 and 400 of them are not enough.
# Witness: ONE design variable, three inactive constraints (recorded from a minimize_mma run; corpus/C10/witness_subsolv_gives_up.json).
# No small patch: the reference algorithm (Svanberg's subsolv.m: Newton + residual-norm backtracking, 200 steps) behaves the same;
# a repair needs a better globalisation of the Newton iteration (or at least raising / returning a flag instead of printing).
# Run: PYTHONPATH=/repo /venv/bin/python findings/NEW_C10_subsolv_gives_up.py   (fails on the current tree)
import io, contextlib
import numpy as np
from pymoto.common.mma import subsolv, residual

low, upp = np.array([1.7799834701014396]), np.array([1.8305634701014397])
alfa, beta = np.array([1.7825124701014396]), np.array([1.8280344701014397])
P = np.array([[5.28244469995503e-09], [0.002160975475039313], [6.440318523e-07], [0.00038989875261689997]])
Q = np.array([[2.758727144654985e-06], [2.161343131907406e-06], [0.0006421468841522999], [3.920357169e-07]])
a0, a, b = 1.0, np.zeros(3), np.array([0.44858547881057864, 1.022027124251744, 1.1718835739282232])
c, d = np.full(3, 1000.0), np.ones(3)
epsimin = 6e-09
x0 = np.array([1.8052734701014397])
assert np.all(low < alfa) and np.all(alfa < x0) and np.all(x0 < beta) and np.all(beta < upp) and np.all(P >= 0) and np.all(Q >= 0)

buf = io.StringIO()
with contextlib.redirect_stdout(buf):
    x, y, z, lam, xsi, eta, mu, zet, s = subsolv(epsimin, low, upp, alfa, beta, P, Q, a0, a, b, c, d, x0=x0)
print(buf.getvalue().strip())
# last epsi used by the loop "epsi = 1; while epsi > epsimin: ...; epsi /= 10"
epsi = 1.0
while epsi > epsimin:
    epsi_last = epsi
    epsi /= 10
assert epsimin < epsi_last <= 10 * epsimin
res = residual(x, y, z, lam, xsi, eta, mu, zet, s, upp, low, P[0], P[1:], Q[0], Q[1:], epsi_last, a0, a, b, c, d, alfa, beta)
print('max |KKT residual| at the returned point: %.3e   requested: <= %.3e' % (np.abs(res).max(), 0.9 * epsi_last))
assert np.all(alfa < x) and np.all(x < beta)          # the returned point is interior (this part of C10 holds)
assert np.abs(res).max() <= 0.9 * epsi_last, 'subsolv returned a point that does not satisfy the optimality conditions to the requested accuracy'
print('ok')
