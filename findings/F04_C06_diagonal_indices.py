# C06/C07: a dof whose column is decoupled but whose row is not must not be solved by division.
import numpy as np, pymoto as pym
from pymoto.solvers import LDAWrapper, SolverDenseLU
A = np.array([[1., 2.], [0., 3.]]); b = np.array([1., 1.])
x = LDAWrapper(SolverDenseLU(), A=A).solve(b)
assert np.allclose(A @ x, b), (x, A @ x)
sA, sb, sx = pym.Signal('A', A), pym.Signal('b', b), pym.Signal('x')
pym.LinSolve([sA, sb], sx).response()
assert np.allclose(A @ sx.state, b), sx.state
print("ok")
