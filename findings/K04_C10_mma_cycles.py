# C10 (new, not fixed): minimize_mma does not converge on a convex problem when the asymptote offset is clamped from below.
# Problem: 6 variables in two signals (array of 5 + scalar), separable strictly convex objective
#   f0 = sum_j q_j (x_j - t_j)^2 + c_j / x_j + w_j x_j,   one separable convex quadratic constraint (active at the optimum),
# x* known from the KKT construction.  With asybound = 3.891 the offset of every variable is driven to its lower clamp
# 1/asybound^2 = 0.066 and stays there; from iteration ~10 on the iterates alternate between two points (x_0: 1.840 <-> 1.931,
# x_5: 2.354 <-> 2.458) for ever, the constraint is violated at both (g1 = 0.0033 / 0.0138), the distance to x* alternates between
# 1.2e-2 and 5.0e-2 of the box width.  MMA here has no globalisation (no GCMMA inner loop / conservative check): once asydecr can
# no longer shrink the asymptotes nothing damps the oscillation.  With the default asybound = 10 (clamp 0.01) the same happens at
# a smaller amplitude.  No small patch (needs a conservative-approximation safeguard or a smaller lower clamp).
# Run: PYTHONPATH=/repo /venv/bin/python findings/NEW_C10_mma_cycles.py   (fails on the current tree)
import io, contextlib
import numpy as np
import pymoto as pym

q0 = np.array([1.983, 1.399, 1.763, 0.645, 0.47, 1.765]); t0 = np.array([3.656, 0.492, 0.277, 2.76, 2.364, 2.75])
c0 = np.array([0.472, 0.99, 1.36, 0.0, 1.069, 0.948])
w0 = np.array([7.289714774766934, -2.938572429519986, -6.27535373106578, -2.2369267200000005, -2.4151652701048656, 1.4885121776593513])
q1 = np.array([1.996, 0.613, 1.455, 0.37, 0.214, 0.0]); t1 = np.array([1.855, 1.856, 2.627, 1.989, 1.302, 1.887]); k1 = -0.7933933457946236
xstar = np.array([1.8539759999999998, 1.733264, 2.390304, 2.783, 2.783, 2.3758999999999997])
xmin, xmax = np.array([1.255] * 5 + [1.013]), np.full(6, 2.783)


def f0(x): return np.sum(q0 * (x - t0) ** 2 + c0 / x + w0 * x) + 2.367
def g0(x): return 2 * q0 * (x - t0) - c0 / x ** 2 + w0
def f1(x): return np.sum(q1 * (x - t1) ** 2) + k1
def g1(x): return 2 * q1 * (x - t1)


# x* is the optimum: feasible, constraint active, stationarity with a multiplier lam >= 0 and bound multipliers of the right sign
lam = -g0(xstar)[0] / g1(xstar)[0]
r = g0(xstar) + lam * g1(xstar)
assert lam > 0 and abs(f1(xstar)) < 1e-12
assert all((abs(r[j]) < 1e-9) or (xstar[j] == xmax[j] and r[j] < 0) or (xstar[j] == xmin[j] and r[j] > 0) for j in range(6))


class Resp(pym.Module):
    def _prepare(self, f, g):
        self.f, self.g = f, g

    def _response(self, a, b):
        self.x = np.append(a, b)
        return self.f(self.x)

    def _sensitivity(self, df):
        gr = self.g(self.x) * df
        return gr[:5], float(gr[5])


sa = pym.Signal('a', state=np.array([2.4850399999999997, 1.7531279999999998, 2.058728, 1.69048, 2.783]))
sb = pym.Signal('b', state=2.783)
r0, r1 = pym.Signal('f0'), pym.Signal('f1')
net = pym.Network(Resp([sa, sb], r0, f0, g0), Resp([sa, sb], r1, f1, g1))
hist = []
with contextlib.redirect_stdout(io.StringIO()):
    pym.minimize_mma(net, [sa, sb], [r0, r1], xmin=[1.255, 1.013], xmax=2.783, move=0.141, maxit=200, tolx=0.0, tolf=0.0, verbosity=0,
                     mmaversion='Svanberg1987', asyinit=0.251, asyincr=1.21, asydecr=0.627, asybound=3.891, albefa=0.107, epsimin=1e-07,
                     fn_callback=lambda: hist.append(np.append(sa.state, sb.state)))
x = np.append(sa.state, sb.state)
dist = np.abs(np.array(hist) - xstar).max(axis=1) / (xmax - xmin).max()
print('distance to the optimum (relative to the box) at iterations 150..159:', np.round(dist[150:160], 4))
print('constraint value at the last two iterates:', f1(hist[-2]), f1(hist[-1]))
assert f1(x) <= 1e-6, 'constraint still violated after 200 iterations'
assert np.abs(x - xstar).max() <= 1e-3, 'iterates do not approach the known optimum'
print('ok')
