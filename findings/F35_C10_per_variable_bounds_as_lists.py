# C10 (new, not fixed): minimize_mma raises TypeError when xmin AND xmax are given per design variable as Python lists / tuples.
# The docstring says "xmin: Minimum design variable (can be a vector)".  MMA.response expands a scalar bound
# (xmin * np.ones_like(xval)) and a sequence with one entry per variable SIGNAL (np.zeros_like(xval) filled range by range) into
# numpy arrays, but a sequence with one entry per design VARIABLE is kept as the object the user handed over.  With two Python
# lists (or tuples) MMA.mmasub then evaluates  self.dx = self.xmax - self.xmin  on two lists:
#     TypeError: unsupported operand type(s) for -: 'list' and 'list'
# The same lists work as soon as one of the two is a numpy array, and per-SIGNAL lists work, so the spelling is accepted or
# rejected depending on an implementation detail.  (When the number of signals equals the number of variables the lists are
# expanded per signal and everything works.)
# Smallest patch (pymoto/common/mma.py, MMA.response, after the three expansion blocks):
#     self.xmin = np.asarray(self.xmin, dtype=float); self.xmax = np.asarray(self.xmax, dtype=float)
#     (and self.move = np.asarray(self.move, dtype=float) when it is a sequence)
# Run: PYTHONPATH=/repo /venv/bin/python findings/NEW_C10_per_variable_bounds_as_lists.py   (fails on the current tree)
import numpy as np
import pymoto as pym


class Quad(pym.Module):
    def _response(self, a, b):
        self.a, self.b = np.array(a, dtype=float), float(b)
        return np.sum((self.a - 0.2) ** 2) + (self.b - 1.2) ** 2

    def _sensitivity(self, df):
        return df * 2 * (self.a - 0.2), float(df * 2 * (self.b - 1.2))


class Mean(pym.Module):
    def _response(self, a, b):
        self.na = np.size(a)
        return (np.sum(a) + b) / 4 - 10.0

    def _sensitivity(self, dg):
        return dg * np.ones(self.na) / 4, float(dg / 4)


def run(xmin, xmax):
    a, b = pym.Signal('a', np.array([2.0, 2.0, 2.0])), pym.Signal('b', 3.0)
    f, g = pym.Signal('f'), pym.Signal('g')
    net = pym.Network([Quad([a, b], f), Mean([a, b], g)])
    pym.minimize_mma(net, [a, b], [f, g], xmin=xmin, xmax=xmax, move=0.1, maxit=5, verbosity=0)
    return np.append(a.state, b.state)


lo, hi = [0.5, 0.5, 0.5, 1.5], [4.5, 4.5, 4.5, 5.5]            # one entry per design variable (4 variables in 2 signals)
ref = run(np.array(lo), np.array(hi))                             # numpy arrays: works
assert np.array_equal(run(lo, np.array(hi)), ref)                 # one list, one array: works
assert np.array_equal(run([0.5, 1.5], [4.5, 5.5]), ref)           # per-SIGNAL lists: work
try:
    got = run(lo, hi)                                             # two per-variable lists
except TypeError as e:
    raise AssertionError(f'minimize_mma raised {e!r} for per-variable bounds given as two Python lists')
assert np.array_equal(got, ref)
print('OK')
