# C01: the sensitivity of every module is the adjoint of its response, for real and complex data.
# StaticCondensation._sensitivity allocates C = np.zeros((n, m), dtype=float) and stores -X (complex for a complex
# matrix) into it: the imaginary part of X is discarded (ComplexWarning) and the sensitivity is wrong for every complex
# (symmetric) matrix, e.g. a dynamic stiffness matrix K + i w C - w^2 M.
# Smallest patch: C = np.zeros((self.n, len(self.m)), dtype=self.X.dtype)
import warnings
import numpy as np, pymoto as pym
warnings.simplefilter('ignore')
rng = np.random.default_rng(0)
n = 5
M = rng.standard_normal((n, n)); Ar = M + M.T + 6 * np.eye(n)
M = rng.standard_normal((n, n)); A = Ar + 0.5j * (M + M.T)              # complex symmetric
main, free = np.array([0, 3]), np.array([1, 2, 4])
sA = pym.Signal('A', A.copy())
m = pym.StaticCondensation(sA, pym.Signal('Ared'), main=main, free=free)
m.response()
W = rng.standard_normal((2, 2)) + 1j * rng.standard_normal((2, 2))
m.sig_out[0].sensitivity = W.copy()
m.sensitivity()
G = sA.sensitivity
G = G.todense() if hasattr(G, 'todense') else np.asarray(G)
M = rng.standard_normal((n, n)); V = (M + M.T) + 1j * (lambda Q: Q + Q.T)(rng.standard_normal((n, n)))   # complex symmetric direction
an = np.real(np.sum(G * V))
def f(t):
    sA.state = A + t * V
    m.response()
    return np.real(np.sum(W * m.sig_out[0].state))
h = 1e-5
fd = (f(h) - f(-h)) / (2 * h)
assert abs(an - fd) <= 1e-6 * max(1.0, abs(fd)), (an, fd)
print('ok')
