# OUT OF SCOPE (documentation only): C18 quantifies over basic slices, tuples of slices, integer arrays WITHOUT
# repeats and nested BASIC slices; this input is outside that admissible domain, which C02's "sliced signals"
# inherits.  Not a defect of /repo; kept to document why the C02 theorem has the hypothesis wt_ref (NoDup positions,
# no slice of a copying slice).  The asserts below fail on purpose on the current tree.
# C02: a slice of a slice taken with an integer/boolean array (x[idx1][idx2]) reads the right entries, but its
# add_sensitivity writes into a temporary copy: SignalSlice.sensitivity (setter) does
# `self.base.sensitivity[self.slice] = new_sens`, and `self.base.sensitivity` of an inner copying slice is a fresh
# array (numpy fancy indexing), so the whole contribution is dropped (the base sensitivity stays all zero).
# With inner basic slices (views) it works.
# Smallest patch: in the SignalSlice.sensitivity setter write the modified array back through the base,
#   bs = self.base.sensitivity; bs[self.slice] = new_sens
#   if isinstance(self.base, SignalSlice): self.base.sensitivity = bs
import numpy as np, pymoto as pym
class Id(pym.Module):
    def _response(self, x): return x * 1.0
    def _sensitivity(self, dy): return dy * 1.0
x = pym.Signal('x', np.arange(6.0))
y = pym.Signal('y')
m = Id(x[np.array([1, 2, 3, 4])][np.array([1, 2])], y)
m.response()
assert np.array_equal(y.state, [2.0, 3.0])
y.sensitivity = np.array([1.0, 2.0])
m.sensitivity()
assert np.array_equal(x.sensitivity, [0.0, 0.0, 1.0, 2.0, 0.0, 0.0]), x.sensitivity
print("ok")
