# C06 (reuse clause): a right-hand side lying in the span of right-hand sides already solved for the current
# matrix must be answered without calling the inner solver.  With a REAL matrix, once a complex vector is
# stored, a REAL right-hand side is reconstructed only from stored vectors whose contribution alpha*b is real
# ("LDAS: Complex vector cannot be subtracted from real rhs" -> continue): a repeated real rhs, or a real rhs
# in the complex span of the stored vectors, is sent to the inner solver again (the answer is correct).
# Smallest patch: reconstruct in the dtype of the database (dtype = np.result_type(A, rhs, *b_data)) and
# return sol.real when neither A nor rhs is complex.
import numpy as np, warnings
from pymoto.solvers import LDAWrapper, SolverDenseLU


class Counting(SolverDenseLU):
    ncols = 0

    def solve(self, rhs, x0=None, trans='N'):
        Counting.ncols += 1 if rhs.ndim == 1 else rhs.shape[1]
        return super().solve(rhs, x0=x0, trans=trans)


A = np.array([[4., 1., 2.], [1., 3., 1.], [3., 1., 5.]])
s = LDAWrapper(Counting(), A=A)
warnings.simplefilter('ignore')
b1 = np.array([1 + 2j, 2 - 1j, 3 + 0j])
b2 = np.array([1., 0., 2.])
assert np.allclose(A @ s.solve(b1), b1)
assert np.allclose(A @ s.solve(b2), b2)
n0 = Counting.ncols
x = s.solve(b2)                      # exact repeat of a right-hand side that was solved before
assert np.allclose(A @ x, b2)
assert Counting.ncols == n0, f"repeated real rhs reached the inner solver ({Counting.ncols - n0} column)"
print("ok")
