# OUT OF SCOPE (documentation only): C18 quantifies over basic slices, tuples of slices, integer arrays WITHOUT
# repeats and nested BASIC slices; this input is outside that admissible domain, which C02's "sliced signals"
# inherits.  Not a defect of /repo; kept to document why the C02 theorem has the hypothesis wt_ref (NoDup positions,
# no slice of a copying slice).  The asserts below fail on purpose on the current tree.
# C02: a SignalSlice whose index array repeats a position reads that entry several times (fan-out inside the
# slice), so the contributions arriving through the repeated positions must be summed.  SignalSlice.add_sensitivity
# does `tmp = base.sensitivity[idx]; tmp += ds; base.sensitivity[idx] = tmp`: for a repeated position the last
# assignment wins and the other contributions are lost.
# Smallest patch: in SignalSlice.add_sensitivity replace `self.sensitivity += ds` (ndarray case) by
#   np.add.at(self.base.sensitivity, self.slice, ds)
import numpy as np, pymoto as pym
class Id(pym.Module):
    def _response(self, x): return x * 1.0
    def _sensitivity(self, dy): return dy * 1.0
x = pym.Signal('x', np.array([3.0, 5.0]))
y = pym.Signal('y')
m = Id(x[np.array([0, 0])], y)
m.response()
assert np.array_equal(y.state, [3.0, 3.0])
y.sensitivity = np.array([1.0, 1.0])       # d(y0 + y1)/dx = [2, 0]
m.sensitivity()
assert np.array_equal(x.sensitivity, [2.0, 0.0]), x.sensitivity
print("ok")
