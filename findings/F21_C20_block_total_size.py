# C20 (new, not fixed): write_to_vti sorts a block vector into cell/point data by its TOTAL size
# (`vec.size % self.nel == 0` first).  A block of two nodal 2-D vector fields on the 2 x 2 grid has shape (2, 18):
# no axis is a multiple of nel = 4, axis 1 is 2 * nnodes, but 36 % 4 == 0 -> treated as cell data, no axis fits,
# `vec.shape[None]` raises TypeError after the header of the file has been written.
# Smallest patch: classify 2-D arrays by their axis lengths, e.g. in the sorting loop
#     sizes = vec.shape if vec.ndim == 2 else (vec.size,)
#     if any(s > 0 and s % self.nel == 0 for s in sizes): cell_dat[key] = vec
#     elif any(s > 0 and s % self.nnodes == 0 for s in sizes): point_dat[key] = vec
# Run: PYTHONPATH=/repo /venv/bin/python findings/NEW_C20_block_total_size.py   (fails on the current tree)
import os, tempfile, shutil, base64
import xml.etree.ElementTree as ET
import numpy as np
from pymoto import DomainDefinition
dom = DomainDefinition(2, 2)
assert dom.nel == 4 and dom.nnodes == 9
u = np.arange(36, dtype=float).reshape(2, 18)      # two load cases of a 2-D nodal vector field
d = tempfile.mkdtemp()
try:
    fn = os.path.join(d, 'u.vti')
    dom.write_to_vti({'u': u}, fn)                  # raises TypeError on the current tree
    piece = ET.parse(fn).getroot().find('ImageData').find('Piece')
    arrs = piece.find('PointData').findall('DataArray')
    assert len(arrs) == 2 and all(a.get('NumberOfComponents') == '3' for a in arrs)
    for i, a in enumerate(arrs):
        raw = a.text.strip()
        got = np.frombuffer(base64.b64decode(raw[12:]), dtype='<f4')
        exp = np.zeros(27, dtype='<f4'); exp[0::3] = u[i, 0::2]; exp[1::3] = u[i, 1::2]
        assert np.array_equal(got, exp)
finally:
    shutil.rmtree(d)
print("ok")
