# C03: LinSolve keeps the previous solution self.u and hands it to the solver as initial guess x0.  With CG as solver
# (module constructed with solver=pym.solvers.CG(...), with or without preconditioner) the answer of the LATEST response
# then depends on the magnitude of the solution of the PREVIOUS one: when the previous solution is >= 1e9 times larger
# than the new one (load / unit change between two evaluations of the same module), CG starts from a residual of relative
# size >= 1e9, its recursively updated residual `r -= q @ alpha` (explicitly recomputed only every `restart` = 50
# iterations) drifts away from the true residual b - A x and reaches the tolerance while the true residual has not:
# CG returns WITHOUT warning a solution whose relative error is 2e-7 (factor 1e9), 3e-4 (factor 1e12), O(1) (factor 1e16,
# tol = 1e-7), where a freshly constructed identical module returns the solution to 1e-16 .. 1e-8.
# Smallest patch (pymoto/solvers/iterative.py, CG.solve): before accepting convergence recompute the true residual
#     if tval.max() <= self.tol:
#         r = b - A @ x; tval = np.linalg.norm(r, axis=0) / bnorm
#         if tval.max() <= self.tol: break
# (or in LinSolve._response: drop x0 when ||rhs - mat @ x0|| > ||rhs||, i.e. when zero is the better guess).
import warnings
import numpy as np, scipy.sparse as sps, pymoto as pym
warnings.simplefilter('error')             # a "Maximum iterations reached" warning would be an exception: none is raised
rng = np.random.default_rng(0)
n = 30
A = sps.diags([-1, 2.2, -1], [-1, 0, 1], shape=(n, n), format='csc')     # well conditioned SPD (cond ~ 20)
b = rng.standard_normal(n)
x = np.linalg.solve(A.toarray(), b)
for tol, factor in ((1e-10, 1e12), (1e-7, 1e16)):
    sA, sb = pym.Signal('A', A), pym.Signal('b', factor * b)
    m = pym.LinSolve([sA, sb], pym.Signal('u'), solver=pym.solvers.CG(tol=tol))
    m.response()                            # earlier evaluation: the same system with a load `factor` times larger
    sb.state = b.copy()
    m.response()                            # current evaluation
    fresh = pym.LinSolve([pym.Signal('A', A), pym.Signal('b', b.copy())], pym.Signal('u'), solver=pym.solvers.CG(tol=tol))
    fresh.response()
    eh = np.linalg.norm(m.sig_out[0].state - x) / np.linalg.norm(x)
    ef = np.linalg.norm(fresh.sig_out[0].state - x) / np.linalg.norm(x)
    print(f'tol={tol:g} factor={factor:g}: error after history {eh:.2e}, error of the fresh module {ef:.2e}')
    assert ef <= 100 * tol
    assert eh <= 100 * tol, 'the result depends on the magnitude of the previous solution (stale initial guess)'
print("ok")
