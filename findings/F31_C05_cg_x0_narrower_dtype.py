"""C05 -- CG.solve raises when the given initial guess has a narrower dtype than the solution.

pymoto/solvers/iterative.py, CG.solve starts from
    x = np.zeros_like(rhs, dtype=np.result_type(rhs.dtype, A.dtype)) if x0 is None else x0.copy()
so with an initial guess x keeps the dtype OF THE GUESS.  The first update `x += p @ alpha` then adds a complex
(resp. float) block into a float (resp. integer) array: numpy refuses the cast
    UFuncTypeError: Cannot cast ufunc 'add' output from dtype('complex128') to dtype('float64') with casting rule 'same_kind'
  * real x0, complex Hermitian positive definite matrix (real or complex right-hand side),
  * real x0, real matrix, complex right-hand side,
  * integer x0 (e.g. np.zeros(n, dtype=int), np.ones_like(index_array)), real matrix and right-hand side.
Without x0, or with an x0 of the result type, the same systems are solved; the direct solvers ignore x0.
(Same class of defect as F10 in LDAWrapper, repaired there.)

Smallest patch:   x = ... if x0 is None else x0.astype(np.result_type(rhs.dtype, A.dtype, x0.dtype))      (CG.solve)

Run:  PYTHONPATH=/repo /venv/bin/python -W ignore findings/NEW_C05_cg_x0_narrower_dtype.py     (fails on the current tree)
"""
import numpy as np
import pymoto as pym

S = pym.solvers
Ac = np.array([[6, 1 + 1j, 0], [1 - 1j, 7, 2 - 1j], [0, 2 + 1j, 8]])     # Hermitian positive definite
Ar = np.array([[4., 1, 0], [1, 5, 2], [0, 2, 6]])                        # symmetric positive definite
br, bc = np.array([1., 2, 3]), np.array([1j, 2, 3])

# reference: no guess / guess of the result type
for A, b, x0 in ((Ac, br, None), (Ac, bc, np.ones(3, dtype=complex)), (Ar, bc, None), (Ar, br, np.ones(3))):
    x = S.CG(A, preconditioner=S.DampedJacobi()).solve(b, x0=x0)
    assert np.allclose(A @ x, b, atol=1e-5)

for name, A, b, x0 in (('real x0, complex matrix, real rhs', Ac, br, np.ones(3)),
                       ('real x0, complex matrix, complex rhs', Ac, bc, np.ones(3)),
                       ('real x0, real matrix, complex rhs', Ar, bc, np.ones(3)),
                       ('integer x0, real matrix, real rhs', Ar, br, np.ones(3, dtype=int))):
    for trans in 'NTH':
        try:
            x = S.CG(A, preconditioner=S.DampedJacobi()).solve(b, x0=x0, trans=trans)
        except Exception as e:
            raise AssertionError(f'CG.solve raises {type(e).__name__} for {name}, trans={trans}: {e}') from e
        At = A if trans == 'N' else A.T if trans == 'T' else A.conj().T
        assert x.shape == b.shape and np.allclose(At @ x, b, atol=1e-5), (name, trans, x)
print('OK')
