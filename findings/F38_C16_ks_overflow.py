"""F38 (C16): KSFunction = 1/rho*log(sum(exp(rho*x))) overflowed to inf for rho*max(x) > 709 (and its sensitivity to nan);
fixed in /repo 191702f (logsumexp / softmax).  Passes on the repaired tree."""
import numpy as np
import pymoto as pym
x = np.array([1.0, 20.0, 60.0, 400.0])
for rho in (20.0, -20.0):
    s = pym.Signal('x', state=x.copy())
    m = pym.KSFunction(s, rho=rho)
    m.response()
    v = float(m.sig_out[0].state)
    M, mn, n = x.max(), x.min(), x.size
    lo, hi = (M, M + np.log(n) / rho) if rho > 0 else (mn + np.log(n) / rho, mn)
    assert lo - 1e-9 <= v <= hi + 1e-9, (rho, v, lo, hi)
    m.sig_out[0].sensitivity = 1.0
    m.sensitivity()
    g = np.asarray(s.sensitivity)
    assert np.all(np.isfinite(g)) and abs(g.sum() - 1) < 1e-9, (rho, g)
print('OK')
