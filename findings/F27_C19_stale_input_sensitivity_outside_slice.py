# C19: the analytical value reported for an input entry equals the module's backpropagated sensitivity for the seed
# used, a correct module is reported with matching pairs, and no sensitivity is left set after the call.
# finite_difference starts with `blk.reset()` "in case some memory is still left".  When the input of interest is a
# base Signal that the module only uses through a SLICE, that reset reaches only the sliced entries: a stale
# sensitivity on the other entries survives, is reported as analytical value (true derivative: 0) and is still set
# after the call.  Smallest patch (pymoto/routines.py, after the initial blk.reset()):  [s.reset() for s in inps]
import io, contextlib
import numpy as np, pymoto as pym
class Twice(pym.Module):
    def _response(self, x): return 2.0 * x
    def _sensitivity(self, dy): return 2.0 * dy
x = pym.Signal('x', np.array([1., 2., 3.]))
x.sensitivity = np.array([9., 9., 9.])            # left over from an earlier computation of the caller
m = Twice([x[0:2]], [pym.Signal('y')])
rec = []
with contextlib.redirect_stdout(io.StringIO()):
    pym.finite_difference(m, fromsig=[x], dx=0.25, random=False, test_fn=lambda x0, dx, an, fd: rec.append((float(an), float(fd))))
assert rec == [(2.0, 2.0), (2.0, 2.0), (0.0, 0.0)], rec
assert x.sensitivity is None or not np.any(x.sensitivity), x.sensitivity
print("ok")
