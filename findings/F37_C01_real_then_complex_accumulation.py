# C01 / C04 (anchor Signal.add_sensitivity, pymoto/core_objects.py: "copies on first add and uses += afterwards"):
# "sensitivity() ADDS to each input a value g ... for real and complex data ... and the call completes without raising".
# A complex-valued signal whose sensitivity so far is a REAL ndarray (library modules return real contributions for
# complex inputs: RealPart returns np.real(dx)) cannot receive a complex contribution afterwards: numpy refuses
# `real_array += complex_array` (UFuncTypeError, a TypeError) and add_sensitivity re-raises
# "Cannot add to the sensitivity with type 'ndarray'".  Whether it fails depends only on the ORDER of the two
# backpropagations (complex first, real second works), so Network([ImagPart(z), RealPart(z)]) fails while
# Network([RealPart(z), ImagPart(z)]) works (Network.sensitivity runs the modules in reverse).
# The same happens for every module adding a complex sensitivity (LinSolve / SystemOfEquations / EinSum / ... with
# complex data) to an input that holds a real array.  Python scalars and DyadCarriers promote correctly.
# Smallest patch in Signal.add_sensitivity: promote instead of failing, e.g.
#     if isinstance(self.sensitivity, np.ndarray) and np.iscomplexobj(ds) and not np.iscomplexobj(self.sensitivity):
#         self.sensitivity = self.sensitivity + ds       # (not in place: result type is complex)
#     else: self.sensitivity += ds
import numpy as np
import pymoto as pym

z = pym.Signal('z', np.array([1 + 2j, 3 - 1j]))
s_re, s_im = pym.Signal('re'), pym.Signal('im')
w_re, w_im = np.array([1.0, 2.0]), np.array([0.5, -1.0])
expected = w_re - 1j * w_im            # d Re(w_re*Re z + w_im*Im z): g with Re sum(g*v) = directional derivative

for order in ((pym.ImagPart, pym.RealPart), (pym.RealPart, pym.ImagPart)):
    mods = [order[0](z, s_im if order[0] is pym.ImagPart else s_re), order[1](z, s_im if order[1] is pym.ImagPart else s_re)]
    fn = pym.Network(*mods)
    fn.response()
    s_re.sensitivity, s_im.sensitivity = w_re.copy(), w_im.copy()
    fn.sensitivity()                    # raises TypeError for the order (ImagPart, RealPart)
    assert np.allclose(z.sensitivity, expected), (order, z.sensitivity, expected)
    fn.reset()
print("ok")
