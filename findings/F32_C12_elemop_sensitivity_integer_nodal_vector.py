# C12: the sensitivity of ElementOperation (and Strain / Stress / ElementAverage, which derive from it) is the
# transpose of the operator, i.e. what NodalOperation returns for the same element matrix -- also when the nodal
# vector handed in has an integer dtype (np.arange(...), a 0/1 indicator vector, node numbers, ...).
# ElementOperation._sensitivity allocates `du = np.zeros_like(self.sig_in[0].state)`: for an integer-typed state the
# np.add.at scatter silently truncates every elemental contribution to an integer.
# Smallest patch (pymoto/modules/assembly.py, ElementOperation._sensitivity):
#     du = np.zeros_like(self.sig_in[0].state, dtype=np.result_type(self.sig_in[0].state, du_el, float))
import numpy as np
import pymoto as pym

d = pym.DomainDefinition(2, 2, unitx=2.0, unity=3.0)
EM = np.array([[1., 2., 3., 4.], [0., -1., 5., 2.]])
dy = np.full((2, d.nel), 0.5)

ref = pym.NodalOperation(pym.Signal('x', dy), domain=d, element_matrix=EM)
ref.response()
expected = ref.sig_out[0].state          # EM^T scattered: the transpose

for u in (np.arange(d.nnodes, dtype=float), np.arange(d.nnodes)):
    m = pym.ElementOperation(pym.Signal('u', u), domain=d, element_matrix=EM)
    m.response()
    m.sig_out[0].sensitivity = dy
    m.sensitivity()
    got = m.sig_in[0].sensitivity
    assert np.allclose(got, expected), f"nodal vector dtype {u.dtype}: sensitivity {got} != transpose {expected}"

# the same through Strain: all sensitivities vanish for an integer-typed displacement vector
u = np.arange(d.nnodes * 2)
m = pym.Strain(pym.Signal('u', u), domain=d)
m.response()
m.sig_out[0].sensitivity = np.ones_like(m.sig_out[0].state)
m.sensitivity()
mf = pym.Strain(pym.Signal('u', u.astype(float)), domain=d)
mf.response()
mf.sig_out[0].sensitivity = np.ones_like(mf.sig_out[0].state)
mf.sensitivity()
assert np.allclose(m.sig_in[0].sensitivity, mf.sig_in[0].sensitivity), (m.sig_in[0].sensitivity, mf.sig_in[0].sensitivity)
print("ok")
