# C04/C01: sensitivity() must not modify the seed; calling it twice adds the same contribution twice;
# a domain with a single layer in print direction is the identity (sensitivity = seed).
import numpy as np, pymoto as pym
rng = np.random.default_rng(0)
d = pym.DomainDefinition(4, 3)
sx = pym.Signal('x', rng.random(d.nel)); sy = pym.Signal('y')
m = pym.OverhangFilter([sx], sy, d, direction='+y'); m.response()
w = rng.random(d.nel); w0 = w.copy()
sy.sensitivity = w
m.sensitivity(); g1 = sx.sensitivity.copy()
assert np.array_equal(w, w0), "seed was modified by sensitivity()"
m.sensitivity(); g2 = sx.sensitivity.copy()
assert np.allclose(g2, 2 * g1), "second sensitivity() call added a different contribution"
d1 = pym.DomainDefinition(4, 1)
sx = pym.Signal('x', rng.random(d1.nel)); sy = pym.Signal('y')
m = pym.OverhangFilter([sx], sy, d1, direction='+y'); m.response()
assert np.array_equal(sy.state, sx.state)
w = rng.random(d1.nel); sy.sensitivity = w.copy(); m.sensitivity()
assert np.allclose(sx.sensitivity, w), (sx.sensitivity, w)
print("ok")
