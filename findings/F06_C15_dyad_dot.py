# C15: dot / matmul with a vector behaves like the dense matrix: zero dyads, complex operand with real dyads.
import numpy as np
from pymoto import DyadCarrier
D = DyadCarrier(shape=(3, 2))
assert np.array_equal(D.dot(np.ones(2)), np.zeros(3))
assert np.array_equal(np.ones(3) @ D, np.zeros(2))
D = DyadCarrier(np.array([1., 2., 3.]), np.array([1., -1.]))
x = np.array([1 + 2j, 3 - 1j])
assert np.allclose(D.dot(x), D.todense() @ x)
y = np.array([1j, 2., 3.])
assert np.allclose(y @ D, y @ D.todense())
D = DyadCarrier(np.array([1., 2., 3.]), np.array([1j, -1.]))
assert np.allclose(D.dot(np.array([1., 2.])), D.todense() @ np.array([1., 2.]))
print("ok")
