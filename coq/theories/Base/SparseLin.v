(* "Triple lists": a linear map between flat vectors as a list of (dst, src, coeff).
   apply / transpose are executable; the adjoint theorem is proved once for any commutative ring
   (Leibniz equality: Z, R, ...) and is what every index-linear module's adjointness reduces to. *)
From Coq Require Import ZArith List Lia Ring Bool.
Open Scope bool_scope.
From Pymoto Require Import Base.Num.
Import ListNotations.

Section Defs.
  Context {K : Type} `{Num K}.

  Definition triple : Type := (nat * nat * K)%type.

  Definition vget (x : list K) (i : nat) : K := nth i x nzero.

  (* y[i] += c   (no effect when i is out of range, like a masked scatter) *)
  Fixpoint vaddat (y : list K) (i : nat) (c : K) : list K :=
    match y, i with
    | [], _ => []
    | h :: t, O => nadd h c :: t
    | h :: t, S j => h :: vaddat t j c
    end.

  Definition step (x : list K) (y : list K) (t : triple) : list K :=
    match t with (d, s, c) => vaddat y d (nmul c (vget x s)) end.

  (* y = 0 (length m); for (d,s,c) in T: y[d] += c * x[s] *)
  Definition apply (T : list triple) (m : nat) (x : list K) : list K :=
    fold_left (step x) T (vzero m).

  Definition transpose (T : list triple) : list triple :=
    map (fun t : triple => match t with (d, s, c) => (s, d, c) end) T.

  Definition tscale (a : K) (T : list triple) : list triple :=
    map (fun t : triple => match t with (d, s, c) => (d, s, nmul a c) end) T.

  (* all destinations < m and sources < n *)
  Definition tbounded (m n : nat) (T : list triple) : Prop :=
    Forall (fun t : triple => match t with (d, s, _) => (d < m)%nat /\ (s < n)%nat end) T.
  Definition tboundedb (m n : nat) (T : list triple) : bool :=
    forallb (fun t : triple => match t with (d, s, _) => Nat.ltb d m && Nat.ltb s n end) T.

  (* the bilinear form  sum_T w[d] * c * x[s] *)
  Definition tsum (T : list triple) (w x : list K) : K :=
    fold_right (fun (t : triple) acc => match t with (d, s, c) => nadd (nmul (nmul (vget w d) c) (vget x s)) acc end)
               nzero T.

  (* dense matrix (list of rows, m x n) denoted by the triples *)
  Definition dense (T : list triple) (m n : nat) : list (list K) :=
    map (fun i => map (fun j =>
      fold_right (fun (t : triple) acc => match t with (d, s, c) =>
                    if Nat.eqb d i && Nat.eqb s j then nadd c acc else acc end) nzero T)
      (seq 0 n)) (seq 0 m).
End Defs.

Section Laws.
  Context {K : Type} `{Num K}.
  Hypothesis Rth : ring_theory (@nzero K _) none_ nadd nmul nsub nopp (@eq K).
  Add Ring Kring : Rth.
  Local Open Scope num_scope.

  Lemma vaddat_length y i c : length (vaddat y i c) = length y.
  Proof. revert i; induction y as [|h t IH]; intros [|i]; cbn; auto. Qed.

  Lemma dot_nil_l (b : list K) : dot [] b = nzero.
  Proof. reflexivity. Qed.

  Lemma dot_cons a b (x y : list K) : dot (a :: x) (b :: y) = a * b + dot x y.
  Proof. reflexivity. Qed.

  Lemma dot_vaddat_r w y i c : length w = length y -> (i < length y)%nat ->
    dot w (vaddat y i c) = dot w y + vget w i * c.
  Proof.
    revert y i. induction w as [|a w IH]; intros [|b y] [|i] Hl Hi; cbn in Hl, Hi; try lia; try discriminate.
    - cbn [vaddat]. rewrite !dot_cons. unfold vget; cbn [nth]. ring.
    - cbn [vaddat]. rewrite !dot_cons. rewrite IH by lia. unfold vget; cbn [nth]. ring.
  Qed.

  Lemma dot_vaddat_l y x i c : length y = length x -> (i < length y)%nat ->
    dot (vaddat y i c) x = dot y x + c * vget x i.
  Proof.
    revert x i. induction y as [|b y IH]; intros [|a x] [|i] Hl Hi; cbn in Hl, Hi; try lia; try discriminate.
    - cbn [vaddat]. rewrite !dot_cons. unfold vget; cbn [nth]. ring.
    - cbn [vaddat]. rewrite !dot_cons. rewrite IH by lia. unfold vget; cbn [nth]. ring.
  Qed.

  Lemma fold_step_length x T y : length (fold_left (step x) T y) = length y.
  Proof.
    revert y; induction T as [|[[d s] c] T IH]; intros y; cbn [fold_left]; auto.
    rewrite IH. unfold step. apply vaddat_length.
  Qed.

  Lemma apply_length T m x : length (apply T m x) = m.
  Proof. unfold apply. rewrite fold_step_length. apply repeat_length. Qed.

  Lemma tsum_cons d s c T w x : tsum ((d, s, c) :: T) w x = vget w d * c * vget x s + tsum T w x.
  Proof. reflexivity. Qed.
  Lemma tsum_nil w x : tsum [] w x = nzero.
  Proof. reflexivity. Qed.

  Lemma dot_fold_r T m n w x y : tbounded m n T -> length w = m -> length y = m ->
    dot w (fold_left (step x) T y) = dot w y + tsum T w x.
  Proof.
    intros HT Hw. revert y. induction HT as [|[[d s] c] T Ht HT IH]; intros y Hy; cbn [fold_left]; rewrite ?tsum_cons, ?tsum_nil.
    - ring.
    - destruct Ht as [Hd Hs]. rewrite IH by (unfold step; rewrite vaddat_length; exact Hy).
      unfold step. rewrite dot_vaddat_r by lia. ring.
  Qed.

  Lemma dot_fold_l T m n w x z : tbounded m n T -> length x = n -> length z = n ->
    dot (fold_left (step w) (transpose T) z) x = dot z x + tsum T w x.
  Proof.
    intros HT Hx. revert z. induction HT as [|[[d s] c] T Ht HT IH]; intros z Hz; cbn [transpose map fold_left]; rewrite ?tsum_cons, ?tsum_nil.
    - ring.
    - destruct Ht as [Hd Hs]. fold (transpose T). rewrite IH by (unfold step; rewrite vaddat_length; exact Hz).
      unfold step. rewrite dot_vaddat_l by lia. ring.
  Qed.

  Lemma dot_vzero_r (w : list K) m : dot w (vzero m) = nzero.
  Proof.
    revert m; induction w as [|a w IH]; intros [|m]; try reflexivity.
    unfold vzero; cbn [repeat]. rewrite dot_cons. fold (@vzero K _ m). rewrite IH. ring.
  Qed.

  Lemma dot_vzero_l (x : list K) n : dot (vzero n) x = nzero.
  Proof.
    revert n; induction x as [|a x IH]; intros [|n]; try reflexivity.
    unfold vzero; cbn [repeat]. rewrite dot_cons. fold (@vzero K _ n). rewrite IH. ring.
  Qed.

  (* <w, T x> = <T^T w, x> *)
  Theorem apply_adjoint T m n w x : tbounded m n T -> length w = m -> length x = n ->
    dot w (apply T m x) = dot (apply (transpose T) n w) x.
  Proof.
    intros HT Hw Hx. unfold apply.
    rewrite (dot_fold_r T m n) by (auto; apply repeat_length).
    rewrite (dot_fold_l T m n) by (auto; apply repeat_length).
    rewrite dot_vzero_r, dot_vzero_l. reflexivity.
  Qed.

  Lemma tboundedb_spec m n (T : list (@triple K)) : tboundedb m n T = true <-> tbounded m n T.
  Proof.
    unfold tboundedb, tbounded. rewrite forallb_forall, Forall_forall.
    split; intros Hf [[d s] c] Hin; specialize (Hf _ Hin); cbn in *.
    - apply andb_prop in Hf as [A B]. apply Nat.ltb_lt in A, B. auto.
    - destruct Hf as [A B]. apply andb_true_intro. split; apply Nat.ltb_lt; assumption.
  Qed.

  (* --- linearity in x --- *)
  Lemma vget_vadd (x y : list K) i : length x = length y -> vget (vadd x y) i = vget x i + vget y i.
  Proof.
    revert y i; induction x as [|a x IH]; intros [|b y] i Hl; cbn in Hl; try discriminate.
    - unfold vget, vadd; cbn. destruct i; cbn; ring.
    - destruct i as [|i]; [reflexivity|]. unfold vget in *. unfold vadd in *. cbn. apply IH. lia.
  Qed.

  Lemma vget_vscale a (x : list K) i : vget (vscale a x) i = a * vget x i.
  Proof.
    revert i; induction x as [|b x IH]; intros [|i]; unfold vget, vscale in *; cbn; try ring. apply IH.
  Qed.

  Lemma vaddat_vadd (y1 y2 : list K) i c1 c2 : length y1 = length y2 ->
    vadd (vaddat y1 i c1) (vaddat y2 i c2) = vaddat (vadd y1 y2) i (c1 + c2).
  Proof.
    revert y2 i; induction y1 as [|a y1 IH]; intros [|b y2] i Hl; cbn in Hl; try discriminate; [destruct i; reflexivity|].
    destruct i as [|i]; unfold vadd in *; cbn.
    - f_equal. ring.
    - f_equal. apply IH. lia.
  Qed.

  Lemma fold_step_vadd T x1 x2 y1 y2 : length x1 = length x2 -> length y1 = length y2 ->
    fold_left (step (vadd x1 x2)) T (vadd y1 y2) =
    vadd (fold_left (step x1) T y1) (fold_left (step x2) T y2).
  Proof.
    intros Hx. revert y1 y2. induction T as [|[[d s] c] T IH]; intros y1 y2 Hy; cbn [fold_left]; auto.
    rewrite <- IH by (unfold step; rewrite !vaddat_length; exact Hy).
    f_equal. unfold step. rewrite vaddat_vadd by exact Hy. f_equal. rewrite vget_vadd by exact Hx. ring.
  Qed.

  Lemma vadd_vzero m : vadd (@vzero K _ m) (vzero m) = vzero m.
  Proof. induction m as [|m IH]; [reflexivity|]. unfold vadd, vzero in *; cbn. f_equal; [ring|exact IH]. Qed.

  Theorem apply_add T m x1 x2 : length x1 = length x2 ->
    apply T m (vadd x1 x2) = vadd (apply T m x1) (apply T m x2).
  Proof.
    intros Hx. unfold apply. rewrite <- fold_step_vadd by (auto; rewrite !repeat_length; reflexivity).
    rewrite vadd_vzero. reflexivity.
  Qed.

  Lemma vaddat_vscale a (y : list K) i c : vscale a (vaddat y i c) = vaddat (vscale a y) i (a * c).
  Proof.
    revert i; induction y as [|b y IH]; intros [|i]; unfold vscale in *; cbn; auto.
    - f_equal. ring.
    - f_equal. apply IH.
  Qed.

  Lemma fold_step_vscale a T x y :
    fold_left (step (vscale a x)) T (vscale a y) = vscale a (fold_left (step x) T y).
  Proof.
    revert y. induction T as [|[[d s] c] T IH]; intros y; cbn [fold_left]; auto.
    rewrite <- IH. f_equal. unfold step. rewrite vaddat_vscale. f_equal. rewrite vget_vscale. ring.
  Qed.

  Lemma vscale_vzero a m : vscale a (@vzero K _ m) = vzero m.
  Proof. induction m as [|m IH]; [reflexivity|]. unfold vscale, vzero in *; cbn. f_equal; [ring|exact IH]. Qed.

  Theorem apply_scale a T m x : apply T m (vscale a x) = vscale a (apply T m x).
  Proof. unfold apply. rewrite <- fold_step_vscale, vscale_vzero. reflexivity. Qed.

  Theorem apply_lincomb a T m x1 x2 : length x1 = length x2 ->
    apply T m (vadd (vscale a x1) x2) = vadd (vscale a (apply T m x1)) (apply T m x2).
  Proof.
    intros Hl. rewrite apply_add by (unfold vscale; rewrite map_length; exact Hl).
    rewrite apply_scale. reflexivity.
  Qed.

  (* --- concatenation of triple lists adds the maps --- *)
  Lemma fold_step_acc T x y1 y2 : length y1 = length y2 ->
    fold_left (step x) T (vadd y1 y2) = vadd (fold_left (step x) T y1) y2.
  Proof.
    revert y1. induction T as [|[[d s] c] T IH]; intros y1 Hy; cbn [fold_left]; auto.
    rewrite <- IH by (unfold step; rewrite vaddat_length; exact Hy). f_equal.
    unfold step. clear IH. revert y2 d Hy. induction y1 as [|b y1 IHy]; intros [|b2 y2] d Hy; cbn in Hy; try discriminate.
    - destruct d; reflexivity.
    - destruct d as [|d]; unfold vadd in *; cbn.
      + f_equal. ring.
      + f_equal. apply IHy. lia.
  Qed.

  Lemma vadd_vzero_l (y : list K) : vadd (vzero (length y)) y = y.
  Proof. induction y as [|b y IH]; [reflexivity|]. unfold vadd, vzero in *; cbn. f_equal; [ring|exact IH]. Qed.

  Lemma vadd_comm (a b : list K) : vadd a b = vadd b a.
  Proof.
    revert b; induction a as [|x a IH]; intros [|y b]; try reflexivity.
    unfold vadd in *; cbn. f_equal; [ring|apply IH].
  Qed.

  Theorem apply_app T1 T2 m x : apply (T1 ++ T2) m x = vadd (apply T1 m x) (apply T2 m x).
  Proof.
    unfold apply. rewrite fold_left_app.
    set (y1 := fold_left (step x) T1 (vzero m)).
    assert (Hl : length y1 = m) by (unfold y1; rewrite fold_step_length; apply repeat_length).
    rewrite <- (vadd_vzero_l y1) at 1. rewrite Hl.
    rewrite fold_step_acc by (unfold vzero; rewrite repeat_length; lia).
    apply vadd_comm.
  Qed.
End Laws.
