(* Ordered-field operations needed by the MMA formulas (C10): max, min, abs, boolean comparisons,
   on top of the Num signature of Base/Num.v; instances for Q (evaluation) and R (theorems);
   list helpers used by the vector-level models.  Definitions only. *)
From Coq Require Import ZArith QArith Qabs Reals List Bool.
From Pymoto Require Import Base.Num.
Import ListNotations.

Class NumOrd (K : Type) := {
  nmax : K -> K -> K; nmin : K -> K -> K; nabs : K -> K;
  nltb : K -> K -> bool; nleb : K -> K -> bool
}.

(* Q *)
Definition Qltb (a b : Q) : bool := negb (Qle_bool b a).
Definition Qmaxb (a b : Q) : Q := if Qle_bool a b then b else a.
Definition Qminb (a b : Q) : Q := if Qle_bool a b then a else b.
#[global] Instance NumOrdQ : NumOrd Q :=
  {| nmax := Qmaxb; nmin := Qminb; nabs := Qabs; nltb := Qltb; nleb := Qle_bool |}.

(* R *)
Definition Rltb (a b : R) : bool := if Rlt_dec a b then true else false.
Definition Rleb (a b : R) : bool := if Rle_dec a b then true else false.
#[global] Instance NumOrdR : NumOrd R :=
  {| nmax := Rmax; nmin := Rmin; nabs := Rabs; nltb := Rltb; nleb := Rleb |}.

Section VecOps.
  Context {K : Type} `{Num K} `{NumOrd K}.

  (* a decimal literal p/q of the source, read as the rational it denotes *)
  Definition dec (p q : Z) : K := ndiv (nofZ p) (nofZ q).
  (* x ** 2 *)
  Definition sq (x : K) : K := nmul x x.
  (* np.clip(x, lo, hi) = minimum(maximum(x, lo), hi) *)
  Definition clip (x lo hi : K) : K := nmin (nmax x lo) hi.

  (* elementwise binary operation of two arrays of the same length *)
  Definition vmap2 (f : K -> K -> K) (a b : list K) : list K :=
    map (fun p => f (fst p) (snd p)) (combine a b).
  (* np.min / np.max of a non-empty array (0 for the empty one, where numpy raises) *)
  Definition lmin (l : list K) : K := match l with [] => nzero | a :: t => fold_left nmin t a end.
  Definition lmax (l : list K) : K := match l with [] => nzero | a :: t => fold_left nmax t a end.
  Definition nthK (l : list K) (j : nat) : K := nth j l nzero.
  Definition nthL (l : list (list K)) (j : nat) : list K := nth j l [].
End VecOps.

Definition Qtol : Q := (1 # 1000000000)%Q.
(* |a - b| <= tol * scale *)
Definition Qclose_s (scale a b : Q) : bool := Qle_bool (Qabs (a - b)) (Qtol * scale).
Fixpoint Ql_close_s (scale : Q) (a b : list Q) : bool :=
  match a, b with
  | [], [] => true
  | x :: a', y :: b' => Qclose_s scale x y && Ql_close_s scale a' b'
  | _, _ => false
  end.
Fixpoint Qll_close_s (scale : Q) (a b : list (list Q)) : bool :=
  match a, b with
  | [], [] => true
  | x :: a', y :: b' => Ql_close_s scale x y && Qll_close_s scale a' b'
  | _, _ => false
  end.
(* largest magnitude in a list, at least 1 *)
Definition Qscale (l : list Q) : Q := fold_left (fun m x => Qmaxb m (Qabs x)) l 1%Q.

Section VecOps2.
  Context {K : Type} `{Num K} `{NumOrd K}.
  (* elementwise ternary operation (np.clip with array bounds) *)
  Fixpoint vmap3 (f : K -> K -> K -> K) (a b c : list K) : list K :=
    match a, b, c with
    | x :: a', y :: b', z :: c' => f x y z :: vmap3 f a' b' c'
    | _, _, _ => []
    end.
  (* np.dot(M, v): matrix (list of rows) times vector *)
  Definition matvec (M : list (list K)) (v : list K) : list K := map (fun row => dot row v) M.
  (* np.dot(v, M): sum_i v_i * M[i, :]   (at least one row; [] for the empty matrix) *)
  Fixpoint vecmat (v : list K) (M : list (list K)) : list K :=
    match v, M with
    | c :: v', row :: M' =>
        match v', M' with
        | [], _ | _, [] => map (nmul c) row
        | _, _ => vmap2 nadd (map (nmul c) row) (vecmat v' M')
        end
    | _, _ => []
    end.
  (* elementwise operation of two matrices *)
  Definition mmap2 (f : K -> K -> K) (A B : list (list K)) : list (list K) :=
    map (fun p => vmap2 f (fst p) (snd p)) (combine A B).
End VecOps2.
