(* Executable exact arithmetic for the correspondence checks of C05/C07: Gaussian rationals Q[i] as pairs,
   dense matrices as lists of rows.  Used only for evaluation (vm_compute) inside generated case files:
   "checked oracle" -- the harness supplies the exact rational solution X, Coq CHECKS op_t(A) X = B exactly and
   that the implementation's (float, converted exactly) answer is within tolerance of X. *)
From Coq Require Import ZArith QArith Qabs List Bool.
Import ListNotations.

Definition C : Type := (Q * Q)%type.
Definition c0 : C := (0, 0)%Q.
Definition cadd (a b : C) : C := (Qred (fst a + fst b), Qred (snd a + snd b))%Q.
Definition csub (a b : C) : C := (Qred (fst a - fst b), Qred (snd a - snd b))%Q.
Definition cmul (a b : C) : C :=
  (Qred (fst a * fst b - snd a * snd b), Qred (fst a * snd b + snd a * fst b))%Q.
Definition cconj (a : C) : C := (fst a, Qopp (snd a)).
Definition ceqb (a b : C) : bool := Qeq_bool (fst a) (fst b) && Qeq_bool (snd a) (snd b).
Definition cclose (tol : Q) (a b : C) : bool :=
  Qle_bool (Qabs (fst a - fst b)) tol && Qle_bool (Qabs (snd a - snd b)) tol.
(* real numbers embed as (x, 0) *)
Definition cre (x : Q) : C := (x, 0%Q).

Definition cvec := list C.
Definition cmat := list (list C).   (* list of rows *)

Definition cdot (a b : cvec) : C := fold_right cadd c0 (map (fun p => cmul (fst p) (snd p)) (combine a b)).

Fixpoint transpose_rows (m : cmat) (ncols : nat) : cmat :=
  match ncols with
  | O => []
  | S k => map (fun r => hd c0 r) m :: transpose_rows (map (fun r => tl r) m) k
  end.
Definition ncols (m : cmat) : nat := match m with [] => O | r :: _ => length r end.
Definition mtrans (m : cmat) : cmat := transpose_rows m (ncols m).
Definition mconj (m : cmat) : cmat := map (map cconj) m.
Definition mmul (a b : cmat) : cmat :=
  let bt := mtrans b in map (fun row => map (fun col => cdot row col) bt) a.
Definition msub (a b : cmat) : cmat := map (fun p => map (fun q => csub (fst q) (snd q)) (combine (fst p) (snd p))) (combine a b).

Fixpoint list_all2 {A} (f : A -> A -> bool) (a b : list A) : bool :=
  match a, b with
  | [], [] => true
  | x :: a', y :: b' => f x y && list_all2 f a' b'
  | _, _ => false
  end.
Definition meqb (a b : cmat) : bool := list_all2 (list_all2 ceqb) a b.
Definition mclose (tol : Q) (a b : cmat) : bool := list_all2 (list_all2 (cclose tol)) a b.

(* op_trans(A): 0 = N, 1 = T, 2 = H *)
Definition mop (t : Z) (a : cmat) : cmat :=
  if (t =? 0)%Z then a else if (t =? 1)%Z then mtrans a else mtrans (mconj a).

(* the checked oracle: X is THE exact solution of op_t(A) X = B, and the implementation's Ximpl is tol-close *)
Definition check_solve (t : Z) (a x b ximpl : cmat) (tol : Q) : bool :=
  meqb (mmul (mop t a) x) b && mclose tol ximpl x.

(* real inputs: matrices of Q embedded *)
Definition rmat (m : list (list Q)) : cmat := map (map cre) m.
(* complex inputs written as lists of pairs already *)

Definition mident (n : nat) : cmat :=
  map (fun i => map (fun j => if Nat.eqb i j then cre 1%Q else c0) (seq 0 n)) (seq 0 n).
