(* Gaussian rationals Qc[i] (pairs of canonical rationals, Leibniz equality) as an instance of Base.Fld.
   Definitions only; the field laws are proved in Proofs/LdaP.v (section QIField).
   Two instances on the same carrier:
     FldC        exact zero test            (the instance the theorems are instantiated with)
     FldCg eps   "|re|,|im| <= eps" as zero (guard run of the correspondence: a case whose guard run and exact
                                             run differ has a decision too close to a tolerance and is dropped) *)
From Coq Require Import QArith Qcanon Qabs List Bool.
From Pymoto Require Import Base.Fld.
Import ListNotations.

Definition C : Type := (Qc * Qc)%type.
Definition C0 : C := (0%Qc, 0%Qc).
Definition C1 : C := (1%Qc, 0%Qc).
Definition Cadd (a b : C) : C := ((fst a + fst b)%Qc, (snd a + snd b)%Qc).
Definition Csub (a b : C) : C := ((fst a - fst b)%Qc, (snd a - snd b)%Qc).
Definition Copp (a : C) : C := ((- fst a)%Qc, (- snd a)%Qc).
Definition Cmul (a b : C) : C :=
  ((fst a * fst b - snd a * snd b)%Qc, (fst a * snd b + snd a * fst b)%Qc).
Definition Cnorm2 (a : C) : Qc := (fst a * fst a + snd a * snd a)%Qc.
Definition Cinv (a : C) : C := ((fst a / Cnorm2 a)%Qc, (- snd a / Cnorm2 a)%Qc).
Definition Cdiv (a b : C) : C := Cmul a (Cinv b).
Definition Cconj (a : C) : C := (fst a, (- snd a)%Qc).
Definition Cis0 (a : C) : bool := Qc_eq_bool (fst a) 0%Qc && Qc_eq_bool (snd a) 0%Qc.
Definition Cis0g (eps : Q) (a : C) : bool :=
  Qle_bool (Qabs (this (fst a))) eps && Qle_bool (Qabs (this (snd a))) eps.

#[global] Instance FldC : Fld C :=
  {| f0 := C0; f1 := C1; fadd := Cadd; fmul := Cmul; fsub := Csub; fopp := Copp;
     fdiv := Cdiv; finv := Cinv; fconj := Cconj; fis0 := Cis0 |}.

Definition FldCg (eps : Q) : Fld C :=
  {| f0 := C0; f1 := C1; fadd := Cadd; fmul := Cmul; fsub := Csub; fopp := Copp;
     fdiv := Cdiv; finv := Cinv; fconj := Cconj; fis0 := Cis0g eps |}.

(* literals written by the harness *)
Definition cz (re im : Z) : C := (Q2Qc (inject_Z re), Q2Qc (inject_Z im)).
Definition cq (re im : Q) : C := (Q2Qc re, Q2Qc im).
Definition rz (re : Z) : C := cz re 0.

(* comparison with an observation given as scaled integers: |z * 2^sh - (ore + i oim)| <= slack, componentwise *)
Definition Cclose (scale slack : Q) (z : C) (o : Z * Z) : bool :=
  Qle_bool (Qabs (this (fst z) * scale - inject_Z (fst o))) slack &&
  Qle_bool (Qabs (this (snd z) * scale - inject_Z (snd o))) slack.
