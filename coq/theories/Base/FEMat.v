(* Dense matrices as lists of rows (the numpy 2-D arrays of the FE modules): definitions and the
   few algebraic laws the C08/C12 proofs need, for any commutative ring with Leibniz equality. *)
From Coq Require Import ZArith List Lia Ring Bool.
From Pymoto Require Import Base.Num Base.SparseLin.
Import ListNotations.

Section Defs.
  Context {K : Type} `{Num K}.
  Definition mat : Type := list (list K).
  (* M @ v *)
  Definition mvmul (M : mat) (v : list K) : list K := map (fun r => dot r v) M.
  Definition mcol (M : mat) (j : nat) : list K := map (fun r => nth j r nzero) M.
  (* M.T, n = number of columns of M *)
  Definition mtrans (n : nat) (M : mat) : mat := map (mcol M) (seq 0 n).
  (* A @ B, n = number of columns of B *)
  Definition mmul (n : nat) (A B : mat) : mat :=
    map (fun ra => map (fun j => dot ra (mcol B j)) (seq 0 n)) A.
  Definition madd (A B : mat) : mat := map (fun p => vadd (fst p) (snd p)) (combine A B).
  Definition mscale (c : K) (A : mat) : mat := map (vscale c) A.
  Definition mzero (m n : nat) : mat := repeat (vzero n) m.
  (* v^T M v and u^T M v *)
  Definition bil (M : mat) (u v : list K) : K := dot u (mvmul M v).
  Definition quad (M : mat) (v : list K) : K := bil M v v.
  (* rectangular m x n *)
  Definition mshape (m n : nat) (M : mat) : Prop := length M = m /\ Forall (fun r => length r = n) M.
  Definition mshapeb (m n : nat) (M : mat) : bool :=
    Nat.eqb (length M) m && forallb (fun r => Nat.eqb (length r) n) M.
  Definition msym (M : mat) : Prop := forall i j, nth j (nth i M []) nzero = nth i (nth j M []) nzero.
End Defs.

Section Laws.
  Context {K : Type} `{Num K}.
  Hypothesis Rth : ring_theory (@nzero K _) none_ nadd nmul nsub nopp (@eq K).
  Add Ring Kring2 : Rth.
  Local Open Scope num_scope.

  Lemma nsum_cons a (l : list K) : nsum (a :: l) = a + nsum l.
  Proof. reflexivity. Qed.

  Lemma nsum_app (a b : list K) : nsum (a ++ b) = nsum a + nsum b.
  Proof. induction a as [|x a IH]; cbn [app]; rewrite ?nsum_cons; [cbn; ring | rewrite IH; ring]. Qed.

  Lemma nsum_map_add {A} (f g : A -> K) l :
    nsum (map (fun a => f a + g a) l) = nsum (map f l) + nsum (map g l).
  Proof. induction l as [|a l IH]; cbn [map]; rewrite ?nsum_cons; [cbn; ring | rewrite IH; ring]. Qed.

  Lemma nsum_map_scale {A} c (f : A -> K) l :
    nsum (map (fun a => c * f a) l) = c * nsum (map f l).
  Proof. induction l as [|a l IH]; cbn [map]; rewrite ?nsum_cons; [cbn; ring | rewrite IH; ring]. Qed.

  Lemma nsum_map_zero {A} (l : list A) : nsum (map (fun _ => nzero) l) = (nzero : K).
  Proof. induction l as [|a l IH]; cbn [map]; rewrite ?nsum_cons; [reflexivity | rewrite IH; ring]. Qed.

  Lemma nsum_map_ext {A} (f g : A -> K) l : (forall a, In a l -> f a = g a) ->
    nsum (map f l) = nsum (map g l).
  Proof.
    induction l as [|a l IH]; intros E; cbn [map]; rewrite ?nsum_cons; [reflexivity|].
    rewrite E by (left; reflexivity). rewrite IH by (intros; apply E; right; assumption). reflexivity.
  Qed.

  Lemma nsum_flat_map {A} (f : A -> list K) l : nsum (flat_map f l) = nsum (map (fun a => nsum (f a)) l).
  Proof. induction l as [|a l IH]; cbn [flat_map map]; rewrite ?nsum_app, ?nsum_cons; [reflexivity | rewrite IH; ring]. Qed.

  Lemma nsum_swap {A B} (f : A -> B -> K) la lb :
    nsum (map (fun a => nsum (map (fun b => f a b) lb)) la) = nsum (map (fun b => nsum (map (fun a => f a b) la)) lb).
  Proof.
    induction la as [|a la IH]; cbn [map]; rewrite ?nsum_cons.
    - rewrite nsum_map_zero. reflexivity.
    - rewrite IH. rewrite <- nsum_map_add. reflexivity.
  Qed.

  Lemma dot_nil_r (a : list K) : dot a [] = nzero.
  Proof. destruct a; reflexivity. Qed.

  Lemma dot_comm (a b : list K) : dot a b = dot b a.
  Proof.
    revert b; induction a as [|x a IH]; intros [|y b]; try reflexivity.
    rewrite !dot_cons, IH. ring.
  Qed.

  Lemma dot_vscale_l c (a b : list K) : dot (vscale c a) b = c * dot a b.
  Proof.
    revert b; induction a as [|x a IH]; intros [|y b]; unfold vscale; cbn [map]; rewrite ?dot_nil_l, ?dot_nil_r; try ring.
    rewrite !dot_cons. fold (vscale c a). rewrite IH. ring.
  Qed.

  Lemma dot_vscale_r c (a b : list K) : dot a (vscale c b) = c * dot a b.
  Proof. rewrite dot_comm, dot_vscale_l, dot_comm. reflexivity. Qed.

  Lemma dot_vadd_l (a b c : list K) : length a = length b ->
    dot (vadd a b) c = dot a c + dot b c.
  Proof.
    revert b c; induction a as [|x a IH]; intros [|y b] c Hl; cbn in Hl; try discriminate.
    - unfold vadd; cbn [combine map]. rewrite !dot_nil_l. ring.
    - destruct c as [|z c]; [unfold vadd; cbn [combine map]; rewrite !dot_nil_r; ring|].
      unfold vadd; cbn [combine map fst snd]. fold (vadd a b). rewrite !dot_cons, IH by lia. ring.
  Qed.

  Lemma dot_vadd_r (a b c : list K) : length b = length c ->
    dot a (vadd b c) = dot a b + dot a c.
  Proof. intros. rewrite dot_comm, dot_vadd_l by assumption. rewrite (dot_comm b), (dot_comm c). reflexivity. Qed.

  Lemma vadd_length (a b : list K) : length a = length b -> length (vadd a b) = length a.
  Proof. intros E. unfold vadd. rewrite map_length, combine_length, E. lia. Qed.

  Lemma vscale_length c (a : list K) : length (vscale c a) = length a.
  Proof. unfold vscale. apply map_length. Qed.

  Lemma vzero_length n : length (@vzero K _ n) = n.
  Proof. apply repeat_length. Qed.

  (* dot of a pointwise sum / scaling given by index functions *)
  Lemma dot_map_add {A} (f g : A -> K) l v :
    dot (map (fun j => f j + g j) l) v = dot (map f l) v + dot (map g l) v.
  Proof.
    revert v; induction l as [|a l IH]; intros [|y v]; cbn [map]; rewrite ?dot_nil_l, ?dot_nil_r; try ring.
    rewrite !dot_cons, IH. ring.
  Qed.

  Lemma dot_map_scale {A} c (f : A -> K) l v :
    dot (map (fun j => c * f j) l) v = c * dot (map f l) v.
  Proof.
    revert v; induction l as [|a l IH]; intros [|y v]; cbn [map]; rewrite ?dot_nil_l, ?dot_nil_r; try ring.
    rewrite !dot_cons, IH. ring.
  Qed.

  Lemma dot_map_zero {A} (l : list A) v : dot (map (fun _ => nzero) l) v = (nzero : K).
  Proof.
    revert v; induction l as [|a l IH]; intros [|y v]; cbn [map]; rewrite ?dot_nil_l, ?dot_nil_r; try ring.
    rewrite !dot_cons, IH. ring.
  Qed.

  Lemma map_nth_seq (r : list K) n : length r = n -> map (fun j => nth j r nzero) (seq 0 n) = r.
  Proof.
    intros <-. induction r as [|x r IH]; [reflexivity|].
    cbn [length seq map nth]. f_equal. rewrite <- seq_shift, map_map. exact IH.
  Qed.

  (* (A @ B) @ v = A @ (B @ v) : entry level *)
  Lemma dot_mmul_row n (ra : list K) (B : list (list K)) v :
    Forall (fun r => length r = n) B ->
    dot (map (fun j => dot ra (mcol B j)) (seq 0 n)) v = dot ra (mvmul B v).
  Proof.
    intros HB. revert ra. induction HB as [|rb B Hrb HB IH]; intros ra.
    - unfold mcol, mvmul; cbn [map]. rewrite !dot_nil_r. apply dot_map_zero.
    - destruct ra as [|a ra].
      + rewrite dot_nil_l. rewrite (map_ext _ (fun _ => nzero)) by (intros; apply dot_nil_l). apply dot_map_zero.
      + unfold mcol, mvmul; cbn [map]. fold (mvmul B v).
        rewrite (map_ext _ (fun j => a * nth j rb nzero + dot ra (mcol B j))) by (intros; apply dot_cons).
        rewrite dot_map_add, dot_map_scale, map_nth_seq by exact Hrb.
        rewrite IH, dot_cons. reflexivity.
  Qed.

  Lemma mvmul_mmul n (A B : list (list K)) v : Forall (fun r => length r = n) B ->
    mvmul (mmul n A B) v = mvmul A (mvmul B v).
  Proof.
    intros HB. unfold mmul, mvmul at 1 2. rewrite map_map. apply map_ext. intros ra.
    apply dot_mmul_row; exact HB.
  Qed.

  (* u . (M^T y) = (M u) . y *)
  Lemma dot_mtrans n (M : list (list K)) u y : Forall (fun r => length r = n) M ->
    dot u (mvmul (mtrans n M) y) = dot (mvmul M u) y.
  Proof.
    intros HM. revert y. induction HM as [|rb M Hrb HM IH]; intros y.
    - unfold mvmul, mtrans, mcol. rewrite map_map. cbn [map]. rewrite !dot_nil_l.
      rewrite dot_comm. apply dot_map_zero.
    - destruct y as [|y0 y].
      + unfold mvmul, mtrans. rewrite map_map. rewrite !dot_nil_r.
        rewrite dot_comm. apply dot_map_zero.
      + unfold mvmul at 2; cbn [map]. fold (mvmul M u). rewrite dot_cons, <- IH.
        unfold mvmul, mtrans. rewrite !map_map. unfold mcol; cbn [map].
        rewrite (map_ext _ (fun j => y0 * nth j rb nzero + dot (map (fun r => nth j r nzero) M) y))
          by (intros; rewrite dot_cons; ring).
        rewrite (dot_comm u), dot_map_add, dot_map_scale, map_nth_seq by exact Hrb.
        rewrite (dot_comm u (map _ _)). ring.
  Qed.

  Lemma mvmul_mscale c (M : list (list K)) v : mvmul (mscale c M) v = vscale c (mvmul M v).
  Proof.
    unfold mvmul, mscale, vscale at 2. rewrite !map_map. apply map_ext. intros r. apply dot_vscale_l.
  Qed.

  Lemma mvmul_madd (A B : list (list K)) v : Forall2 (fun ra rb => length ra = length rb) A B ->
    mvmul (madd A B) v = vadd (mvmul A v) (mvmul B v).
  Proof.
    intros HAB. induction HAB as [|ra rb A B Hr HAB IH]; [reflexivity|].
    unfold madd, mvmul, vadd; cbn [combine map fst snd]. f_equal; [apply dot_vadd_l; exact Hr|exact IH].
  Qed.

  Lemma vget_vzero' n i : nth i (@vzero K _ n) nzero = nzero.
  Proof. unfold vzero. revert i; induction n as [|n IH]; intros [|i]; cbn; auto. Qed.

  Lemma mvmul_length (M : list (list K)) v : length (mvmul M v) = length M.
  Proof. apply map_length. Qed.

  Lemma mvmul_mzero m n v : mvmul (mzero m n) v = @vzero K _ m.
  Proof.
    unfold mzero, mvmul, vzero. induction m as [|m IH]; cbn [repeat map]; [reflexivity|].
    f_equal; [apply dot_vzero_l; exact Rth | exact IH].
  Qed.

  Lemma mshapeb_spec m n (M : list (list K)) : mshapeb m n M = true <-> mshape m n M.
  Proof.
    unfold mshapeb, mshape. rewrite andb_true_iff, Nat.eqb_eq, forallb_forall, Forall_forall.
    split; intros [A B]; split; auto; intros r Hr; specialize (B r Hr); apply Nat.eqb_eq; exact B.
  Qed.

  Lemma mmul_shape m n (A B : list (list K)) : length A = m -> mshape m n (mmul n A B).
  Proof.
    intros HA. unfold mshape, mmul. rewrite map_length. split; [exact HA|].
    apply Forall_forall. intros r Hr. apply in_map_iff in Hr as (ra & <- & _).
    rewrite map_length, seq_length. reflexivity.
  Qed.

  Lemma mtrans_shape n (M : list (list K)) : mshape n (length M) (mtrans n M).
  Proof.
    unfold mshape, mtrans. rewrite map_length, seq_length. split; [reflexivity|].
    apply Forall_forall. intros r Hr. apply in_map_iff in Hr as (j & <- & _). unfold mcol. apply map_length.
  Qed.

  Lemma mscale_shape m n c (M : list (list K)) : mshape m n M -> mshape m n (mscale c M).
  Proof.
    intros [A B]. unfold mshape, mscale. rewrite map_length. split; [exact A|].
    apply Forall_forall. intros r Hr. apply in_map_iff in Hr as (r0 & <- & Hin).
    rewrite vscale_length. rewrite Forall_forall in B. apply B; exact Hin.
  Qed.

  Lemma madd_shape m n (A B : list (list K)) : mshape m n A -> mshape m n B -> mshape m n (madd A B).
  Proof.
    intros [A1 A2] [B1 B2]. unfold mshape, madd. rewrite map_length, combine_length. split; [lia|].
    apply Forall_forall. intros r Hr. apply in_map_iff in Hr as ([ra rb] & <- & Hin). cbn [fst snd].
    rewrite Forall_forall in A2, B2. pose proof (in_combine_l _ _ _ _ Hin). pose proof (in_combine_r _ _ _ _ Hin).
    rewrite vadd_length; [apply A2; assumption | rewrite A2, B2 by assumption; reflexivity].
  Qed.

  Lemma mzero_shape m n : mshape m n (@mzero K _ m n).
  Proof.
    unfold mshape, mzero. rewrite repeat_length. split; [reflexivity|].
    apply Forall_forall. intros r Hr. apply repeat_spec in Hr. subst r. apply vzero_length.
  Qed.

  Lemma mshape_Forall2 m n (A B : list (list K)) : mshape m n A -> mshape m n B ->
    Forall2 (fun ra rb => length ra = length rb) A B.
  Proof.
    intros [A1 A2] [B1 B2]. revert m B A1 B1 B2. induction A2 as [|ra A Hra HA IH]; intros m [|rb B] A1 B1 B2; cbn in *; subst; try discriminate; constructor.
    - inversion B2; subst. congruence.
    - inversion B2; subst. eapply IH; eauto.
  Qed.

  (* ---- vectors that are identically zero ---- *)
  Definition allz (v : list K) : Prop := Forall (fun k => k = nzero) v.

  Lemma dot_allz_r (a v : list K) : allz v -> dot a v = nzero.
  Proof.
    intros Hv. revert a. induction Hv as [|k v Hk Hv IH]; intros [|x a]; rewrite ?dot_nil_l, ?dot_nil_r; try reflexivity.
    rewrite dot_cons, IH, Hk. ring.
  Qed.

  Lemma mvmul_allz (M : list (list K)) v : allz v -> allz (mvmul M v).
  Proof.
    intros Hv. unfold allz, mvmul. apply Forall_forall. intros k Hk. apply in_map_iff in Hk as (r & <- & _).
    apply dot_allz_r; exact Hv.
  Qed.

  Lemma allz_vzero n : allz (@vzero K _ n).
  Proof. unfold allz, vzero. apply Forall_forall. intros k Hk. apply repeat_spec in Hk. exact Hk. Qed.

  Lemma allz_vadd (a b : list K) : allz a -> allz b -> allz (vadd a b).
  Proof.
    intros Ha. revert b. induction Ha as [|x a Hx Ha IH]; intros [|y b] Hb; unfold vadd; cbn [combine map]; try constructor.
    - inversion Hb; subst. cbn [fst snd]. ring.
    - inversion Hb; subst. apply IH; assumption.
  Qed.

  Lemma allz_vscale c (a : list K) : allz a -> allz (vscale c a).
  Proof.
    intros Ha. unfold allz, vscale. apply Forall_forall. intros k Hk. apply in_map_iff in Hk as (x & <- & Hx).
    unfold allz in Ha. rewrite Forall_forall in Ha. rewrite (Ha x Hx). ring.
  Qed.

  (* ---- sums of matrices built by a loop  M += f a ---- *)
  Lemma fold_madd_shape {A} m n (f : A -> list (list K)) l M0 :
    mshape m n M0 -> (forall a, In a l -> mshape m n (f a)) ->
    mshape m n (fold_left (fun M a => madd M (f a)) l M0).
  Proof.
    revert M0; induction l as [|a l IH]; intros M0 H0 Hf; cbn [fold_left]; [exact H0|].
    apply IH; [apply madd_shape; [exact H0|apply Hf; left; reflexivity] | intros; apply Hf; right; assumption].
  Qed.

  Lemma fold_madd_null {A} m n (f : A -> list (list K)) l M0 r :
    mshape m n M0 -> (forall a, In a l -> mshape m n (f a)) ->
    allz (mvmul M0 r) -> (forall a, In a l -> allz (mvmul (f a) r)) ->
    allz (mvmul (fold_left (fun M a => madd M (f a)) l M0) r).
  Proof.
    revert M0; induction l as [|a l IH]; intros M0 H0 Hf Hz Hfz; cbn [fold_left]; [exact Hz|].
    assert (Ha : mshape m n (f a)) by (apply Hf; left; reflexivity).
    apply IH.
    - apply madd_shape; assumption.
    - intros; apply Hf; right; assumption.
    - rewrite mvmul_madd by (eapply mshape_Forall2; eassumption). apply allz_vadd; [exact Hz|apply Hfz; left; reflexivity].
    - intros; apply Hfz; right; assumption.
  Qed.

  Lemma bil_madd m n (A B : list (list K)) u v : mshape m n A -> mshape m n B ->
    bil (madd A B) u v = bil A u v + bil B u v.
  Proof.
    intros HA HB. unfold bil. rewrite mvmul_madd by (eapply mshape_Forall2; eassumption).
    apply dot_vadd_r. rewrite !mvmul_length. destruct HA, HB. congruence.
  Qed.

  Lemma fold_madd_bil {A} m n (f : A -> list (list K)) l M0 u v :
    mshape m n M0 -> (forall a, In a l -> mshape m n (f a)) ->
    bil (fold_left (fun M a => madd M (f a)) l M0) u v = bil M0 u v + nsum (map (fun a => bil (f a) u v) l).
  Proof.
    revert M0; induction l as [|a l IH]; intros M0 H0 Hf; cbn [fold_left map]; [cbn; ring|].
    assert (Ha : mshape m n (f a)) by (apply Hf; left; reflexivity).
    rewrite IH; [| apply madd_shape; assumption | intros; apply Hf; right; assumption].
    rewrite (bil_madd m n) by assumption. rewrite nsum_cons. ring.
  Qed.

  Lemma bil_mzero m n u v : bil (@mzero K _ m n) u v = nzero.
  Proof. unfold bil. rewrite mvmul_mzero. apply dot_vzero_r; exact Rth. Qed.

  (* u^T ((c * B^T) @ D @ B) v = c * (B u)^T D (B v) *)
  Lemma bil_BtDB nd ns c (B D : list (list K)) u v :
    Forall (fun r => length r = nd) B -> Forall (fun r => length r = ns) D ->
    bil (mmul nd (mmul ns (mscale c (mtrans nd B)) D) B) u v = c * bil D (mvmul B u) (mvmul B v).
  Proof.
    intros HB HD. unfold bil.
    rewrite (mvmul_mmul nd) by exact HB. rewrite (mvmul_mmul ns) by exact HD.
    rewrite mvmul_mscale, dot_vscale_r, (dot_mtrans nd) by exact HB. reflexivity.
  Qed.

  (* u^T ((c * B^T) @ B) v = c * (B u).(B v) *)
  Lemma bil_BtB nd c (B : list (list K)) u v :
    Forall (fun r => length r = nd) B ->
    bil (mmul nd (mscale c (mtrans nd B)) B) u v = c * dot (mvmul B u) (mvmul B v).
  Proof.
    intros HB. unfold bil.
    rewrite (mvmul_mmul nd) by exact HB.
    rewrite mvmul_mscale, dot_vscale_r, (dot_mtrans nd) by exact HB. reflexivity.
  Qed.

  (* ---- entries ---- *)
  Definition ment (M : list (list K)) (i j : nat) : K := nth j (nth i M []) nzero.

  Lemma msym_ment (M : list (list K)) : msym M <-> forall i j, ment M i j = ment M j i.
  Proof. reflexivity. Qed.

  Lemma nth_madd (A B : list (list K)) i : length A = length B ->
    nth i (madd A B) [] = vadd (nth i A []) (nth i B []).
  Proof.
    revert B i; induction A as [|ra A IH]; intros [|rb B] i Hl; cbn in Hl; try discriminate.
    - destruct i; reflexivity.
    - destruct i as [|i]; [reflexivity|]. unfold madd in *. cbn [combine map nth]. apply IH. lia.
  Qed.

  Lemma ment_madd m n (A B : list (list K)) i j : mshape m n A -> mshape m n B ->
    ment (madd A B) i j = ment A i j + ment B i j.
  Proof.
    intros [A1 A2] [B1 B2]. unfold ment. rewrite nth_madd by congruence.
    assert (Hl : length (nth i A []) = length (nth i B [])).
    { destruct (Nat.lt_ge_cases i m) as [Hi|Hi].
      - rewrite Forall_forall in A2, B2. rewrite A2, B2; [reflexivity | apply nth_In; lia | apply nth_In; lia].
      - rewrite !nth_overflow by lia. reflexivity. }
    apply (vget_vadd Rth _ _ j Hl).
  Qed.

  Lemma ment_mzero m n i j : ment (@mzero K _ m n) i j = nzero.
  Proof.
    unfold ment, mzero. destruct (Nat.lt_ge_cases i m) as [Hi|Hi].
    - rewrite (nth_indep _ [] (vzero n)) by (rewrite repeat_length; exact Hi). rewrite nth_repeat.
      apply (vget_vzero' n j).
    - rewrite (nth_overflow (repeat (vzero n) m)) by (rewrite repeat_length; exact Hi). destruct j; reflexivity.
  Qed.

  Lemma fold_madd_sym {A} n (f : A -> list (list K)) l M0 :
    mshape n n M0 -> (forall a, In a l -> mshape n n (f a)) ->
    msym M0 -> (forall a, In a l -> msym (f a)) ->
    msym (fold_left (fun M a => madd M (f a)) l M0).
  Proof.
    revert M0; induction l as [|a l IH]; intros M0 H0 Hf S0 Sf; cbn [fold_left]; [exact S0|].
    assert (Ha : mshape n n (f a)) by (apply Hf; left; reflexivity).
    apply IH.
    - apply madd_shape; assumption.
    - intros; apply Hf; right; assumption.
    - intros i j. change (ment (madd M0 (f a)) i j = ment (madd M0 (f a)) j i).
      rewrite !(ment_madd n n) by assumption.
      rewrite (S0 i j : ment M0 i j = ment M0 j i). rewrite ((Sf a (or_introl eq_refl)) i j : ment (f a) i j = ment (f a) j i).
      reflexivity.
    - intros; apply Sf; right; assumption.
  Qed.

  Lemma nth_map_lt {A B} (f : A -> B) l i d d' : (i < length l)%nat -> nth i (map f l) d = f (nth i l d').
  Proof.
    intros Hi. rewrite (nth_indep _ d (f d')) by (rewrite map_length; exact Hi). apply map_nth.
  Qed.

  (* entry of a product *)
  Lemma ment_mmul n (A B : list (list K)) i j : (j < n)%nat ->
    ment (mmul n A B) i j = dot (nth i A []) (mcol B j).
  Proof.
    intros Hj. unfold ment, mmul. destruct (Nat.lt_ge_cases i (length A)) as [Hi|Hi].
    - rewrite (nth_map_lt _ A i [] []) by exact Hi.
      rewrite (nth_map_lt _ (seq 0 n) j nzero 0%nat) by (rewrite seq_length; exact Hj).
      rewrite seq_nth by exact Hj. reflexivity.
    - rewrite (nth_overflow (map _ A)) by (rewrite map_length; exact Hi). rewrite (nth_overflow A) by exact Hi.
      rewrite dot_nil_l. destruct j; reflexivity.
  Qed.

  Lemma ment_overflow_col n (M : list (list K)) i j : Forall (fun r => length r = n) M -> (n <= j)%nat ->
    ment M i j = nzero.
  Proof.
    intros HM Hj. unfold ment. destruct (Nat.lt_ge_cases i (length M)) as [Hi|Hi].
    - apply nth_overflow. rewrite Forall_forall in HM. rewrite HM by (apply nth_In; exact Hi). exact Hj.
    - rewrite (nth_overflow M) by exact Hi. destruct j; reflexivity.
  Qed.

  Lemma ment_overflow_row (M : list (list K)) i j : (length M <= i)%nat -> ment M i j = nzero.
  Proof. intros Hi. unfold ment. rewrite (nth_overflow M) by exact Hi. destruct j; reflexivity. Qed.

  Lemma nth_mtrans n (M : list (list K)) i : (i < n)%nat -> nth i (mtrans n M) [] = mcol M i.
  Proof.
    intros Hi. unfold mtrans. rewrite (nth_map_lt _ (seq 0 n) i [] 0%nat) by (rewrite seq_length; exact Hi).
    rewrite seq_nth by exact Hi. reflexivity.
  Qed.

  Lemma nth_mscale c (M : list (list K)) i : nth i (mscale c M) [] = vscale c (nth i M []).
  Proof.
    unfold mscale. destruct (Nat.lt_ge_cases i (length M)) as [Hi|Hi].
    - apply nth_map_lt. exact Hi.
    - rewrite !nth_overflow by (rewrite ?map_length; exact Hi). reflexivity.
  Qed.

  (* entry (i, j) of (c * B^T) @ D @ B  =  c * col_i(B)^T D col_j(B) *)
  Lemma ment_BtDB nd ns c (B D : list (list K)) i j :
    Forall (fun r => length r = ns) D -> (i < nd)%nat -> (j < nd)%nat ->
    ment (mmul nd (mmul ns (mscale c (mtrans nd B)) D) B) i j = c * bil D (mcol B i) (mcol B j).
  Proof.
    intros HD Hi Hj. rewrite ment_mmul by exact Hj.
    unfold mmul at 1.
    rewrite (nth_map_lt _ _ i [] []) by (unfold mscale, mtrans; rewrite !map_length, seq_length; exact Hi).
    rewrite nth_mscale, nth_mtrans by exact Hi.
    rewrite (dot_mmul_row ns) by exact HD. unfold bil. apply dot_vscale_l.
  Qed.

  Lemma ment_BtB nd c (B : list (list K)) i j : (i < nd)%nat -> (j < nd)%nat ->
    ment (mmul nd (mscale c (mtrans nd B)) B) i j = c * dot (mcol B i) (mcol B j).
  Proof.
    intros Hi Hj. rewrite ment_mmul by exact Hj. rewrite nth_mscale, nth_mtrans by exact Hi. apply dot_vscale_l.
  Qed.
End Laws.
