(* A ring with an anti-involution (transpose) and an involution (entry-wise conjugation):
   the algebra in which the solve() expressions of pymoto/solvers/dense.py and the formulas of
   pymoto/modules/linalg.py are stated (T-alg dialect).  Matrices 'M[C]_n with ^T and conjugation are
   an instance; so is every ring of square blocks, so that "b" can be a vector or a block of columns
   (embed n x k, k <= n, as an n x n matrix with zero columns; all identities used are left-linear).

   Definitions and elementary consequences of the laws; everything is closed under the global
   context (no axioms). *)
From mathcomp Require Import all_ssreflect all_algebra.
Set Implicit Arguments.
Unset Strict Implicit.
Unset Printing Implicit Defensive.
Import GRing.Theory.
Local Open Scope ring_scope.

(* the mode argument `trans` of LinearSolver.solve *)
Inductive trans := tN | tT | tH.

Definition trans_eqb (a b : trans) : bool :=
  match a, b with tN, tN | tT, tT | tH, tH => true | _, _ => false end.

(* laws of transpose `tr` and conjugation `cj` *)
Record star_laws (M : ringType) (tr cj : M -> M) : Prop := StarLaws {
  trM_ : forall a b, tr (a * b) = tr b * tr a;
  trD_ : forall a b, tr (a + b) = tr a + tr b;
  trK_ : forall a, tr (tr a) = a;
  cjM_ : forall a b, cj (a * b) = cj a * cj b;
  cjD_ : forall a b, cj (a + b) = cj a + cj b;
  cjK_ : forall a, cj (cj a) = a;
  cjtr_ : forall a, cj (tr a) = tr (cj a)
}.

Section Star.
Variable M : ringType.
Variables tr cj : M -> M.
Hypothesis SL : star_laws tr cj.

Definition trM := trM_ SL.
Definition trD := trD_ SL.
Definition trK := trK_ SL.
Definition cjM := cjM_ SL.
Definition cjD := cjD_ SL.
Definition cjK := cjK_ SL.
Definition cjtr := cjtr_ SL.

(* Hermitian transpose *)
Definition hm (a : M) : M := tr (cj a).

(* op_trans(A) of the property text *)
Definition op (t : trans) (a : M) : M :=
  match t with tN => a | tT => tr a | tH => hm a end.

Lemma tr1 : tr 1 = 1.
Proof. by rewrite -[LHS]mulr1 -{2}(trK 1) -trM mulr1 trK. Qed.

Lemma cj1 : cj 1 = 1.
Proof. by rewrite -[LHS]mulr1 -{2}(cjK 1) -cjM mul1r cjK. Qed.

Lemma tr0 : tr 0 = 0.
Proof. by apply: (addrI (tr 0)); rewrite -trD !addr0. Qed.

Lemma cj0 : cj 0 = 0.
Proof. by apply: (addrI (cj 0)); rewrite -cjD !addr0. Qed.

Lemma trN a : tr (- a) = - tr a.
Proof. by apply: (addrI (tr a)); rewrite -trD !subrr tr0. Qed.

Lemma cjN a : cj (- a) = - cj a.
Proof. by apply: (addrI (cj a)); rewrite -cjD !subrr cj0. Qed.

Lemma trB a b : tr (a - b) = tr a - tr b.
Proof. by rewrite trD trN. Qed.

Lemma cjB a b : cj (a - b) = cj a - cj b.
Proof. by rewrite cjD cjN. Qed.

Lemma hmM a b : hm (a * b) = hm b * hm a.
Proof. by rewrite /hm cjM trM. Qed.

Lemma hmK a : hm (hm a) = a.
Proof. by rewrite /hm cjtr cjK trK. Qed.

Lemma hm1 : hm 1 = 1.
Proof. by rewrite /hm cj1 tr1. Qed.

Lemma hmD a b : hm (a + b) = hm a + hm b.
Proof. by rewrite /hm cjD trD. Qed.

Lemma hmE a : hm a = cj (tr a).
Proof. by rewrite /hm cjtr. Qed.

Lemma tr_hm a : tr (hm a) = cj a.
Proof. by rewrite /hm trK. Qed.

Lemma cj_hm a : cj (hm a) = tr a.
Proof. by rewrite hmE cjK. Qed.

Lemma hm_tr a : hm (tr a) = cj a.
Proof. by rewrite hmE trK. Qed.

Lemma hm_cj a : hm (cj a) = tr a.
Proof. by rewrite /hm cjK. Qed.

Lemma op1 t : op t 1 = 1.
Proof. by case: t; rewrite /= ?tr1 ?hm1. Qed.

(* two-sided inverses are preserved by tr, cj, hm, op *)
Lemma tr_inv a b : a * b = 1 -> tr b * tr a = 1.
Proof. by move=> E; rewrite -trM E tr1. Qed.

Lemma cj_inv a b : a * b = 1 -> cj a * cj b = 1.
Proof. by move=> E; rewrite -cjM E cj1. Qed.

Lemma hm_inv a b : a * b = 1 -> hm b * hm a = 1.
Proof. by move=> E; rewrite -hmM E hm1. Qed.

(* cancellation helpers used by all solver proofs *)
Lemma mulKr_eq (a a' x : M) : a * a' = 1 -> a * (a' * x) = x.
Proof. by move=> E; rewrite mulrA E mul1r. Qed.

End Star.

(* Selectors: complementary idempotents standing for a partition of the dofs (free / prescribed, or
   main / free).  D_f x keeps the rows in f and zeroes the others; D_f a D_p is the block A_fp. *)
Record selectors (M : ringType) (tr cj : M -> M) (Df Dp : M) : Prop := Selectors {
  sel_sum : Df + Dp = 1;
  sel_fp : Df * Dp = 0;
  sel_pf : Dp * Df = 0;
  sel_trf : tr Df = Df;
  sel_trp : tr Dp = Dp;
  sel_cjf : cj Df = Df;
  sel_cjp : cj Dp = Dp
}.

Section Sel.
Variable M : ringType.
Variables tr cj : M -> M.
Variables Df Dp : M.
Hypothesis SE : selectors tr cj Df Dp.

Lemma sel_ff : Df * Df = Df.
Proof.
  by rewrite -{3}[Df]mulr1 -(sel_sum SE) mulrDr (sel_fp SE) addr0.
Qed.

Lemma sel_pp : Dp * Dp = Dp.
Proof.
  by rewrite -{3}[Dp]mulr1 -(sel_sum SE) mulrDr (sel_pf SE) add0r.
Qed.

Lemma sel_split (x : M) : x = Df * x + Dp * x.
Proof. by rewrite -mulrDl (sel_sum SE) mul1r. Qed.

Lemma sel_split_r (x : M) : x = x * Df + x * Dp.
Proof. by rewrite -mulrDr (sel_sum SE) mulr1. Qed.

End Sel.

(* Instance: square matrices over any ring R with an involutive ring morphism (entry-wise conjugation; the identity
   for real matrices), transpose = trmx.  R commutative is what makes trmx anti-multiplicative. *)
Section MatrixInstance.
Variable R : comRingType.
Variable cjR : {rmorphism R -> R}.
Hypothesis cjRK : involutive cjR.
Variable n : nat.
Local Notation Mx := 'M[R]_n.+1.

Definition mx_tr (a : Mx) : Mx := a^T%R.
Definition mx_cj (a : Mx) : Mx := map_mx cjR a.

Lemma matrix_star_laws : star_laws mx_tr mx_cj.
Proof.
  split; rewrite /mx_tr /mx_cj.
  - by move=> a b; rewrite trmx_mul.
  - by move=> a b; rewrite linearD.
  - by move=> a; rewrite trmxK.
  - by move=> a b; rewrite map_mxM.
  - by move=> a b; rewrite map_mxD.
  - by move=> a; apply/matrixP => i j; rewrite !mxE cjRK.
  - by move=> a; rewrite map_trmx.
Qed.
End MatrixInstance.
