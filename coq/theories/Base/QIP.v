(* The Gaussian rationals of Base/QI.v satisfy the laws of Base/FldP.v (class FldLaws):
   every theorem of Proofs/LdaP.v therefore holds for the very instance that the correspondence check evaluates. *)
From Coq Require Import QArith Qcanon List Bool Field Ring Lqa Lia.
From Pymoto Require Import Base.Fld Base.FldP Base.QI.
Import ListNotations.

Local Open Scope Qc_scope.

Lemma Qc_sq_sum_zero (a b : Qc) : a * a + b * b = 0 -> a = 0 /\ b = 0.
Proof.
  intros E. assert (E' : (this a * this a + this b * this b == 0)%Q).
  { apply (f_equal this) in E. unfold Qcplus, Qcmult, Q2Qc in E. cbn [this] in E.
    assert (E0 : (Qred (Qred (this a * this a) + Qred (this b * this b)) == 0)%Q) by (rewrite E; reflexivity).
    rewrite !Qred_correct in E0. exact E0. }
  split; apply Qc_is_canon; change (this 0) with 0%Q; nra.
Qed.

Lemma Qc_sq_sum_nonneg (a b : Qc) : 0 <= a * a + b * b.
Proof. unfold Qcle, Qcplus, Qcmult, Q2Qc. cbn [this]. rewrite !Qred_correct. change (this 0) with 0%Q. nra. Qed.

Lemma Cnorm2_zero (z : C) : Cnorm2 z = 0 -> z = C0.
Proof. destruct z as [a b]. unfold Cnorm2. simpl. intros E. apply Qc_sq_sum_zero in E as [-> ->]. reflexivity. Qed.

Ltac cring := intros; repeat match goal with z : C |- _ => destruct z end;
              unfold Cadd, Cmul, Csub, Copp, Cconj, C0, C1; simpl; f_equal; ring.

Lemma C_ring : ring_theory C0 C1 Cadd Cmul Csub Copp (@eq C).
Proof. constructor; cring. Qed.

Lemma C_field : field_theory C0 C1 Cadd Cmul Csub Copp Cdiv Cinv (@eq C).
Proof.
  constructor.
  - exact C_ring.
  - intros E. apply (f_equal fst) in E. simpl in E. discriminate.
  - reflexivity.
  - intros [a b] Hne. assert (Hd : Cnorm2 (a, b) <> 0).
    { intros E. apply Hne. apply Cnorm2_zero; auto. }
    unfold Cmul, Cinv, C1. simpl fst. simpl snd. unfold Cnorm2 in *. simpl fst in *. simpl snd in *.
    f_equal; field; exact Hd.
Qed.

Lemma Cis0_spec (a : C) : Cis0 a = true <-> a = C0.
Proof.
  destruct a as [x y]. unfold Cis0, C0. simpl. split.
  - intros E. apply andb_true_iff in E as [E1 E2]. apply Qc_eq_bool_correct in E1, E2. congruence.
  - intros E. inversion E; subst. reflexivity.
Qed.

Lemma C_nrm2_fst (v : list C) :
  fst (@nrm2 C FldC v) = fold_right (fun z acc => Cnorm2 z + acc) 0 v /\ 0 <= fst (@nrm2 C FldC v).
Proof.
  unfold nrm2. induction v as [|[a b] v [IH1 IH2]]; simpl.
  - split; [reflexivity | apply Qcle_refl].
  - unfold vconj in *. simpl in *. rewrite <- IH1. split.
    + unfold Cnorm2. simpl. ring.
    + replace (a * a - - b * b) with (a * a + b * b) by ring.
      replace 0 with (0 + 0) by ring. apply Qcplus_le_compat; auto. apply Qc_sq_sum_nonneg.
Qed.

Lemma C_nrm2_definite (v : list C) : @nrm2 C FldC v = C0 -> Forall (fun z => z = C0) v.
Proof.
  induction v as [|[a b] v IH]; intros E; constructor.
  - apply Cnorm2_zero. apply (f_equal fst) in E.
    destruct (C_nrm2_fst ((a, b) :: v)) as [E1 _]. pose proof (eq_trans (eq_sym E1) E) as E3. clear E E1. rename E3 into E. simpl in E.
    destruct (C_nrm2_fst v) as [E2 Hpos]. rewrite <- E2 in E.
    pose proof (Qc_sq_sum_nonneg a b) as Hn. unfold Cnorm2 in *. simpl in *.
    apply Qcle_antisym; auto.
    rewrite <- E. rewrite <- (Qcplus_0_r (a * a + b * b)) at 1. apply Qcplus_le_compat; auto. apply Qcle_refl.
  - apply IH. apply (f_equal fst) in E as E'.
    destruct (C_nrm2_fst ((a, b) :: v)) as [E1 _]. pose proof (eq_trans (eq_sym E1) E') as E3. clear E' E1. rename E3 into E'. simpl in E'.
    destruct (C_nrm2_fst v) as [E2 Hpos]. rewrite <- E2 in E'.
    pose proof (Qc_sq_sum_nonneg a b) as Hn. unfold Cnorm2 in *. simpl in *.
    assert (Ez : fst (@nrm2 C FldC v) = 0).
    { apply Qcle_antisym; auto. rewrite <- E'. rewrite <- (Qcplus_0_l (fst (nrm2 v))) at 1.
      apply Qcplus_le_compat; auto. apply Qcle_refl. }
    assert (Eab : a * a + b * b = 0) by (rewrite Ez in E'; rewrite <- E'; ring).
    apply Qc_sq_sum_zero in Eab as [-> ->].
    unfold nrm2 in *. simpl in E. unfold vconj in *. simpl in E.
    destruct (vdot (map fconj v) v) as [p q] eqn:Ev. simpl in *.
    rewrite Ev in E. apply (f_equal snd) in E. unfold Cadd, Cmul, Cconj, C0 in E. cbn [fst snd] in E.
    unfold C0. rewrite Ez. f_equal. rewrite <- E. ring.
Qed.

#[global] Instance FldLawsC : @FldLaws C FldC.
Proof.
  constructor.
  - exact C_field.
  - intros [a b] [c d]. cbn [fconj fadd FldC]. unfold Cconj, Cadd. cbn [fst snd]. f_equal. ring.
  - intros [a b] [c d]. cbn [fconj fmul FldC]. unfold Cconj, Cmul. cbn [fst snd]. f_equal; ring.
  - reflexivity.
  - intros [a b]. cbn [fconj FldC]. unfold Cconj. cbn [fst snd]. f_equal. ring.
  - exact Cis0_spec.
  - exact C_nrm2_definite.
Qed.
