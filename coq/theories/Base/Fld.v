(* Field-with-involution signature and list vectors / list-of-rows matrices over it.
   Definitions only (lemmas: Base/FldP.v).  Used by Model/Lda.v (C06).
   The same definitions are instantiated with an abstract field (theorems, Proofs/LdaP.v) and with the
   Gaussian rationals Qc[i] (evaluation inside Coq, Base/QI.v). *)
From Coq Require Import List Bool Arith.
Import ListNotations.

Class Fld (F : Type) := {
  f0 : F; f1 : F;
  fadd : F -> F -> F; fmul : F -> F -> F; fsub : F -> F -> F; fopp : F -> F;
  fdiv : F -> F -> F; finv : F -> F;
  fconj : F -> F;        (* the involution (complex conjugation; identity on a real field) *)
  fis0 : F -> bool       (* decision "== 0" (all the `!= 0`, `== 0`, `> tol` tests of the code, exact arithmetic) *)
}.

Fixpoint map2 {A B C} (f : A -> B -> C) (a : list A) (b : list B) : list C :=
  match a, b with
  | x :: a', y :: b' => f x y :: map2 f a' b'
  | _, _ => []
  end.

(* pick the entries whose flag is set: l[flags] *)
Fixpoint pick {A} (fl : list bool) (l : list A) : list A :=
  match fl, l with
  | true :: fl', x :: l' => x :: pick fl' l'
  | false :: fl', _ :: l' => pick fl' l'
  | _, _ => []
  end.

Definition count_true (l : list bool) : nat := length (filter (fun b => b) l).

Section Vec.
  Context {F : Type} `{Fld F}.

  Definition vec := list F.
  Definition mat := list (list F).      (* list of rows *)

  Definition vadd (a b : vec) : vec := map2 fadd a b.
  Definition vsub (a b : vec) : vec := map2 fsub a b.
  Definition vscale (c : F) (a : vec) : vec := map (fmul c) a.
  Definition vconj (a : vec) : vec := map fconj a.
  Definition vzero (n : nat) : vec := repeat f0 n.

  (* a @ b (no conjugation) *)
  Fixpoint vdot (a b : vec) : F :=
    match a, b with
    | x :: a', y :: b' => fadd (fmul x y) (vdot a' b')
    | _, _ => f0
    end.
  (* r.T @ b.conj() *)
  Definition hdot (r b : vec) : F := vdot r (vconj b).
  (* b.conj() @ b *)
  Definition nrm2 (b : vec) : F := vdot (vconj b) b.

  Definition mv (A : mat) (x : vec) : vec := map (fun row => vdot row x) A.
  Definition mconj (A : mat) : mat := map vconj A.
  Definition ncols (A : mat) : nat := match A with [] => 0 | r :: _ => length r end.
  Definition col (j : nat) (A : mat) : vec := map (fun row => nth j row f0) A.
  Definition mtrans (A : mat) : mat := map (fun j => col j A) (seq 0 (ncols A)).
  (* A.conj().T *)
  Definition mH (A : mat) : mat := mtrans (mconj A).
  Definition entry (A : mat) (i j : nat) : F := nth j (nth i A []) f0.
  Definition diag (A : mat) : vec := map (fun i => entry A i i) (seq 0 (length A)).

  Definition vis0 (v : vec) : bool := forallb fis0 v.
  Definition feqb (a b : F) : bool := fis0 (fsub a b).
  Fixpoint veqb (a b : vec) : bool :=
    match a, b with
    | [], [] => true
    | x :: a', y :: b' => feqb x y && veqb a' b'
    | _, _ => false
    end.
  Fixpoint mat_eqb (A B : mat) : bool :=
    match A, B with
    | [], [] => true
    | r :: A', s :: B' => veqb r s && mat_eqb A' B'
    | _, _ => false
    end.

  (* masks: m[i] = true marks a "diagonal" dof.  pd keeps the marked entries, pn the others (zero elsewhere) *)
  Definition pd (m : list bool) (v : vec) : vec := map2 (fun (b : bool) z => if b then z else f0) m v.
  Definition pn (m : list bool) (v : vec) : vec := map2 (fun (b : bool) z => if b then f0 else z) m v.

  (* well-formed square matrix of size n *)
  Definition wfm (n : nat) (A : mat) : Prop := length A = n /\ Forall (fun r => length r = n) A.
  Definition wfmb (n : nat) (A : mat) : bool := (length A =? n) && forallb (fun r => length r =? n) A.

  (* ---- exact Gauss-Jordan elimination (evaluation helper: the "inner solver" of the in-Coq runs) *)
  Fixpoint extract_pivot (k : nat) (rest : list vec) : option (vec * list vec) :=
    match rest with
    | [] => None
    | r :: t => if fis0 (nth k r f0)
                then match extract_pivot k t with None => None | Some (p, t') => Some (p, r :: t') end
                else Some (r, t)
    end.
  Definition row_elim (k : nat) (p r : vec) : vec := vsub r (vscale (nth k r f0) p).
  Fixpoint gj (fuel k : nat) (done rest : list vec) : option (list vec) :=
    match fuel with
    | O => Some done
    | S f => match extract_pivot k rest with
             | None => None
             | Some (p, rest') =>
                 let p' := vscale (finv (nth k p f0)) p in
                 gj f (S k) (map (row_elim k p') done ++ [p']) (map (row_elim k p') rest')
             end
    end.
  (* columns X with A X = R (R given as a list of columns); None when no pivot is found *)
  Definition gauss_solve (A : mat) (R : list vec) : option (list vec) :=
    let n := length A in
    let aug := map2 (fun row i => row ++ map (fun c => nth i c f0) R) A (seq 0 n) in
    match gj n 0 [] aug with
    | None => None
    | Some rows => let tails := map (skipn n) rows in
                   Some (map (fun j => map (fun t => nth j t f0) tails) (seq 0 (length R)))
    end.
End Vec.
Arguments vec : clear implicits.
Arguments mat : clear implicits.
