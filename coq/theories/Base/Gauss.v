(* Gaussian integers Z[i] as pairs (re, im): the number domain of the DyadCarrier model (C15).
   Integer-valued float64 / complex128 data of the implementation is represented exactly.
   Ring structure (registered for the `ring` tactic), conjugation, real / imaginary part, finite sums. *)
From Coq Require Import ZArith List Bool Ring Lia.
Import ListNotations.
Local Open Scope Z_scope.

Definition C : Type := (Z * Z)%type.

Definition c0 : C := (0, 0).
Definition c1 : C := (1, 0).
Definition cadd (a b : C) : C := (fst a + fst b, snd a + snd b).
Definition cmul (a b : C) : C := (fst a * fst b - snd a * snd b, fst a * snd b + snd a * fst b).
Definition copp (a : C) : C := (- fst a, - snd a).
Definition csub (a b : C) : C := (fst a - fst b, snd a - snd b).
Definition cconj (a : C) : C := (fst a, - snd a).
Definition cre (a : C) : C := (fst a, 0).          (* real part, as a (real) Gaussian integer *)
Definition cim (a : C) : C := (snd a, 0).          (* imaginary part, as a (real) Gaussian integer *)
Definition cofZ (z : Z) : C := (z, 0).
Definition ceqb (a b : C) : bool := (fst a =? fst b) && (snd a =? snd b).
Definition cis0 (a : C) : bool := ceqb a c0.
Definition creal (a : C) : Prop := snd a = 0.      (* "has no imaginary part" *)

Arguments cadd : simpl never.
Arguments cmul : simpl never.
Arguments copp : simpl never.
Arguments csub : simpl never.
Arguments cconj : simpl never.
Arguments cre : simpl never.
Arguments cim : simpl never.
Arguments cis0 : simpl never.
Arguments ceqb : simpl never.

Declare Scope C_scope.
Delimit Scope C_scope with C.
Bind Scope C_scope with C.
Infix "+" := cadd : C_scope.
Infix "*" := cmul : C_scope.
Infix "-" := csub : C_scope.
Notation "- x" := (copp x) : C_scope.

Lemma C_ring : ring_theory c0 c1 cadd cmul csub copp (@eq C).
Proof.
  constructor; intros; unfold c0, c1, cadd, cmul, csub, copp;
    repeat match goal with x : C |- _ => destruct x end; cbn [fst snd]; f_equal; ring.
Qed.
Add Ring CRing : C_ring.

Lemma ceqb_eq a b : ceqb a b = true <-> a = b.
Proof.
  destruct a as [a1 a2], b as [b1 b2]; unfold ceqb; cbn [fst snd].
  rewrite andb_true_iff, !Z.eqb_eq. split; [intros [-> ->]; reflexivity | intros E; inversion E; auto].
Qed.
Lemma ceqb_refl a : ceqb a a = true.
Proof. apply ceqb_eq; reflexivity. Qed.
Lemma cis0_eq a : cis0 a = true <-> a = c0.
Proof. apply ceqb_eq. Qed.

Ltac cdestruct :=
  repeat match goal with x : C |- _ => destruct x end;
  unfold c0, c1, cadd, cmul, csub, copp, cconj, cre, cim, cofZ, creal in *; cbn [fst snd] in *.
Ltac csolve := intros; cdestruct; try (f_equal; ring); try lia.

(* conj is a ring involution; re / im are additive; the formulas behind DyadCarrier.real / .imag *)
Lemma cconj_add a b : cconj (a + b) = (cconj a + cconj b)%C.   Proof. csolve. Qed.
Lemma cconj_mul a b : cconj (a * b) = (cconj a * cconj b)%C.   Proof. csolve. Qed.
Lemma cconj_0 : cconj c0 = c0.                                  Proof. reflexivity. Qed.
Lemma cconj_invol a : cconj (cconj a) = a.                      Proof. csolve. Qed.
Lemma cre_add a b : cre (a + b) = (cre a + cre b)%C.            Proof. csolve. Qed.
Lemma cim_add a b : cim (a + b) = (cim a + cim b)%C.            Proof. csolve. Qed.
Lemma cre_0 : cre c0 = c0.                                      Proof. reflexivity. Qed.
Lemma cim_0 : cim c0 = c0.                                      Proof. reflexivity. Qed.
Lemma cre_mul a b : cre (a * b) = (cre a * cre b + (- cim a) * cim b)%C.   Proof. csolve. Qed.
Lemma cim_mul a b : cim (a * b) = (cre a * cim b + cim a * cre b)%C.       Proof. csolve. Qed.
Lemma cmul_0_l a : (c0 * a)%C = c0.   Proof. intros; ring. Qed.
Lemma cmul_0_r a : (a * c0)%C = c0.   Proof. intros; ring. Qed.
Lemma cadd_0_l a : (c0 + a)%C = a.    Proof. intros; ring. Qed.
Lemma cadd_0_r a : (a + c0)%C = a.    Proof. intros; ring. Qed.
Lemma copp_mul_m1 a : (- a)%C = (cofZ (-1) * a)%C.   Proof. csolve. Qed.
Lemma creal_add a b : creal a -> creal b -> creal (a + b).   Proof. csolve. Qed.
Lemma creal_mul a b : creal a -> creal b -> creal (a * b).   Proof. intros; cdestruct; subst; ring. Qed.
Lemma creal_opp a : creal a -> creal (- a).                  Proof. csolve. Qed.
Lemma creal_0 : creal c0.                                    Proof. reflexivity. Qed.
Lemma creal_re a : creal (cre a).                            Proof. reflexivity. Qed.
Lemma creal_im a : creal (cim a).                            Proof. reflexivity. Qed.
Lemma creal_conj a : creal a -> cconj a = a.                 Proof. intros; cdestruct; subst; reflexivity. Qed.

(* finite sums *)
Fixpoint csum (l : list C) : C := match l with [] => c0 | x :: l' => cadd x (csum l') end.

Lemma csum_app l1 l2 : csum (l1 ++ l2) = (csum l1 + csum l2)%C.
Proof. induction l1 as [|x l1 IH]; cbn; [ring | rewrite IH; ring]. Qed.

Lemma csum_map_ext {A} (f g : A -> C) l : (forall x, In x l -> f x = g x) -> csum (map f l) = csum (map g l).
Proof.
  induction l as [|x l IH]; intros H; cbn; [reflexivity|].
  rewrite H by (left; reflexivity). rewrite IH; [reflexivity | intros; apply H; right; assumption].
Qed.

Lemma csum_map_add {A} (f g : A -> C) l : csum (map (fun x => f x + g x)%C l) = (csum (map f l) + csum (map g l))%C.
Proof. induction l as [|x l IH]; cbn; [ring | rewrite IH; ring]. Qed.

Lemma csum_map_mul_l {A} (a : C) (f : A -> C) l : csum (map (fun x => a * f x)%C l) = (a * csum (map f l))%C.
Proof. induction l as [|x l IH]; cbn; [ring | rewrite IH; ring]. Qed.

Lemma csum_map_mul_r {A} (a : C) (f : A -> C) l : csum (map (fun x => f x * a)%C l) = (csum (map f l) * a)%C.
Proof. induction l as [|x l IH]; cbn; [ring | rewrite IH; ring]. Qed.

Lemma csum_map_0 {A} (l : list A) : csum (map (fun _ => c0) l) = c0.
Proof. induction l as [|x l IH]; cbn; [reflexivity | rewrite IH; ring]. Qed.

Lemma csum_map_opp {A} (f : A -> C) l : csum (map (fun x => - f x)%C l) = (- csum (map f l))%C.
Proof. induction l as [|x l IH]; cbn; [ring | rewrite IH; ring]. Qed.

Lemma csum_map_hom {A} (h : C -> C) (f : A -> C) l :
  h c0 = c0 -> (forall a b, h (a + b)%C = (h a + h b)%C) -> csum (map (fun x => h (f x)) l) = h (csum (map f l)).
Proof. intros H0 Ha. induction l as [|x l IH]; cbn; [symmetry; exact H0 | rewrite IH, Ha; reflexivity]. Qed.

(* Fubini for finite sums *)
Lemma csum_swap {A B} (f : A -> B -> C) (la : list A) (lb : list B) :
  csum (map (fun a => csum (map (fun b => f a b) lb)) la) = csum (map (fun b => csum (map (fun a => f a b) la)) lb).
Proof.
  induction la as [|a la IH]; cbn.
  - rewrite csum_map_0. reflexivity.
  - rewrite IH. rewrite <- csum_map_add. reflexivity.
Qed.

Lemma csum_filter_0 {A} (f : A -> C) (p : A -> bool) l :
  (forall x, In x l -> p x = false -> f x = c0) -> csum (map f (filter p l)) = csum (map f l).
Proof.
  induction l as [|x l IH]; intros H; cbn; [reflexivity|].
  assert (IH' : csum (map f (filter p l)) = csum (map f l)) by (apply IH; intros; apply H; [right|]; assumption).
  destruct (p x) eqn:E; cbn; rewrite IH'; [reflexivity|].
  rewrite (H x) by (auto; left; reflexivity). ring.
Qed.

Lemma csum_real l : Forall creal l -> creal (csum l).
Proof. induction 1; cbn; [reflexivity | apply creal_add; assumption]. Qed.
