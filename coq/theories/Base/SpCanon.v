(* Canonical form of a sparse matrix given as (row, col, value) triples over bigQ: keys row*n+col sorted,
   duplicates summed.  Used only by the correspondence checks (evaluation inside Coq) to compare the model's
   triples with scipy's canonical (sum_duplicates) form of the implementation's matrix. *)
From Coq Require Import ZArith QArith List Bool Lia Sorting.Mergesort Orders.
From Bignums Require Import BigQ.
From Pymoto Require Import Base.Num Base.Cmp Base.Qsqrt3.
Import ListNotations.

Module ZBOrder <: TotalLeBool.
  Definition t : Type := (Z * bigQ)%type.
  Definition leb (a b : t) : bool := Z.leb (fst a) (fst b).
  Theorem leb_total : forall a b, leb a b = true \/ leb b a = true.
  Proof.
    intros [a qa] [b qb]; unfold leb; cbn [fst].
    destruct (Z.leb_spec a b) as [L|L]; [left; reflexivity | right; apply Z.leb_le; lia].
  Qed.
End ZBOrder.
Module ZBSort := Sort ZBOrder.

(* l sorted by key: add up runs of equal keys *)
Fixpoint sumdup (l : list (Z * bigQ)) : list (Z * bigQ) :=
  match l with
  | [] => []
  | (k, v) :: t =>
      match sumdup t with
      | (k', v') :: r => if Z.eqb k k' then (k, BigQ.add_norm v v') :: r else (k, v) :: (k', v') :: r
      | [] => [(k, v)]
      end
  end.

Definition sp_canon (n : Z) (T : list (Z * Z * bigQ)) : list (Z * bigQ) :=
  sumdup (ZBSort.sort (map (fun t : Z * Z * bigQ => match t with (r, c, v) => ((r * n + c)%Z, v) end) T)).

(* model (canonical) against observation (canonical, keys strictly increasing).
   strict: identical index structure.  not strict: the model may hold extra entries whose value is ~0
   (scipy's sparse + sparse drops entries that are exactly zero after the addition). *)
Fixpoint sp_cmp (tol : bigQ) (strict : bool) (model : list (Z * bigQ)) (obs : list (Z * Q)) {struct model} : bool :=
  match model with
  | [] => match obs with [] => true | _ => false end
  | (k, v) :: m' =>
      match obs with
      | [] => negb strict && bq_close tol v 0%bigQ && sp_cmp tol strict m' []
      | (k', v') :: o' =>
          if Z.eqb k k' then bq_close tol v (bq v') && sp_cmp tol strict m' o'
          else if Z.ltb k k' then negb strict && bq_close tol v 0%bigQ && sp_cmp tol strict m' obs
          else false
      end
  end.

Definition sp_check (tol : Q) (strict : bool) (n : Z) (T : list (Z * Z * bigQ)) (obs : list (Z * Q)) : bool :=
  sp_cmp (bq tol) strict (sp_canon n T) obs.

(* comparisons of bigQ vectors / matrices with rational observations *)
Definition bql_close (tol : Q) (a : list bigQ) (b : list Q) : bool :=
  list_eqb (fun x y => bq_close (bq tol) x y) a (bql b).
Definition bqm_close (tol : Q) (a : list (list bigQ)) (b : list (list Q)) : bool :=
  list_eqb (list_eqb (fun x y => bq_close (bq tol) x y)) a (bqm b).
