(* The field F(sqrt 3) as records a + b*sqrt(3) over an executable base field F
   (F = Q: stdlib rationals reduced after every operation;  F = bigQ: Bignums rationals on 63-bit machine
   integers, ~15x faster under vm_compute).  Used to EXECUTE the 2-point Gauss quadrature loops of the FE
   modules exactly (pos = n*(siz/2)/np.sqrt(3)); element matrices come out with zero sqrt(3) part.
   Definitions only (evaluation inside the correspondence checks; no theorem mentions these types). *)
From Coq Require Import ZArith QArith List Bool.
From Bignums Require Import BigQ.
From Pymoto Require Import Base.Num.
Import ListNotations.

(* ---- bigQ as a numeric type ---- *)
#[global] Instance NumBQ : Num bigQ :=
  {| nzero := 0%bigQ; none_ := 1%bigQ; nadd := BigQ.add_norm; nmul := BigQ.mul_norm; nsub := BigQ.sub_norm;
     nopp := BigQ.opp; ndiv := BigQ.div_norm; nofZ := fun z => BigQ.Qz (BigZ.of_Z z) |}.

Definition bq (q : Q) : bigQ := BigQ.red (BigQ.of_Q q).
Definition bql (l : list Q) : list bigQ := map bq l.
Definition bqm (m : list (list Q)) : list (list bigQ) := map bql m.
Definition qb (b : bigQ) : Q := BigQ.to_Q b.
Definition qbl (l : list bigQ) : list Q := map qb l.
Definition qbm (m : list (list bigQ)) : list (list Q) := map qbl m.
Definition bq_leb (a b : bigQ) : bool := match BigQ.compare a b with Gt => false | _ => true end.
Definition bq_abs (a : bigQ) : bigQ := if bq_leb 0%bigQ a then a else BigQ.opp a.
(* |a - b| <= tol *)
Definition bq_close (tol a b : bigQ) : bool := bq_leb (bq_abs (BigQ.sub a b)) tol.
Definition bq_max_list (l : list bigQ) : bigQ :=
  match l with [] => 0%bigQ | a :: t => fold_left (fun m v => if bq_leb m v then v else m) t a end.

(* ---- zero test (short-cuts in the multiplication; mathematically irrelevant) ---- *)
Class ZeroTest (F : Type) := { is0 : F -> bool }.
#[global] Instance ZT_Q : ZeroTest Q := {| is0 := fun q => Qeq_bool q 0 |}.
#[global] Instance ZT_BQ : ZeroTest bigQ := {| is0 := fun q => BigQ.eqb q 0%bigQ |}.

Record s3 (F : Type) : Type := S3 { s3a : F; s3b : F }.   (* s3a + s3b * sqrt 3 *)
Arguments S3 {F} _ _.
Arguments s3a {F} _.
Arguments s3b {F} _.

Section S3.
  Context {F : Type} `{Num F} `{ZeroTest F}.
  Local Open Scope num_scope.
  Definition three : F := none_ + none_ + none_.
  Definition s3_of (a : F) : s3 F := S3 a nzero.
  Definition s3_add (x y : s3 F) : s3 F := S3 (s3a x + s3a y) (s3b x + s3b y).
  Definition s3_sub (x y : s3 F) : s3 F := S3 (s3a x - s3a y) (s3b x - s3b y).
  Definition s3_opp (x : s3 F) : s3 F := S3 (- s3a x) (- s3b x).
  (* (a1 + b1 r)(a2 + b2 r) = a1 a2 + 3 b1 b2 + (a1 b2 + b1 a2) r *)
  Definition s3_mul (x y : s3 F) : s3 F :=
    if is0 (s3b x) then
      (if is0 (s3a x) then S3 nzero nzero
       else if is0 (s3b y) then S3 (s3a x * s3a y) nzero
       else S3 (s3a x * s3a y) (s3a x * s3b y))
    else if is0 (s3b y) then
      (if is0 (s3a y) then S3 nzero nzero else S3 (s3a x * s3a y) (s3b x * s3a y))
    else S3 (s3a x * s3a y + three * (s3b x * s3b y)) (s3a x * s3b y + s3b x * s3a y).
  (* 1/(a + b r) = (a - b r)/(a^2 - 3 b^2) *)
  Definition s3_inv (x : s3 F) : s3 F :=
    let n := s3a x * s3a x - three * (s3b x * s3b x) in
    S3 (s3a x / n) ((- s3b x) / n).
  Definition s3_div (x y : s3 F) : s3 F := s3_mul x (s3_inv y).

  #[global] Instance NumS3 : Num (s3 F) :=
    {| nzero := S3 nzero nzero; none_ := S3 none_ nzero; nadd := s3_add; nmul := s3_mul; nsub := s3_sub;
       nopp := s3_opp; ndiv := s3_div; nofZ := fun z => S3 (nofZ z) nzero |}.

  #[global] Instance ZT_S3 : ZeroTest (s3 F) := {| is0 := fun x => is0 (s3a x) && is0 (s3b x) |}.

  (* the number np.sqrt(3) *)
  Definition s3_root : s3 F := S3 nzero none_.

  (* rational part / test that the sqrt(3) part vanishes *)
  Definition s3_ratl (l : list (s3 F)) : list F := map s3a l.
  Definition s3_ratm (m : list (list (s3 F))) : list (list F) := map s3_ratl m.
  Definition s3_rational_l (l : list (s3 F)) : bool := forallb (fun x => is0 (s3b x)) l.
  Definition s3_rational_m (m : list (list (s3 F))) : bool := forallb s3_rational_l m.
  Definition s3_injl (l : list F) : list (s3 F) := map s3_of l.
End S3.

Definition Qs3 : Type := s3 Q.
Definition Bs3 : Type := s3 bigQ.
