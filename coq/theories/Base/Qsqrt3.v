(* The field Q(sqrt 3) as pairs (a, b) = a + b*sqrt(3), a b : Q (reduced after every operation).
   Used to EXECUTE the 2-point Gauss quadrature loops of the FE modules exactly
   (pos = n*(siz/2)/np.sqrt(3)); element matrices come out with zero sqrt(3) part.
   Definitions only. *)
From Coq Require Import ZArith QArith List.
From Pymoto Require Import Base.Num.
Import ListNotations.

Definition Qs3 : Type := (Q * Q)%type.

Definition s3_of_Q (q : Q) : Qs3 := (Qred q, 0%Q).
Definition s3_add (x y : Qs3) : Qs3 := (Qradd (fst x) (fst y), Qradd (snd x) (snd y)).
Definition s3_sub (x y : Qs3) : Qs3 := (Qrsub (fst x) (fst y), Qrsub (snd x) (snd y)).
Definition s3_opp (x : Qs3) : Qs3 := (Qopp (fst x), Qopp (snd x)).
(* (a1 + b1 r)(a2 + b2 r) = a1 a2 + 3 b1 b2 + (a1 b2 + b1 a2) r *)
Definition s3_mul (x y : Qs3) : Qs3 :=
  (Qradd (Qrmul (fst x) (fst y)) (Qrmul 3 (Qrmul (snd x) (snd y))),
   Qradd (Qrmul (fst x) (snd y)) (Qrmul (snd x) (fst y))).
(* 1/(a + b r) = (a - b r)/(a^2 - 3 b^2) *)
Definition s3_inv (x : Qs3) : Qs3 :=
  let n := Qrsub (Qrmul (fst x) (fst x)) (Qrmul 3 (Qrmul (snd x) (snd x))) in
  (Qrdiv (fst x) n, Qrdiv (Qopp (snd x)) n).
Definition s3_div (x y : Qs3) : Qs3 := s3_mul x (s3_inv y).

#[global] Instance NumQs3 : Num Qs3 :=
  {| nzero := (0%Q, 0%Q); none_ := (1%Q, 0%Q); nadd := s3_add; nmul := s3_mul; nsub := s3_sub; nopp := s3_opp;
     ndiv := s3_div; nofZ := fun z => (inject_Z z, 0%Q) |}.

(* the number np.sqrt(3) *)
Definition s3_root : Qs3 := (0%Q, 1%Q).

(* rational part / irrational part of vectors and matrices *)
Definition s3_ratl (l : list Qs3) : list Q := map fst l.
Definition s3_irrl (l : list Qs3) : list Q := map snd l.
Definition s3_ratm (m : list (list Qs3)) : list (list Q) := map s3_ratl m.
Definition s3_rational_l (l : list Qs3) : bool := forallb (fun x => Qeq_bool (snd x) 0) l.
Definition s3_rational_m (m : list (list Qs3)) : bool := forallb s3_rational_l m.
Definition s3_injl (l : list Q) : list Qs3 := map s3_of_Q l.
