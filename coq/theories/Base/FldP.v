(* Lemmas about the list vectors / matrices of Base/Fld.v over an abstract field with involution.
   The field laws are Section hypotheses (explicit premises after the section closes); they are proved for the
   Gaussian rationals in Proofs/LdaP.v. *)
From Coq Require Import List Bool Arith Lia Field Ring.
From Pymoto Require Import Base.Fld.
Import ListNotations.

(* ---------------------------------------------------------------- generic list facts *)
Lemma map2_length {A B C} (f : A -> B -> C) a b : length a = length b -> length (map2 f a b) = length a.
Proof. revert b; induction a as [|x a IH]; intros [|y b] E; simpl in *; try discriminate; auto. Qed.

Lemma map2_map_l {A A' B C} (f : A' -> B -> C) (g : A -> A') a b : map2 f (map g a) b = map2 (fun x y => f (g x) y) a b.
Proof. revert b; induction a as [|x a IH]; intros [|y b]; simpl; auto. f_equal; auto. Qed.
Lemma map2_map_r {A B B' C} (f : A -> B' -> C) (g : B -> B') a b : map2 f a (map g b) = map2 (fun x y => f x (g y)) a b.
Proof. revert b; induction a as [|x a IH]; intros [|y b]; simpl; auto. f_equal; auto. Qed.
Lemma map2_diag {A C} (f : A -> A -> C) a : map2 f a a = map (fun x => f x x) a.
Proof. induction a; simpl; f_equal; auto. Qed.
Lemma map_map2 {A B C D} (g : C -> D) (f : A -> B -> C) a b : map g (map2 f a b) = map2 (fun x y => g (f x y)) a b.
Proof. revert b; induction a as [|x a IH]; intros [|y b]; simpl; auto. f_equal; auto. Qed.
Lemma map2_ext {A B C} (f g : A -> B -> C) a b : (forall x y, f x y = g x y) -> map2 f a b = map2 g a b.
Proof. intros E; revert b; induction a as [|x a IH]; intros [|y b]; simpl; auto. rewrite E; f_equal; auto. Qed.

Lemma nth_map2 {A B C} (f : A -> B -> C) a b i da db dc :
  i < length a -> length a = length b -> nth i (map2 f a b) dc = f (nth i a da) (nth i b db).
Proof.
  revert b i; induction a as [|x a IH]; intros [|y b] i Hi E; simpl in *; try lia.
  destruct i; auto. apply IH; lia.
Qed.

Lemma nth_ext_len {A} (a b : list A) d : length a = length b ->
  (forall i, i < length a -> nth i a d = nth i b d) -> a = b.
Proof. intros E Hn. apply (nth_ext a b d d E Hn). Qed.

(* the laws: a field (Leibniz equality) with an involutive ring automorphism, a correct zero test and a
   definite norm (sum of z * conj z over a vector vanishes only for the zero vector) *)
Class FldLaws (F : Type) {I : Fld F} : Prop := {
  Fth : field_theory f0 f1 fadd fmul fsub fopp fdiv finv (@eq F);
  conj_add : forall a b, fconj (fadd a b) = fadd (fconj a) (fconj b);
  conj_mul : forall a b, fconj (fmul a b) = fmul (fconj a) (fconj b);
  conj_0 : fconj f0 = f0;
  conj_invol : forall a, fconj (fconj a) = a;
  is0_spec : forall a, fis0 a = true <-> a = f0;
  nrm2_definite : forall v : list F, nrm2 v = f0 -> Forall (fun z => z = f0) v
}.

Lemma nth_firstn_lt {A} (l : list A) k i d : i < k -> nth i (firstn k l) d = nth i l d.
Proof. revert k i; induction l as [|x l IH]; intros [|k] [|i] H; simpl; auto; try lia. apply IH; lia. Qed.

Lemma nth_map_default {A B} (f : A -> B) l k d d' : f d = d' -> nth k (map f l) d' = f (nth k l d).
Proof. intros <-. apply map_nth. Qed.

Lemma Forall2_cons_inv_l {A B} (R : A -> B -> Prop) a l L :
  Forall2 R (a :: l) L -> exists b L', L = b :: L' /\ R a b /\ Forall2 R l L'.
Proof. intros H. inversion H; subst. eauto. Qed.

Section FieldVec.
  Context {F : Type} {I : Fld F} {L : FldLaws F}.
  Add Field FF : (@Fth F I L).

  Local Notation "0" := f0.
  Local Notation "1" := f1.
  Local Infix "+" := fadd.
  Local Infix "*" := fmul.
  Local Infix "-" := fsub.
  Local Infix "/" := fdiv.

  Lemma is0_false a : fis0 a = false <-> a <> 0.
  Proof. split; intros H. - intros E. apply is0_spec in E. congruence.
    - destruct (fis0 a) eqn:E; auto. apply is0_spec in E. contradiction. Qed.
  Lemma feqb_spec a b : feqb a b = true <-> a = b.
  Proof. unfold feqb. rewrite is0_spec. split; intros E. - transitivity ((a - b) + b); [ring | rewrite E; ring].
    - subst; ring. Qed.
  Lemma veqb_spec a b : veqb a b = true <-> a = b.
  Proof.
    revert b; induction a as [|x a IH]; intros [|y b]; simpl; split; intros E; try discriminate; auto.
    - apply andb_true_iff in E as [E1 E2]. apply feqb_spec in E1. apply IH in E2. congruence.
    - inversion E; subst. apply andb_true_iff; split; [apply feqb_spec | apply IH]; auto.
  Qed.
  Lemma mat_eqb_spec A B : mat_eqb A B = true <-> A = B.
  Proof.
    revert B; induction A as [|x a IH]; intros [|y b]; simpl; split; intros E; try discriminate; auto.
    - apply andb_true_iff in E as [E1 E2]. apply veqb_spec in E1. apply IH in E2. congruence.
    - inversion E; subst. apply andb_true_iff; split; [apply veqb_spec | apply IH]; auto.
  Qed.

  (* ---------------------------------------------------------------- lengths *)
  Lemma vadd_length a b : length a = length b -> length (vadd a b) = length a.
  Proof. apply map2_length. Qed.
  Lemma vsub_length a b : length a = length b -> length (vsub a b) = length a.
  Proof. apply map2_length. Qed.
  Lemma vscale_length c a : length (vscale c a) = length a.
  Proof. apply map_length. Qed.
  Lemma vconj_length a : length (vconj a) = length a.
  Proof. apply map_length. Qed.
  Lemma vzero_length n : length (vzero n) = n.
  Proof. apply repeat_length. Qed.
  Lemma pn_length m v : length m = length v -> length (pn m v) = length v.
  Proof. intros E. unfold pn. rewrite map2_length; auto. Qed.
  Lemma pd_length m v : length m = length v -> length (pd m v) = length v.
  Proof. intros E. unfold pd. rewrite map2_length; auto. Qed.
  Lemma mv_length A x : length (mv A x) = length A.
  Proof. apply map_length. Qed.

  (* ---------------------------------------------------------------- vdot *)
  Lemma vdot_comm a b : vdot a b = vdot b a.
  Proof. revert b; induction a as [|x a IH]; intros [|y b]; simpl; auto. rewrite IH. ring. Qed.
  Lemma vdot_vadd_r a x y : length x = length y -> vdot a (vadd x y) = vdot a x + vdot a y.
  Proof.
    unfold vadd. revert x y; induction a as [|u a IH]; intros [|x1 x] [|y1 y] E; simpl in *; try discriminate; try ring.
    rewrite IH by lia. ring.
  Qed.
  Lemma vdot_vsub_r a x y : length x = length y -> vdot a (vsub x y) = vdot a x - vdot a y.
  Proof.
    unfold vsub. revert x y; induction a as [|u a IH]; intros [|x1 x] [|y1 y] E; simpl in *; try discriminate; try ring.
    rewrite IH by lia. ring.
  Qed.
  Lemma vdot_vscale_r a c x : vdot a (vscale c x) = c * vdot a x.
  Proof. unfold vscale. revert x; induction a as [|u a IH]; intros [|x1 x]; simpl; try ring. rewrite IH. ring. Qed.
  Lemma vdot_vadd_l a b x : length a = length b -> vdot (vadd a b) x = vdot a x + vdot b x.
  Proof. intros E. rewrite vdot_comm, vdot_vadd_r, (vdot_comm x a), (vdot_comm x b); auto. Qed.
  Lemma vdot_vsub_l a b x : length a = length b -> vdot (vsub a b) x = vdot a x - vdot b x.
  Proof. intros E. rewrite vdot_comm, vdot_vsub_r, (vdot_comm x a), (vdot_comm x b); auto. Qed.
  Lemma vdot_vscale_l c a x : vdot (vscale c a) x = c * vdot a x.
  Proof. rewrite vdot_comm, vdot_vscale_r, vdot_comm. ring. Qed.
  Lemma vdot_zero_l n x : vdot (vzero n) x = 0.
  Proof. revert x; induction n; intros [|x1 x]; simpl; auto. rewrite IHn. ring. Qed.
  Lemma vdot_zero_r n a : vdot a (vzero n) = 0.
  Proof. rewrite vdot_comm. apply vdot_zero_l. Qed.
  Lemma vdot_conj a b : fconj (vdot a b) = vdot (vconj a) (vconj b).
  Proof. revert b; induction a as [|x a IH]; intros [|y b]; simpl; auto using conj_0. rewrite conj_add, conj_mul, IH. auto. Qed.

  (* pointwise characterisations used with decoupled rows *)
  Lemma vdot_ext0 r u v : length u = length v ->
    (forall j, j < length u -> nth j r 0 = 0 \/ nth j u 0 = nth j v 0) -> vdot r u = vdot r v.
  Proof.
    revert u v; induction r as [|a r IH]; intros [|x u] [|y v] E Hj; simpl in *; try discriminate; auto.
    rewrite (IH u v) by (try lia; intros j Hlt; apply (Hj (S j)); lia).
    destruct (Hj 0%nat ltac:(lia)) as [H0 | H0]; simpl in H0; subst; ring.
  Qed.
  Lemma vdot_single r v i : i < length r -> length r = length v ->
    (forall j, j < length r -> j <> i -> nth j r 0 = 0) -> vdot r v = nth i r 0 * nth i v 0.
  Proof.
    revert v i; induction r as [|a r IH]; intros [|x v] i Hi E Hj; simpl in *; try lia.
    destruct i.
    - assert (vdot r v = vdot r (vzero (length v))) as ->.
      { apply vdot_ext0. now rewrite vzero_length. intros j Hlt. left. apply (Hj (S j)); lia. }
      rewrite vdot_zero_r. ring.
    - rewrite (IH v i) by (try lia; intros j Hlt Hne; apply (Hj (S j)); lia).
      rewrite (Hj 0%nat) by lia. ring.
  Qed.

  (* ---------------------------------------------------------------- hdot / nrm2 *)
  Lemma nrm2_hdot b : nrm2 b = hdot b b.
  Proof. unfold nrm2, hdot. apply vdot_comm. Qed.
  Lemma hdot_vsub_l a b x : length a = length b -> hdot (vsub a b) x = hdot a x - hdot b x.
  Proof. apply vdot_vsub_l. Qed.
  Lemma hdot_vadd_l a b x : length a = length b -> hdot (vadd a b) x = hdot a x + hdot b x.
  Proof. apply vdot_vadd_l. Qed.
  Lemma hdot_vscale_l c a x : hdot (vscale c a) x = c * hdot a x.
  Proof. apply vdot_vscale_l. Qed.
  Lemma hdot_zero_l n x : hdot (vzero n) x = 0.
  Proof. apply vdot_zero_l. Qed.
  Lemma nrm2_zero n : nrm2 (vzero n) = 0.
  Proof. unfold nrm2. apply vdot_zero_r. Qed.

  (* ---------------------------------------------------------------- vector algebra *)
  Ltac vunf := unfold vadd, vsub, vscale, vzero, vconj, pn, pd in *.
  Ltac vstep IH := simpl in *; try discriminate; auto; f_equal; first [ring | apply IH; auto; lia | auto].

  Lemma vconj_invol v : vconj (vconj v) = v.
  Proof. unfold vconj. rewrite map_map. rewrite <- (map_id v) at 2. apply map_ext. apply conj_invol. Qed.
  Lemma vsub_self v : vsub v v = vzero (length v).
  Proof. vunf. induction v as [|x v IH]; vstep IH. Qed.
  Lemma vscale_0 v : vscale 0 v = vzero (length v).
  Proof. vunf. induction v as [|x v IH]; vstep IH. Qed.
  Lemma vscale_1 v : vscale 1 v = v.
  Proof. vunf. induction v as [|x v IH]; vstep IH. Qed.
  Lemma vscale_zero c n : vscale c (vzero n) = vzero n.
  Proof. vunf. induction n as [|n IH]; vstep IH. Qed.
  Lemma vsub_zero_r v n : length v = n -> vsub v (vzero n) = v.
  Proof. vunf. revert n; induction v as [|x v IH]; intros [|n] E; vstep IH. Qed.
  Lemma vadd_zero_r v n : length v = n -> vadd v (vzero n) = v.
  Proof. vunf. revert n; induction v as [|x v IH]; intros [|n] E; vstep IH. Qed.
  Lemma vadd_zero_l v n : length v = n -> vadd (vzero n) v = v.
  Proof. vunf. revert n; induction v as [|x v IH]; intros [|n] E; vstep IH. Qed.
  Lemma vadd_comm a b : vadd a b = vadd b a.
  Proof. vunf. revert b; induction a as [|x a IH]; intros [|y b]; vstep IH. Qed.
  Lemma vadd_assoc a b c : vadd (vadd a b) c = vadd a (vadd b c).
  Proof. vunf. revert b c; induction a as [|x a IH]; intros [|y b] [|z c]; vstep IH. Qed.
  Lemma vadd_vsub_cancel a b : length a = length b -> vadd (vsub a b) b = a.
  Proof. vunf. revert b; induction a as [|x a IH]; intros [|y b] E; vstep IH. Qed.
  Lemma vscale_vadd c a b : vscale c (vadd a b) = vadd (vscale c a) (vscale c b).
  Proof. vunf. revert b; induction a as [|x a IH]; intros [|y b]; vstep IH. Qed.
  Lemma vscale_vsub c a b : vscale c (vsub a b) = vsub (vscale c a) (vscale c b).
  Proof. vunf. revert b; induction a as [|x a IH]; intros [|y b]; vstep IH. Qed.
  Lemma vscale_vscale c d a : vscale c (vscale d a) = vscale (c * d) a.
  Proof. vunf. induction a as [|x a IH]; vstep IH. Qed.
  (* (a + s) + (r - s) = a + r *)
  Lemma vadd_vsub_swap a s r : length a = length s -> length s = length r ->
    vadd (vadd a s) (vsub r s) = vadd a r.
  Proof. vunf. revert s r; induction a as [|x a IH]; intros [|y s] [|z r] E1 E2; vstep IH. Qed.

  Lemma vadd_cancel_zero a r : length a = length r -> vadd a r = a -> r = vzero (length r).
  Proof.
    vunf. revert r; induction a as [|x a IH]; intros [|y r] E H; simpl in *; try discriminate; auto.
    injection H as H1 H2. f_equal; [| apply IH; auto; lia].
    transitivity ((x + y) - x); [ring | rewrite H1; ring].
  Qed.

  Lemma all_zero_vzero v : Forall (fun z => z = 0) v -> v = vzero (length v).
  Proof. induction 1; simpl; auto. unfold vzero in *. simpl. congruence. Qed.
  Lemma vis0_spec v : vis0 v = true <-> v = vzero (length v).
  Proof.
    unfold vis0. rewrite forallb_forall. split.
    - intros Hall. apply all_zero_vzero. apply Forall_forall. intros z Hz. apply is0_spec; auto.
    - intros E z Hz. rewrite E in Hz. apply repeat_spec in Hz. apply is0_spec; auto.
  Qed.

  (* ---------------------------------------------------------------- mv *)
  Lemma mv_vadd A x y : length x = length y -> mv A (vadd x y) = vadd (mv A x) (mv A y).
  Proof. intros E. unfold mv, vadd. rewrite map2_map_l, map2_map_r, map2_diag. apply map_ext.
    intros r. apply vdot_vadd_r; auto. Qed.
  Lemma mv_vsub A x y : length x = length y -> mv A (vsub x y) = vsub (mv A x) (mv A y).
  Proof. intros E. unfold mv, vsub. rewrite map2_map_l, map2_map_r, map2_diag. apply map_ext.
    intros r. apply vdot_vsub_r; auto. Qed.
  Lemma mv_vscale A c x : mv A (vscale c x) = vscale c (mv A x).
  Proof. unfold mv, vscale. rewrite map_map. apply map_ext. intros r. apply vdot_vscale_r. Qed.
  Lemma mv_zero A n : mv A (vzero n) = vzero (length A).
  Proof. unfold mv. induction A; simpl; auto. rewrite vdot_zero_r. unfold vzero in *. simpl. congruence. Qed.
  Lemma mv_conj A x : vconj (mv A x) = mv (mconj A) (vconj x).
  Proof. unfold mv, mconj, vconj. rewrite !map_map. apply map_ext. intros r. apply vdot_conj. Qed.
  Lemma mconj_invol A : mconj (mconj A) = A.
  Proof. unfold mconj. rewrite map_map. rewrite <- (map_id A) at 2. apply map_ext. apply vconj_invol. Qed.
  Lemma nth_mv A x i : i < length A -> nth i (mv A x) 0 = vdot (nth i A []) x.
  Proof. intros Hi. unfold mv. rewrite (nth_indep _ 0 (vdot [] x)) by (rewrite map_length; auto).
    apply (map_nth (fun row => vdot row x)). Qed.

  (* ---------------------------------------------------------------- masks *)
  Ltac mstep IH d := simpl in *; try discriminate; auto; f_equal; first [destruct d; ring | apply IH; auto; lia | auto].
  Lemma pn_vadd m a b : length a = length b -> pn m (vadd a b) = vadd (pn m a) (pn m b).
  Proof. vunf. revert a b; induction m as [|d m IH]; intros [|x a] [|y b] E; mstep IH d. Qed.
  Lemma pn_vsub m a b : length a = length b -> pn m (vsub a b) = vsub (pn m a) (pn m b).
  Proof. vunf. revert a b; induction m as [|d m IH]; intros [|x a] [|y b] E; mstep IH d. Qed.
  Lemma pn_vscale m c a : pn m (vscale c a) = vscale c (pn m a).
  Proof. vunf. revert a; induction m as [|d m IH]; intros [|x a]; mstep IH d. Qed.
  Lemma pn_idem m a : pn m (pn m a) = pn m a.
  Proof. vunf. revert a; induction m as [|d m IH]; intros [|x a]; simpl; auto. rewrite IH. destruct d; auto. Qed.
  Lemma pd_pn m a : length m = length a -> pd m (pn m a) = vzero (length a).
  Proof. vunf. revert a; induction m as [|d m IH]; intros [|x a] E; simpl in *; try discriminate; auto.
    rewrite IH by lia. destruct d; auto. Qed.
  Lemma pn_zero m n : length m = n -> pn m (vzero n) = vzero n.
  Proof. vunf. revert n; induction m as [|d m IH]; intros [|n] E; simpl in *; try discriminate; auto.
    rewrite IH by lia. destruct d; auto. Qed.
  Lemma nth_pn m v i : i < length v -> length m = length v ->
    nth i (pn m v) 0 = if nth i m false then 0 else nth i v 0.
  Proof. intros Hi E. unfold pn. rewrite (nth_map2 _ m v i false 0 0) by lia. auto. Qed.
  Lemma nth_pd m v i : i < length v -> length m = length v ->
    nth i (pd m v) 0 = if nth i m false then nth i v 0 else 0.
  Proof. intros Hi E. unfold pd. rewrite (nth_map2 _ m v i false 0 0) by lia. auto. Qed.
  Lemma pd_pn_sum m v : length m = length v -> vadd (pd m v) (pn m v) = v.
  Proof. vunf. revert v; induction m as [|d m IH]; intros [|x v] E; mstep IH d. Qed.
End FieldVec.
