(* Vectors and matrices over the Gaussian integers as lists (matrix = list of rows): the numpy array
   primitives the DyadCarrier model (C15) is written with, their "table" normal forms
   (vtab n f = [f 0; ...; f (n-1)], mtab r c f = rows of f i j) and the lemmas that connect them. *)
From Coq Require Import ZArith List Bool Lia Ring.
From Pymoto Require Import Base.Gauss.
Import ListNotations.

Definition vect := list C.
Definition matr := list (list C).

Definition vget (u : vect) (i : nat) : C := nth i u c0.
Definition mget (M : matr) (i j : nat) : C := vget (nth i M []) j.
Definition vtab (n : nat) (f : nat -> C) : vect := map f (seq 0 n).
Definition mtab (r c : nat) (f : nat -> nat -> C) : matr := map (fun i => vtab c (f i)) (seq 0 r).
Definition isum (n : nat) (f : nat -> C) : C := csum (map f (seq 0 n)).

Arguments vget : simpl never.
Arguments mget : simpl never.
Arguments vtab : simpl never.
Arguments mtab : simpl never.
Arguments isum : simpl never.

(* well-shaped r x c matrix *)
Definition wfm (r c : nat) (M : matr) : Prop := length M = r /\ Forall (fun row => length row = c) M.

(* ---- elementwise numpy primitives (natural list definitions) ---- *)
Definition vmap2 (f : C -> C -> C) (a b : vect) : vect := map (fun p => f (fst p) (snd p)) (combine a b).
Definition vadd := vmap2 cadd.
Definition vmul := vmap2 cmul.                         (* elementwise product a * b *)
Definition vzeros (n : nat) : vect := repeat c0 n.
Definition vis0 (a : vect) : bool := forallb cis0 a.   (* np.linalg.norm(a) == 0 on exact data *)
Definition outer (u v : vect) : matr := map (fun a => map (cmul a) v) u.      (* np.outer *)
Definition mzeros (r c : nat) : matr := repeat (vzeros c) r.
Definition madd (A B : matr) : matr := map (fun p => vadd (fst p) (snd p)) (combine A B).
Definition mmap (h : C -> C) (M : matr) : matr := map (map h) M.

(* ---- index-sum primitives (entrywise definitions, as numpy specifies them) ---- *)
Definition vdot (a b : vect) : C := isum (length a) (fun l => vget a l * vget b l)%C.          (* a @ b, a.dot(b): no conj *)
Definition vecmat (v : vect) (M : matr) (m : nat) : vect :=                                     (* v @ M, M of m columns *)
  vtab m (fun j => isum (length v) (fun l => vget v l * mget M l j)%C).
Definition matvec (M : matr) (v : vect) : vect := map (fun row => vdot row v) M.                (* M @ v *)
Definition mT (r c : nat) (M : matr) : matr := mtab c r (fun i j => mget M j i).                (* transpose of r x c *)
Definition mmul (r n c : nat) (A B : matr) : matr :=                                            (* (r x n) @ (n x c) *)
  mtab r c (fun i j => isum n (fun l => mget A i l * mget B l j)%C).
Definition msum_rows (c : nat) (M : matr) : vect := fold_left vadd M (vzeros c).                (* M.sum(axis=0) *)

(* ------------------------------------------------------------------ basic facts *)
Lemma length_vtab n f : length (vtab n f) = n.
Proof. unfold vtab. rewrite map_length, seq_length. reflexivity. Qed.

Lemma vget_vtab n f i : i < n -> vget (vtab n f) i = f i.
Proof.
  intros H. unfold vget, vtab. rewrite nth_indep with (d' := f 0) by (rewrite map_length, seq_length; lia).
  rewrite map_nth. rewrite seq_nth by lia. reflexivity.
Qed.

Lemma vget_over u i : length u <= i -> vget u i = c0.
Proof. intros H. unfold vget. apply nth_overflow. lia. Qed.

Lemma vtab_ext n f g : (forall i, i < n -> f i = g i) -> vtab n f = vtab n g.
Proof. intros H. unfold vtab. apply map_ext_in. intros i Hi. apply in_seq in Hi. apply H. lia. Qed.

Lemma list_ext_nth (a b : vect) : length a = length b -> (forall i, i < length a -> vget a i = vget b i) -> a = b.
Proof.
  revert b. induction a as [|x a IH]; intros [|y b] L H; cbn in L; try discriminate; [reflexivity|].
  f_equal.
  - apply (H 0). cbn. lia.
  - apply IH; [lia|]. intros i Hi. apply (H (S i)). cbn. lia.
Qed.

Lemma vtab_id u : vtab (length u) (vget u) = u.
Proof.
  apply list_ext_nth; [apply length_vtab|]. intros i Hi. rewrite length_vtab in Hi. apply vget_vtab. exact Hi.
Qed.

Lemma vtab_id' n u : length u = n -> vtab n (vget u) = u.
Proof. intros <-. apply vtab_id. Qed.

Lemma length_mtab r c f : length (mtab r c f) = r.
Proof. unfold mtab. rewrite map_length, seq_length. reflexivity. Qed.

Lemma nth_mtab r c f i : i < r -> nth i (mtab r c f) [] = vtab c (f i).
Proof.
  intros H. unfold mtab. rewrite nth_indep with (d' := vtab c (f 0)) by (rewrite map_length, seq_length; lia).
  rewrite map_nth with (f := fun i => vtab c (f i)). rewrite seq_nth by lia. reflexivity.
Qed.

Lemma mget_mtab r c f i j : i < r -> j < c -> mget (mtab r c f) i j = f i j.
Proof. intros Hi Hj. unfold mget. rewrite nth_mtab by exact Hi. apply vget_vtab. exact Hj. Qed.

Lemma mtab_ext r c f g : (forall i j, i < r -> j < c -> f i j = g i j) -> mtab r c f = mtab r c g.
Proof.
  intros H. unfold mtab. apply map_ext_in. intros i Hi. apply in_seq in Hi. apply vtab_ext. intros j Hj. apply H; lia.
Qed.

Lemma wfm_mtab r c f : wfm r c (mtab r c f).
Proof.
  split; [apply length_mtab|]. unfold mtab. apply Forall_forall. intros row Hin.
  apply in_map_iff in Hin as [i [<- _]]. apply length_vtab.
Qed.

Lemma mat_ext_nth (A B : matr) : length A = length B -> (forall i, i < length A -> nth i A [] = nth i B []) -> A = B.
Proof.
  revert B. induction A as [|x A IH]; intros [|y B] L H; cbn in L; try discriminate; [reflexivity|].
  f_equal.
  - apply (H 0). cbn. lia.
  - apply IH; [lia|]. intros i Hi. apply (H (S i)). cbn. lia.
Qed.

Lemma mtab_id r c M : wfm r c M -> mtab r c (mget M) = M.
Proof.
  intros [L F]. apply mat_ext_nth; [rewrite length_mtab; lia|]. intros i Hi. rewrite length_mtab in Hi.
  rewrite nth_mtab by exact Hi. unfold mget. apply vtab_id'.
  rewrite Forall_forall in F. apply F. apply nth_In. lia.
Qed.

Lemma isum_ext n f g : (forall i, i < n -> f i = g i) -> isum n f = isum n g.
Proof. intros H. unfold isum. apply csum_map_ext. intros i Hi. apply in_seq in Hi. apply H. lia. Qed.

Lemma isum_0 n : isum n (fun _ => c0) = c0.
Proof. unfold isum. apply csum_map_0. Qed.

Lemma isum_S n f : isum (S n) f = (isum n f + f n)%C.
Proof. unfold isum. rewrite seq_S, map_app, csum_app. cbn. ring. Qed.

(* sum over the entries of a list = index sum *)
Lemma csum_as_isum (u : vect) : csum u = isum (length u) (vget u).
Proof.
  unfold isum. change (map (vget u) (seq 0 (length u))) with (vtab (length u) (vget u)). rewrite vtab_id. reflexivity.
Qed.

(* ------------------------------------------------------------------ elementwise ops in table form *)
Lemma nth_combine_lt {A B} (a : list A) (b : list B) i x y :
  i < length a -> i < length b -> nth i (combine a b) (x, y) = (nth i a x, nth i b y).
Proof.
  revert b i. induction a as [|p a IH]; intros [|q b] i Ha Hb; cbn in *; try lia.
  destruct i; [reflexivity|]. apply IH; lia.
Qed.

Lemma length_vmap2 f a b : length (vmap2 f a b) = Nat.min (length a) (length b).
Proof. unfold vmap2. rewrite map_length, combine_length. reflexivity. Qed.

Lemma vget_vmap2 f a b i : i < length a -> i < length b -> vget (vmap2 f a b) i = f (vget a i) (vget b i).
Proof.
  intros Ha Hb. unfold vget, vmap2.
  rewrite nth_indep with (d' := (fun p => f (fst p) (snd p)) (c0, c0)) by (rewrite map_length, combine_length; lia).
  rewrite map_nth with (f := fun p => f (fst p) (snd p)). rewrite nth_combine_lt by assumption. reflexivity.
Qed.

Lemma vmap2_tab f a b n : length a = n -> length b = n -> vmap2 f a b = vtab n (fun i => f (vget a i) (vget b i)).
Proof.
  intros La Lb. apply list_ext_nth.
  - rewrite length_vmap2, length_vtab. lia.
  - intros i Hi. rewrite length_vmap2 in Hi. rewrite vget_vmap2 by lia. rewrite vget_vtab by lia. reflexivity.
Qed.

Lemma vget_map h u i : h c0 = c0 -> vget (map h u) i = h (vget u i).
Proof. intros H0. unfold vget. rewrite <- H0 at 1. apply map_nth. Qed.

Lemma vget_map_lt h u i : i < length u -> vget (map h u) i = h (vget u i).
Proof.
  intros H. unfold vget. rewrite nth_indep with (d' := h c0) by (rewrite map_length; lia). apply map_nth.
Qed.

Lemma map_tab h n f : map h (vtab n f) = vtab n (fun i => h (f i)).
Proof. unfold vtab. rewrite map_map. reflexivity. Qed.

Lemma vzeros_tab n : vzeros n = vtab n (fun _ => c0).
Proof.
  unfold vzeros, vtab. induction n as [|n IH]; [reflexivity|].
  rewrite seq_S, map_app, <- IH. cbn. rewrite repeat_cons. reflexivity.
Qed.

Lemma length_vzeros n : length (vzeros n) = n.
Proof. apply repeat_length. Qed.

Lemma mzeros_tab r c : mzeros r c = mtab r c (fun _ _ => c0).
Proof.
  unfold mzeros, mtab. rewrite <- vzeros_tab. induction r as [|r IH]; [reflexivity|].
  rewrite seq_S, map_app, <- IH. cbn. rewrite repeat_cons. reflexivity.
Qed.

Lemma vis0_get a i : vis0 a = true -> vget a i = c0.
Proof.
  intros H. unfold vis0 in H. rewrite forallb_forall in H. unfold vget.
  destruct (Nat.lt_ge_cases i (length a)) as [L|L]; [|apply nth_overflow; lia].
  apply cis0_eq. apply H. apply nth_In. exact L.
Qed.

Lemma outer_tab u v : outer u v = mtab (length u) (length v) (fun i j => vget u i * vget v j)%C.
Proof.
  unfold outer. apply mat_ext_nth; [rewrite map_length, length_mtab; reflexivity|].
  intros i Hi. rewrite map_length in Hi. rewrite nth_mtab by exact Hi.
  rewrite nth_indep with (d' := (fun a => map (cmul a) v) c0) by (rewrite map_length; exact Hi).
  rewrite map_nth with (f := fun a => map (cmul a) v).
  apply list_ext_nth; [rewrite map_length, length_vtab; reflexivity|].
  intros j Hj. rewrite map_length in Hj. rewrite vget_map_lt by exact Hj. rewrite vget_vtab by exact Hj. reflexivity.
Qed.

Lemma madd_tab r c f g : madd (mtab r c f) (mtab r c g) = mtab r c (fun i j => f i j + g i j)%C.
Proof.
  unfold madd. apply mat_ext_nth; [rewrite map_length, combine_length, !length_mtab; lia|].
  intros i Hi. rewrite map_length, combine_length, !length_mtab in Hi.
  rewrite nth_indep with (d' := (fun p => vadd (fst p) (snd p)) ([], [])) by (rewrite map_length, combine_length, !length_mtab; lia).
  rewrite map_nth with (f := fun p => vadd (fst p) (snd p)).
  rewrite nth_combine_lt by (rewrite length_mtab; lia). cbn [fst snd].
  rewrite !nth_mtab by lia. unfold vadd. rewrite vmap2_tab with (n := c) by apply length_vtab.
  apply vtab_ext. intros j Hj. rewrite !vget_vtab by exact Hj. reflexivity.
Qed.

Lemma mmap_tab h r c f : mmap h (mtab r c f) = mtab r c (fun i j => h (f i j)).
Proof.
  unfold mmap, mtab. rewrite map_map. apply map_ext. intros i. apply map_tab.
Qed.

Lemma mT_tab r c f : mT r c (mtab r c f) = mtab c r (fun i j => f j i).
Proof. unfold mT. apply mtab_ext. intros i j Hi Hj. apply mget_mtab; assumption. Qed.

Lemma mmul_tab r n c f g :
  mmul r n c (mtab r n f) (mtab n c g) = mtab r c (fun i j => isum n (fun l => f i l * g l j)%C).
Proof.
  unfold mmul. apply mtab_ext. intros i j Hi Hj. apply isum_ext. intros l Hl. rewrite !mget_mtab by assumption. reflexivity.
Qed.

Lemma matvec_tab r n f v : length v = n ->
  matvec (mtab r n f) v = vtab r (fun i => isum n (fun l => f i l * vget v l)%C).
Proof.
  intros Lv. unfold matvec, mtab. rewrite map_map. unfold vtab at 2. apply map_ext_in. intros i Hi. apply in_seq in Hi.
  unfold vdot. rewrite length_vtab. apply isum_ext. intros l Hl. rewrite vget_vtab by exact Hl. reflexivity.
Qed.

Lemma length_vecmat v M m : length (vecmat v M m) = m.
Proof. apply length_vtab. Qed.

Lemma length_matvec M v : length (matvec M v) = length M.
Proof. apply map_length. Qed.

(* sum of the rows of a block: entry j is the sum of column j *)
Lemma msum_rows_get c M j : Forall (fun row => length row = c) M -> j < c ->
  vget (msum_rows c M) j = csum (map (fun row => vget row j) M).
Proof.
  intros F Hj. unfold msum_rows.
  assert (G : forall acc, length acc = c -> length (fold_left vadd M acc) = c /\ vget (fold_left vadd M acc) j = (vget acc j + csum (map (fun row => vget row j) M))%C).
  { induction F as [|row M' Hr F IH]; intros acc La; cbn.
    - split; [exact La | ring].
    - assert (Lv : length (vadd acc row) = c) by (unfold vadd; rewrite length_vmap2; lia).
      destruct (IH _ Lv) as [L1 E1]. split; [exact L1|]. rewrite E1. unfold vadd at 1. rewrite vget_vmap2 by lia. ring. }
  destruct (G (vzeros c) (length_vzeros c)) as [_ E]. rewrite E. rewrite vzeros_tab, vget_vtab by exact Hj. ring.
Qed.

Lemma length_msum_rows c M : Forall (fun row => length row = c) M -> length (msum_rows c M) = c.
Proof.
  intros F. unfold msum_rows.
  assert (G : forall acc, length acc = c -> length (fold_left vadd M acc) = c).
  { induction F as [|row M' Hr F IH]; intros acc La; cbn; [exact La|].
    apply IH. unfold vadd. rewrite length_vmap2. lia. }
  apply G. apply length_vzeros.
Qed.
