(* Small dense matrices over a numeric signature `Num K` as lists (matrix = list of rows, the way numpy
   prints them), the numpy primitives the EigenSolve model (C11) is written with, and their algebra for
   any commutative ring / field with Leibniz equality (R, pairs of reals = complex numbers, ...).
   Also: the complex numbers over R as a field (instance for the generic theorems), and the evaluation
   domains: dyadic numbers and pairs of them (exact + - *, division and square root rounded to 72 bits). *)
From Coq Require Import ZArith QArith Qabs Reals List Lia Lra Ring Field Bool Permutation.
From Pymoto Require Import Base.Num.
Import ListNotations.

(* ------------------------------------------------------------------------------------------------ *)
(* numpy primitives on lists                                                                         *)
Section MatDefs.
  Context {K : Type} `{Num K}.

  Definition mat : Type := list (list K).

  (* M @ x *)
  Definition mv (M : mat) (x : list K) : list K := map (fun r => dot r x) M.
  (* M[:, i] *)
  Definition getcol (i : nat) (M : mat) : list K := map (fun r => nth i r nzero) M.
  (* W[idx]  (fancy indexing, a copy) *)
  Definition take (idx : list nat) (W : list K) : list K := map (fun i => nth i W nzero) idx.
  (* M[:, idx] *)
  Definition take_cols (idx : list nat) (M : mat) : mat := map (take idx) M.

  Fixpoint upd (i : nat) (f : K -> K) (l : list K) : list K :=
    match l, i with
    | [], _ => []
    | h :: t, O => f h :: t
    | h :: t, S j => h :: upd j f t
    end.
  (* q *= c  on a vector, and on the view M[:, i] *)
  Definition vscaler (c : K) (q : list K) : list K := map (fun x => nmul x c) q.
  Definition scale_col (i : nat) (c : K) (M : mat) : mat := map (upd i (fun x => nmul x c)) M.

  (* np.average(q) *)
  Definition navg (q : list K) : K := ndiv (nsum q) (nofZ (Z.of_nat (length q))).

  Definition eye (n : nat) : mat :=
    map (fun i => map (fun j => if Nat.eqb i j then none_ else nzero) (seq 0 n)) (seq 0 n).
  Definition mmap2 (f : K -> K -> K) (A B : mat) : mat :=
    map (fun p => map (fun e => f (fst e) (snd e)) (combine (fst p) (snd p))) (combine A B).
  (* A - s * B *)
  Definition mshift (A : mat) (s : K) (B : mat) : mat := mmap2 (fun a b => nsub a (nmul s b)) A B.
  Definition mtranspose (n : nat) (M : mat) : mat := map (fun j => getcol j M) (seq 0 n).

  Definition is_zero_vec (q : list K) : Prop := Forall (fun x => x = nzero) q.
  Definition ncols_ok (m : nat) (M : mat) : Prop := Forall (fun r => length r = m) M.

  (* dense matrix from (row, col, value) triples; later duplicates are summed (none are generated) *)
  Definition of_triples (n m : nat) (T : list (nat * nat * K)) : mat :=
    map (fun i => map (fun j =>
      fold_right (fun t acc => match t with (a, b, v) => if Nat.eqb a i && Nat.eqb b j then nadd v acc else acc end)
                 nzero T) (seq 0 m)) (seq 0 n).
End MatDefs.

(* faster construction for the case files: triples sorted by row; one pass per row *)
Section Triples.
  Context {K : Type} `{Num K}.
  Fixpoint row_of (m : nat) (j : nat) (es : list (nat * K)) : list K :=
    match m with
    | O => []
    | S m' => (fold_right (fun e acc => if Nat.eqb (fst e) j then nadd (snd e) acc else acc) nzero es)
              :: row_of m' (S j) es
    end.
  (* rows given as association lists (col, value) *)
  Definition of_rows (m : nat) (R : list (list (nat * K))) : mat := map (row_of m 0) R.
End Triples.

(* ------------------------------------------------------------------------------------------------ *)
(* algebra over a commutative ring                                                                   *)
Section RingLaws.
  Context {K : Type} `{Num K}.
  Hypothesis Rth : ring_theory (@nzero K _) none_ nadd nmul nsub nopp (@eq K).
  Add Ring KringQMat : Rth.
  Local Open Scope num_scope.

  Lemma dot_cons' a b (x y : list K) : dot (a :: x) (b :: y) = a * b + dot x y.
  Proof. reflexivity. Qed.

  Lemma dot_vscaler_r (r q : list K) c : dot r (vscaler c q) = dot r q * c.
  Proof.
    revert q; induction r as [|a r IH]; intros [|b q]; cbn [vscaler map]; try (unfold dot; cbn; ring).
    rewrite !dot_cons'. fold (vscaler c q). rewrite IH. ring.
  Qed.

  Lemma dot_vscaler_l (r q : list K) c : dot (vscaler c q) r = dot q r * c.
  Proof.
    revert r; induction q as [|a q IH]; intros [|b r]; cbn [vscaler map]; try (unfold dot; cbn; ring).
    rewrite !dot_cons'. fold (vscaler c q). rewrite IH. ring.
  Qed.

  Lemma mv_vscaler (M : mat) q c : mv M (vscaler c q) = vscaler c (mv M q).
  Proof.
    unfold mv, vscaler at 2. rewrite map_map. apply map_ext. intros r. apply dot_vscaler_r.
  Qed.

  Lemma vscale_vscaler lam c (q : list K) : vscale lam (vscaler c q) = vscaler c (vscale lam q).
  Proof.
    unfold vscale, vscaler. rewrite !map_map. apply map_ext. intros x. ring.
  Qed.

  Lemma nsum_vscaler c (q : list K) : nsum (vscaler c q) = nsum q * c.
  Proof.
    induction q as [|a q IH]; cbn [vscaler map nsum fold_right].
    - ring.
    - fold (vscaler c q). fold (nsum (vscaler c q)). fold (nsum q). rewrite IH. ring.
  Qed.

  Lemma vscaler_length c (q : list K) : length (vscaler c q) = length q.
  Proof. apply map_length. Qed.
End RingLaws.

(* index lemmas (no algebra) *)
Section IndexLaws.
  Context {K : Type} `{Num K}.

  Lemma upd_length i f (l : list K) : length (upd i f l) = length l.
  Proof. revert i; induction l as [|h t IH]; intros [|i]; cbn; auto. Qed.

  Lemma nth_upd_same i f (l : list K) d : (i < length l)%nat -> nth i (upd i f l) d = f (nth i l d).
  Proof.
    revert i; induction l as [|h t IH]; intros [|i] Hi; cbn in *; try lia; auto. apply IH. lia.
  Qed.

  Lemma nth_upd_other i j f (l : list K) d : i <> j -> nth j (upd i f l) d = nth j l d.
  Proof.
    revert i j; induction l as [|h t IH]; intros [|i] [|j] Hij; cbn; auto; try lia.
  Qed.

  Lemma getcol_length i (M : mat) : length (getcol i M) = length M.
  Proof. apply map_length. Qed.

  Lemma scale_col_length i c (M : mat) : length (scale_col i c M) = length M.
  Proof. apply map_length. Qed.

  Lemma scale_col_ncols i c m (M : mat) : ncols_ok m M -> ncols_ok m (scale_col i c M).
  Proof.
    unfold ncols_ok, scale_col. intros HM. apply Forall_map. revert HM. apply Forall_impl.
    intros r Hr. rewrite upd_length. exact Hr.
  Qed.

  Lemma getcol_scale_col_same i c m (M : mat) : ncols_ok m M -> (i < m)%nat ->
    getcol i (scale_col i c M) = vscaler c (getcol i M).
  Proof.
    unfold ncols_ok, getcol, scale_col, vscaler. intros HM Hi. rewrite !map_map.
    apply map_ext_in. intros r Hr. rewrite Forall_forall in HM. specialize (HM r Hr).
    apply nth_upd_same. lia.
  Qed.

  Lemma getcol_scale_col_other i j c (M : mat) : i <> j -> getcol j (scale_col i c M) = getcol j M.
  Proof.
    unfold getcol, scale_col. intros Hij. rewrite map_map. apply map_ext. intros r.
    apply nth_upd_other. exact Hij.
  Qed.

  Lemma take_length idx (W : list K) : length (take idx W) = length idx.
  Proof. apply map_length. Qed.

  Lemma take_cols_ncols idx (M : mat) : ncols_ok (length idx) (take_cols idx M).
  Proof.
    unfold ncols_ok, take_cols. apply Forall_map. apply Forall_forall. intros r _. apply take_length.
  Qed.

  Lemma take_cols_length idx (M : mat) : length (take_cols idx M) = length M.
  Proof. apply map_length. Qed.

  Lemma nth_take idx (W : list K) j : (j < length idx)%nat -> nth j (take idx W) nzero = nth (nth j idx O) W nzero.
  Proof.
    intros Hj. unfold take. rewrite (nth_indep _ nzero (nth O W nzero)) by (rewrite map_length; exact Hj).
    rewrite (map_nth (fun i => nth i W nzero) idx O j). reflexivity.
  Qed.

  Lemma getcol_take_cols idx (M : mat) j : (j < length idx)%nat ->
    getcol j (take_cols idx M) = getcol (nth j idx O) M.
  Proof.
    intros Hj. unfold getcol, take_cols. rewrite map_map. apply map_ext. intros r. apply nth_take. exact Hj.
  Qed.
End IndexLaws.

(* ------------------------------------------------------------------------------------------------ *)
(* fields: the Num signature has no inverse; 1/x plays that role                                     *)
Definition ninv {K} `{Num K} (x : K) : K := ndiv none_ x.
Definition num_field (K : Type) `{Num K} : Prop :=
  field_theory nzero none_ nadd nmul nsub nopp ndiv ninv (@eq K).

Lemma num_field_R : num_field R.
Proof.
  constructor.
  - exact RTheory.
  - cbn. exact R1_neq_R0.
  - intros p q. cbn. unfold ninv; cbn. unfold Rdiv. ring.
  - intros p Hp. cbn in *. unfold ninv; cbn. field. exact Hp.
Qed.

(* ------------------------------------------------------------------------------------------------ *)
(* complex numbers over R as pairs: a field (instance of the generic theorems for complex data)      *)
Definition RC : Type := (R * R)%type.
Definition rc_add (a b : RC) : RC := (fst a + fst b, snd a + snd b)%R.
Definition rc_mul (a b : RC) : RC := (fst a * fst b - snd a * snd b, fst a * snd b + snd a * fst b)%R.
Definition rc_sub (a b : RC) : RC := (fst a - fst b, snd a - snd b)%R.
Definition rc_opp (a : RC) : RC := (- fst a, - snd a)%R.
Definition rc_div (a b : RC) : RC :=
  let d := (fst b * fst b + snd b * snd b)%R in
  ((fst a * fst b + snd a * snd b) / d, (snd a * fst b - fst a * snd b) / d)%R.
#[global] Instance NumRC : Num RC :=
  {| nzero := (0, 0)%R; none_ := (1, 0)%R; nadd := rc_add; nmul := rc_mul; nsub := rc_sub; nopp := rc_opp;
     ndiv := rc_div; nofZ := fun z => (IZR z, 0%R) |}.

Lemma num_ring_RC : num_ring RC.
Proof.
  constructor; intros; cbn; unfold rc_add, rc_mul, rc_sub, rc_opp;
    repeat match goal with x : RC |- _ => destruct x end; cbn [fst snd]; f_equal; ring.
Qed.

Lemma rc_norm_pos (a b : R) : (a, b) <> (0, 0)%R -> (a * a + b * b <> 0)%R.
Proof.
  intros Hne Hz. apply Hne.
  assert (Ha : (a = 0)%R) by nra. assert (Hb : (b = 0)%R) by nra. subst. reflexivity.
Qed.

Lemma num_field_RC : num_field RC.
Proof.
  constructor.
  - exact num_ring_RC.
  - cbn. intros E. inversion E as [E1]. exact (R1_neq_R0 E1).
  - intros [a b] [c d]. cbn. unfold ninv; cbn. unfold rc_div, rc_mul; cbn [fst snd].
    destruct (Req_dec (c * c + d * d) 0) as [Hz|Hnz].
    + rewrite Hz. unfold Rdiv. rewrite Rinv_0. f_equal; ring.
    + f_equal; field; exact Hnz.
  - intros [a b] Hp. cbn in *. unfold ninv; cbn. unfold rc_div, rc_mul; cbn [fst snd].
    pose proof (rc_norm_pos a b Hp) as Hn. f_equal; field; exact Hn.
Qed.

(* ------------------------------------------------------------------------------------------------ *)
(* evaluation domains: float64 data as dyadic numbers m * 2^e (pairs of integers), complex128 data as pairs of
   those.  + - * are exact and need no gcd (so vm_compute stays fast); division and square root are ROUNDED to
   >= 72 significant bits.  These instances are used only to evaluate the model in the correspondence check,
   where results are compared with float64 results at 1e-9; every float64 is a dyadic number. *)
Definition Dy : Type := (Z * Z)%type.
Definition div_bits : Z := 72.
Definition dy0 : Dy := (0, 0)%Z.
Definition dy_add (a b : Dy) : Dy :=
  let '(m1, e1) := a in
  let '(m2, e2) := b in
  if (m1 =? 0)%Z then b
  else if (m2 =? 0)%Z then a
  else
    let r := if (e1 <=? e2)%Z then ((m1 + Z.shiftl m2 (e2 - e1))%Z, e1) else ((Z.shiftl m1 (e1 - e2) + m2)%Z, e2) in
    if (fst r =? 0)%Z then dy0 else r.
Definition dy_opp (a : Dy) : Dy := ((- fst a)%Z, snd a).
Definition dy_sub (a b : Dy) : Dy := dy_add a (dy_opp b).
Definition dy_mul (a b : Dy) : Dy :=
  let m := (fst a * fst b)%Z in if (m =? 0)%Z then dy0 else (m, (snd a + snd b)%Z).
Definition dy_div (a b : Dy) : Dy :=
  let '(m1, e1) := a in
  let '(m2, e2) := b in
  if (m2 =? 0)%Z then dy0
  else if (m1 =? 0)%Z then dy0
  else
    let p := (div_bits + Z.max 0 (Z.log2 (Z.abs m2) - Z.log2 (Z.abs m1)))%Z in
    ((Z.shiftl m1 p / m2)%Z, (e1 - e2 - p)%Z).
Definition dy_sqrt (a : Dy) : Dy :=
  let '(m, e) := a in
  if (m <=? 0)%Z then dy0
  else
    let '(m', e') := if Z.even e then (m, e) else ((2 * m)%Z, (e - 1)%Z) in
    let p := Z.max 0 (div_bits - Z.log2 m' / 2) in
    (Z.sqrt (Z.shiftl m' (2 * p)), (e' / 2 - p)%Z).
Definition dy_abs (a : Dy) : Dy := (Z.abs (fst a), snd a).
Definition dy_sgn (a : Dy) : Z := Z.sgn (fst a).
Definition dy_leb (a b : Dy) : bool := (0 <=? fst (dy_sub b a))%Z.
Definition dy_eqb (a b : Dy) : bool := (fst (dy_sub a b) =? 0)%Z.
Definition dy2Q (a : Dy) : Q :=
  let '(m, e) := a in
  if (0 <=? e)%Z then inject_Z (Z.shiftl m e) else Qmake m (Z.to_pos (Z.shiftl 1 (- e))).
(* a <= t for a rational t *)
Definition dy_le_Q (a : Dy) (t : Q) : bool := Qle_bool (dy2Q a) t.
Definition NumDy : Num Dy :=
  {| nzero := dy0; none_ := (1, 0)%Z; nadd := dy_add; nmul := dy_mul; nsub := dy_sub; nopp := dy_opp;
     ndiv := dy_div; nofZ := fun z => (z, 0%Z) |}.

Definition DyC : Type := (Dy * Dy)%type.
Definition dc_add (a b : DyC) : DyC := (dy_add (fst a) (fst b), dy_add (snd a) (snd b)).
Definition dc_sub (a b : DyC) : DyC := (dy_sub (fst a) (fst b), dy_sub (snd a) (snd b)).
Definition dc_opp (a : DyC) : DyC := (dy_opp (fst a), dy_opp (snd a)).
Definition dc_mul (a b : DyC) : DyC :=
  (dy_sub (dy_mul (fst a) (fst b)) (dy_mul (snd a) (snd b)), dy_add (dy_mul (fst a) (snd b)) (dy_mul (snd a) (fst b))).
Definition dc_abs2 (a : DyC) : Dy := dy_add (dy_mul (fst a) (fst a)) (dy_mul (snd a) (snd a)).
Definition dc_div (a b : DyC) : DyC :=
  let d := dc_abs2 b in
  (dy_div (dy_add (dy_mul (fst a) (fst b)) (dy_mul (snd a) (snd b))) d,
   dy_div (dy_sub (dy_mul (snd a) (fst b)) (dy_mul (fst a) (snd b))) d).
Definition NumDyC : Num DyC :=
  {| nzero := (dy0, dy0); none_ := ((1, 0)%Z, dy0); nadd := dc_add; nmul := dc_mul; nsub := dc_sub; nopp := dc_opp;
     ndiv := dc_div; nofZ := fun z => ((z, 0%Z), dy0) |}.
Definition dc_conj (a : DyC) : DyC := (fst a, dy_opp (snd a)).

(* principal complex square root (numpy branch: real part >= 0; on the negative real axis +i*sqrt|a|) *)
Definition dy_two : Dy := (2, 0)%Z.
Definition dc_sqrt (z : DyC) : DyC :=
  let a := fst z in let b := snd z in
  let r := dy_sqrt (dc_abs2 z) in
  if (fst r =? 0)%Z then (dy0, dy0)
  else if (0 <=? fst a)%Z then
    let re := dy_sqrt (dy_div (dy_add r a) dy_two) in
    (re, dy_div b (dy_mul dy_two re))
  else
    let im := dy_sqrt (dy_div (dy_sub r a) dy_two) in
    let re := dy_div (dy_abs b) (dy_mul dy_two im) in
    (re, if (0 <=? fst b)%Z then im else dy_opp im).
