(* Small dense matrices over a numeric signature `Num K` as lists (matrix = list of rows, the way numpy
   prints them), the numpy primitives the EigenSolve model (C11) is written with, and their algebra for
   any commutative ring / field with Leibniz equality (R, pairs of reals = complex numbers, ...).
   Also: the complex numbers over R as a field (instance for the generic theorems), and the evaluation
   domains Q / Gaussian rationals Q[i] (exact + - *, division and square root rounded to 128 bits). *)
From Coq Require Import ZArith QArith Qabs Reals List Lia Lra Ring Field Bool Permutation.
From Pymoto Require Import Base.Num.
Import ListNotations.

(* ------------------------------------------------------------------------------------------------ *)
(* numpy primitives on lists                                                                         *)
Section MatDefs.
  Context {K : Type} `{Num K}.

  Definition mat : Type := list (list K).

  (* M @ x *)
  Definition mv (M : mat) (x : list K) : list K := map (fun r => dot r x) M.
  (* M[:, i] *)
  Definition getcol (i : nat) (M : mat) : list K := map (fun r => nth i r nzero) M.
  (* W[idx]  (fancy indexing, a copy) *)
  Definition take (idx : list nat) (W : list K) : list K := map (fun i => nth i W nzero) idx.
  (* M[:, idx] *)
  Definition take_cols (idx : list nat) (M : mat) : mat := map (take idx) M.

  Fixpoint upd (i : nat) (f : K -> K) (l : list K) : list K :=
    match l, i with
    | [], _ => []
    | h :: t, O => f h :: t
    | h :: t, S j => h :: upd j f t
    end.
  (* q *= c  on a vector, and on the view M[:, i] *)
  Definition vscaler (c : K) (q : list K) : list K := map (fun x => nmul x c) q.
  Definition scale_col (i : nat) (c : K) (M : mat) : mat := map (upd i (fun x => nmul x c)) M.

  (* np.average(q) *)
  Definition navg (q : list K) : K := ndiv (nsum q) (nofZ (Z.of_nat (length q))).

  Definition eye (n : nat) : mat :=
    map (fun i => map (fun j => if Nat.eqb i j then none_ else nzero) (seq 0 n)) (seq 0 n).
  Definition mmap2 (f : K -> K -> K) (A B : mat) : mat :=
    map (fun p => map (fun e => f (fst e) (snd e)) (combine (fst p) (snd p))) (combine A B).
  (* A - s * B *)
  Definition mshift (A : mat) (s : K) (B : mat) : mat := mmap2 (fun a b => nsub a (nmul s b)) A B.
  Definition mtranspose (n : nat) (M : mat) : mat := map (fun j => getcol j M) (seq 0 n).

  Definition is_zero_vec (q : list K) : Prop := Forall (fun x => x = nzero) q.
  Definition ncols_ok (m : nat) (M : mat) : Prop := Forall (fun r => length r = m) M.

  (* dense matrix from (row, col, value) triples; later duplicates are summed (none are generated) *)
  Definition of_triples (n m : nat) (T : list (nat * nat * K)) : mat :=
    map (fun i => map (fun j =>
      fold_right (fun t acc => match t with (a, b, v) => if Nat.eqb a i && Nat.eqb b j then nadd v acc else acc end)
                 nzero T) (seq 0 m)) (seq 0 n).
End MatDefs.

(* faster construction for the case files: triples sorted by row; one pass per row *)
Section Triples.
  Context {K : Type} `{Num K}.
  Fixpoint row_of (m : nat) (j : nat) (es : list (nat * K)) : list K :=
    match m with
    | O => []
    | S m' => (fold_right (fun e acc => if Nat.eqb (fst e) j then nadd (snd e) acc else acc) nzero es)
              :: row_of m' (S j) es
    end.
  (* rows given as association lists (col, value) *)
  Definition of_rows (m : nat) (R : list (list (nat * K))) : mat := map (row_of m 0) R.
End Triples.

(* ------------------------------------------------------------------------------------------------ *)
(* algebra over a commutative ring                                                                   *)
Section RingLaws.
  Context {K : Type} `{Num K}.
  Hypothesis Rth : ring_theory (@nzero K _) none_ nadd nmul nsub nopp (@eq K).
  Add Ring KringQMat : Rth.
  Local Open Scope num_scope.

  Lemma dot_cons' a b (x y : list K) : dot (a :: x) (b :: y) = a * b + dot x y.
  Proof. reflexivity. Qed.

  Lemma dot_vscaler_r (r q : list K) c : dot r (vscaler c q) = dot r q * c.
  Proof.
    revert q; induction r as [|a r IH]; intros [|b q]; cbn [vscaler map]; try (unfold dot; cbn; ring).
    rewrite !dot_cons'. fold (vscaler c q). rewrite IH. ring.
  Qed.

  Lemma dot_vscaler_l (r q : list K) c : dot (vscaler c q) r = dot q r * c.
  Proof.
    revert r; induction q as [|a q IH]; intros [|b r]; cbn [vscaler map]; try (unfold dot; cbn; ring).
    rewrite !dot_cons'. fold (vscaler c q). rewrite IH. ring.
  Qed.

  Lemma mv_vscaler (M : mat) q c : mv M (vscaler c q) = vscaler c (mv M q).
  Proof.
    unfold mv, vscaler at 2. rewrite map_map. apply map_ext. intros r. apply dot_vscaler_r.
  Qed.

  Lemma vscale_vscaler lam c (q : list K) : vscale lam (vscaler c q) = vscaler c (vscale lam q).
  Proof.
    unfold vscale, vscaler. rewrite !map_map. apply map_ext. intros x. ring.
  Qed.

  Lemma nsum_vscaler c (q : list K) : nsum (vscaler c q) = nsum q * c.
  Proof.
    induction q as [|a q IH]; cbn [vscaler map nsum fold_right].
    - ring.
    - fold (vscaler c q). fold (nsum (vscaler c q)). fold (nsum q). rewrite IH. ring.
  Qed.

  Lemma vscaler_length c (q : list K) : length (vscaler c q) = length q.
  Proof. apply map_length. Qed.
End RingLaws.

(* index lemmas (no algebra) *)
Section IndexLaws.
  Context {K : Type} `{Num K}.

  Lemma upd_length i f (l : list K) : length (upd i f l) = length l.
  Proof. revert i; induction l as [|h t IH]; intros [|i]; cbn; auto. Qed.

  Lemma nth_upd_same i f (l : list K) d : (i < length l)%nat -> nth i (upd i f l) d = f (nth i l d).
  Proof.
    revert i; induction l as [|h t IH]; intros [|i] Hi; cbn in *; try lia; auto. apply IH. lia.
  Qed.

  Lemma nth_upd_other i j f (l : list K) d : i <> j -> nth j (upd i f l) d = nth j l d.
  Proof.
    revert i j; induction l as [|h t IH]; intros [|i] [|j] Hij; cbn; auto; try lia.
  Qed.

  Lemma getcol_length i (M : mat) : length (getcol i M) = length M.
  Proof. apply map_length. Qed.

  Lemma scale_col_length i c (M : mat) : length (scale_col i c M) = length M.
  Proof. apply map_length. Qed.

  Lemma scale_col_ncols i c m (M : mat) : ncols_ok m M -> ncols_ok m (scale_col i c M).
  Proof.
    unfold ncols_ok, scale_col. intros HM. apply Forall_map. revert HM. apply Forall_impl.
    intros r Hr. rewrite upd_length. exact Hr.
  Qed.

  Lemma getcol_scale_col_same i c m (M : mat) : ncols_ok m M -> (i < m)%nat ->
    getcol i (scale_col i c M) = vscaler c (getcol i M).
  Proof.
    unfold ncols_ok, getcol, scale_col, vscaler. intros HM Hi. rewrite !map_map.
    apply map_ext_in. intros r Hr. rewrite Forall_forall in HM. specialize (HM r Hr).
    apply nth_upd_same. lia.
  Qed.

  Lemma getcol_scale_col_other i j c (M : mat) : i <> j -> getcol j (scale_col i c M) = getcol j M.
  Proof.
    unfold getcol, scale_col. intros Hij. rewrite map_map. apply map_ext. intros r.
    apply nth_upd_other. exact Hij.
  Qed.

  Lemma take_length idx (W : list K) : length (take idx W) = length idx.
  Proof. apply map_length. Qed.

  Lemma take_cols_ncols idx (M : mat) : ncols_ok (length idx) (take_cols idx M).
  Proof.
    unfold ncols_ok, take_cols. apply Forall_map. apply Forall_forall. intros r _. apply take_length.
  Qed.

  Lemma take_cols_length idx (M : mat) : length (take_cols idx M) = length M.
  Proof. apply map_length. Qed.

  Lemma nth_take idx (W : list K) j : (j < length idx)%nat -> nth j (take idx W) nzero = nth (nth j idx O) W nzero.
  Proof.
    intros Hj. unfold take. rewrite (nth_indep _ nzero (nth O W nzero)) by (rewrite map_length; exact Hj).
    rewrite (map_nth (fun i => nth i W nzero) idx O j). reflexivity.
  Qed.

  Lemma getcol_take_cols idx (M : mat) j : (j < length idx)%nat ->
    getcol j (take_cols idx M) = getcol (nth j idx O) M.
  Proof.
    intros Hj. unfold getcol, take_cols. rewrite map_map. apply map_ext. intros r. apply nth_take. exact Hj.
  Qed.
End IndexLaws.

(* ------------------------------------------------------------------------------------------------ *)
(* fields: the Num signature has no inverse; 1/x plays that role                                     *)
Definition ninv {K} `{Num K} (x : K) : K := ndiv none_ x.
Definition num_field (K : Type) `{Num K} : Prop :=
  field_theory nzero none_ nadd nmul nsub nopp ndiv ninv (@eq K).

Lemma num_field_R : num_field R.
Proof.
  constructor.
  - exact RTheory.
  - cbn. exact R1_neq_R0.
  - intros p q. cbn. unfold ninv; cbn. unfold Rdiv. ring.
  - intros p Hp. cbn in *. unfold ninv; cbn. field. exact Hp.
Qed.

(* ------------------------------------------------------------------------------------------------ *)
(* complex numbers over R as pairs: a field (instance of the generic theorems for complex data)      *)
Definition RC : Type := (R * R)%type.
Definition rc_add (a b : RC) : RC := (fst a + fst b, snd a + snd b)%R.
Definition rc_mul (a b : RC) : RC := (fst a * fst b - snd a * snd b, fst a * snd b + snd a * fst b)%R.
Definition rc_sub (a b : RC) : RC := (fst a - fst b, snd a - snd b)%R.
Definition rc_opp (a : RC) : RC := (- fst a, - snd a)%R.
Definition rc_div (a b : RC) : RC :=
  let d := (fst b * fst b + snd b * snd b)%R in
  ((fst a * fst b + snd a * snd b) / d, (snd a * fst b - fst a * snd b) / d)%R.
#[global] Instance NumRC : Num RC :=
  {| nzero := (0, 0)%R; none_ := (1, 0)%R; nadd := rc_add; nmul := rc_mul; nsub := rc_sub; nopp := rc_opp;
     ndiv := rc_div; nofZ := fun z => (IZR z, 0%R) |}.

Lemma num_ring_RC : num_ring RC.
Proof.
  constructor; intros; cbn; unfold rc_add, rc_mul, rc_sub, rc_opp;
    repeat match goal with x : RC |- _ => destruct x end; cbn [fst snd]; f_equal; ring.
Qed.

Lemma rc_norm_pos (a b : R) : (a, b) <> (0, 0)%R -> (a * a + b * b <> 0)%R.
Proof.
  intros Hne Hz. apply Hne.
  assert (Ha : (a = 0)%R) by nra. assert (Hb : (b = 0)%R) by nra. subst. reflexivity.
Qed.

Lemma num_field_RC : num_field RC.
Proof.
  constructor.
  - exact num_ring_RC.
  - cbn. intros E. inversion E as [E1]. exact (R1_neq_R0 E1).
  - intros [a b] [c d]. cbn. unfold ninv; cbn. unfold rc_div, rc_mul; cbn [fst snd].
    destruct (Req_dec (c * c + d * d) 0) as [Hz|Hnz].
    + rewrite Hz. unfold Rdiv. rewrite Rinv_0. f_equal; ring.
    + f_equal; field; exact Hnz.
  - intros [a b] Hp. cbn in *. unfold ninv; cbn. unfold rc_div, rc_mul; cbn [fst snd].
    pose proof (rc_norm_pos a b Hp) as Hn. f_equal; field; exact Hn.
Qed.

(* ------------------------------------------------------------------------------------------------ *)
(* evaluation domains: float64 data as exact rationals, complex128 data as Gaussian rationals.
   + - * are exact (dyadic numbers stay dyadic); division and square root are ROUNDED to >= 128 significant
   bits and return dyadic numbers, so that numerals stay small under vm_compute (exact quotients of 700-bit
   numbers make Qred's gcd take seconds).  These instances are used only to evaluate the model in the
   correspondence check, where results are compared with float64 results at 1e-9. *)
Definition div_bits : Z := 128.
Definition Qdivr (a b : Q) : Q :=
  let n := (Qnum a * Zpos (Qden b))%Z in
  let d := (Zpos (Qden a) * Qnum b)%Z in
  if (d =? 0)%Z then 0%Q
  else
    let n' := (if (d <? 0)%Z then - n else n)%Z in
    let d' := Z.abs d in
    if (n' =? 0)%Z then 0%Q
    else
      let p := (div_bits + Z.max 0 (Z.log2 d' - Z.log2 (Z.abs n')))%Z in
      Qred (Qmake ((n' * 2 ^ p) / d') (Z.to_pos (2 ^ p))).
Definition Qsqrt (x : Q) : Q :=
  let n := Qnum x in
  let d := Zpos (Qden x) in
  if (n <=? 0)%Z then 0%Q
  else
    let p := (div_bits + Z.max 0 ((Z.log2 d - Z.log2 n) / 2 + 1))%Z in
    Qred (Qmake (Z.sqrt ((n * 4 ^ p) / d)) (Z.to_pos (2 ^ p))).
Definition NumQd : Num Q :=
  {| nzero := 0%Q; none_ := 1%Q; nadd := Qradd; nmul := Qrmul; nsub := Qrsub; nopp := Qopp;
     ndiv := Qdivr; nofZ := fun z => inject_Z z |}.

Definition QC : Type := (Q * Q)%type.
Definition qc_add (a b : QC) : QC := (Qradd (fst a) (fst b), Qradd (snd a) (snd b)).
Definition qc_sub (a b : QC) : QC := (Qrsub (fst a) (fst b), Qrsub (snd a) (snd b)).
Definition qc_opp (a : QC) : QC := (Qopp (fst a), Qopp (snd a)).
Definition qc_mul (a b : QC) : QC :=
  (Qrsub (Qrmul (fst a) (fst b)) (Qrmul (snd a) (snd b)), Qradd (Qrmul (fst a) (snd b)) (Qrmul (snd a) (fst b))).
Definition qc_div (a b : QC) : QC :=
  let d := Qradd (Qrmul (fst b) (fst b)) (Qrmul (snd b) (snd b)) in
  (Qdivr (Qradd (Qrmul (fst a) (fst b)) (Qrmul (snd a) (snd b))) d,
   Qdivr (Qrsub (Qrmul (snd a) (fst b)) (Qrmul (fst a) (snd b))) d).
Definition NumQCd : Num QC :=
  {| nzero := (0, 0)%Q; none_ := (1, 0)%Q; nadd := qc_add; nmul := qc_mul; nsub := qc_sub; nopp := qc_opp;
     ndiv := qc_div; nofZ := fun z => (inject_Z z, 0%Q) |}.
Definition qc_conj (a : QC) : QC := (fst a, Qopp (snd a)).
Definition qc_abs2 (a : QC) : Q := Qradd (Qrmul (fst a) (fst a)) (Qrmul (snd a) (snd a)).

(* principal complex square root (numpy branch: real part >= 0; on the negative real axis +i*sqrt|a|) *)
Definition QCsqrt (z : QC) : QC :=
  let a := fst z in let b := snd z in
  let r := Qsqrt (qc_abs2 z) in
  if Qeq_bool r 0 then (0, 0)%Q
  else if Qle_bool 0 a then
    let re := Qsqrt (Qdivr (Qradd r a) 2) in
    (re, Qdivr b (Qrmul 2 re))
  else
    let im := Qsqrt (Qdivr (Qrsub r a) 2) in
    let re := Qdivr (Qabs b) (Qrmul 2 im) in
    (re, if Qle_bool 0 b then im else Qopp im).
