(* Python float (IEEE binary64) operations on Coq's primitive floats, definitions only.
   PrimFloat add/sub/mul/div/sqrt and the comparisons are the IEEE operations (round to nearest even),
   i.e. bit-exact with CPython / numpy float64 scalar arithmetic.  Python float literals are written
   with float.hex() (exact). *)
From Coq Require Import ZArith PrimFloat Uint63 FloatOps SpecFloat List.
Import ListNotations.

(* int(f): truncation towards zero (finite f; nan/inf raise in Python and are mapped to 0 here) *)
Definition float_trunc (f : float) : Z :=
  match Prim2SF f with
  | S754_finite s m e =>
      let v := (if (0 <=? e) then Z.shiftl (Zpos m) e else Z.shiftr (Zpos m) (- e))%Z in
      if s then (- v)%Z else v
  | _ => 0%Z
  end.

(* float(n) for an integer |n| < 2^63 (exact below 2^53, correctly rounded above) *)
Definition float_of_Z (z : Z) : float :=
  match z with
  | Z0 => PrimFloat.zero
  | Zpos _ => PrimFloat.of_uint63 (Uint63.of_Z z)
  | Zneg p => PrimFloat.opp (PrimFloat.of_uint63 (Uint63.of_Z (Zpos p)))
  end.

(* exact rational value of a finite float as a pair (numerator, denominator = 2^k) -- used to hand
   float results to Q-valued comparisons *)
Definition float_to_Zpair (f : float) : Z * Z :=
  match Prim2SF f with
  | S754_finite s m e =>
      let num := if s then Zneg m else Zpos m in
      if (0 <=? e)%Z then (Z.shiftl num e, 1%Z) else (num, Z.shiftl 1 (- e))
  | _ => (0%Z, 1%Z)
  end.

Definition float_is_finite (f : float) : bool :=
  match Prim2SF f with S754_finite _ _ _ | S754_zero _ => true | _ => false end.

Definition fl_eqb_list (a b : list float) : bool :=
  Nat.eqb (length a) (length b) && forallb (fun q => PrimFloat.eqb (fst q) (snd q)) (combine a b).
