(* Python float (IEEE binary64) operations on Coq's primitive floats, definitions only.
   PrimFloat add/sub/mul/div/sqrt and the comparisons are the IEEE operations (round to nearest even),
   i.e. bit-exact with CPython / numpy float64 scalar arithmetic.  Python float literals are written
   with float.hex() (exact). *)
From Coq Require Import ZArith PrimFloat Uint63 FloatOps SpecFloat List.
Import ListNotations.

(* int(f): truncation towards zero (finite f; nan/inf raise in Python and are mapped to 0 here) *)
Definition float_trunc (f : float) : Z :=
  match Prim2SF f with
  | S754_finite s m e =>
      let v := (if (0 <=? e) then Z.shiftl (Zpos m) e else Z.shiftr (Zpos m) (- e))%Z in
      if s then (- v)%Z else v
  | _ => 0%Z
  end.

(* float(n) for an integer |n| < 2^63 (exact below 2^53, correctly rounded above) *)
Definition float_of_Z (z : Z) : float :=
  match z with
  | Z0 => PrimFloat.zero
  | Zpos _ => PrimFloat.of_uint63 (Uint63.of_Z z)
  | Zneg p => PrimFloat.opp (PrimFloat.of_uint63 (Uint63.of_Z (Zpos p)))
  end.

(* exact rational value of a finite float as a pair (numerator, denominator = 2^k) -- used to hand
   float results to Q-valued comparisons *)
Definition float_to_Zpair (f : float) : Z * Z :=
  match Prim2SF f with
  | S754_finite s m e =>
      let num := if s then Zneg m else Zpos m in
      if (0 <=? e)%Z then (Z.shiftl num e, 1%Z) else (num, Z.shiftl 1 (- e))
  | _ => (0%Z, 1%Z)
  end.

Definition float_is_finite (f : float) : bool :=
  match Prim2SF f with S754_finite _ _ _ | S754_zero _ => true | _ => false end.

Definition fl_eqb_list (a b : list float) : bool :=
  Nat.eqb (length a) (length b) && forallb (fun q => PrimFloat.eqb (fst q) (snd q)) (combine a b).

(* np.sum of a contiguous 1-D float64 array: numpy's pairwise summation (umath loops, pairwise_sum):
   fewer than 8 entries are added sequentially starting from 0.0; up to 128 entries use 8 interleaved partial
   sums combined as ((r0+r1)+(r2+r3))+((r4+r5)+(r6+r7)) followed by the remainder; longer arrays are split at
   n/2 rounded down to a multiple of 8.  (Validated bit-for-bit against numpy by the C17 check on every run.) *)
Definition fsum_seq (a : list float) (s : float) : float := fold_left PrimFloat.add a s.
Definition add8 (r b : list float) : list float := map (fun q => PrimFloat.add (fst q) (snd q)) (combine r b).
Fixpoint blocks8 (nb : nat) (r rest : list float) : list float * list float :=
  match nb with
  | O => (r, rest)
  | S k => blocks8 k (add8 r (firstn 8 rest)) (skipn 8 rest)
  end.
Definition sum_block (a : list float) : float :=
  let q := blocks8 (length a / 8 - 1) (firstn 8 a) (skipn 8 a) in
  match fst q with
  | [r0; r1; r2; r3; r4; r5; r6; r7] =>
      fsum_seq (snd q) (PrimFloat.add (PrimFloat.add (PrimFloat.add r0 r1) (PrimFloat.add r2 r3))
                                      (PrimFloat.add (PrimFloat.add r4 r5) (PrimFloat.add r6 r7)))
  | _ => PrimFloat.nan
  end.
Fixpoint np_sum_fuel (fuel : nat) (a : list float) : float :=
  let n := length a in
  if Nat.ltb n 8 then fsum_seq a PrimFloat.zero
  else if Nat.leb n 128 then sum_block a
  else match fuel with
       | O => PrimFloat.nan
       | S f => let h := (n / 2)%nat in let n2 := (h - h mod 8)%nat in
                PrimFloat.add (np_sum_fuel f (firstn n2 a)) (np_sum_fuel f (skipn n2 a))
       end.
Definition np_sum (a : list float) : float := np_sum_fuel 64 a.

(* ---- Python numbers: int (unbounded) or float, with Python's mixed arithmetic.
   int op int stays int (plus, minus, times), anything involving a float converts the int with float(n) (correctly rounded,
   round to nearest even); true division always yields a float; comparisons between an int and a float are EXACT
   (CPython compares the mathematical values), e.g. 10**40 < 1e40 is True although float(10**40) == 1e40. *)
Inductive pynum := PInt (z : Z) | PFlt (f : float).

Definition big_float_of_Z (z : Z) : float := SF2Prim (binary_normalize 53 1024 z 0 false).
Definition py_float (a : pynum) : float := match a with PInt z => big_float_of_Z z | PFlt f => f end.

Definition py_add (a b : pynum) : pynum :=
  match a, b with PInt x, PInt y => PInt (x + y) | _, _ => PFlt (PrimFloat.add (py_float a) (py_float b)) end.
Definition py_sub (a b : pynum) : pynum :=
  match a, b with PInt x, PInt y => PInt (x - y) | _, _ => PFlt (PrimFloat.sub (py_float a) (py_float b)) end.
Definition py_mul (a b : pynum) : pynum :=
  match a, b with PInt x, PInt y => PInt (x * y) | _, _ => PFlt (PrimFloat.mul (py_float a) (py_float b)) end.
(* a / b with at least one float operand (int / int does not occur in the modelled code) *)
Definition py_div (a b : pynum) : pynum := PFlt (PrimFloat.div (py_float a) (py_float b)).
Definition py_opp (a : pynum) : pynum := match a with PInt x => PInt (- x) | PFlt f => PFlt (PrimFloat.opp f) end.
Definition py_abs (a : pynum) : pynum := match a with PInt x => PInt (Z.abs x) | PFlt f => PFlt (PrimFloat.abs f) end.
Definition py_sqrt (a : pynum) : pynum := PFlt (PrimFloat.sqrt (py_float a)).

(* exact comparison; None when a NaN is involved *)
Definition cmp_Z_float (x : Z) (g : float) : option comparison :=
  match Prim2SF g with
  | S754_nan => None
  | S754_infinity s => Some (if s then Gt else Lt)
  | S754_zero _ => Some (x ?= 0)%Z
  | S754_finite s m e =>
      let num := if s then Zneg m else Zpos m in
      if (0 <=? e)%Z then Some (x ?= Z.shiftl num e)%Z else Some (x * Z.shiftl 1 (- e) ?= num)%Z
  end.
Definition py_cmp (a b : pynum) : option comparison :=
  match a, b with
  | PInt x, PInt y => Some (x ?= y)%Z
  | PInt x, PFlt g => cmp_Z_float x g
  | PFlt f, PInt y => match cmp_Z_float y f with Some c => Some (CompOpp c) | None => None end
  | PFlt f, PFlt g =>
      match PrimFloat.compare f g with FEq => Some Eq | FLt => Some Lt | FGt => Some Gt | FNotComparable => None end
  end.
Definition py_ltb (a b : pynum) : bool := match py_cmp a b with Some Lt => true | _ => false end.
Definition py_leb (a b : pynum) : bool := match py_cmp a b with Some Lt | Some Eq => true | _ => false end.
Definition py_eqb (a b : pynum) : bool := match py_cmp a b with Some Eq => true | _ => false end.
