(* Byte strings / text as lists of character codes (Z), decimal formatting, join/split, substring search,
   Python exception classes and results.  Shared helpers of the file-format models (C20).  Definitions only;
   the lemmas are in Proofs/BytesP.v. *)
From Coq Require Import ZArith List Bool DecimalZ.
From Coq Require String Ascii.
Export String.StringSyntax.
Import ListNotations.
Open Scope Z_scope.

Definition str := list Z.

(* Coq string literal -> list of codes *)
Definition s2z (s : String.string) : str := map (fun a => Z.of_nat (Ascii.nat_of_ascii a)) (String.list_ascii_of_string s).
Arguments s2z s%string_scope.

Definition byte_ok (b : Z) : Prop := 0 <= b < 256.
Definition byte_okb (b : Z) : bool := (0 <=? b) && (b <? 256).
Definition bytes_ok (bs : list Z) : Prop := Forall byte_ok bs.

(* exception classes the harness distinguishes, results *)
Inductive exn := TypeError | ValueError | IndexError | AssertionError | RuntimeError | OtherError.
Definition exn_code (e : exn) : Z :=
  match e with TypeError => 1 | ValueError => 2 | IndexError => 3 | AssertionError => 4 | RuntimeError => 5 | OtherError => 6 end.
Inductive res (A : Type) := Ok (a : A) | Err (e : exn).
Arguments Ok {A} a.
Arguments Err {A} e.
(* 0 for success, else the code of the exception class *)
Definition res_code {A} (r : res A) : Z := match r with Ok _ => 0 | Err e => exn_code e end.

(* ---- decimal text of integers: int.__format__('d') ---- *)
Fixpoint uint_codes (u : Decimal.uint) : str :=
  match u with
  | Decimal.Nil => []
  | Decimal.D0 t => 48 :: uint_codes t | Decimal.D1 t => 49 :: uint_codes t | Decimal.D2 t => 50 :: uint_codes t
  | Decimal.D3 t => 51 :: uint_codes t | Decimal.D4 t => 52 :: uint_codes t | Decimal.D5 t => 53 :: uint_codes t
  | Decimal.D6 t => 54 :: uint_codes t | Decimal.D7 t => 55 :: uint_codes t | Decimal.D8 t => 56 :: uint_codes t
  | Decimal.D9 t => 57 :: uint_codes t
  end.
Definition dec (n : Z) : str :=
  match Z.to_int n with Decimal.Pos u => uint_codes u | Decimal.Neg u => 45 :: uint_codes u end.

(* reading a string of decimal digits (what int(text) does for an unsigned numeral); None when a non-digit occurs *)
Fixpoint codes_uint (s : str) : option Decimal.uint :=
  match s with
  | [] => Some Decimal.Nil
  | c :: t =>
    match codes_uint t with
    | None => None
    | Some u =>
      if c =? 48 then Some (Decimal.D0 u) else if c =? 49 then Some (Decimal.D1 u) else if c =? 50 then Some (Decimal.D2 u)
      else if c =? 51 then Some (Decimal.D3 u) else if c =? 52 then Some (Decimal.D4 u) else if c =? 53 then Some (Decimal.D5 u)
      else if c =? 54 then Some (Decimal.D6 u) else if c =? 55 then Some (Decimal.D7 u) else if c =? 56 then Some (Decimal.D8 u)
      else if c =? 57 then Some (Decimal.D9 u) else None
    end
  end.
Definition parse_dec (s : str) : option Z :=
  match s with [] => None | _ => option_map Z.of_uint (codes_uint s) end.

(* '{:0Wd}' for non-negative integers: left-pad with '0' to width w *)
Definition zpad (w : nat) (s : str) : str := repeat 48 (w - length s) ++ s.

(* sep.join(parts) *)
Fixpoint join (sep : str) (l : list str) : str :=
  match l with
  | [] => []
  | x :: t => match t with [] => x | _ => x ++ sep ++ join sep t end
  end.

(* text.split(c) for a single character c *)
Fixpoint split_on (c : Z) (s : str) : list str :=
  match s with
  | [] => [[]]
  | x :: t =>
    match split_on c t with
    | [] => [[x]]   (* unreachable: split_on never returns [] *)
    | h :: r => if x =? c then [] :: h :: r else (x :: h) :: r
    end
  end.

(* lines of a text file: every line is terminated by "\n" *)
Definition unlines (ls : list str) : str := flat_map (fun l => l ++ [10]) ls.

(* substring search: `p in s` *)
Fixpoint prefix_of (p s : str) : bool :=
  match p, s with
  | [], _ => true
  | a :: p', b :: s' => (a =? b) && prefix_of p' s'
  | _ :: _, [] => false
  end.
Fixpoint contains (p s : str) : bool :=
  prefix_of p s || match s with [] => false | _ :: t => contains p t end.

(* str.lower() on ASCII *)
Definition lower (s : str) : str := map (fun c => if (65 <=? c) && (c <=? 90) then c + 32 else c) s.

(* index of the last occurrence of c: str.rfind(c) *)
Fixpoint rfind_from (c : Z) (s : str) (i : nat) (acc : option nat) : option nat :=
  match s with
  | [] => acc
  | x :: t => rfind_from c t (S i) (if x =? c then Some i else acc)
  end.
Definition rfind (c : Z) (s : str) : option nat := rfind_from c s 0 None.

(* os.path.splitext (posix): the extension starts at the last dot of the last path component, unless only dots precede it *)
Definition splitext (p : str) : str * str :=
  let base := match rfind 47 p with Some i => S i | None => O end in
  match rfind 46 p with
  | Some d =>
    if (base <=? d)%nat && existsb (fun c => negb (c =? 46)) (firstn (d - base) (skipn base p))
    then (firstn d p, skipn d p) else (p, [])
  | None => (p, [])
  end.

(* little-endian fixed-width unsigned integers: struct.pack('<Q', v) is le_bytes 8 v *)
Fixpoint le_bytes (n : nat) (v : Z) : list Z :=
  match n with O => [] | S k => v mod 256 :: le_bytes k (v / 256) end.
Fixpoint le_value (bs : list Z) : Z :=
  match bs with [] => 0 | b :: t => b + 256 * le_value t end.
