(* Boolean comparison helpers used by the generated case files. *)
From Coq Require Import ZArith QArith Qabs List Bool.
Import ListNotations.

Fixpoint list_eqb {A} (eqb : A -> A -> bool) (a b : list A) : bool :=
  match a, b with
  | [], [] => true
  | x :: a', y :: b' => eqb x y && list_eqb eqb a' b'
  | _, _ => false
  end.
Definition Zl_eqb := list_eqb Z.eqb.
Definition Zll_eqb := list_eqb Zl_eqb.
Definition Zlll_eqb := list_eqb Zll_eqb.
Definition Bl_eqb := list_eqb Bool.eqb.
Definition Ql_eqb := list_eqb Qeq_bool.
Definition Qll_eqb := list_eqb Ql_eqb.
Definition Qlll_eqb := list_eqb Qll_eqb.

(* |a - b| <= tol *)
Definition Qclose (tol a b : Q) : bool := Qle_bool (Qabs (a - b)) tol.
Definition Ql_close tol := list_eqb (Qclose tol).
Definition Qll_close tol := list_eqb (Ql_close tol).
Definition Qlll_close tol := list_eqb (Qll_close tol).

Definition option_eqb {A} (eqb : A -> A -> bool) (a b : option A) : bool :=
  match a, b with
  | None, None => true
  | Some x, Some y => eqb x y
  | _, _ => false
  end.

Lemma list_eqb_spec {A} (eqb : A -> A -> bool) :
  (forall x y, eqb x y = true <-> x = y) -> forall a b, list_eqb eqb a b = true <-> a = b.
Proof.
  intros H. induction a as [|x a IH]; intros [|y b]; cbn; split; intros E; try discriminate; auto.
  - apply andb_true_iff in E as [E1 E2]. apply H in E1. apply IH in E2. congruence.
  - inversion E; subst. apply andb_true_iff. split; [apply H | apply IH]; reflexivity.
Qed.
