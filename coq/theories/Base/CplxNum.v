(* Complex numbers re + i*im over any numeric type F, as a record (so that the Num instance below cannot be picked
   for unrelated pair types).  F = bigQ: complex128 data of the implementation represented exactly and executed
   inside the correspondence checks;  F = R: the numbers the theorems are instantiated with.
   The ring laws are inherited from F (cplx_ring). *)
From Coq Require Import ZArith List Ring.
From Pymoto Require Import Base.Num.
Import ListNotations.

Record cplx (F : Type) : Type := Cx { c_re : F; c_im : F }.
Arguments Cx {F} _ _.
Arguments c_re {F} _.
Arguments c_im {F} _.

Section Cplx.
  Context {F : Type} `{Num F}.
  Local Open Scope num_scope.

  Definition cx_zero : cplx F := Cx nzero nzero.
  Definition cx_one : cplx F := Cx none_ nzero.
  Definition cx_add (a b : cplx F) : cplx F := Cx (c_re a + c_re b) (c_im a + c_im b).
  Definition cx_sub (a b : cplx F) : cplx F := Cx (c_re a - c_re b) (c_im a - c_im b).
  Definition cx_opp (a : cplx F) : cplx F := Cx (- c_re a) (- c_im a).
  Definition cx_mul (a b : cplx F) : cplx F :=
    Cx (c_re a * c_re b - c_im a * c_im b) (c_re a * c_im b + c_im a * c_re b).
  Definition cx_div (a b : cplx F) : cplx F :=
    let n := c_re b * c_re b + c_im b * c_im b in
    Cx ((c_re a * c_re b + c_im a * c_im b) / n) ((c_im a * c_re b - c_re a * c_im b) / n).
  Definition cx_of (r : F) : cplx F := Cx r nzero.

  #[global] Instance NumCplx : Num (cplx F) :=
    {| nzero := cx_zero; none_ := cx_one; nadd := cx_add; nmul := cx_mul; nsub := cx_sub; nopp := cx_opp;
       ndiv := cx_div; nofZ := fun z => cx_of (nofZ z) |}.

End Cplx.

Section CplxRing.
  Context {F : Type} `{Num F}.
  Hypothesis Rth : ring_theory (@nzero F _) none_ nadd nmul nsub nopp (@eq F).
  Add Ring FringCplx : Rth.
  Local Open Scope num_scope.

  Lemma cplx_ring : ring_theory (@nzero (cplx F) _) none_ nadd nmul nsub nopp (@eq (cplx F)).
  Proof.
    constructor; intros; repeat match goal with x : cplx F |- _ => destruct x end;
      cbn [nzero none_ nadd nmul nsub nopp NumCplx]; unfold cx_zero, cx_one, cx_add, cx_mul, cx_sub, cx_opp;
      cbn [c_re c_im]; f_equal; ring.
  Qed.
End CplxRing.
