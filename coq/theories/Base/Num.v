(* Numeric signature shared by models that are both proved about (over R or any ring)
   and executed (over Z or Q).  Definitions only. *)
From Coq Require Import ZArith QArith Qabs Reals List.
Import ListNotations.

Class Num (K : Type) := {
  nzero : K; none_ : K;
  nadd : K -> K -> K; nmul : K -> K -> K; nsub : K -> K -> K; nopp : K -> K;
  ndiv : K -> K -> K;
  nofZ : Z -> K
}.

Declare Scope num_scope.
Delimit Scope num_scope with num.
Infix "+" := nadd : num_scope.
Infix "*" := nmul : num_scope.
Infix "-" := nsub : num_scope.
Infix "/" := ndiv : num_scope.
Notation "- x" := (nopp x) : num_scope.

#[global] Instance NumZ : Num Z :=
  {| nzero := 0%Z; none_ := 1%Z; nadd := Z.add; nmul := Z.mul; nsub := Z.sub; nopp := Z.opp;
     ndiv := Z.div; nofZ := fun z => z |}.

(* Q with reduction after every operation (keeps numerals small under vm_compute) *)
Definition Qradd (a b : Q) : Q := Qred (Qplus a b).
Definition Qrmul (a b : Q) : Q := Qred (Qmult a b).
Definition Qrsub (a b : Q) : Q := Qred (Qminus a b).
Definition Qrdiv (a b : Q) : Q := Qred (Qdiv a b).
#[global] Instance NumQ : Num Q :=
  {| nzero := 0%Q; none_ := 1%Q; nadd := Qradd; nmul := Qrmul; nsub := Qrsub; nopp := Qopp;
     ndiv := Qrdiv; nofZ := fun z => inject_Z z |}.

#[global] Instance NumR : Num R :=
  {| nzero := 0%R; none_ := 1%R; nadd := Rplus; nmul := Rmult; nsub := Rminus; nopp := Ropp;
     ndiv := Rdiv; nofZ := IZR |}.

(* ring laws, stated once for Leibniz equality (Z, R, Qc, pairs of those) *)
Definition num_ring (K : Type) `{Num K} : Prop :=
  ring_theory nzero none_ nadd nmul nsub nopp (@eq K).

Lemma num_ring_Z : num_ring Z. Proof. exact Zth. Qed.
Lemma num_ring_R : num_ring R. Proof. exact RTheory. Qed.

(* sums and dot products over lists *)
Section ListOps.
  Context {K : Type} `{Num K}.
  Definition nsum (l : list K) : K := fold_right nadd nzero l.
  Definition dot (a b : list K) : K := nsum (map (fun p => nmul (fst p) (snd p)) (combine a b)).
  Definition vadd (a b : list K) : list K := map (fun p => nadd (fst p) (snd p)) (combine a b).
  Definition vsub (a b : list K) : list K := map (fun p => nsub (fst p) (snd p)) (combine a b).
  Definition vscale (c : K) (a : list K) : list K := map (nmul c) a.
  Definition vzero (n : nat) : list K := repeat nzero n.
  Definition nprod (l : list K) : K := fold_right nmul none_ l.
End ListOps.

(* comparison helpers on Q used by the correspondence checks *)
Definition Qabs_le (a b tol : Q) : bool := Qle_bool (Qabs (a - b)) tol.
Fixpoint Qlist_close (tol : Q) (a b : list Q) : bool :=
  match a, b with
  | [], [] => true
  | x :: a', y :: b' => Qabs_le x y tol && Qlist_close tol a' b'
  | _, _ => false
  end.
Fixpoint Qlist_eq (a b : list Q) : bool :=
  match a, b with
  | [], [] => true
  | x :: a', y :: b' => Qeq_bool x y && Qlist_eq a' b'
  | _, _ => false
  end.

(* indices of the false entries of a list of booleans: what the case files print *)
Fixpoint failing_from (n : nat) (l : list bool) : list nat :=
  match l with
  | [] => []
  | b :: t => if b then failing_from (S n) t else n :: failing_from (S n) t
  end.
Definition failing (l : list bool) : list nat := failing_from 0 l.
