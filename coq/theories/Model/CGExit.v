(* The convergence test of CG.solve (pymoto/solvers/iterative.py) as it is written now (after fix F34), as a function
   of the column norms  nr = np.linalg.norm(r, axis=0)  and  nb = np.linalg.norm(b, axis=0):

       bnorm = np.linalg.norm(b, axis=0)
       bnorm[bnorm == 0] = 1.0          # a zero right-hand side is measured absolutely
       tval = np.linalg.norm(r, axis=0) / bnorm
       ... tval.max() <= self.tol       (exit)        tval.max() > self.tol   (warning after the loop)

   Norms are exact non-negative rationals here (the norm itself is a library atom).  Definitions only; regenerated
   from the source by tools/gen_C05.py (gen_cg_exit) and proved equal in bridge/C05/CGExitBridge.v. *)
From Coq Require Import QArith List Bool.
Import ListNotations.
Open Scope Q_scope.

(* bnorm after the masked assignment *)
Definition bnorm_eff (nb : list Q) : list Q := map (fun v => if Qeq_bool v 0 then 1 else v) nb.
(* elementwise quotient *)
Definition tval (nr bn : list Q) : list Q := map (fun p => fst p / snd p) (combine nr bn).
(* tval.max() <= tol  for a non-empty block: every column passes *)
Definition exit_test (tol : Q) (nr nb : list Q) : bool :=
  forallb (fun t => Qle_bool t tol) (tval nr (bnorm_eff nb)).

(* what the test means per column: relative to |b_j| for a non-zero column, absolute for a zero column *)
Definition column_bound (tol nrj nbj : Q) : Prop :=
  if Qeq_bool nbj 0 then nrj <= tol else nrj <= tol * nbj.
Fixpoint columns_bound (tol : Q) (nr nb : list Q) : Prop :=
  match nr, nb with
  | r :: nr', b :: nb' => column_bound tol r b /\ columns_bound tol nr' nb'
  | _, _ => True
  end.

(* names for statements made in files where the Q notations are not available *)
Definition qnonneg (v : Q) : Prop := 0 <= v.
Definition all_nonneg (l : list Q) : Prop := Forall qnonneg l.
Definition zeros (k : nat) : list Q := repeat 0 k.
