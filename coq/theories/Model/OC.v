(* Model of pymoto.routines.minimize_oc (optimality-criteria method), definitions only.

   Written once over an abstract number signature OOps K (the float operations the code performs) and
   instantiated with
     * PrimFloat (IEEE binary64, bit-exact with numpy for + - * / sqrt, comparisons, and np.sum, whose pairwise
       summation order is reproduced by Base/PyFloat.np_sum): the instance EXECUTED in the correspondence check;
     * R (Proofs/OCP.v): the instance the theorems are about.
     * Python numbers (PyOOps: ints stay ints the way CPython keeps them): the instance executed against the
       implementation when integer keyword values (the defaults l1init = 0, l2init = 100000) are involved.
   The network (function.response / function.sensitivity) is a parameter: obs it states = (objective value,
   sensitivities) observed at iteration `it` for the states held by the variable signals.  The three loops (outer
   iteration, bracket growing, bisection) are fuelled recursions; running out of fuel is an explicit result that
   the theorems exclude (and that the correspondence maps to "the implementation does not return").
   Code modelled: /repo at fix commits ebed191 + bd6675c (finding F19). *)
From Coq Require Import ZArith List Bool.
From Pymoto Require Import Model.Concat.
Import ListNotations.

Record OOps (K : Type) := mkOOps {
  o0 : K; ohalf : K; oten : K; ohuge : K;          (* the literals 0, 0.5, 10, 1e40 *)
  oadd : K -> K -> K; osub : K -> K -> K; omul : K -> K -> K; odiv : K -> K -> K;
  oopp : K -> K; osqrt : K -> K; oabs : K -> K;
  oltb : K -> K -> bool;          (* a < b *)
  oleb : K -> K -> bool;          (* a <= b *)
  osuml : list K -> K             (* np.sum of a 1-D array (binary64: numpy's pairwise order; R: the sum) *)
}.
Arguments o0 {K}. Arguments ohalf {K}. Arguments oten {K}. Arguments ohuge {K}. Arguments oadd {K}. Arguments osub {K}. Arguments omul {K}.
Arguments odiv {K}. Arguments oopp {K}. Arguments osqrt {K}. Arguments oabs {K}. Arguments oltb {K}. Arguments oleb {K}. Arguments osuml {K}.

(* xmin / xmax: a scalar (broadcast) or one value per variable *)
Inductive bound (K : Type) := BScalar (k : K) | BVector (l : list K).
Arguments BScalar {K}. Arguments BVector {K}.

Section OC.
  Context {K : Type} (P : OOps K).
  Local Notation "0" := (o0 P).

  Definition omax (a b : K) : K := if oltb P a b then b else a.       (* np.maximum *)
  Definition omin (a b : K) : K := if oltb P b a then b else a.       (* np.minimum *)
  Definition oclip (a lo hi : K) : K := omin (omax a lo) hi.          (* np.clip = minimum(maximum(a, lo), hi) *)
  Definition bget (b : bound K) (i : nat) : K := match b with BScalar k => k | BVector l => nth i l 0 end.

  (* np.sum *)
  Definition osum (l : list K) : K := osuml P l.
  (* np.linalg.norm (value semantics; the float summation order of BLAS is not modelled) *)
  Definition onorm (l : list K) : K := osqrt P (fold_left (fun s v => oadd P s (omul P v v)) l 0).
  (* builtin max(dfdx) *)
  Definition omaxl (l : list K) : K := match l with [] => 0 | h :: t => fold_left (fun m v => if oltb P m v then v else m) t h end.
  Definition vsub (a b : list K) : list K := map (fun q => osub P (fst q) (snd q)) (combine a b).

  Record oc_params := mkParams {
    tolx : K; tolf : K; maxit : nat;
    bmin : bound K; bmax : bound K; move : K;
    l1init : K; l2init : K; l1l2tol : K;
    warn_eps : K                              (* the literal 1e-15 *)
  }.

  (* one entry of
       xnew = np.clip(xval * np.sqrt(-dfdx / lmid), np.maximum(xmin, xval-move), np.minimum(xmax, xval+move)) *)
  Definition oc_elem (lam mv xmn xmx x g : K) : K :=
    oclip (omul P x (osqrt P (odiv P (oopp P g) lam)))
          (omax xmn (osub P x mv)) (omin xmx (oadd P x mv)).

  Definition oc_xnew (pr : oc_params) (lam : K) (x g : list K) : list K :=
    map (fun q => match q with (i, (xi, gi)) => oc_elem lam (move pr) (bget (bmin pr) i) (bget (bmax pr) i) xi gi end)
        (combine (seq 0 (length x)) (combine x g)).

  (* lower = np.maximum(xmin, xval-move)   (the same values the update clips to) *)
  Definition oc_lower (pr : oc_params) (x : list K) : list K :=
    map (fun q => omax (bget (bmin pr) (fst q)) (osub P (snd q) (move pr))) (combine (seq 0 (length x)) x).
  (* np.any(xnew > lower) *)
  Definition any_above (xn lower : list K) : bool := existsb (fun q => oltb P (snd q) (fst q)) (combine xn lower).

  (* rel_fchange = abs(f-fprev)/abs(f);  rel_stepsize = np.linalg.norm(xval - xnew)/np.linalg.norm(xval) *)
  Definition rel_fchange (f fprev : K) : K := odiv P (oabs P (osub P f fprev)) (oabs P f).
  Definition rel_stepsize (xval xn : list K) : K := odiv P (onorm (vsub xval xn)) (onorm xval).

  (* dfdx = np.minimum(dfdx, 0) *)
  Definition clip_grad (g : list K) : list K := map (fun v => omin v 0) g.

  (* the bisection loop
       l1, l2 = l1init, l2init
       while l2 - l1 > l1l2tol:
           lmid = 0.5 * (l1 + l2)
           if lmid <= l1 or lmid >= l2: break        (fix bd6675c)
           xnew = ...
           l1, l2 = (lmid, l2) if np.sum(xnew) - maxvol > 0 else (l1, lmid)
     `last` is the value bound to the name xnew (None: not bound yet) *)
  Inductive bis_result := BisOutOfFuel | BisDone (l1 l2 : K) (last : option (list K)).

  Fixpoint bisect (pr : oc_params) (maxvol : K) (x g : list K) (fuel : nat) (l1 l2 : K) (last : option (list K)) : bis_result :=
    if oltb P (l1l2tol pr) (osub P l2 l1) then
      match fuel with
      | O => BisOutOfFuel
      | S fuel' =>
          let lmid := omul P (ohalf P) (oadd P l1 l2) in
          if oleb P lmid l1 || oleb P l2 lmid then BisDone l1 l2 last      (* no representable midpoint left: break *)
          else
          let xn := oc_xnew pr lmid x g in
          if oltb P 0 (osub P (osum xn) maxvol)
          then bisect pr maxvol x g fuel' lmid l2 (Some xn)
          else bisect pr maxvol x g fuel' l1 lmid (Some xn)
      end
    else BisDone l1 l2 last.

  (* the bracket-growing loop (fixes ebed191 + bd6675c, finding F19): starting from l2 = l2init and xnew = update at l2,
       while np.sum(xnew) - maxvol > 0 and np.any(xnew > lower) and l2 < 1e40:
           l2 *= 10
           xnew = np.clip(xval * np.sqrt(-dfdx / l2), lower, upper) *)
  Inductive grow_result := GrowOutOfFuel | GrowDone (l2 : K) (xn : list K).

  Fixpoint grow (pr : oc_params) (maxvol : K) (x g : list K) (fuel : nat) (l2 : K) (xn : list K) : grow_result :=
    if oltb P 0 (osub P (osum xn) maxvol) && any_above xn (oc_lower pr x) && oltb P l2 (ohuge P) then
      match fuel with
      | O => GrowOutOfFuel
      | S fuel' => let l2' := omul P l2 (oten P) in grow pr maxvol x g fuel' l2' (oc_xnew pr l2' x g)
      end
    else GrowDone l2 xn.

  Inductive oc_stop := StopTolF | StopTolX | StopMaxit | StopUnbound | StopOutOfFuel | StopValueError.

  (* obtain_sensitivities: a sensitivity that is None is replaced by zeros_like(state) (None if the state is None too) *)
  Definition obtain_sensitivities (sens states : list (pstate K)) : list (pstate K) :=
    map (fun q => match fst q with
                  | PNone => match snd q with PNone => PNone | PScalar _ => PScalar 0 | PArray l => PArray (map (fun _ => 0) l) end
                  | s => s
                  end) (combine sens states).

  (* what a run produces: at every function.response() call (in order) the internal design vector xval and
     the states held by the variable signals; whether the positive-gradient warning was issued at every
     function.sensitivity() call; why the loop ended; the final xval and signal states *)
  Record oc_trace := mkTrace {
    designs : list (list K * list (pstate K)); warns : list bool; stop : oc_stop;
    final : list K; final_states : list (pstate K) }.

  Definition cons_design (x : list K) (st : list (pstate K)) (t : oc_trace) : oc_trace :=
    mkTrace ((x, st) :: designs t) (warns t) (stop t) (final t) (final_states t).
  Definition cons_warn (w : bool) (t : oc_trace) : oc_trace :=
    mkTrace (designs t) (w :: warns t) (stop t) (final t) (final_states t).

  (* the outer loop  for it in range(maxit): ...   (n = iterations left, it = iteration number).
     obs it states = (objective.state, [s.sensitivity for s in variables]) for the network evaluated on the
     variable signals' states at iteration it. *)
  Fixpoint oc_loop (pr : oc_params) (obs : nat -> list (pstate K) -> K * list (pstate K)) (maxvol : K) (bfuel : nat)
           (cum : list Z) (n it : nat) (xval : list K) (states : list (pstate K)) (f : K) : oc_trace :=
    match n with
    | O => mkTrace [] [] StopMaxit xval states
    | S n' =>
        let fg := obs it states in                      (* function.response(); ... function.sensitivity() *)
        let fnew := fst fg in
        cons_design xval states
          (if oltb P (rel_fchange fnew f) (tolf pr) then mkTrace [] [] StopTolF xval states
           else
             match concatenate_to_array (obtain_sensitivities (snd fg) states) with
             | None => mkTrace [] [] StopValueError xval states
             | Some (g, _) =>
             let w := oltb P (warn_eps pr) (omaxl g) in
             cons_warn w
               (let g' := clip_grad g in
                match grow pr maxvol xval g' bfuel (l2init pr) (oc_xnew pr (l2init pr) xval g') with
                | GrowOutOfFuel => mkTrace [] [] StopOutOfFuel xval states
                | GrowDone l2g xng =>
                match bisect pr maxvol xval g' bfuel (l1init pr) l2g (Some xng) with
                | BisOutOfFuel => mkTrace [] [] StopOutOfFuel xval states
                | BisDone _ _ None => mkTrace [] [] StopUnbound xval states   (* cannot happen: xnew is bound above *)
                | BisDone _ _ (Some xn) =>
                    if oltb P (rel_stepsize xval xn) (tolx pr) then mkTrace [] [] StopTolX xval states
                    else oc_loop pr obs maxvol bfuel cum n' (S it) xn (write_back (length states) xn cum) fnew
                end
                end)
             end)
    end.

  (* minimize_oc: concatenate the variable states, default maxvol = np.sum(xval), f = 0.0, run the loop.
     None: a variable has state None (ValueError). *)
  Definition minimize_oc (pr : oc_params) (obs : nat -> list (pstate K) -> K * list (pstate K)) (maxvol : option K)
             (bfuel : nat) (vars : list (pstate K)) : option oc_trace :=
    match concatenate_to_array vars with
    | None => None
    | Some (xval, cum) =>
        let mv := match maxvol with Some v => v | None => osum xval end in
        Some (oc_loop pr obs mv bfuel cum (maxit pr) O xval vars 0)
    end.
End OC.

Arguments mkParams {K}. Arguments tolx {K}. Arguments tolf {K}. Arguments maxit {K}. Arguments bmin {K}.
Arguments bmax {K}. Arguments move {K}. Arguments l1init {K}. Arguments l2init {K}. Arguments l1l2tol {K}.
Arguments warn_eps {K}.
Arguments BisOutOfFuel {K}. Arguments BisDone {K}. Arguments GrowOutOfFuel {K}. Arguments GrowDone {K}.
Arguments designs {K}. Arguments warns {K}. Arguments stop {K}. Arguments final {K}. Arguments final_states {K}. Arguments mkTrace {K}.

(* ---- the executed instance: IEEE binary64 *)
From Coq Require Import PrimFloat.
From Pymoto Require Import Base.PyFloat.
Definition FloatOOps : OOps float :=
  {| o0 := PrimFloat.zero; ohalf := 0x1p-1%float; oten := 10%float; ohuge := 0x1.d6329f1c35ca5p+132%float;
     oadd := PrimFloat.add; osub := PrimFloat.sub; omul := PrimFloat.mul; odiv := PrimFloat.div;
     oopp := PrimFloat.opp; osqrt := PrimFloat.sqrt; oabs := PrimFloat.abs; oltb := PrimFloat.ltb; oleb := PrimFloat.leb;
     osuml := np_sum |}.

(* ---- the instance executed in the correspondence check: Python numbers.  Arrays hold floats; the multiplier
   bounds l1, l2 are Python ints as long as they come from the integer defaults l1init = 0, l2init = 100000 and
   from `l2 *= 10` (exact, unbounded), and are converted / compared the way CPython does. *)
Definition PyOOps : OOps pynum :=
  {| o0 := PFlt PrimFloat.zero; ohalf := PFlt 0x1p-1%float; oten := PInt 10; ohuge := PFlt 0x1.d6329f1c35ca5p+132%float;
     oadd := py_add; osub := py_sub; omul := py_mul; odiv := py_div;
     oopp := py_opp; osqrt := py_sqrt; oabs := py_abs; oltb := py_ltb; oleb := py_leb;
     osuml := fun l => PFlt (np_sum (map py_float l)) |}.

(* the keyword defaults of minimize_oc (tolx=1e-4, tolf=1e-4, maxit=100, xmin=0.0, xmax=1.0, move=0.2, l1init=0,
   l2init=100000, l1l2tol=1e-4) and the literal 1e-15 of the warning test; ints stay ints *)
Definition default_params : @oc_params pynum :=
  mkParams (PFlt 0x1.a36e2eb1c432dp-14%float) (PFlt 0x1.a36e2eb1c432dp-14%float) 100
           (BScalar (PFlt 0%float)) (BScalar (PFlt 1%float)) (PFlt 0x1.999999999999ap-3%float)
           (PInt 0) (PInt 100000) (PFlt 0x1.a36e2eb1c432dp-14%float) (PFlt 0x1.203af9ee75616p-50%float).
(* the same defaults for the pure-float instance (used by the executed example in Props/C17.v) *)
Definition default_params_float : @oc_params float :=
  mkParams 0x1.a36e2eb1c432dp-14%float 0x1.a36e2eb1c432dp-14%float 100
           (BScalar 0%float) (BScalar 1%float) 0x1.999999999999ap-3%float
           0%float 100000%float 0x1.a36e2eb1c432dp-14%float 0x1.203af9ee75616p-50%float.
