(* C19 — value-level model of pymoto.routines.finite_difference together with the parts of core_objects it drives
   (Signal / SignalSlice state, sensitivity, add_sensitivity, reset; Module.response / sensitivity / reset; Network).
   Definitions only.

   Numbers: complex rationals (pairs of canonical rationals Qc, Leibniz equality, `field` works).  The correspondence
   uses dyadic data so that every float operation of the implementation is exact.
   Values: flat data + kind (python/numpy scalar: not writable through np.nditer; ndarray with a shape; sparse-matrix
   outputs are modelled by their dense array) + complex-dtype flag.
   Signals are kept at VALUE level (no object identity): the routine installs a deep copy of the seed as the output's
   sensitivity, every stored snapshot (f0, dx_an) is a copy, add_sensitivity deep-copies its first term — no object is
   shared between the routine's bookkeeping and a Signal (fixed findings F24/F26: the seed is copied, and the output of
   interest is reset after blk.reset(); F27: the inputs of interest are reset before the analytical pass).
   Modules are (shallow) response / vjp functions; `poly_module` is the family used by the harness. *)
From Coq Require Import ZArith QArith Qcanon List Bool.
Import ListNotations.
Local Open Scope Qc_scope.

(* ------------------------------------------------------------------ complex rationals *)
Definition K := (Qc * Qc)%type.
Definition k0 : K := (0, 0).
Definition k1 : K := (1, 0).
Definition kre (a : K) : Qc := fst a.
Definition kim (a : K) : Qc := snd a.
Definition kadd (a b : K) : K := (fst a + fst b, snd a + snd b).
Definition ksub (a b : K) : K := (fst a - fst b, snd a - snd b).
Definition kmul (a b : K) : K := (fst a * fst b - snd a * snd b, fst a * snd b + snd a * fst b).
Definition kscale (t : Qc) (a : K) : K := (t * fst a, t * snd a).
Definition kdivr (a : K) (t : Qc) : K := (fst a / t, snd a / t).             (* a / t        *)
Definition kdivi (a : K) (t : Qc) : K := (snd a / t, - (fst a / t)).          (* a / (i t)    *)
Definition kaddr (a : K) (t : Qc) : K := (fst a + t, snd a).                  (* a + t        *)
Definition kaddi (a : K) (t : Qc) : K := (fst a, snd a + t).                  (* a + i t      *)
Definition Qc_eqb (a b : Qc) : bool := Qeq_bool (this a) (this b).
Definition kzero (a : K) : bool := Qc_eqb (fst a) 0 && Qc_eqb (snd a) 0.
Definition ksum (l : list K) : K := fold_right kadd k0 l.

(* |a| : exact when a is real, purely imaginary, or re^2+im^2 is the square of a rational (the harness only uses such) *)
Definition Qc_abs (t : Qc) : Qc := if Qle_bool (this t) 0 then - t else t.
Definition Qsqrt_floor (q : Q) : Q := (Z.sqrt (Qnum q * Zpos (Qden q)) # Qden q).   (* sqrt(n/d) = sqrt(n d)/d *)
Definition kabs (a : K) : Qc :=
  if Qc_eqb (snd a) 0 then Qc_abs (fst a)
  else if Qc_eqb (fst a) 0 then Qc_abs (snd a)
  else Q2Qc (Qsqrt_floor (this (fst a * fst a + snd a * snd a))).

(* ------------------------------------------------------------------ values *)
Inductive vkind := KScal | KArr (shp : list Z).      (* KScal: python or numpy scalar (np.nditer cannot write to it) *)
Record val := { v_dat : list K; v_kind : vkind; v_cx : bool }.

Definition is_arr (v : val) : bool := match v_kind v with KArr _ => true | KScal => false end.
Definition zeros_like (v : val) : val := {| v_dat := map (fun _ => k0) (v_dat v); v_kind := v_kind v; v_cx := v_cx v |}.

Fixpoint upd {A} (l : list A) (i : nat) (x : A) : list A :=
  match l, i with
  | [], _ => []
  | _ :: t, O => x :: t
  | h :: t, S i' => h :: upd t i' x
  end.
Fixpoint scatter (d : list K) (ix : list nat) (vs : list K) : list K :=
  match ix, vs with
  | i :: ix', v :: vs' => scatter (upd d i v) ix' vs'
  | _, _ => d
  end.
Definition gather (d : list K) (ix : list nat) : list K := map (fun i => nth i d k0) ix.
Fixpoint map2 {A B D} (f : A -> B -> D) (a : list A) (b : list B) : list D :=
  match a, b with
  | x :: a', y :: b' => f x y :: map2 f a' b'
  | _, _ => []
  end.
(* elementwise with broadcasting of a one-element operand *)
Definition bcast (n : nat) (d : list K) : list K :=
  match d with [x] => repeat x n | _ => d end.
Definition vadd (a b : list K) : list K := map2 kadd a (bcast (length a) b).

(* ------------------------------------------------------------------ signals (value level) *)
Record sigrec := { st : option val; se : option val; keep : bool }.
Definition sig0 : sigrec := {| st := None; se := None; keep := false |}.
Definition store := list sigrec.
(* a Signal (slice = None) or a one-level SignalSlice: positions selected in the base (repeat-free), result shape *)
Record sref := { s_root : nat; s_slice : option (list nat * list Z) }.

Definition getsig (s : store) (i : nat) : sigrec := nth i s sig0.
Definition slice_of (v : val) (ix : list nat) (shp : list Z) : val :=
  {| v_dat := gather (v_dat v) ix; v_kind := KArr shp; v_cx := v_cx v |}.

Definition get_state (r : sref) (s : store) : option val :=
  match st (getsig s (s_root r)), s_slice r with
  | None, _ => None
  | Some v, None => Some v
  | Some v, Some (ix, shp) => Some (slice_of v ix shp)
  end.
Definition get_sens (r : sref) (s : store) : option val :=
  match se (getsig s (s_root r)), s_slice r with
  | None, _ => None
  | Some v, None => Some v
  | Some v, Some (ix, shp) => Some (slice_of v ix shp)
  end.

Definition put_st (i : nat) (v : option val) (s : store) : store :=
  let g := getsig s i in upd s i {| st := v; se := se g; keep := keep g |}.
Definition put_se (i : nat) (v : option val) (s : store) : store :=
  let g := getsig s i in upd s i {| st := st g; se := v; keep := keep g |}.

(* base[idx] = x (array of as many entries, or a scalar) ; dtype of the base is kept *)
Definition assign_into (b : val) (ix : list nat) (x : val) : val :=
  {| v_dat := scatter (v_dat b) ix (bcast (length ix) (v_dat x)); v_kind := v_kind b; v_cx := v_cx b |}.

Definition set_state (r : sref) (x : val) (s : store) : store :=
  match s_slice r with
  | None => put_st (s_root r) (Some x) s
  | Some (ix, _) =>
      match st (getsig s (s_root r)) with
      | Some b => put_st (s_root r) (Some (assign_into b ix x)) s
      | None => s                                              (* TypeError in the implementation; not generated *)
      end
  end.

(* sensitivity setter: a slice initialises the base with state*0 *)
Definition base_sens_or_zero (g : sigrec) : option val :=
  match se g with
  | Some b => Some b
  | None => match st g with Some v => Some (zeros_like v) | None => None end
  end.
Definition set_sens (r : sref) (x : option val) (s : store) : store :=
  match s_slice r with
  | None => put_se (s_root r) x s
  | Some (ix, _) =>
      let g := getsig s (s_root r) in
      match se g, x with
      | None, None => s
      | _, _ =>
          match base_sens_or_zero g with
          | Some b =>
              let xv := match x with Some v => v | None => {| v_dat := [k0]; v_kind := KScal; v_cx := false |} end in
              put_se (s_root r) (Some (assign_into b ix xv)) s
          | None => s
          end
      end
  end.

(* a + b for sensitivities (dtype: complex if either is) *)
Definition val_add (a b : val) : val :=
  match v_kind a with
  | KScal => match v_kind b with
             | KScal => {| v_dat := vadd (v_dat a) (v_dat b); v_kind := KScal; v_cx := v_cx a || v_cx b |}
             | KArr _ => {| v_dat := vadd (v_dat b) (v_dat a); v_kind := v_kind b; v_cx := v_cx a || v_cx b |}
             end
  | KArr _ => {| v_dat := vadd (v_dat a) (v_dat b); v_kind := v_kind a; v_cx := v_cx a || v_cx b |}
  end.

Definition add_sens (r : sref) (ds : option val) (s : store) : store :=
  match ds with
  | None => s
  | Some d =>
      match s_slice r with
      | None =>
          match se (getsig s (s_root r)) with
          | None => put_se (s_root r) (Some d) s                      (* deep copy *)
          | Some c => put_se (s_root r) (Some (val_add c d)) s
          end
      | Some (ix, shp) =>
          match base_sens_or_zero (getsig s (s_root r)) with
          | Some b =>
              let cur := slice_of b ix shp in
              put_se (s_root r) (Some (assign_into b ix (val_add cur d))) s
          | None => s
          end
      end
  end.

Definition reset_sig (r : sref) (s : store) : store :=
  let g := getsig s (s_root r) in
  match s_slice r with
  | None =>
      match se g with
      | None => s
      | Some c => if keep g then put_se (s_root r) (Some (zeros_like c)) s else put_se (s_root r) None s
      end
  | Some (ix, _) =>
      match se g with
      | None => s
      | Some b => put_se (s_root r) (Some (assign_into b ix {| v_dat := [k0]; v_kind := KScal; v_cx := false |})) s
      end
  end.

(* ------------------------------------------------------------------ modules and networks *)
Record module := {
  m_in : list sref; m_out : list sref;
  m_f : list (option val) -> list (option val);                          (* _response of the states *)
  m_vjp : list (option val) -> list (option val) -> list (option val)    (* _sensitivity of the output sensitivities, reading the input states *)
}.

Fixpoint set_states (rs : list sref) (vs : list (option val)) (s : store) : store :=
  match rs, vs with
  | r :: rs', Some v :: vs' => set_states rs' vs' (set_state r v s)
  | r :: rs', None :: vs' => set_states rs' vs' (match s_slice r with None => put_st (s_root r) None s | Some _ => s end)
  | _, _ => s
  end.
Fixpoint add_all (rs : list sref) (ds : list (option val)) (s : store) : store :=
  match rs, ds with
  | r :: rs', d :: ds' => add_all rs' ds' (add_sens r d s)
  | _, _ => s
  end.

Definition m_response (m : module) (s : store) : store :=
  set_states (m_out m) (m_f m (map (fun r => get_state r s) (m_in m))) s.
Definition all_none (l : list (option val)) : bool := forallb (fun o => match o with None => true | Some _ => false end) l.
Definition m_sensitivity (m : module) (s : store) : store :=
  let w := map (fun r => get_sens r s) (m_out m) in
  if negb (Nat.eqb (length (m_out m)) 0) && all_none w then s
  else add_all (m_in m) (m_vjp m (map (fun r => get_state r s) (m_in m)) w) s.
Definition m_reset (m : module) (s : store) : store :=
  fold_left (fun s r => reset_sig r s) (m_in m) (fold_left (fun s r => reset_sig r s) (m_out m) s).

Definition net := list module.
Definition n_response (n : net) (s : store) : store := fold_left (fun s m => m_response m s) n s.
Definition n_sensitivity (n : net) (s : store) : store := fold_left (fun s m => m_sensitivity m s) (rev n) s.
Definition n_reset (n : net) (s : store) : store := fold_left (fun s m => m_reset m s) (rev n) s.

(* ------------------------------------------------------------------ sub-network selection *)
Definition overlap (a b : list sref) : bool :=
  existsb (fun x => existsb (fun y => Nat.eqb (s_root x) (s_root y)) b) a.

(* index of the first module using one of the inputs / of the last module producing one of the outputs *)
Fixpoint find_first (inps : list sref) (n : net) (i : nat) : option nat :=
  match n with
  | [] => None
  | m :: t => if overlap inps (m_in m) then Some i else find_first inps t (S i)
  end.
Fixpoint find_last (outps : list sref) (n : net) (i : nat) (acc : option nat) : option nat :=
  match n with
  | [] => acc
  | m :: t => find_last outps t (S i) (if overlap outps (m_out m) then Some i else acc)
  end.

(* ------------------------------------------------------------------ finite_difference *)
Record fdcfg := {
  c_dx : Qc; c_rel : bool; c_keepzero : bool;
  c_random : bool;
  c_usedf : option (list val);
  c_rand : list (list Qc);         (* the arrays successive calls of np.random.rand return (supplied by the harness) *)
  c_order : list (list nat)        (* per input: the order in which np.nditer visits the (logical, C-order) entries *)
}.

Record report := { r_x0 : K; r_dx : Qc; r_an : Qc; r_fd : Qc }.
Inductive fderr := ENoInput | ENoOutput.

Definition vshape_n (v : val) : nat := length (v_dat v).
Definition ones_like (v : val) (cx : bool) : val :=
  {| v_dat := map (fun _ => if cx then (1, 1) else k1) (v_dat v); v_kind := v_kind v; v_cx := cx |}.

(* seed for one output; returns the remaining random stream *)
Definition make_seed (c : fdcfg) (iout : nat) (output : val) (rand : list (list Qc)) : val * list (list Qc) :=
  match c_usedf c with
  | Some l => (nth iout l (zeros_like output), rand)
  | None =>
      if c_random c then
        match rand with
        | re :: rest =>
            if v_cx output then
              match rest with
              | im :: rest' => ({| v_dat := map2 (fun a b => (a, b)) re im; v_kind := v_kind output; v_cx := true |}, rest')
              | [] => ({| v_dat := map (fun a => (a, 0)) re; v_kind := v_kind output; v_cx := true |}, [])
              end
            else ({| v_dat := map (fun a => (a, 0)) re; v_kind := v_kind output; v_cx := false |}, rest)
        | [] => (ones_like output (v_cx output), [])
        end
      else (ones_like output (v_cx output), rand)
  end.

(* analytical pass: per output seed (a deep copy is installed on the output), backpropagate, snapshot the input
   sensitivities, blk.reset(), Sout.reset() *)
Record apass := { a_store : store; a_f0 : list (option val); a_df : list (option val); a_dx : list (list (option val)) }.

Fixpoint analytical (c : fdcfg) (blk : net) (inps outps : list sref) (iout : nat) (rand : list (list Qc))
         (s : store) : apass :=
  match outps with
  | [] => {| a_store := s; a_f0 := []; a_df := []; a_dx := [] |}
  | so :: rest =>
      match get_state so s with
      | None =>
          let r := analytical c blk inps rest (S iout) rand s in
          {| a_store := a_store r; a_f0 := None :: a_f0 r; a_df := None :: a_df r;
             a_dx := map (fun _ => None) inps :: a_dx r |}
      | Some output =>
          let '(df, rand') := make_seed c iout output rand in
          let s1 := set_sens so (Some df) s in
          let s2 := n_sensitivity blk s1 in
          let dxs := map (fun si => get_sens si s2) inps in
          let s3 := reset_sig so (n_reset blk s2) in      (* blk.reset(); Sout.reset() *)
          let r := analytical c blk inps rest (S iout) rand' s3 in
          {| a_store := a_store r; a_f0 := Some output :: a_f0 r; a_df := Some df :: a_df r; a_dx := dxs :: a_dx r |}
      end
  end.

Definition dot (a b : list K) : K := ksum (map2 kmul a (bcast (length a) b)).

(* the analytical value compared with: entry k of the stored sensitivity (the whole value when it is a scalar) *)
Definition an_entry (sens : option val) (k : nat) : K :=
  match sens with
  | None => k0
  | Some v => match v_kind v with KScal => hd k0 (v_dat v) | KArr _ => nth k (v_dat v) k0 end
  end.

(* reports of one perturbed state: one per output whose state is not None *)
Fixpoint collect (imag : bool) (x0 : K) (c : fdcfg) (sf : Qc) (iin k : nat) (outps : list sref)
         (f0 df : list (option val)) (dxan : list (list (option val))) (s : store) : list report :=
  match outps, f0, df, dxan with
  | so :: outps', f :: f0', w :: df', dxo :: dxan' =>
      let rest := collect imag x0 c sf iin k outps' f0' df' dxan' s in
      match get_state so s, f, w with
      | Some fp, Some f0v, Some wv =>
          let d := map2 ksub (v_dat fp) (v_dat f0v) in
          let dfv := if imag then map (fun a => kdivi a (c_dx c * sf)) d else map (fun a => kdivr a (c_dx c * sf)) d in
          let g := dot dfv (v_dat wv) in
          let an := an_entry (nth iin dxo None) k in
          {| r_x0 := x0; r_dx := c_dx c; r_an := if imag then kim an else kre an; r_fd := if imag then kim g else kre g |} :: rest
      | _, _, _ => rest
      end
  | _, _, _, _ => []
  end.

Definition with_entry (x : val) (k : nat) (a : K) : val :=
  {| v_dat := upd (v_dat x) k a; v_kind := v_kind x; v_cx := v_cx x |}.

(* perturbation loop over the entries of one input, in np.nditer order *)
Fixpoint perturb_entries (c : fdcfg) (blk : net) (si : sref) (iin : nat) (outps : list sref)
         (f0 df : list (option val)) (dxan : list (list (option val))) (x : val) (ks : list nat)
         (s : store) : store * list report :=
  match ks with
  | [] => (s, [])
  | k :: ks' =>
      let x0 := nth k (v_dat x) k0 in
      (* zeros are skipped only in the branch for arrays (np.nditer-writable states) *)
      if kzero x0 && c_keepzero c && is_arr x then perturb_entries c blk si iin outps f0 df dxan x ks' s
      else
        let sf := if c_rel c && negb (Qc_eqb (kabs x0) 0) then kabs x0 else 1 in
        (* real direction *)
        let s1 := set_state si (with_entry x k (kaddr x0 (c_dx c * sf))) s in
        let s2 := n_response blk s1 in
        let rep1 := collect false x0 c sf iin k outps f0 df dxan s2 in
        let s3 := set_state si (with_entry x k x0) s2 in
        (* imaginary direction for complex inputs *)
        let '(s6, rep2) :=
          if v_cx x then
            let s4 := set_state si (with_entry x k (kaddi x0 (c_dx c * sf))) s3 in
            let s5 := n_response blk s4 in
            (set_state si (with_entry x k x0) s5, collect true x0 c sf iin k outps f0 df dxan s5)
          else (s3, []) in
        let '(s7, rest) := perturb_entries c blk si iin outps f0 df dxan x ks' s6 in
        (s7, rep1 ++ rep2 ++ rest)
  end.

Fixpoint perturb_inputs (c : fdcfg) (blk : net) (inps : list sref) (iin : nat) (outps : list sref)
         (f0 df : list (option val)) (dxan : list (list (option val))) (s : store) : store * list report :=
  match inps with
  | [] => (s, [])
  | si :: inps' =>
      match get_state si s with
      | None => perturb_inputs c blk inps' (S iin) outps f0 df dxan s        (* not generated (ValueError) *)
      | Some x =>
          let ks := if is_arr x then nth iin (c_order c) [] else [O] in
          let '(s1, rep) := perturb_entries c blk si iin outps f0 df dxan x ks s in
          let '(s2, rest) := perturb_inputs c blk inps' (S iin) outps f0 df dxan s1 in
          (s2, rep ++ rest)
      end
  end.

Record fdresult := { f_reports : list report; f_store : store; f_seeds : list (option val) }.

(* is_network = false: blk is a single Module (no sub-network selection) *)
Definition finite_difference (c : fdcfg) (is_network : bool) (mods : net) (inps outps : list sref) (s : store)
  : fderr + fdresult :=
  let sel :=
    if is_network then
      match find_first inps mods 0 with
      | None => inl ENoInput
      | Some i1 =>
          match find_last outps mods 0 None with
          | None => inl ENoOutput
          | Some i2 => inr (firstn i1 mods, firstn (S i2 - i1) (skipn i1 mods))
          end
      end
    else inr ([], mods) in
  match sel with
  | inl e => inl e
  | inr (pre, blk) =>
      let s0 := n_response pre s in
      (* blk.reset(); [s.reset() for s in inps]  (fixed finding F27: also the entries of an input of interest that the
         modules do not use, or use only through slices);  blk.response() *)
      let s1 := n_response blk (fold_left (fun s r => reset_sig r s) inps (n_reset blk s0)) in
      let a := analytical c blk inps outps 0 (c_rand c) s1 in
      let '(s2, reps) := perturb_inputs c blk inps 0 outps (a_f0 a) (a_df a) (a_dx a) (a_store a) in
      inr {| f_reports := reps; f_store := s2; f_seeds := a_df a |}
  end.

(* ------------------------------------------------------------------ the module family used by the harness:
   y_j = c_j + sum_i A_ji x_i + sum_i Q_ji (x_i o x_i)            (response, flattened, reshaped to the output kind)
   dx_i = sum_j (B_ji + 2 Qb_ji diag(x_i))^T w_j                  (the adjoint the module CLAIMS; correct iff B = A, Qb = Q) *)
Definition mat := list (list K).
Definition mv (A : mat) (x : list K) : list K := map (fun row => dot row x) A.
Definition mtv (A : mat) (w : list K) : list K :=                 (* A^T w *)
  match A with
  | [] => []
  | r0 :: _ => map (fun j => ksum (map2 (fun row wi => kmul (nth j row k0) wi) A w)) (seq 0 (length r0))
  end.
Definition vsum (n : nat) (l : list (list K)) : list K := fold_left (fun acc v => map2 kadd acc v) l (repeat k0 n).

Record polyspec := {
  p_c : list (list K);                 (* per output *)
  p_A : list (list mat); p_Q : list (list mat);        (* [output][input] *)
  p_B : list (list mat); p_Qb : list (list mat);
  p_okind : list vkind; p_cx : bool
}.
Definition odat (o : option val) : list K := match o with Some v => v_dat v | None => [] end.
Definition ocx (o : option val) : bool := match o with Some v => v_cx v | None => false end.

Definition poly_f (p : polyspec) (xs : list (option val)) : list (option val) :=
  let cx := p_cx p || existsb ocx xs in
  map (fun j =>
         let cj := nth j (p_c p) [] in
         let lin := map2 (fun A x => mv A (odat x)) (nth j (p_A p) []) xs in
         let qua := map2 (fun Q x => mv Q (map (fun a => kmul a a) (odat x))) (nth j (p_Q p) []) xs in
         Some {| v_dat := vsum (length cj) (cj :: lin ++ qua); v_kind := nth j (p_okind p) KScal; v_cx := cx |})
      (seq 0 (length (p_c p))).

Definition poly_vjp (p : polyspec) (xs ws : list (option val)) : list (option val) :=
  map (fun i =>
         let x := nth i xs None in
         let xd := odat x in
         let terms := map (fun j =>
                             let w := bcast (length (nth j (p_c p) [])) (odat (nth j ws None)) in
                             match nth j ws None with
                             | None => repeat k0 (length xd)
                             | Some _ =>
                                 let l := mtv (nth i (nth j (p_B p) []) []) w in
                                 let q := mtv (nth i (nth j (p_Qb p) []) []) w in
                                 map2 kadd l (map2 (fun a b => kmul (kscale (Q2Qc 2) a) b) xd q)
                             end) (seq 0 (length (p_c p))) in
         Some {| v_dat := vsum (length xd) terms;
                 v_kind := match x with Some v => v_kind v | None => KScal end;
                 v_cx := p_cx p || ocx x || existsb ocx ws |})
      (seq 0 (length xs)).

Definition poly_module (ins outs : list sref) (p : polyspec) : module :=
  {| m_in := ins; m_out := outs; m_f := poly_f p; m_vjp := poly_vjp p |}.
