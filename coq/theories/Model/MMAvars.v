(* C10 -- design variables spread over several signals: models of
     pymoto.utils._concatenate_to_array / _split_from_array,
     the expansion of xmin / xmax / move in MMA.response (scalar, one entry per signal, one entry per variable),
     the write-back loop of MMA.response ("Set the new states").
   Values are of an arbitrary type A (no arithmetic happens here).  Definitions only. *)
From Coq Require Import Arith List Bool.
Import ListNotations.

Section Vars.
  Context {A : Type}.
  Variable d : A.      (* default for out-of-range reads (where Python raises IndexError); never reached on valid input *)

  (* the state of a variable signal: a Python/numpy scalar or a 1-D array *)
  Inductive sval := Scal (a : A) | Arr (l : list A).
  (* np.append(values, v) flattens v *)
  Definition flat (v : sval) : list A := match v with Scal a => [a] | Arr l => l end.

  (* values = []; cum = zeros(len+1); for i, v: values = append(values, v); cum[i+1] = len(values) *)
  Definition concat_to_array (vs : list sval) : list A * list nat :=
    fold_left (fun acc v => let vals := fst acc ++ flat v in (vals, snd acc ++ [length vals])) vs ([], [0]).

  (* values[a:b] *)
  Definition slice (l : list A) (a b : nat) : list A := firstn (b - a) (skipn a l).

  (* assert cum[-1] == values.size; [values[cum[i]:cum[i+1]] for i in range(cum.size - 1)] *)
  Definition split_from_array (vals : list A) (cum : list nat) : option (list (list A)) :=
    if last cum 0 =? length vals
    then Some (map (fun i => slice vals (nth i cum 0) (nth (S i) cum 0)) (seq 0 (length cum - 1)))
    else None.

  (* for i, s in enumerate(variables):
       if cum[i+1]-cum[i] == 1: s.state = xval[cum[i]]  else: s.state = xval[cum[i]:cum[i+1]] *)
  Definition writeback (xval : list A) (cum : list nat) (nvars : nat) : list sval :=
    map (fun i => let a := nth i cum 0 in let b := nth (S i) cum 0 in
                  if b - a =? 1 then Scal (nth a xval d) else Arr (slice xval a b)) (seq 0 nvars).

  (* l[a:b] = v  (scalar broadcast into a slice) *)
  Definition assign_range (l : list A) (a b : nat) (v : A) : list A :=
    map (fun p => if (a <=? fst p) && (fst p <? b) then v else snd p) (combine (seq 0 (length l)) l).

  (* new = zeros_like(xval); for i in range(len(vals)): new[cum[i]:cum[i+1]] = vals[i] *)
  Definition fill_ranges (zero : A) (n : nat) (cum : list nat) (vals : list A) : list A :=
    fold_left (fun acc i => assign_range acc (nth i cum 0) (nth (S i) cum 0) (nth i vals d))
              (seq 0 (length vals)) (repeat zero n).

  (* a bound / move-limit specification: no __len__ (scalar) or a sequence *)
  Inductive bspec := BScal (a : A) | BList (l : list A).

  (* if not hasattr(b, '__len__'): b * ones(n)
     elif len(b) == len(variables): per-signal expansion
     if len(b) != n: raise RuntimeError                                   (None = RuntimeError) *)
  Definition expand_bound (zero : A) (n nvars : nat) (cum : list nat) (b : bspec) : option (list A) :=
    match b with
    | BScal a => Some (repeat a n)
    | BList l =>
        let l' := if length l =? nvars then fill_ranges zero n cum l else l in
        if length l' =? n then Some l' else None
    end.
End Vars.

Arguments sval A : clear implicits.
Arguments bspec A : clear implicits.
