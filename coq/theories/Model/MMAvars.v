(* C10 -- design variables spread over several signals: models of
     pymoto.utils._concatenate_to_array / _split_from_array,
     the expansion of xmin / xmax / move in MMA.response (scalar, one entry per signal, one entry per variable),
     the write-back loop of MMA.response ("Set the new states").
   Values are of an arbitrary type A (no arithmetic happens here).  Definitions only. *)
From Coq Require Import Arith List Bool.
Import ListNotations.

Section Vars.
  Context {A : Type}.
  Variable d : A.      (* default for out-of-range reads (where Python raises IndexError); never reached on valid input *)

  (* the state of a variable signal: a Python/numpy scalar or a 1-D array *)
  Inductive sval := Scal (a : A) | Arr (l : list A).
  (* np.append(values, v) flattens v *)
  Definition flat (v : sval) : list A := match v with Scal a => [a] | Arr l => l end.

  (* values = []; cum = zeros(len+1); for i, v: values = append(values, v); cum[i+1] = len(values) *)
  Definition concat_to_array (vs : list sval) : list A * list nat :=
    fold_left (fun acc v => let vals := fst acc ++ flat v in (vals, snd acc ++ [length vals])) vs ([], [0]).

  (* values[a:b] *)
  Definition slice (l : list A) (a b : nat) : list A := firstn (b - a) (skipn a l).

  (* assert cum[-1] == values.size; [values[cum[i]:cum[i+1]] for i in range(cum.size - 1)] *)
  Definition split_from_array (vals : list A) (cum : list nat) : option (list (list A)) :=
    if last cum 0 =? length vals
    then Some (map (fun i => slice vals (nth i cum 0) (nth (S i) cum 0)) (seq 0 (length cum - 1)))
    else None.

  (* for i, s in enumerate(variables):
       if cum[i+1]-cum[i] == 1: s.state = xval[cum[i]]  else: s.state = xval[cum[i]:cum[i+1]] *)
  Definition writeback (xval : list A) (cum : list nat) (nvars : nat) : list sval :=
    map (fun i => let a := nth i cum 0 in let b := nth (S i) cum 0 in
                  if b - a =? 1 then Scal (nth a xval d) else Arr (slice xval a b)) (seq 0 nvars).

  (* l[a:b] = v  (scalar broadcast into a slice) *)
  Definition assign_range (l : list A) (a b : nat) (v : A) : list A :=
    map (fun p => if (a <=? fst p) && (fst p <? b) then v else snd p) (combine (seq 0 (length l)) l).

  (* new = zeros_like(xval); for i in range(len(vals)): new[cum[i]:cum[i+1]] = vals[i] *)
  Definition fill_ranges (zero : A) (n : nat) (cum : list nat) (vals : list A) : list A :=
    fold_left (fun acc i => assign_range acc (nth i cum 0) (nth (S i) cum 0) (nth i vals d))
              (seq 0 (length vals)) (repeat zero n).

  (* a bound / move-limit specification: no __len__ (scalar) or a sequence *)
  Inductive bspec := BScal (a : A) | BList (l : list A).

  (* if not hasattr(b, '__len__'): b * ones(n)
     elif len(b) == len(variables): per-signal expansion
     if len(b) != n: raise RuntimeError                                   (None = RuntimeError) *)
  Definition expand_bound (zero : A) (n nvars : nat) (cum : list nat) (b : bspec) : option (list A) :=
    match b with
    | BScal a => Some (repeat a n)
    | BList l =>
        let l' := if length l =? nvars then fill_ranges zero n cum l else l in
        if length l' =? n then Some l' else None
    end.

  (* ---- "Calculate and save sensitivities" of MMA.response, for one response:
         sens_list = []
         for v in self.variables: sens_list.append(v.sensitivity if v.sensitivity is not None else 0*v.state)
         dff, _ = _concatenate_to_array(sens_list)
     The row handed to mmasub is built afresh in every iteration from what the variable signals hold NOW: a signal
     without a sensitivity (None) contributes 0*state, nothing survives from earlier iterations.
     `zmul a` stands for 0*a. *)
  Definition smap (f : A -> A) (v : sval) : sval := match v with Scal a => Scal (f a) | Arr l => Arr (map f l) end.
  Definition sens_item (zmul : A -> A) (state : sval) (sens : option sval) : sval :=
    match sens with Some g => g | None => smap zmul state end.
  Definition sens_row (zmul : A -> A) (states : list sval) (sens : list (option sval)) : list A :=
    fst (concat_to_array (map (fun p => sens_item zmul (fst p) (snd p)) (combine states sens))).
End Vars.

Arguments sval A : clear implicits.
Arguments bspec A : clear implicits.

(* ================================================================================================================
   Typed layer: the same code with the numpy dtype of every operand made explicit.

   numpy arrays are (dtype, values).  The dtypes that real-valued design variables, bounds and move limits come in:
   int32 / int64 / float32 / float64 (np.asarray turns a Python int into int64 and a Python float into float64).
   `conv a b x` stands for ndarray.astype: the value x held in dtype a stored into dtype b (a library call, kept
   abstract; for the evaluation over Q see Model/MMAcorr.v).  Definitions only. *)
Inductive dtype := I32 | I64 | F32 | F64.

(* np.promote_types restricted to these four dtypes *)
Definition promote (a b : dtype) : dtype :=
  match a, b with
  | F64, _ | _, F64 => F64
  | F32, F32 => F32
  | F32, _ | _, F32 => F64                  (* int32 / int64 with float32 -> float64 *)
  | I64, _ | _, I64 => I64
  | I32, I32 => I32
  end.

(* cumulative_inds[k] = x   (k in range; out of range: IndexError, the list is returned unchanged) *)
Fixpoint set_at (l : list nat) (k x : nat) : list nat :=
  match l, k with
  | [], _ => []
  | _ :: t, 0 => x :: t
  | h :: t, S k' => h :: set_at t k' x
  end.

Section Typed.
  Context {A : Type}.
  Variable d : A.
  Variable conv : dtype -> dtype -> A -> A.

  Definition tarr := (dtype * list A)%type.
  (* the state of a Signal: None, or a scalar / 1-D array of some dtype *)
  Inductive tstate := TNone | TVal (dt : dtype) (v : sval A).

  (* np.array([]) *)
  Definition np_empty : tarr := (F64, []).
  (* np.zeros(k, dtype=int) *)
  Definition np_zeros_int (k : nat) : list nat := repeat 0 k.
  (* np.append(values, v) = np.concatenate((ravel(values), ravel(v))): common dtype, both operands converted *)
  Definition np_append (values : tarr) (dt : dtype) (v : sval A) : tarr :=
    let r := promote (fst values) dt in
    (r, map (conv (fst values) r) (snd values) ++ map (conv dt r) (flat v)).

  (* ---- _concatenate_to_array as written:
         values = np.array([]);  cumulative_inds = np.zeros(len(var_list)+1, dtype=int)
         for i, v in enumerate(var_list):
             if v is None: raise ValueError
             values = np.append(values, v);  cumulative_inds[i+1] = len(values)                  (None = ValueError) *)
  Definition concat_init (nvars : nat) : tarr * list nat := (np_empty, np_zeros_int (S nvars)).
  Definition concat_body (i : nat) (dt : dtype) (v : sval A) (st : tarr * list nat) : tarr * list nat :=
    let values := np_append (fst st) dt v in
    (values, set_at (snd st) (S i) (length (snd values))).
  Fixpoint concat_loop (i : nat) (vs : list tstate) (st : tarr * list nat) : option (tarr * list nat) :=
    match vs with
    | [] => Some st
    | TNone :: _ => None
    | TVal dt v :: r => concat_loop (S i) r (concat_body i dt v st)
    end.
  Definition concat_to_array_t (vs : list tstate) : option (tarr * list nat) :=
    concat_loop 0 vs (concat_init (length vs)).

  (* ---- _split_from_array as written, in pieces *)
  Definition split_assert (vals : list A) (cum : list nat) : bool := last cum 0 =? length vals.
  Definition split_count (cum : list nat) : nat := length cum - 1.
  Definition split_item (vals : list A) (cum : list nat) (i : nat) : list A := slice vals (nth i cum 0) (nth (S i) cum 0).

  (* ---- bound expansion of MMA.response with dtypes *)
  (* a bound / move-limit specification: a scalar of some dtype, or a sequence whose entries have some dtype *)
  Inductive tbspec := TBScal (dt : dtype) (a : A) | TBList (dt : dtype) (l : list A).

  (* np.zeros_like(xval): the dtype of xval *)
  Definition zeros_like (zero : A) (x : tarr) : tarr := (fst x, repeat zero (length (snd x))).
  (* b * np.ones_like(xval) for a scalar b
     (a Python scalar is weakly typed in numpy >= 2; this only matters when xval is not float64, which
      MMAvarsP.concat_t_dtype excludes) *)
  Definition scal_times_ones_like (sdt : dtype) (a : A) (x : tarr) : tarr :=
    let r := promote sdt (fst x) in (r, repeat (conv sdt r a) (length (snd x))).
  (* dst[a:b] = v : the value is stored in the dtype of dst *)
  Definition assign_range_t (dst : tarr) (a b : nat) (sdt : dtype) (v : A) : tarr :=
    (fst dst, assign_range (snd dst) a b (conv sdt (fst dst) v)).
  (* new = np.zeros_like(xval); for i in range(len(vals)): new[cum[i]:cum[i+1]] = vals[i] *)
  Definition fill_ranges_t (zero : A) (xval : tarr) (cum : list nat) (sdt : dtype) (vals : list A) : tarr :=
    fold_left (fun acc i => assign_range_t acc (nth i cum 0) (nth (S i) cum 0) sdt (nth i vals d))
              (seq 0 (length vals)) (zeros_like zero xval).
  (* np.asarray(b, dtype=float)  /  b.astype(float) *)
  Definition as_float (x : tarr) : tarr := (F64, map (conv (fst x) F64) (snd x)).
  (* xmin / xmax:
       if not hasattr(b, '__len__'): b = b * np.ones_like(xval)
       elif len(b) == len(variables): per-signal expansion into np.zeros_like(xval)
       if len(b) != n: raise RuntimeError
       b = np.asarray(b, dtype=float)                (fix 54bd286 / F35: also a per-variable list or tuple becomes an array) *)
  Definition expand_bound_t (zero : A) (xval : tarr) (nvars : nat) (cum : list nat) (b : tbspec) : option tarr :=
    let b' := match b with
              | TBScal sdt a => scal_times_ones_like sdt a xval
              | TBList sdt l => if length l =? nvars then fill_ranges_t zero xval cum sdt l else (sdt, l)
              end in
    if length (snd b') =? length (snd xval) then Some (as_float b') else None.
  (* move: a scalar stays a scalar (broadcast later); a sequence goes through move_input = np.asarray(move) first:
       if move_input.size == len(variables): per-signal expansion into np.zeros_like(xval)
       elif len(move) != n: raise RuntimeError
       else: move = move_input.astype(float)                                                       (fix 54bd286 / F35) *)
  Definition expand_move_t (zero : A) (xval : tarr) (nvars : nat) (cum : list nat) (b : tbspec) : option tarr :=
    match b with
    | TBScal sdt a => Some (sdt, repeat a (length (snd xval)))
    | TBList sdt l =>
        if length l =? nvars then Some (fill_ranges_t zero xval cum sdt l)
        else if length l =? length (snd xval) then Some (as_float (sdt, l)) else None
    end.

  (* the write-back loop: every state is an element / a slice of xval, hence of its dtype *)
  Definition writeback_t (xval : tarr) (cum : list nat) (nvars : nat) : list tstate :=
    map (TVal (fst xval)) (writeback d (snd xval) cum nvars).

  (* forgetting the dtypes: each state converted to float64 once *)
  Definition untag (s : tstate) : sval A :=
    match s with
    | TNone => Arr []
    | TVal dt (Scal a) => Scal (conv dt F64 a)
    | TVal dt (Arr l) => Arr (map (conv dt F64) l)
    end.
  Definition is_tnone (s : tstate) : bool := match s with TNone => true | _ => false end.
End Typed.

Arguments tstate A : clear implicits.
Arguments tbspec A : clear implicits.
Arguments tarr A : clear implicits.
