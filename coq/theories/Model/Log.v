(* Model of ScalarToFile (pymoto/modules/io.py).  A logged value is a Python/numpy scalar (or 0-d array) or an array
   given as (shape, entries in C order, memory order).  float.__format__(fmt) is an oracle: the model is parametric
   in `fmt : V -> str`.  Definitions only (lemmas: Proofs/LogP.v). *)
From Coq Require Import ZArith List Bool.
From Pymoto Require Import Base.Bytes Model.Grid.
From Pymoto Require Export Model.Fs.
Import ListNotations.
Open Scope Z_scope.

Section Log.
  Variable V : Type.
  Variable fmt : V -> str.             (* value.__format__(self.format) *)

  Inductive lval :=
  | LNum (v : V)                                        (* float, np.float64, int, 0-d array *)
  | LArr (shape : list Z) (data : list V) (forder : bool).  (* ndarray with ndim >= 1; forder: Fortran-contiguous *)

  (* all multi-indices of a shape in C order (last index fastest) *)
  Fixpoint indices (shape : list Z) : list (list Z) :=
    match shape with
    | [] => [[]]
    | s :: t => flat_map (fun i => map (cons i) (indices t)) (zrange s)
    end.
  Definition lsize (shape : list Z) : Z := fold_right Z.mul 1 shape.
  (* offset of a multi-index in the C-order entry list *)
  Fixpoint offset (shape idx : list Z) : Z :=
    match shape, idx with
    | s :: t, i :: r => i * lsize t + offset t r
    | _, _ => 0
    end.
  (* np.nditer(order='K') visits the entries in memory order: C order for C-contiguous arrays,
     first index fastest for Fortran-contiguous ones *)
  Definition iter_indices (shape : list Z) (forder : bool) : list (list Z) :=
    if forder then map (@rev Z) (indices (rev shape)) else indices shape.

  (* f"{tag}{list(it.multi_index)}" *)
  Definition idx_name (idx : list Z) : str := [91] ++ join [44; 32] (map dec idx) ++ [93].

  (* the (column name, text) pairs one signal contributes *)
  Definition sig_cols (tag : str) (v : lval) : res (list (str * str)) :=
    match v with
    | LNum x => Ok [(tag, fmt x)]
    | LArr shape data forder =>
      (* np.ndim(s.state) > 0 (repaired code, /repo 4543698): every array goes through np.nditer, which refuses
         arrays without entries *)
      if lsize shape =? 0 then Err ValueError
      else
        Ok (flat_map (fun idx => match nth_error data (Z.to_nat (offset shape idx)) with
                                 | Some x => [(tag ++ idx_name idx, fmt x)]
                                 | None => []
                                 end) (iter_indices shape forder))
    end.

  Fixpoint all_cols (sigs : list (str * lval)) : res (list (str * str)) :=
    match sigs with
    | [] => Ok []
    | (tag, v) :: t =>
      match sig_cols tag v with
      | Err e => Err e
      | Ok a => match all_cols t with Err e => Err e | Ok b => Ok (a ++ b) end
      end
    end.

  (* self.separator = "," if ".csv" in self.saveto else separator *)
  Definition separator (saveto sep : str) : str := if contains (s2z ".csv") saveto then [44] else sep.

  Record lstate := mkL { l_iter : Z; l_lines : list str }.
  Definition l_init : lstate := mkL 0 [].

  (* one response(): at iteration 0 the file is (re)created with the header line, then one row is appended *)
  Definition log_step (sep : str) (st : lstate) (sigs : list (str * lval)) : res lstate :=
    match all_cols sigs with
    | Err e => Err e
    | Ok cols =>
      let row := join sep (dec (l_iter st) :: map snd cols) in
      let lines := if l_iter st =? 0 then [join sep (s2z "Iteration" :: map fst cols); row]
                   else l_lines st ++ [row] in
      Ok (mkL (l_iter st + 1) lines)
    end.

  Fixpoint log_run (sep : str) (st : lstate) (calls : list (list (str * lval))) : res lstate :=
    match calls with
    | [] => Ok st
    | c :: rest => match log_step sep st c with Err e => Err e | Ok st' => log_run sep st' rest end
    end.

  Definition log_file (st : lstate) : str := unlines (l_lines st).

  (* ---- ScalarToFile on a file system with ANY previous content (Model/Fs.v) ---- *)
  Record lmod := mkM { m_saveto : str; m_sep : str; m_iter : Z }.

  (* _prepare: Path(saveto).parent.mkdir(parents=True, exist_ok=True); self.iter = 0; the csv rule *)
  Definition log_new (fs : fsys) (saveto sep : str) : res lmod :=
    match mkdir_parents fs saveto with
    | Err e => Err e
    | Ok _ => Ok (mkM saveto (separator saveto sep) 0)
    end.

  (* _response: the columns are formatted first (an exception leaves the files alone); at iteration 0 the file is
     opened with "w+" -- whatever it held is gone -- for the header line; then it is opened with "a+" for the row *)
  Definition log_response (fs : fsys) (m : lmod) (sigs : list (str * lval)) : res (fsys * lmod) :=
    match all_cols sigs with
    | Err e => Err e
    | Ok cols =>
      let sep := m_sep m in
      let fs1 := if m_iter m =? 0
                 then fs_open_w fs (m_saveto m) (join sep (s2z "Iteration" :: map fst cols) ++ [10])
                 else fs in
      let fs2 := fs_open_a fs1 (m_saveto m) (join sep (dec (m_iter m) :: map snd cols) ++ [10]) in
      Ok (fs2, mkM (m_saveto m) sep (m_iter m + 1))
    end.

  (* a history of calls of ONE module instance without interference *)
  Fixpoint log_fs_run (fs : fsys) (m : lmod) (calls : list (list (str * lval))) : res (fsys * lmod) :=
    match calls with
    | [] => Ok (fs, m)
    | c :: rest => match log_response fs m c with Err e => Err e | Ok (fs', m') => log_fs_run fs' m' rest end
    end.

  (* histories of events: module instances are created (numbered 0, 1, .. in order of creation) and called in any
     interleaving; the environment writes and removes files in between *)
  Inductive levent :=
  | LNew (saveto sep : str)
  | LCall (id : nat) (sigs : list (str * lval))
  | LWrite (name content : str)
  | LRemove (name : str)
  (* Module.reset() of instance id (directly or through the reset() of a Network that contains it) and
     Module.sensitivity(): "clear / propagate the sensitivities".  ScalarToFile defines neither _reset nor
     _sensitivity: no attribute of the instance and no file changes *)
  | LReset (id : nat)
  | LSens (id : nat).

  Fixpoint lset_nth {A} (l : list A) (k : nat) (x : A) : list A :=
    match l, k with
    | [], _ => []
    | _ :: t, O => x :: t
    | y :: t, S k' => y :: lset_nth t k' x
    end.

  Definition lworld := (fsys * list lmod)%type.
  Definition log_event (w : lworld) (e : levent) : res lworld :=
    let (fs, mods) := w in
    match e with
    | LNew saveto sep => match log_new fs saveto sep with Err x => Err x | Ok m => Ok (fs, mods ++ [m]) end
    | LCall id sigs =>
      match nth_error mods id with
      | None => Err OtherError
      | Some m => match log_response fs m sigs with Err x => Err x | Ok (fs', m') => Ok (fs', lset_nth mods id m') end
      end
    | LWrite name content => Ok (fs_open_w fs name content, mods)
    | LRemove name => Ok (fs_remove fs name, mods)
    | LReset id | LSens id => match nth_error mods id with None => Err OtherError | Some _ => Ok (fs, mods) end
    end.

  (* the events that concern the sensitivities only *)
  Definition l_quiet (e : levent) : bool := match e with LReset _ | LSens _ => true | _ => false end.
  Definition l_strip (events : list levent) : list levent := filter (fun e => negb (l_quiet e)) events.

  (* the file system after every event; the history stops at the first exception, whose class is reported (0: none);
     the failing event leaves the files as they were (last entry of the trace) *)
  Fixpoint log_trace (w : lworld) (events : list levent) : list fsys * Z :=
    match events with
    | [] => ([], 0)
    | e :: rest =>
      match log_event w e with
      | Err x => ([fst w], exn_code x)
      | Ok w' => let (tr, code) := log_trace w' rest in (fst w' :: tr, code)
      end
    end.
End Log.

Arguments LNum {V} v.
Arguments LArr {V} shape data forder.
Arguments LNew {V} saveto sep.
Arguments LCall {V} id sigs.
Arguments LWrite {V} name content.
Arguments LRemove {V} name.
Arguments LReset {V} id.
Arguments LSens {V} id.
