(* Model of pymoto/modules/filter.py : DensityFilter._calculate_h and the Filter base class
   (_prepare with nonpadding, _response, _sensitivity).
   Hand-written, executable, polymorphic over the number type.  Definitions only; lemmas in Proofs/DensFiltP.v. *)
From Coq Require Import ZArith QArith List Bool.
From Pymoto Require Import Base.Num Base.SparseLin Model.Grid Model.Pad Model.Conv.
Import ListNotations.
Open Scope Z_scope.

(* delem = int(radius) *)
Definition dens_delem (r : Q) : Z := qtrunc r.

(* lo, lo+1, ..., hi  (the slice lo:hi+1) *)
Definition zrange2 (lo hi : Z) : list Z := map (fun t => lo + t) (zrange (hi - lo + 1)).
(* limits of the window wrt the current element: np.maximum(i - delem, 0), np.minimum(i + delem, n - 1) *)
Definition win_lo (i delem : Z) : Z := Z.max (i - delem) 0.
Definition win_hi (i delem n : Z) : Z := Z.min (i + delem) (n - 1).

Definition sq (a : Z) : Z := a * a.

Section Dens.
  Context {K : Type} `{Num K}.
  Variable g : grid.
  Variable delem : Z.
  Variable wtab : Z -> K.     (* d^2 |-> max(0, radius - sqrt(d^2)) *)

  (* ix, iy, iz: "ix[els] = xinds" is the inverse of the element numbering (C13: elem_i/j/k) *)
  Definition nwind (el : Z) : Z :=
    (win_hi (elem_i g el) delem (nelx g) - win_lo (elem_i g el) delem + 1) *
    (win_hi (elem_j g el) delem (nely g) - win_lo (elem_j g el) delem + 1) *
    (win_hi (elem_k g el) delem (nz1 g) - win_lo (elem_k g el) delem + 1).

  (* the block of element el: elcomp = els[xlow:xupp+1, ylow:yupp+1, zlow:zupp+1].flatten() (x slowest, z fastest)
     with the values max(0, radius - sqrt(dx*dx + dy*dy + dz*dz)) of h_values *)
  Definition h_row (el : Z) : list (Z * K) :=
    let ix := elem_i g el in let iy := elem_j g el in let iz := elem_k g el in
    flat_map (fun a => flat_map (fun b => map (fun c =>
        (elemnumber g a b c, wtab (sq (ix - a) + sq (iy - b) + sq (iz - c))))
      (zrange2 (win_lo iz delem) (win_hi iz delem (nz1 g))))
      (zrange2 (win_lo iy delem) (win_hi iy delem (nely g))))
      (zrange2 (win_lo ix delem) (win_hi ix delem (nelx g))).

  (* h_rows / h_cols / h_values : blocks written at [ncum[el-1], ncum[el]) = concatenation of the blocks *)
  Definition h_coo : list (Z * Z * K) :=
    flat_map (fun el => map (fun cv => (el, fst cv, snd cv)) (h_row el)) (zrange (nel g)).
  Definition ncum (el : Z) : Z := fold_right Z.add 0 (map nwind (zrange (el + 1))).

  (* Filter._prepare: Hs = H.sum(1);  Hs[not in nonpadding] = max(Hs) *)
  Definition rowsum (el : Z) : K := nsum (map snd (h_row el)).
  Variable kmax : K -> K -> K.
  Definition max_rowsum : K :=
    match map rowsum (zrange (nel g)) with
    | [] => nzero
    | h :: t => fold_left kmax t h
    end.
  Definition dens_Hs_of (mx : K) (nonpad : option (list Z)) (el : Z) : K :=
    match nonpad with
    | None => rowsum el
    | Some l => if zmem el l then rowsum el else mx
    end.
  Definition dens_Hs (nonpad : option (list Z)) (el : Z) : K := dens_Hs_of max_rowsum nonpad el.

  (* (H x)_el *)
  Definition dens_Hx (x : list K) (el : Z) : K :=
    nsum (map (fun cv => nmul (snd cv) (zget x (fst cv))) (h_row el)).

  (* _response: H * x / Hs      (max(Hs) is computed once) *)
  Definition dens_response (nonpad : option (list Z)) (x : list K) : list K :=
    let mx := max_rowsum in
    map (fun el => ndiv (dens_Hx x el) (dens_Hs_of mx nonpad el)) (zrange (nel g)).
  (* _sensitivity: H * (dfdy / Hs)   (H itself, not its transpose: the cone matrix is symmetric) *)
  Definition dens_sensitivity (nonpad : option (list Z)) (dfdy : list K) : list K :=
    let mx := max_rowsum in
    let s := map (fun el => ndiv (zget dfdy el) (dens_Hs_of mx nonpad el)) (zrange (nel g)) in
    map (fun el => dens_Hx s el) (zrange (nel g)).

  (* triple list of S^-1 H (for the adjointness property) *)
  Definition dens_triples (nonpad : option (list Z)) : list (@triple K) :=
    let mx := max_rowsum in
    flat_map (fun el => let s := dens_Hs_of mx nonpad el in
                        map (fun cv => (Z.to_nat el, Z.to_nat (fst cv), ndiv (snd cv) s)) (h_row el))
             (zrange (nel g)).

  (* specification side: the full cone matrix entry for ANY pair of elements, by their grid coordinates *)
  Definition cone_H (i j k a b c : Z) : K := wtab (sq (i - a) + sq (j - b) + sq (k - c)).
End Dens.

(* insertion sort of (col, value) pairs by column: canonical order in which rows are compared with the csc matrix *)
Fixpoint ins_col {K} (p : Z * K) (l : list (Z * K)) : list (Z * K) :=
  match l with
  | [] => [p]
  | q :: t => if fst p <=? fst q then p :: l else q :: ins_col p t
  end.
Definition sort_cols {K} (l : list (Z * K)) : list (Z * K) := fold_right ins_col [] l.
