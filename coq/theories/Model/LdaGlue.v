(* Model of the lines of pymoto/modules/linalg.py, LinSolve._response, that wrap the module's solver in an LDAWrapper
   ("LinSolve wraps every solver in LDAWrapper by default"), as the code is written:

       if not isinstance(self.solver, LDAWrapper) and self.use_lda_solver:
           lda_kwargs = dict(hermitian=self.ishermitian, symmetric=self.issymmetric)
           if hasattr(self.solver, 'tol'):
               lda_kwargs['tol'] = self.solver.tol * 5
           self.solver = LDAWrapper(self.solver, **lda_kwargs)

   and of the default `tol=1e-7` of LDAWrapper.__init__ and the acceptance test `_did_solve = residual > self.tol` of
   LDAWrapper._do_solve_1rhs.  Definitions only; tolerances and residuals are exact rationals.
   tools/gen_C06.py regenerates these definitions from the source on every run (coq/gen/C06/GlueGen.v) and
   coq/bridge/C06/GlueBridge.v proves them equal to this file for all arguments. *)
From Coq Require Import QArith ZArith List Bool.
Import ListNotations.

(* is_lda = isinstance(self.solver, LDAWrapper); use_lda = self.use_lda_solver *)
Definition wrap_needed (is_lda use_lda : bool) : bool := negb is_lda && use_lda.

(* keyword of LDAWrapper.__init__  <-  attribute of the LinSolve module.
   keywords: 0 = symmetric, 1 = hermitian;  attributes: 0 = self.issymmetric, 1 = self.ishermitian *)
Definition wrap_flags : list (Z * Z) := [(1, 1); (0, 0)]%Z.

(* tol=1e-7 in the signature of LDAWrapper.__init__ *)
Definition lda_default_tol : Q := 1 # 10000000.

(* inner_tol = Some (self.solver.tol) when hasattr(self.solver, 'tol'), evaluated on the solver that is wrapped *)
Definition linsolve_wrapper_tol (inner_tol : option Q) : Q :=
  match inner_tol with
  | Some t => t * 5
  | None => lda_default_tol
  end.

(* _did_solve = residual > self.tol: the inner solver is called for a column iff this is true *)
Definition needs_inner (tol res : Q) : bool := negb (Qle_bool res tol).

(* the test that decides whether the solution of a column the inner solver has just computed is ADDED to the database
   (LDAWrapper._do_solve_1rhs, inside the loop `for i in range(xnew.shape[-1])` over the solved columns):

       badd = (A @ xnew[..., i])[isel, ...]
       bnrm0 = np.linalg.norm(badd)                 <- reference: the right-hand side of THIS column, before it is orthogonalised
       ... badd is orthogonalised against the stored right-hand sides ...
       bnrm = np.linalg.norm(badd)
       if not np.isfinite(bnrm) or bnrm <= self.tol * bnrm0: continue      <- adds nothing new: not stored

   (norms as exact rationals; the non-finite case is outside the rationals) *)
Definition stored (tol bnrm bnrm0 : Q) : bool := negb (Qle_bool bnrm (tol * bnrm0)).
