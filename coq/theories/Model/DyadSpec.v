(* The dense specification the DyadCarrier model (Model/Dyad.v) is compared with in C15:
   the same public operations stated on a plain matrix with a declared shape (which may still contain the
   "unknown" marker -1) and numpy's dtype promotion flag.  No dyads, no dropping of zero vectors, no per-vector
   dtypes.  `dstep` returns None where the operation is outside the domain the theorems speak about
   (non-conforming shapes, out-of-range indices, ill-formed literal operands); documented restrictions of the
   carrier (assigning a non-zero value, adding a non-zero scalar, ...) are part of the specification as errors.
   Definitions only. *)
From Coq Require Import ZArith List Bool.
From Pymoto Require Import Base.Gauss Base.Mat Model.Dyad.
Import ListNotations.
Local Open Scope Z_scope.

Record dm := mkdm { dr : Z; dc : Z; dmat : matr; dflag : bool }.

Definition nrow (d : dm) : nat := Z.to_nat (dr d).
Definition ncol (d : dm) : nat := Z.to_nat (dc d).

(* results on the dense side: a matrix with declared shape, or a plain value (same type as the model's outputs) *)
Inductive dout := DDyad (d : dm) | DVal (o : out).

Definition wfmb (r c : Z) (m : matr) : bool :=
  (0 <=? r) && (0 <=? c) && (zlen m =? r) && forallb (fun row => zlen row =? c) m.

(* ---- construction / add_dyad:  M + sum_k fac * outer(u_k, v_k) *)
Fixpoint dadd_loop (d : dm) (l : list (inarr * inarr)) (fac : option Z) : option dm :=
  match l with
  | [] => Some d
  | (a, b) :: l' =>
    let u := in_vec a in
    let v := in_vec b in
    let r := if dr d <? 0 then zlen (vd u) else dr d in
    let c := if dc d <? 0 then zlen (vd v) else dc d in
    if (zlen (vd u) =? r) && (zlen (vd v) =? c) then
      let base := if (dr d <? 0) || (dc d <? 0) then mzeros (Z.to_nat r) (Z.to_nat c) else dmat d in
      dadd_loop (mkdm r c (madd base (outer (vd (vscaleZ fac u)) (vd v))) (dflag d || vf u || vf v)) l' fac
    else None
  end.

Definition dadd_dyad (d : dm) (u v : uarg) (fac : option Z) : option dm :=
  let ul := parse_to_list u in
  let vl := match v with UNone => ul | _ => parse_to_list v end in
  if Nat.eqb (length ul) (length vl) then dadd_loop d (combine ul vl) fac else None.

Definition dzero (r c : Z) : dm := mkdm r c (mzeros (Z.to_nat r) (Z.to_nat c)) false.

(* ---- unary operators *)
Definition dun (k : unop) (d : dm) : dm :=
  match k with
  | UCopy | UPos => d
  | UNeg => mkdm (dr d) (dc d) (mmap copp (dmat d)) (dflag d)
  | UTr => mkdm (dc d) (dr d) (mT (nrow d) (ncol d) (dmat d)) (dflag d)
  | UConj => mkdm (dr d) (dc d) (mmap cconj (dmat d)) (dflag d)
  | UReal => mkdm (dr d) (dc d) (mmap cre (dmat d)) false
  | UImag => mkdm (dr d) (dc d) (mmap cim (dmat d)) false
  end.

Definition msub (r c : nat) (A B : matr) : matr := mtab r c (fun i j => mget A i j - mget B i j)%C.

(* self += other / self -= other : equal known shapes, or the other carrier has no shape yet (neutral) *)
Definition diadd (minus : bool) (d o : dm) : option dm :=
  if (dr o <? 0) || (dc o <? 0) then Some d
  else if (dr d =? dr o) && (dc d =? dc o)
       then Some (mkdm (dr d) (dc d) (if minus then msub (nrow d) (ncol d) (dmat d) (dmat o) else madd (dmat d) (dmat o))
                       (dflag d || dflag o))
       else None.

Definition dsize (d : dm) : Z := if (dr d <? 0) || (dc d <? 0) then 0 else dr d * dc d.

(* ---- binary operators with a scalar / dense / carrier operand *)
Inductive darg := DScal (x : C) (f : bool) | DVec (v : vect) (f : bool) | DMat (nr nc : Z) (m : matr) (f : bool) | DDm (o : dm).

Definition darg_wf (x : darg) : bool :=
  match x with
  | DMat nr nc m _ => wfmb nr nc m
  | _ => true
  end.

Definition operand_of (x : darg) : operand :=
  match x with
  | DScal s f => PScal s f | DVec v f => PVec v f | DMat nr nc m f => PMat nr nc m f | DDm _ => PScal c0 false
  end.

Definition dbin (k : binop) (d : dm) (x : darg) : option (res dout) :=
  if negb (darg_wf x) then None else
  match k, x with
  (* carrier (+|-) carrier *)
  | (BAdd | BRadd | BSub), DDm o =>
    if negb ((dr o =? dr d) && (dc o =? dc d)) && ((dsize d >? 0) && (dsize o >? 0)) then Some (Er ValueE)
    else match diadd (match k with BSub => true | _ => false end) d o with
         | Some d' => Some (Ok (DDyad d'))
         | None => None
         end
  (* carrier (+|-) scalar: only the scalar 0 is supported *)
  | (BAdd | BRadd | BSub), DScal s _ => if cis0 s then Some (Ok (DDyad d)) else Some (Er RuntimeE)
  | BRsub, DScal s _ => if cis0 s then Some (Ok (DDyad (dun UNeg d))) else Some (Er RuntimeE)
  (* carrier (+|-) dense array broadcast to the carrier's shape: dense result *)
  | (BAdd | BRadd | BSub | BRsub), (DVec _ _ | DMat _ _ _ _) =>
    match broadcast_to (operand_of x) (dr d) (dc d) with
    | Ok (B, f) =>
      let M := match k with
               | BSub => msub (nrow d) (ncol d) (dmat d) B
               | BRsub => msub (nrow d) (ncol d) B (dmat d)
               | _ => madd B (dmat d)
               end in
      Some (Ok (DVal (OMat (dr d) (dc d) M (f || dflag d))))
    | Er _ => None
    end
  (* products *)
  | (BMatmul | BDot), DVec v f =>
    if dc d =? zlen v then Some (Ok (DVal (OVec (matvec (dmat d) v) (dflag d || f)))) else None
  | (BMatmul | BDot), DMat nr nc m f =>
    if dc d =? nr then Some (Ok (DDyad (mkdm (dr d) nc (mmul (nrow d) (Z.to_nat nr) (Z.to_nat nc) (dmat d) m) (dflag d || f))))
    else None
  | BRmatmul, DVec v f =>
    if dr d =? zlen v then Some (Ok (DVal (OVec (vecmat v (dmat d) (ncol d)) (dflag d || f)))) else None
  | BRmatmul, DMat nr nc m f =>
    if dr d =? nc then Some (Ok (DDyad (mkdm nr (dc d) (mmul (Z.to_nat nr) (Z.to_nat nc) (ncol d) m (dmat d)) (dflag d || f))))
    else None
  | _, _ => None
  end.

Definition dmul (d : dm) (x : C) (f : bool) : dm :=
  mkdm (dr d) (dc d) (mmap (fun a => cmul a x) (dmat d)) (dflag d || f).

(* ---- diagonal(k) of numpy *)
Definition ddiag (d : dm) (k : Z) : out :=
  let ustart := Z.max 0 (- k) in
  let vstart := Z.max 0 k in
  let n := Z.min (Z.max 0 (dr d) - ustart) (Z.max 0 (dc d) - vstart) in
  OVec (vtab (Z.to_nat n) (fun t => mget (dmat d) (Z.to_nat ustart + t) (Z.to_nat vstart + t))) (dflag d).

(* ---- A[i, j] of numpy for int / slice / integer-array subscripts *)
Definition dget (d : dm) (i j : idx) : option (res dout) :=
  if (dr d <? 0) || (dc d <? 0) then None else
  match idx_pos (dr d) i, idx_pos (dc d) j with
  | Ok pu, Ok pv =>
    let g := fun p q => mget (dmat d) (Z.to_nat p) (Z.to_nat q) in
    match idx_scalar i, idx_scalar j with
    | true, true => Some (Ok (DVal (OScal (g (hd 0 pu) (hd 0 pv)) (dflag d))))
    | true, false => Some (Ok (DVal (OVec (map (fun q => g (hd 0 pu) q) pv) (dflag d))))
    | false, true => Some (Ok (DVal (OVec (map (fun p => g p (hd 0 pv)) pu) (dflag d))))
    | false, false =>
      if idx_arr i && idx_arr j then
        if Nat.eqb (length pu) (length pv)
        then Some (Ok (DVal (OVec (map (fun pq => g (fst pq) (snd pq)) (combine pu pv)) (dflag d))))
        else Some (Er IndexE)                       (* the carrier does not broadcast index arrays *)
      else Some (Ok (DDyad (mkdm (zlen pu) (zlen pv) (map (fun p => map (fun q => g p q) pv) pu) (dflag d))))
    end
  | _, _ => None
  end.

(* ---- A[i, :] = 0, A[:, j] = 0, A[:, :] = 0 *)
Definition dset (d : dm) (i j : idx) (v : C) : option (dm * option err) :=
  if negb (cis0 v) then Some (d, Some ValueE) else
  if negb (idx_null i) && negb (idx_null j) then Some (d, Some IndexE) else
  if idx_null i && idx_null j then Some (mkdm (dr d) (dc d) (mzeros (nrow d) (ncol d)) (dflag d), None) else
  if idx_null j then
    match idx_pos (dr d) i with
    | Ok ps => Some (mkdm (dr d) (dc d)
                          (mtab (nrow d) (ncol d) (fun a b => if existsb (Z.eqb (Z.of_nat a)) ps then c0 else mget (dmat d) a b))
                          (dflag d), None)
    | Er _ => None
    end
  else
    match idx_pos (dc d) j with
    | Ok ps => Some (mkdm (dr d) (dc d)
                          (mtab (nrow d) (ncol d) (fun a b => if existsb (Z.eqb (Z.of_nat b)) ps then c0 else mget (dmat d) a b))
                          (dflag d), None)
    | Er _ => None
    end.

(* ---- contract:  y[p] = sum_{a,b} A[rows_p[a], cols_p[b]] * B_p[a, b]   (without B: sum_a A[rows_p[a], cols_p[a]]) *)
Definition in_rangeb (n k : Z) : bool := (- n <=? k) && (k <? n).
Definition pos_of (n k : Z) : nat := Z.to_nat (if k <? 0 then k + n else k).

Definition cidx_ok (n : Z) (P : nat) (ix : option cidx) : bool :=
  match ix with
  | None => true
  | Some i => forallb (fun l => forallb (in_rangeb n) l) (ci_rows i)
              && Nat.eqb (length (ci_rows i)) (match ci_bs i with None => 1%nat | Some _ => P end)
  end.
Definition cmat_ok (P : nat) (mat : option cmat) : bool :=
  match mat with
  | None => true
  | Some m => forallb (wfmb (cm_nr m) (cm_nc m)) (cm_mats m)
              && Nat.eqb (length (cm_mats m)) (match cm_bs m with None => 1%nat | Some _ => P end)
  end.

(* the positions selected in an axis of length n for batch item p *)
Definition sel_pos (ix : option cidx) (p : nat) (n : Z) : list nat :=
  match ix with
  | None => seq 0 (Z.to_nat n)
  | Some i => map (pos_of n) (nth (match ci_bs i with None => 0%nat | Some _ => p end) (ci_rows i) [])
  end.

Definition dform (d : dm) (mat : option cmat) (rows cols : option cidx) (p : nat) : option C :=
  let ra := sel_pos rows p (dr d) in
  let cb := sel_pos cols p (dc d) in
  match mat with
  | None => if Nat.eqb (length ra) (length cb)
            then Some (isum (length ra) (fun a => mget (dmat d) (nth a ra 0%nat) (nth a cb 0%nat))) else None
  | Some m => if (zlen ra =? cm_nr m) && (zlen cb =? cm_nc m)
              then Some (isum (length ra) (fun a => isum (length cb) (fun b =>
                           mget (dmat d) (nth a ra 0%nat) (nth b cb 0%nat) * mget (sel_mat m p) a b)%C))
              else None
  end.

Fixpoint map_opt {A B} (f : A -> option B) (l : list A) : option (list B) :=
  match l with
  | [] => Some []
  | x :: l' => match f x, map_opt f l' with Some y, Some r => Some (y :: r) | _, _ => None end
  end.

Definition dcontract (d : dm) (mat : option cmat) (rows cols : option cidx) : option (res dout) :=
  if (dr d <? 0) || (dc d <? 0) then None else
  let fmat := match mat with Some m => cm_f m | None => false end in
  match batch_shape mat rows cols with
  | Er e => Some (Er e)                 (* "Batch size of rows/cols not conforming" *)
  | Ok bso =>
    let P := match bso with None => 1%nat | Some bs => Z.to_nat (zprod bs) end in
    if cidx_ok (dr d) P rows && cidx_ok (dc d) P cols && cmat_ok P mat then
      match map_opt (dform d mat rows cols) (seq 0 P) with
      | None => None
      | Some vals => Some (Ok (DVal (match bso with
                                     | None => OScal (vget vals 0) (fmat || dflag d)
                                     | Some bs => OBatch bs vals (fmat || dflag d)
                                     end)))
      end
    else None
  end.

(* ---- contract_multi: y[i] = sum over the stored entries (r, c, x) of mats[i] of x * A[r, c] *)
Definition dmulti1 (d : dm) (m : mmat) : option C :=
  match m with
  | MNone => Some c0
  | MSp tr _ =>
    if forallb (fun e => in_rangeb (dr d) (fst (fst e)) && in_rangeb (dc d) (snd (fst e))) tr
    then Some (csum (map (fun e => (snd e * mget (dmat d) (pos_of (dr d) (fst (fst e))) (pos_of (dc d) (snd (fst e))))%C) tr))
    else None
  | MDense m => match dcontract d (Some m) None None with
                | Some (Ok (DVal (OScal x _))) => Some x
                | _ => None
                end
  end.
Definition dcontract_multi (d : dm) (mats : list mmat) : option (res dout) :=
  if (dr d <? 0) || (dc d <? 0) then None else
  match map_opt (dmulti1 d) mats with
  | Some vals => Some (Ok (DVal (OVec vals (dflag d || existsb mmat_flag mats))))
  | None => None
  end.

(* ---- programs on a store of dense matrices *)
Definition dstore := list dm.

Fixpoint dset_slot (s : dstore) (n : nat) (d : dm) : dstore :=
  match s, n with
  | [], _ => [d]
  | _ :: s', O => d :: s'
  | x :: s', S n' => x :: dset_slot s' n' d
  end.

Definition darg_of (s : dstore) (b : arg) : option darg :=
  match b with
  | AScal x f => Some (DScal x f)
  | AVec v f => Some (DVec v f)
  | AMat nr nc m f => Some (DMat nr nc m f)
  | ASlot n => match nth_error s n with Some o => Some (DDm o) | None => None end
  end.

Definition dbind (s : dstore) (dst : nat) (r : res dout) : dstore * res dout :=
  match r with
  | Ok (DDyad d) => (dset_slot s dst d, r)
  | _ => (s, r)
  end.

Definition dstep (o : op) (s : dstore) : option (dstore * res dout) :=
  match o with
  | ONew dst u v r c =>
    match dadd_dyad (dzero r c) u v None with Some d => Some (dbind s dst (Ok (DDyad d))) | None => None end
  | OAddDyad tgt u v fac =>
    match nth_error s tgt with
    | Some d => match dadd_dyad d u v fac with Some d' => Some (dset_slot s tgt d', Ok (DDyad d')) | None => None end
    | None => None
    end
  | OUn k dst src =>
    match nth_error s src with Some d => Some (dbind s dst (Ok (DDyad (dun k d)))) | None => None end
  | OIadd tgt src =>
    match nth_error s tgt, nth_error s src with
    | Some d, Some o => match diadd false d o with Some d' => Some (dset_slot s tgt d', Ok (DDyad d')) | None => None end
    | _, _ => None
    end
  | OIsub tgt src =>
    match nth_error s tgt, nth_error s src with
    | Some d, Some o => match diadd true d o with Some d' => Some (dset_slot s tgt d', Ok (DDyad d')) | None => None end
    | _, _ => None
    end
  | OBin k dst a b =>
    match nth_error s a, darg_of s b with
    | Some d, Some x => match dbin k d x with Some r => Some (dbind s dst r) | None => None end
    | _, _ => None
    end
  | OMul dst a x f | ORmul dst a x f =>
    match nth_error s a with Some d => Some (dbind s dst (Ok (DDyad (dmul d x f)))) | None => None end
  | OTodense a =>
    match nth_error s a with
    | Some d => Some (s, Ok (DVal (OMat (Z.max 0 (dr d)) (Z.max 0 (dc d)) (dmat d) (dflag d))))
    | None => None
    end
  | ODiag a k =>
    match nth_error s a with Some d => Some (s, Ok (DVal (ddiag d k))) | None => None end
  | OGet dst a i j =>
    match nth_error s a with
    | Some d => match dget d i j with Some r => Some (dbind s dst r) | None => None end
    | None => None
    end
  | OSet tgt i j v =>
    match nth_error s tgt with
    | Some d => match dset d i j v with
                | Some (d', None) => Some (dset_slot s tgt d', Ok (DDyad d'))
                | Some (d', Some e) => Some (dset_slot s tgt d', Er e)
                | None => None
                end
    | None => None
    end
  | OContract a mat rows cols =>
    match nth_error s a with
    | Some d => match dcontract d mat rows cols with Some r => Some (s, r) | None => None end
    | None => None
    end
  | OContractMulti a mats =>
    match nth_error s a with
    | Some d => match dcontract_multi d mats with Some r => Some (s, r) | None => None end
    | None => None
    end
  end.

Fixpoint drun (p : list op) (s : dstore) : option (dstore * list (res dout)) :=
  match p with
  | [] => Some (s, [])
  | o :: p' => match dstep o s with
               | Some (s1, r) => match drun p' s1 with Some (s2, rs) => Some (s2, r :: rs) | None => None end
               | None => None
               end
  end.
