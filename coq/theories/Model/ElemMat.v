(* Model of pymoto/modules/assembly.py : get_B, get_D and the Gauss-quadrature loops of
   AssembleStiffness / AssembleMass / AssemblePoisson ._prepare, written as in the source,
   generic over a numeric type K.  The number np.sqrt(3) is the parameter s3
   (K = Q(sqrt 3): s3 = (0,1), executable;  K = R: s3 = sqrt 3 or any real).  No proofs here. *)
From Coq Require Import ZArith List Bool.
From Pymoto Require Import Base.Num Base.SparseLin Base.FEMat Model.Grid Model.Shape.
Import ListNotations.

Section ElemMat.
  Context {K : Type} `{Num K}.
  Local Open Scope num_scope.
  Variable s3 : K.   (* np.sqrt(3) *)

  (* pos = n*(siz/2)/np.sqrt(3)   (all three components, as numpy does) *)
  Definition gauss_pos (h : list K) (n : Z * Z * Z) : list K :=
    map (fun d => sgn3 n d * (nth3 h d / two) / s3) (seq 0 3).

  (* w = np.prod(siz[:dim]/2) *)
  Definition gauss_w (d : nat) (h : list K) : K := nprod (map (fun x => x / two) (firstn d h)).

  (* ---- get_B ---- *)
  Definition zeros_like (a : list K) : list K := map (fun _ => nzero) a.
  Definition ilv2 (a b : list K) : list K := flat_map (fun p => [fst p; snd p]) (combine a b).
  Definition ilv3 (a b c : list K) : list K :=
    flat_map (fun p => [fst (fst p); snd (fst p); snd p]) (combine (combine a b) c).
  (* B[:, i*n_dim:(i+1)*n_dim] = [[dN0i,0],[0,dN1i],[dN1i,dN0i]]  (2-D), the two 3-D tables for voigt / not voigt *)
  Definition getB (voigt : bool) (dN : list (list K)) : list (list K) :=
    match dN with
    | [a; b] => let z := zeros_like a in [ilv2 a z; ilv2 z b; ilv2 b a]
    | [a; b; c] => let z := zeros_like a in
        if voigt then [ilv3 a z z; ilv3 z b z; ilv3 z z c; ilv3 z c b; ilv3 c z a; ilv3 b a z]
        else [ilv3 a z z; ilv3 z b z; ilv3 z z c; ilv3 b a z; ilv3 z c b; ilv3 c z a]
    | _ => []     (* 1-D and errors: outside the properties *)
    end.

  (* ---- get_D ----  mode: 0 = plane strain, 1 = plane stress, 2 = 3d *)
  Definition lame_mu (E nu : K) : K := E / (two * (none_ + nu)).
  Definition lame_lam (E nu : K) : K := (E * nu) / ((none_ + nu) * (none_ - two * nu)).
  Definition getD (E nu : K) (mode : Z) : list (list K) :=
    let mu := lame_mu E nu in
    let lam := lame_lam E nu in
    let c1 := two * mu + lam in
    let o := nzero in
    if Z.eqb mode 0 then [[c1; lam; o]; [lam; c1; o]; [o; o; mu]]
    else if Z.eqb mode 1 then
      let a := E / (none_ - nu * nu) in
      mscale a [[none_; nu; o]; [nu; none_; o]; [o; o; (none_ - nu) / two]]
    else [[c1; lam; lam; o; o; o]; [lam; c1; lam; o; o; o]; [lam; lam; c1; o; o; o];
          [o; o; o; mu; o; o]; [o; o; o; o; mu; o]; [o; o; o; o; o; mu]].

  Definition nstrain (d : nat) : nat := (d * (d + 1)) / 2.
  Definition eldofs (d : nat) : nat := 2 ^ d * d.

  (* D = get_D(E, nu, '3d' if dim == 3 else plane); if dim == 2: D *= element_size[2] *)
  Definition material_D (d : nat) (h : list K) (E nu : K) (mode : Z) : list (list K) :=
    let D := getD E nu (if Nat.eqb d 3 then 2%Z else mode) in
    if Nat.eqb d 2 then mscale (nth3 h 2) D else D.

  (* one Gauss-point contribution  w * B.T @ D @ B  =  ((w * B.T) @ D) @ B *)
  Definition BtDB (d : nat) (w : K) (B D : list (list K)) : list (list K) :=
    mmul (eldofs d) (mmul (nstrain d) (mscale w (mtrans (eldofs d) B)) D) B.

  Definition B_at (d : nat) (h pos : list K) : list (list K) := getB true (shape_der d h pos).

  (* AssembleStiffness._prepare: for n in node_numbering: ... stiffness_element += w * B.T @ D @ B *)
  Definition stiffness_element (d : nat) (h : list K) (E nu : K) (mode : Z) : list (list K) :=
    let D := material_D d h E nu mode in
    let w := gauss_w d h in
    fold_left (fun Ke n => madd Ke (BtDB d w (B_at d h (gauss_pos h n)) D))
              (node_numbering (Z.of_nat d)) (mzero (eldofs d) (eldofs d)).

  (* AssembleMass._prepare *)
  (* Nmat[0:ndof, ndof*d:ndof*d+ndof] = identity(ndof) * N[d] *)
  Definition Nmat (ndof : nat) (N : list K) : list (list K) :=
    map (fun i => flat_map (fun Nd => map (fun j => (if Nat.eqb i j then none_ else nzero) * Nd) (seq 0 ndof)) N)
        (seq 0 ndof).
  (* if dim != 3: material_property *= np.prod(siz[dim:]) *)
  Definition thick_prop (d : nat) (h : list K) (mp : K) : K :=
    if Nat.eqb d 3 then mp else mp * nprod (skipn d h).
  Definition mass_element (d : nat) (h : list K) (mp : K) (ndof : nat) : list (list K) :=
    let en := (2 ^ d)%nat in
    let w := gauss_w d h in
    let mp' := thick_prop d h mp in
    fold_left (fun Me n =>
                 let Nm := Nmat ndof (shape_fun d h (gauss_pos h n)) in
                 madd Me (mmul (en * ndof) (mscale (w * mp') (mtrans (en * ndof) Nm)) Nm))
              (node_numbering (Z.of_nat d)) (mzero (en * ndof) (en * ndof)).

  (* AssemblePoisson._prepare:  poisson_element += w * material_property * Bn.T @ Bn *)
  Definition poisson_element (d : nat) (h : list K) (mp : K) : list (list K) :=
    let en := (2 ^ d)%nat in
    let w := gauss_w d h in
    let mp' := thick_prop d h mp in
    fold_left (fun Pe n =>
                 let Bn := shape_der d h (gauss_pos h n) in
                 madd Pe (mmul en (mscale (w * mp') (mtrans en Bn)) Bn))
              (node_numbering (Z.of_nat d)) (mzero en en).
End ElemMat.
