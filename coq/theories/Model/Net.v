(* Value-level model of pymoto/core_objects.py : Module.response / Module.sensitivity dispatch,
   Signal.add_sensitivity, SignalSlice.add_sensitivity, Network.response / Network.sensitivity (C02).
   Hand-written, executable, generic over the number type (Num K); no proofs in this file.

   Reading (DESIGN 4/C02): at the evaluation point every module is its Jacobian, so a module carries a
   tangent map m_fwd (what the response does to tangents) and the map m_adj that its _sensitivity implements.
   Arrays are flattened to lists; a slice is the list of flat positions it selects. *)
From Coq Require Import List Arith Bool ZArith.
From Pymoto Require Import Base.Num.
Import ListNotations.

(* a reference to data: a Signal, or a SignalSlice (base signal, selected flat positions).
   Chains of slices x[i1][i2]... are normalised to the base signal and the composed position list:
   RSlice when every inner level is a numpy view (basic slice), so that writes reach the base array;
   RLost  when some inner level is a copying (integer/boolean array) index: reads work, but the setter
          `self.base.sensitivity[self.slice] = new_sens` then writes into a temporary copy. *)
Inductive ref : Type :=
| RSig (s : nat)
| RSlice (s : nat) (idx : list nat)
| RLost (s : nat) (idx : list nat).

Definition ref_sig (r : ref) : nat := match r with RSig s => s | RSlice s _ => s | RLost s _ => s end.

Definition upd {A} (e : nat -> A) (s : nat) (v : A) : nat -> A :=
  fun s' => if Nat.eqb s' s then v else e s'.

(* Network(m1, m2, ..., print_timing=...): False (the default), True, or a number (only passes/members that take longer
   than this many seconds are reported; 0, 0.0, 10.0, ... all select the timed branch because `x is not False`) *)
Inductive timing : Type := TOff | TOn | TMin.
(* `self.print_timing is not False` *)
Definition timed (tm : timing) : bool := match tm with TOff => false | TOn => true | TMin => true end.
(* Network.timefn(fn, name): start_t = time.time(); fn(); print(...) when the duration exceeds the threshold.
   The printed text is not part of the model; the call of fn is. *)
Definition timefn {A : Type} (tm : timing) (fn : A -> A) : A -> A := fun a => fn a.

Section NetModel.
  Context {K : Type} `{NK : Num K}.

  Local Notation vec := (list K) (only parsing).

  (* base[idx] (numpy fancy index / basic slice read) *)
  Definition gather (idx : list nat) (v : vec) : vec := map (fun i => nth i v nzero) idx.

  (* v[i] = a *)
  Fixpoint set_at (i : nat) (a : K) (v : vec) : vec :=
    match v, i with
    | [], _ => []
    | _ :: v', O => a :: v'
    | x :: v', S i' => x :: set_at i' a v'
    end.

  (* base[idx] = vals   (assignments in order: for a repeated position the last one wins, as in numpy) *)
  Definition scatter_set (idx : list nat) (vals : vec) (base : vec) : vec :=
    fold_left (fun b iv => set_at (fst iv) (snd iv) b) (combine idx vals) base.

  (* SignalSlice.add_sensitivity, line `self.sensitivity += ds`:
       tmp = base.sensitivity[slice]; tmp += ds; base.sensitivity[slice] = tmp *)
  Definition slice_add (idx : list nat) (ds : vec) (base : vec) : vec :=
    scatter_set idx (vadd (gather idx base) ds) base.

  (* a module at the evaluation point *)
  Record module : Type := {
    m_ins : list ref;                              (* sig_in  (signals or slices) *)
    m_outs : list nat;                             (* sig_out (signals) *)
    m_fwd : list vec -> list vec;                  (* tangent map of _response *)
    m_adj : list vec -> list (option vec)          (* _sensitivity; None = "return None for this input" *)
  }.

  (* tenv: states / tangents per signal; cenv: Signal.sensitivity per signal, None = not set *)
  Local Notation tenv := (nat -> list K) (only parsing).
  Local Notation cenv := (nat -> option (list K)) (only parsing).

  (* ---- Module.response *)
  Definition read_t (t : tenv) (r : ref) : vec :=
    match r with RSig s => t s | RSlice s idx => gather idx (t s) | RLost s idx => gather idx (t s) end.

  (* for i, val in enumerate(state_out): self.sig_out[i].state = val *)
  Fixpoint write_outs (outs : list nat) (ys : list vec) (t : tenv) : tenv :=
    match outs, ys with
    | o :: outs', y :: ys' => write_outs outs' ys' (upd t o y)
    | _, _ => t
    end.

  Definition fwd_mod (m : module) (t : tenv) : tenv :=
    write_outs (m_outs m) (m_fwd m (map (read_t t) (m_ins m))) t.

  (* Network.response: [m.response() for m in self.mods] *)
  Definition fwd (mods : list module) (t : tenv) : tenv :=
    fold_left (fun t m => fwd_mod m t) mods t.

  (* ---- Signal.add_sensitivity / SignalSlice.add_sensitivity
     dims s = size of the state of signal s (base.state * 0 allocates zeros of that shape) *)
  Definition add_sens (dims : nat -> nat) (c : cenv) (r : ref) (ds : option vec) : cenv :=
    match ds with
    | None => c                                              (* if ds is None: return *)
    | Some d =>
      match r with
      | RSig s =>
        match c s with
        | None => upd c s (Some d)                           (* copy.deepcopy(ds) *)
        | Some g => upd c s (Some (vadd g d))                (* self.sensitivity += ds *)
        end
      | RSlice s idx =>
        let base := match c s with
                    | None => vzero (dims s)                 (* self.base.sensitivity = self.base.state * 0 *)
                    | Some g => g
                    end in
        upd c s (Some (slice_add idx d base))
      | RLost s idx =>
        (* the base sensitivity is allocated, the addition itself lands in a temporary *)
        let base := match c s with None => vzero (dims s) | Some g => g end in
        upd c s (Some base)
      end
    end.

  Definition is_none {A} (o : option A) : bool := match o with None => true | Some _ => false end.
  Definition is_nil {A} (l : list A) : bool := match l with [] => true | _ => false end.

  (* the adjoint is handed the stored output sensitivities; an unseeded output (None) counts as zero *)
  Definition fill (dims : nat -> nat) (outs : list nat) (ws : list (option vec)) : list vec :=
    map (fun ow => match snd ow with Some g => g | None => vzero (dims (fst ow)) end) (combine outs ws).

  (* for i, ds in enumerate(sens_out): self.sig_in[i].add_sensitivity(ds) *)
  Definition apply_adj (dims : nat -> nat) (m : module) (ws : list (option vec)) (c : cenv) : cenv :=
    fold_left (fun c rd => add_sens dims c (fst rd) (snd rd))
              (combine (m_ins m) (m_adj m (fill dims (m_outs m) ws))) c.

  (* if len(self.sig_out) > 0 and all([s is None for s in sens_in]): return *)
  Definition skip (m : module) (ws : list (option vec)) : bool :=
    negb (is_nil (m_outs m)) && forallb is_none ws.

  (* Module.sensitivity *)
  Definition bwd_mod (dims : nat -> nat) (m : module) (c : cenv) : cenv :=
    let ws := map c (m_outs m) in
    if skip m ws then c else apply_adj dims m ws c.

  (* Network.sensitivity: [m.sensitivity() for m in reversed(self.mods)] *)
  Definition bwd (dims : nat -> nat) (mods : list module) (c : cenv) : cenv :=
    fold_left (fun c m => bwd_mod dims m c) (rev mods) c.

  (* ---- auxiliary reverse sweep used in the proof: additionally forgets a consumed output sensitivity *)
  Definition clear (outs : list nat) (c : cenv) : cenv :=
    fun s => if existsb (Nat.eqb s) outs then None else c s.

  Definition bwd_mod' (dims : nat -> nat) (m : module) (c : cenv) : cenv :=
    let ws := map c (m_outs m) in
    if skip m ws then clear (m_outs m) c else apply_adj dims m ws (clear (m_outs m) c).

  Definition bwd' (dims : nat -> nat) (mods : list module) (c : cenv) : cenv :=
    fold_left (fun c m => bwd_mod' dims m c) (rev mods) c.

  (* ---- nested networks: a Network is itself a Module whose response/sensitivity iterate its members.
     A Network carries its construction option print_timing (type `timing` below).  Network.response and
     Network.sensitivity have two branches, `if self.print_timing is not False:` iterate with every member call
     wrapped in self.timefn(...), `else:` iterate with plain calls; both are modelled as written. *)
  Inductive node : Type :=
  | NMod (m : module)
  | NNet (tm : timing) (l : list node).

  Fixpoint flatten (n : node) : list module :=
    match n with
    | NMod m => [m]
    | NNet _ l => (fix go (l : list node) : list module :=
                     match l with [] => [] | x :: r => flatten x ++ go r end) l
    end.

  Fixpoint fwd_node (n : node) (t : tenv) : tenv :=
    match n with
    | NMod m => fwd_mod m t
    | NNet tm l =>
      if timed tm
      then (* [self.timefn(m.response, ...) for m in self.mods] *)
           (fix go (l : list node) (t : tenv) : tenv :=
              match l with [] => t | x :: r => go r (timefn tm (fwd_node x) t) end) l t
      else (* [m.response() for m in self.mods] *)
           (fix go (l : list node) (t : tenv) : tenv :=
              match l with [] => t | x :: r => go r (fwd_node x t) end) l t
    end.

  (* reversed(self.mods): the tail is processed before the head *)
  Fixpoint bwd_node (dims : nat -> nat) (n : node) (c : cenv) : cenv :=
    match n with
    | NMod m => bwd_mod dims m c
    | NNet tm l =>
      if timed tm
      then (* [self.timefn(m.sensitivity, ...) for m in reversed(self.mods)] *)
           (fix go (l : list node) (c : cenv) : cenv :=
              match l with [] => c | x :: r => timefn tm (bwd_node dims x) (go r c) end) l c
      else (* [m.sensitivity() for m in reversed(self.mods)] *)
           (fix go (l : list node) (c : cenv) : cenv :=
              match l with [] => c | x :: r => bwd_node dims x (go r c) end) l c
    end.

  (* the same network tree with the print_timing option of every (inner) Network replaced *)
  Fixpoint retime (f : timing -> timing) (n : node) : node :=
    match n with
    | NMod m => NMod m
    | NNet tm l => NNet (f tm) ((fix go (l : list node) : list node :=
                                   match l with [] => [] | x :: r => retime f x :: go r end) l)
    end.

  (* ---- pairings *)
  Definition odot (o : option vec) (t : vec) : K := match o with None => nzero | Some g => dot g t end.
  Definition pairing_on (l : list nat) (c : cenv) (t : tenv) : K :=
    nsum (map (fun s => odot (c s) (t s)) l).
  Definition sumdot (ws ys : list vec) : K := nsum (map (fun p => dot (fst p) (snd p)) (combine ws ys)).
  Definition sumodot (gs : list (option vec)) (xs : list vec) : K :=
    nsum (map (fun p => odot (fst p) (snd p)) (combine gs xs)).

  (* unit tangent: entry k of source s is one, everything else zero; component k of a sensitivity *)
  Definition unit_tan (dims : nat -> nat) (s k : nat) : tenv :=
    fun s' => if Nat.eqb s' s then set_at k none_ (vzero (dims s)) else vzero (dims s').
  Definition onth (k : nat) (o : option vec) : K := match o with None => nzero | Some g => nth k g nzero end.

  (* ---- wiring discipline ("acyclic wiring") *)
  Definition written (mods : list module) : list nat := flat_map m_outs mods.
  Definition ins_sigs (m : module) : list nat := map ref_sig (m_ins m).
  Definition mem (s : nat) (l : list nat) : bool := existsb (Nat.eqb s) l.
  Definition disjointb (a b : list nat) : bool := forallb (fun x => negb (mem x b)) a.
  Fixpoint nodupb (l : list nat) : bool :=
    match l with [] => true | x :: r => negb (mem x r) && nodupb r end.

  (* every signal has at most one writer; a module reads no signal written by itself or by a later module *)
  Fixpoint wf_net (mods : list module) : bool :=
    match mods with
    | [] => true
    | m :: ms =>
      nodupb (m_outs m) && disjointb (m_outs m) (written ms)
      && disjointb (ins_sigs m) (m_outs m ++ written ms) && wf_net ms
    end.

  Definition below (N : nat) (mods : list module) : bool :=
    forallb (fun m => forallb (fun s => Nat.ltb s N) (m_outs m ++ ins_sigs m)) mods.

  Definition sources (N : nat) (mods : list module) : list nat :=
    filter (fun s => negb (mem s (written mods))) (seq 0 N).

  (* ---- shapes *)
  Definition ref_dim (dims : nat -> nat) (r : ref) : nat :=
    match r with RSig s => dims s | RSlice _ idx => length idx | RLost _ idx => length idx end.
  (* a slice selects pairwise different positions inside the base *)
  Definition wt_ref (dims : nat -> nat) (r : ref) : bool :=
    match r with
    | RSig _ => true
    | RSlice s idx => nodupb idx && forallb (fun i => Nat.ltb i (dims s)) idx
    | RLost _ _ => false
    end.
  Definition shapes (xs : list vec) (ds : list nat) : Prop := map (@length K) xs = ds.
  Definition oshapes (gs : list (option vec)) (ds : list nat) : Prop :=
    Forall2 (fun o d => forall g, o = Some g -> length g = d) gs ds.

  (* a module is a shape-correct adjoint pair at the point (this is what C01 establishes per module) *)
  Definition wt_mod (dims : nat -> nat) (m : module) : Prop :=
    forallb (wt_ref dims) (m_ins m) = true /\
    (forall xs, shapes xs (map (ref_dim dims) (m_ins m)) -> shapes (m_fwd m xs) (map dims (m_outs m))) /\
    (forall ws, shapes ws (map dims (m_outs m)) -> oshapes (m_adj m ws) (map (ref_dim dims) (m_ins m))) /\
    (forall xs ws, shapes xs (map (ref_dim dims) (m_ins m)) -> shapes ws (map dims (m_outs m)) ->
                   sumdot ws (m_fwd m xs) = sumodot (m_adj m ws) xs).
  Definition wt_net (dims : nat -> nat) (mods : list module) : Prop := Forall (wt_mod dims) mods.
  Definition wt_tan (dims : nat -> nat) (t : tenv) : Prop := forall s, length (t s) = dims s.
  Definition wt_cot (dims : nat -> nat) (c : cenv) : Prop := forall s g, c s = Some g -> length g = dims s.

  (* ---- concrete modules: block-sparse dense Jacobians.
     A block (o, i, M) contributes  y_o += M x_i  to the response and  g_i += M^T w_o  to the sensitivity.
     l_none i = true: the module returns None for input i (and its response does not depend on it). *)
  Local Notation mat := (list (list K)) (only parsing).
  Definition mv (M : mat) (x : vec) : vec := map (fun row => dot row x) M.
  Definition mtv (n : nat) (M : mat) (w : vec) : vec :=
    fold_right (fun rw acc => vadd (vscale (snd rw) (fst rw)) acc) (vzero n) (combine M w).

  Fixpoint add_nth (k : nat) (v : vec) (l : list vec) : list vec :=
    match l, k with
    | [], _ => []
    | x :: l', O => vadd x v :: l'
    | x :: l', S k' => x :: add_nth k' v l'
    end.

  Record lin : Type := {
    l_idims : list nat;
    l_odims : list nat;
    l_none : list bool;
    l_blocks : list (nat * nat * mat)
  }.
  Definition blk_o (b : nat * nat * mat) := fst (fst b).
  Definition blk_i (b : nat * nat * mat) := snd (fst b).
  Definition blk_m (b : nat * nat * mat) := snd b.
  Definition eff_blocks (L : lin) : list (nat * nat * mat) :=
    filter (fun b => negb (nth (blk_i b) (l_none L) false)) (l_blocks L).

  Definition lin_fwd (L : lin) (xs : list vec) : list vec :=
    fold_left (fun ys b => add_nth (blk_o b) (mv (blk_m b) (nth (blk_i b) xs [])) ys)
              (eff_blocks L) (map vzero (l_odims L)).
  Definition lin_adj_dense (L : lin) (ws : list vec) : list vec :=
    fold_left (fun gs b => add_nth (blk_i b) (mtv (nth (blk_i b) (l_idims L) 0) (blk_m b) (nth (blk_o b) ws [])) gs)
              (eff_blocks L) (map vzero (l_idims L)).
  Definition lin_adj (L : lin) (ws : list vec) : list (option vec) :=
    map (fun fg : bool * vec => if fst fg then None else Some (snd fg))
        (combine (l_none L) (lin_adj_dense L ws)).

  Definition mat_ok (r c : nat) (M : mat) : bool :=
    Nat.eqb (length M) r && forallb (fun row => Nat.eqb (length row) c) M.
  Definition lin_ok (L : lin) : bool :=
    Nat.eqb (length (l_none L)) (length (l_idims L)) &&
    forallb (fun b => Nat.ltb (blk_o b) (length (l_odims L)) && Nat.ltb (blk_i b) (length (l_idims L))
                      && mat_ok (nth (blk_o b) (l_odims L) 0) (nth (blk_i b) (l_idims L) 0) (blk_m b))
            (l_blocks L).

  Definition linmod (ins : list ref) (outs : list nat) (L : lin) : module :=
    {| m_ins := ins; m_outs := outs; m_fwd := lin_fwd L; m_adj := lin_adj L |}.

  Fixpoint list_eqb_nat (a b : list nat) : bool :=
    match a, b with
    | [], [] => true
    | x :: a', y :: b' => Nat.eqb x y && list_eqb_nat a' b'
    | _, _ => false
    end.
  (* decidable sufficient condition for wt_mod dims (linmod ins outs L) *)
  Definition linmod_ok (dims : nat -> nat) (ins : list ref) (outs : list nat) (L : lin) : bool :=
    lin_ok L && forallb (wt_ref dims) ins
    && list_eqb_nat (l_idims L) (map (ref_dim dims) ins) && list_eqb_nat (l_odims L) (map dims outs).

  (* ---- finite descriptions used by the case files and the examples *)
  Definition env_of (l : list vec) : tenv := fun s => nth s l [].
  Definition cenv_of (l : list (option vec)) : cenv := fun s => nth s l None.
  Definition dims_of (l : list nat) : nat -> nat := fun s => nth s l 0.
  Definition show_t (N : nat) (t : tenv) : list vec := map t (seq 0 N).
  Definition show_c (N : nat) (c : cenv) : list (option vec) := map c (seq 0 N).

  (* a network described by data: block-matrix modules, possibly nested *)
  Inductive stree : Type :=
  | SMod (ins : list ref) (outs : list nat) (L : lin)
  | SNet (tm : timing) (l : list stree).

  Fixpoint to_node (s : stree) : node :=
    match s with
    | SMod ins outs L => NMod (linmod ins outs L)
    | SNet tm l => NNet tm ((fix go (l : list stree) : list node :=
                               match l with [] => [] | x :: r => to_node x :: go r end) l)
    end.

  Fixpoint specs_ok (dims : nat -> nat) (s : stree) : bool :=
    match s with
    | SMod ins outs L => linmod_ok dims ins outs L
    | SNet _ l => (fix go (l : list stree) : bool :=
                     match l with [] => true | x :: r => specs_ok dims x && go r end) l
    end.

  (* everything the theorem asks of a described network *)
  Definition net_ok (N : nat) (dims : nat -> nat) (s : stree) : bool :=
    wf_net (flatten (to_node s)) && below N (flatten (to_node s)) && specs_ok dims s.
End NetModel.

Arguments module : clear implicits.
Arguments node : clear implicits.
Arguments lin : clear implicits.
Arguments stree : clear implicits.
Notation vec K := (list K) (only parsing).
Notation mat K := (list (list K)) (only parsing).
Notation tenv K := (nat -> list K) (only parsing).
Notation cenv K := (nat -> option (list K)) (only parsing).

(* ---- error dispatch of Module.response / Module.sensitivity / add_sensitivity (malformed stream of the check):
   only the CLASS of the exception is modelled *)
Inductive errclass : Type := ENone | ETypeError | EValueError | EIndexError | EAssertionError | ERuntimeError | EOther.
Definition errclass_eqb (a b : errclass) : bool :=
  match a, b with
  | ENone, ENone | ETypeError, ETypeError | EValueError, EValueError | EIndexError, EIndexError
  | EAssertionError, EAssertionError | ERuntimeError, ERuntimeError | EOther, EOther => true
  | _, _ => false
  end.
(* if len(state_out) != len(self.sig_out): raise TypeError *)
Definition resp_count_err (nret nouts : nat) : errclass := if Nat.eqb nret nouts then ENone else ETypeError.
(* a module none of whose outputs is seeded is skipped; else if len(sens_out) != len(self.sig_in): raise TypeError *)
Definition sens_count_err (seeded : bool) (nret nins : nat) : errclass :=
  if seeded then (if Nat.eqb nret nins then ENone else ETypeError) else ENone.
(* base.state[slice] with an integer-array index: IndexError when a position is outside the base *)
Definition slice_read_err (n : nat) (idx : list nat) : errclass :=
  if forallb (fun i => Nat.ltb i n) idx then ENone else EIndexError.
(* add_sensitivity of a 1-D contribution of length d: the first contribution to a Signal is deep-copied whatever its
   shape; `sensitivity += ds` needs d to broadcast to the present length n (d = n or d = 1), else ValueError *)
Definition add_err (present : option nat) (d : nat) : errclass :=
  match present with
  | None => ENone
  | Some n => if Nat.eqb n d || Nat.eqb d 1 then ENone else EValueError
  end.

(* ---- concrete instances over Z used by Props/C02.v (definitions only) *)
Definition mkL (i o : list nat) (n : list bool) (b : list (nat * nat * list (list Z))) : lin Z :=
  {| l_idims := i; l_odims := o; l_none := n; l_blocks := b |}.

(* the 5-module diamond of corpus/C02/diamond.json *)
Definition diamond_dims : list nat := [3; 2; 2; 2; 2; 1; 2; 1].
Definition diamond : stree Z :=
  SNet TOff [SNet TOn [SMod [RSlice 0 [0; 2]] [2] (mkL [2] [2] [false] [(0, 0, [[1; 2]; [0; -1]]%Z)]);
              SMod [RSig 0; RSig 1] [3] (mkL [3; 2] [2] [false; false]
                                             [(0, 0, [[1; 0; 2]; [-1; 1; 0]]%Z); (0, 1, [[2; 0]; [1; 1]]%Z)])];
        SMod [RSig 2; RSig 3] [4] (mkL [2; 2] [2] [false; false]
                                       [(0, 0, [[1; 1]; [0; 2]]%Z); (0, 1, [[-1; 0]; [2; 1]]%Z)]);
        SNet TMin [SMod [RSig 2; RSig 2] [5] (mkL [2; 2] [1] [false; false] [(0, 0, [[1; -1]]%Z); (0, 1, [[2; 1]]%Z)]);
              SMod [RSig 4] [6; 7] (mkL [2] [2; 1] [false] [(0, 0, [[1; 2]; [0; 1]]%Z); (1, 0, [[1; 1]]%Z)])]].
Definition diamond_seeds : list (option (list Z)) :=
  [None; None; None; None; None; Some [2]; Some [1; -1]; None]%Z.
(* what the implementation leaves on the eight signals (and what the model computes) *)
Definition diamond_expected : list (option (list Z)) :=
  [Some [7; 1; 13]; Some [3; 1]; Some [7; 3]; Some [1; 1]; Some [1; 1]; Some [2]; Some [1; -1]; None]%Z.

(* inputs outside the admissible slices: a repeated position, a slice of a copying slice *)
Definition bad_repeat : list (module Z) :=
  [linmod [RSlice 0 [0; 0]] [1] (mkL [2] [2] [false] [(0, 0, [[1; 0]; [0; 1]]%Z)])].
Definition bad_lost : list (module Z) :=
  [linmod [RLost 0 [1; 2]] [1] (mkL [2] [2] [false] [(0, 0, [[1; 0]; [0; 1]]%Z)])].
