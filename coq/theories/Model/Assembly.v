(* Model of pymoto/modules/assembly.py : AssembleGeneral._prepare / _response.
   Index construction over Z exactly as in the source (np.kron of the dof connectivity, bc mask, concatenation
   of the bc diagonal), values over any numeric type K.  The assembled sparse matrix is the list of
   (row, col, value) triples handed to the scipy constructor (duplicates are summed by scipy: that is the
   meaning `zentry` / SparseLin.dense give to a triple list), followed by the triples of add_constant.
   Definitions only. *)
From Coq Require Import ZArith QArith List Bool.
From Bignums Require Import BigQ.
From Pymoto Require Import Base.Num Base.Qsqrt3 Base.SparseLin Base.FEMat Model.Grid.
Import ListNotations.

(* ---- index part (Z) ---- *)
(* self.ndof = self.elmat.shape[-1] // domain.elemnodes *)
Definition asm_ndof {K} (g : grid) (elmat : list (list K)) : Z :=
  (Z.of_nat (length (hd [] elmat)) / elemnodes g)%Z.
(* self.n = self.ndof * domain.nnodes *)
Definition asm_n (g : grid) (ndof : Z) : Z := (ndof * nnodes g)%Z.
(* self.dofconn = domain.get_dofconnectivity(self.ndof)  (all elements, in element order) *)
Definition dofconn_all (g : grid) (ndof : Z) : list (list Z) := map (dofconn g ndof) (zrange (nel g)).

(* np.kron(dofconn, np.ones((1, m))).flatten() : every entry repeated m times *)
Definition kron_rows (m : nat) (dc : list (list Z)) : list Z :=
  flat_map (fun row => flat_map (fun v => repeat v m) row) dc.
(* np.kron(dofconn, np.ones((m, 1))).flatten() : every row repeated m times *)
Definition kron_cols (m : nat) (dc : list (list Z)) : list Z :=
  flat_map (fun row => concat (repeat row m)) dc.

Definition isin (v : Z) (bc : list Z) : bool := existsb (Z.eqb v) bc.
(* np.bitwise_not(np.bitwise_or(np.isin(rows, bc), np.isin(cols, bc))) *)
Definition bc_keep (bc rows cols : list Z) : list bool :=
  map (fun p => negb (isin (fst p) bc || isin (snd p) bc)) (combine rows cols).
(* a[np.argwhere(mask).flatten()] *)
Fixpoint select {A} (keep : list bool) (l : list A) : list A :=
  match keep, l with
  | k :: ks, a :: t => if k then a :: select ks t else select ks t
  | _, _ => []
  end.

Section Assembly.
  Context {K : Type} `{Num K}.
  Local Open Scope num_scope.

  Definition ztriple : Type := (Z * Z * K)%type.

  (* scaled_el = (self.elmat.flatten() * xscale[..., np.newaxis]).flatten() *)
  Definition scaled_el (elmat : list (list K)) (x : list K) : list K :=
    flat_map (fun xe => map (fun k => k * xe) (concat elmat)) x.

  Definition zip3 (rows cols : list Z) (vals : list K) : list ztriple := combine (combine rows cols) vals.

  (* (mat_values, (bcrows, bccols)) *)
  Definition asm_ztriples (g : grid) (elmat : list (list K)) (bc : option (list Z)) (bcdiagval : K) (x : list K)
    : list ztriple :=
    let ndof := asm_ndof g elmat in
    let m := Z.to_nat (elemnodes g * ndof) in
    let dc := dofconn_all g ndof in
    let rows := kron_rows m dc in
    let cols := kron_cols m dc in
    let vals := scaled_el elmat x in
    match bc with
    | None => zip3 rows cols vals
    | Some bcl =>
        let keep := bc_keep bcl rows cols in
        zip3 (select keep rows ++ bcl) (select keep cols ++ bcl)
             (select keep vals ++ map (fun _ => bcdiagval * none_) bcl)
    end.

  (* mat = matrix_type((vals, (rows, cols)), shape=(n, n));  if add_constant is not None: mat += add_constant *)
  Definition asm_matrix g elmat bc bcdiagval (cst : list ztriple) x : list ztriple :=
    asm_ztriples g elmat bc bcdiagval x ++ cst.

  (* the entry (i, j) of the matrix a triple list denotes: duplicates are summed *)
  Definition zentry (T : list ztriple) (i j : Z) : K :=
    fold_right (fun (t : ztriple) acc => match t with (r, c, v) =>
                  if Z.eqb r i && Z.eqb c j then v + acc else acc end) nzero T.

  (* the same list as SparseLin triples (nat indices) *)
  Definition to_triples (T : list ztriple) : list (@triple K) :=
    map (fun t : ztriple => match t with (r, c, v) => (Z.to_nat r, Z.to_nat c, v) end) T.

  (* the assertion of _response and the preconditions of the scipy constructor *)
  Definition asm_ok (g : grid) (elmat : list (list K)) (bc : option (list Z)) (x : list K) : bool :=
    let ndof := asm_ndof g elmat in
    Nat.eqb (length x) (Z.to_nat (nel g)) &&
    match bc with None => true
             | Some bcl => forallb (fun b => Z.leb 0 b && Z.ltb b (asm_n g ndof)) bcl end.

  (* exception class of response(): 0 = none, 2 = ValueError (scipy constructor: index/data arrays of different
     length, index out of range), 4 = AssertionError (size of x) *)
  Definition asm_status (g : grid) (elmat : list (list K)) (bc : option (list Z)) (x : list K) : Z :=
    let ndof := asm_ndof g elmat in
    let m := Z.to_nat (elemnodes g * ndof) in
    if negb (Nat.eqb (length x) (Z.to_nat (nel g))) then 4%Z
    else if negb (Nat.eqb (length (concat elmat)) (m * m)) then 2%Z
    else if negb (asm_ok g elmat bc x) then 2%Z
    else 0%Z.

  (* u[dofconn_e] *)
  Definition gatherZ (u : list K) (idx : list Z) : list K := map (fun d => vget u (Z.to_nat d)) idx.
End Assembly.

(* ---- evaluation helper (correspondence only) ---- *)
(* self.bcdiagval = np.max(element_matrix) if bcdiagval is None else bcdiagval *)
Definition bcdiag_default (o : option bigQ) (M : list (list bigQ)) : bigQ :=
  match o with Some v => v | None => bq_max_list (concat M) end.
