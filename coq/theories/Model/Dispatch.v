(* Model of Module.response / Module.sensitivity / Module.reset (pymoto/core_objects.py:505-566) on a store of
   signals, generic over the value type V of states and sensitivities (anything with an addition).
   Definitions only. *)
From Coq Require Import List Bool Arith.
Import ListNotations.

Section Dispatch.
  Variable V : Type.
  Variable vplus : V -> V -> V.

  Record sigst := { st : option V; se : option V }.
  Definition env := list sigst.
  Definition empty_sig : sigst := {| st := None; se := None |}.
  Definition get (e : env) (i : nat) : sigst := nth i e empty_sig.
  Fixpoint upd (e : env) (i : nat) (s : sigst) : env :=
    match e, i with
    | [], _ => []
    | _ :: t, O => s :: t
    | h :: t, S j => h :: upd t j s
    end.

  (* a module: input / output signal numbers, _response on the input states, and _sensitivity, which may read the
     states of inputs and outputs (self.sig_in[i].state) and receives the output sensitivities (None = unseeded) *)
  Record modl := {
    ins : list nat; outs : list nat;
    resp : list (option V) -> list V;
    vjp : list (option V) -> list (option V) -> list (option V) -> list (option V)
  }.

  (* Signal.add_sensitivity: None is ignored; first contribution is (deep-)copied; later ones are added *)
  Definition add_sens (s : sigst) (ds : option V) : sigst :=
    match ds with
    | None => s
    | Some d => match se s with
                | None => {| st := st s; se := Some d |}
                | Some a => {| st := st s; se := Some (vplus a d) |}
                end
    end.

  Definition is_none {A} (o : option A) : bool := match o with None => true | Some _ => false end.

  (* Module.response: states of the outputs are overwritten *)
  Definition response (e : env) (m : modl) : env :=
    fold_left (fun e' (p : nat * V) => upd e' (fst p) {| st := Some (snd p); se := se (get e' (fst p)) |})
              (combine (outs m) (resp m (map (fun i => st (get e i)) (ins m)))) e.

  (* Module.sensitivity *)
  Definition seeds (e : env) (m : modl) : list (option V) := map (fun o => se (get e o)) (outs m).
  Definition contributions (e : env) (m : modl) : list (nat * option V) :=
    combine (ins m) (vjp m (map (fun i => st (get e i)) (ins m)) (map (fun o => st (get e o)) (outs m)) (seeds e m)).
  Definition unseeded (e : env) (m : modl) : bool :=
    negb (Nat.eqb (length (outs m)) 0) && forallb is_none (seeds e m).
  Definition add_all (l : list (nat * option V)) (e : env) : env :=
    fold_left (fun e' (p : nat * option V) => upd e' (fst p) (add_sens (get e' (fst p)) (snd p))) l e.
  Definition sensitivity (e : env) (m : modl) : env :=
    if unseeded e m then e else add_all (contributions e m) e.

  (* Module.reset (allocation not kept): sensitivities of outputs, then inputs, become None *)
  Definition clear (e : env) (i : nat) : env := upd e i {| st := st (get e i); se := None |}.
  Definition reset (e : env) (m : modl) : env := fold_left clear (outs m ++ ins m) e.

  (* a seed assignment by the user *)
  Definition seed (e : env) (o : nat) (w : option V) : env := upd e o {| st := st (get e o); se := w |}.
  Definition set_state (e : env) (i : nat) (x : V) : env := upd e i {| st := Some x; se := se (get e i) |}.
End Dispatch.

Arguments st {V}. Arguments se {V}. Arguments get {V}. Arguments upd {V}. Arguments ins {V}. Arguments outs {V}.
Arguments resp {V}. Arguments vjp {V}. Arguments add_sens {V}. Arguments response {V}. Arguments sensitivity {V}.
Arguments reset {V}. Arguments seed {V}. Arguments set_state {V}. Arguments seeds {V}. Arguments contributions {V}.
Arguments unseeded {V}. Arguments add_all {V}. Arguments clear {V}. Arguments empty_sig {V}.
