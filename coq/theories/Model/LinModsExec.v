(* Executable block form of the C07 models over Gaussian rationals (Base/CQMat.v), used only by the generated
   correspondence cases ("checked oracle"): the harness supplies the exact rational outputs, Coq CHECKS that they
   satisfy the model's defining block equations exactly (which determine them uniquely when A_ff is non-singular)
   and that the implementation's float outputs are within tolerance.  Definitions only. *)
From Coq Require Import ZArith QArith List Bool.
From Pymoto Require Import Base.CQMat.
Import ListNotations.

Definition rows_sel (idx : list nat) (m : cmat) : cmat := map (fun i => nth i m []) idx.
Definition cols_sel (idx : list nat) (m : cmat) : cmat := map (fun r => map (fun j => nth j r c0) idx) m.
Definition blk (r c : list nat) (m : cmat) : cmat := cols_sel c (rows_sel r m).
Definition madd (a b : cmat) : cmat :=
  map (fun p => map (fun q => cadd (fst q) (snd q)) (combine (fst p) (snd p))) (combine a b).
Definition mzero (r k : nat) : cmat := repeat (repeat c0 k) r.
(* product with an explicit number k of result columns, so that an empty inner dimension gives zeros *)
Definition mmulk (k : nat) (a b : cmat) : cmat :=
  match b with [] => mzero (length a) k | _ => mmul a b end.

(* SystemOfEquations: (x, b) is the model's output for (A, bf, xp) with index lists f, p  <->
     x[p] = xp,  A_ff x[f] = bf - A_fp xp,  b[f] = bf,  b[p] = A_pf x[f] + A_pp xp      (and then A x = b) *)
Definition check_soe (k : nat) (f p : list nat) (A bf xp x b ximpl bimpl : cmat) (tol : Q) : bool :=
  let xf := rows_sel f x in
  meqb (rows_sel p x) xp &&
  meqb (mmulk k (blk f f A) xf) (msub bf (mmulk k (blk f p A) xp)) &&
  meqb (rows_sel f b) bf &&
  meqb (rows_sel p b) (madd (mmulk k (blk p f A) xf) (mmulk k (blk p p A) xp)) &&
  meqb (mmul A x) b &&
  mclose tol ximpl x && mclose tol bimpl b.

(* StaticCondensation: X solves A_ff X = A_fm exactly, Ared = A_mm - A_mf X *)
Definition check_sc (m f : list nat) (A X Ared impl : cmat) (tol : Q) : bool :=
  meqb (mmul (blk f f A) X) (blk f m A) &&
  meqb Ared (msub (blk m m A) (mmul (blk m f A) X)) &&
  mclose tol impl Ared.

(* Inverse: A B = I exactly *)
Definition check_inv (A B impl : cmat) (tol : Q) : bool :=
  meqb (mmul A B) (mident (length A)) && mclose tol impl B.
