(* Model of the index padding of pymoto/modules/filter.py : FilterConv._prepare / _process_padding /
   override_padded_values / override_values / get_padded_vector, and of the numpy.pad index semantics
   (modes symmetric, edge, wrap, constant; pad widths larger than the array included).
   Hand-written, executable.  Definitions only; the lemmas are in Proofs/PadP.v. *)
From Coq Require Import ZArith List Bool.
From Pymoto Require Import Base.Num Model.Grid.
Import ListNotations.
Open Scope Z_scope.

(* ------------------------------------------------------------------ numpy.pad, one axis *)
(* index read by mode='symmetric' at (possibly far) out-of-range position i of an axis of length n:
   the 2n-periodic mirror  ... 1 0 | 0 1 .. n-1 | n-1 .. 1 0 | 0 1 ...   (numpy's repeated reflection) *)
Definition sym_idx (n i : Z) : Z :=
  let m := i mod (2 * n) in if m <? n then m else 2 * n - 1 - m.

Inductive npmode := NpSym | NpEdge | NpWrap | NpConst.

(* source position of output position j (relative to the start of the original data); None = constant fill *)
Definition np_src (md : npmode) (n j : Z) : option Z :=
  if (0 <=? j) && (j <? n) then Some j
  else match md with
       | NpSym => Some (sym_idx n j)
       | NpEdge => Some (if j <? 0 then 0 else n - 1)
       | NpWrap => Some (j mod n)
       | NpConst => None
       end.

(* np.pad(l, (pl, pr), mode=md [, constant_values=c]) along the (outer) axis of l *)
Definition np_pad {A} (md : npmode) (c : A) (pl pr : Z) (l : list A) : list A :=
  let n := Z.of_nat (length l) in
  map (fun i => match np_src md n (i - pl) with
                | Some t => nth (Z.to_nat t) l c
                | None => c
                end) (zrange (n + pl + pr)).

(* ------------------------------------------------------------------ boundary modes of FilterConv *)
Inductive bmode (K : Type) := BSym | BEdge | BWrap | BConst (v : K).
Arguments BSym {K}. Arguments BEdge {K}. Arguments BWrap {K}. Arguments BConst {K} v.

Definition is_wrap {K} (m : bmode K) : bool := match m with BWrap => true | _ => false end.
Definition is_const {K} (m : bmode K) : bool := match m with BConst _ => true | _ => false end.

(* _process_padding along one axis: wrap on both sides first (width 0 on a non-wrap side), then edge 1
   (right side) of the intermediate array pad1a, then edge 0 (left side) of the intermediate array pad1b.
   c is what constant_values=0 puts there (a zero index, or a slab / row of zero indices). *)
Definition axis_pad {K A} (c : A) (m0 m1 : bmode K) (p : Z) (l : list A) : list A :=
  let pad1a := if is_wrap m0 || is_wrap m1
               then np_pad NpWrap c (if is_wrap m0 then p else 0) (if is_wrap m1 then p else 0) l
               else l in
  let pad1b := match m1 with
               | BEdge => np_pad NpEdge c 0 p pad1a
               | BSym => np_pad NpSym c 0 p pad1a
               | BConst _ => np_pad NpConst c 0 p pad1a
               | BWrap => pad1a
               end in
  match m0 with
  | BEdge => np_pad NpEdge c p 0 pad1b
  | BSym => np_pad NpSym c p 0 pad1b
  | BConst _ => np_pad NpConst c p 0 pad1b
  | BWrap => pad1b
  end.

(* ------------------------------------------------------------------ 3-D index arrays *)
Definition arr3 (A : Type) : Type := list (list (list A)).
Definition nth3 {A} (a : arr3 A) (i j k : Z) (d : A) : A :=
  nth (Z.to_nat k) (nth (Z.to_nat j) (nth (Z.to_nat i) a []) []) d.
Definition tab3 {A} (nx ny nz : Z) (f : Z -> Z -> Z -> A) : arr3 A :=
  map (fun i => map (fun j => map (fun k => f i j k) (zrange nz)) (zrange ny)) (zrange nx).

Record padcfg (K : Type) := {
  pg : grid;
  ppx : Z; ppy : Z; ppz : Z;                       (* self.pad_sizes *)
  mx0 : bmode K; mx1 : bmode K; my0 : bmode K; my1 : bmode K; mz0 : bmode K; mz1 : bmode K
}.
Arguments pg {K}. Arguments ppx {K}. Arguments ppy {K}. Arguments ppz {K}.
Arguments mx0 {K}. Arguments mx1 {K}. Arguments my0 {K}. Arguments my1 {K}. Arguments mz0 {K}. Arguments mz1 {K}.

(* shape of el3d_orig: np.arange(max(1, s)) per direction *)
Definition sx1 {K} (c : padcfg K) : Z := Z.max 1 (nelx (pg c)).
Definition sy1 {K} (c : padcfg K) : Z := Z.max 1 (nely (pg c)).
Definition sz1 {K} (c : padcfg K) : Z := Z.max 1 (nelz (pg c)).

Definition el3d_orig {K} (c : padcfg K) : arr3 Z :=
  tab3 (sx1 c) (sy1 c) (sz1 c) (fun i j k => elemnumber (pg c) i j k).

(* padx, pady, el3d_pad : the three calls of _process_padding (directions 0, 1, 2) *)
Definition el3d_padx {K} (c : padcfg K) : arr3 Z :=
  axis_pad (repeat (repeat 0 (Z.to_nat (sz1 c))) (Z.to_nat (sy1 c))) (mx0 c) (mx1 c) (ppx c) (el3d_orig c).
Definition el3d_pady {K} (c : padcfg K) : arr3 Z :=
  map (axis_pad (repeat 0 (Z.to_nat (sz1 c))) (my0 c) (my1 c) (ppy c)) (el3d_padx c).
Definition el3d_pad {K} (c : padcfg K) : arr3 Z :=
  map (map (axis_pad 0 (mz0 c) (mz1 c) (ppz c))) (el3d_pady c).

(* ------------------------------------------------------------------ value overrides *)
(* an override is an index set and a value.  OvBox rx ry rz = np.meshgrid(rx, ry, rz, indexing='ij') (a box);
   OvPts = an explicit list of padded-domain positions (override_values) *)
Inductive override (K : Type) :=
  | OvBox (rx ry rz : list Z) (v : K)
  | OvPts (pts : list (Z * Z * Z)) (v : K).
Arguments OvBox {K}. Arguments OvPts {K}.

Definition zmem (i : Z) (l : list Z) : bool := existsb (Z.eqb i) l.
Definition ov_hit {K} (o : override K) (i j k : Z) : option K :=
  match o with
  | OvBox rx ry rz v => if zmem i rx && zmem j ry && zmem k rz then Some v else None
  | OvPts pts v =>
      if existsb (fun t => match t with (a, b, c) => (a =? i) && (b =? j) && (c =? k) end) pts then Some v else None
  end.
(* for index, value in self.overrides: xpad[index] = value   (later entries overwrite earlier ones) *)
Definition apply_ovs {K} (ovs : list (override K)) (i j k : Z) (base : K) : K :=
  fold_left (fun acc o => match ov_hit o i j k with Some v => v | None => acc end) ovs base.
Definition ov_any {K} (ovs : list (override K)) (i j k : Z) : bool :=
  existsb (fun o => match ov_hit o i j k with Some _ => true | None => false end) ovs.

(* domain_sizes and padded_sizes exactly as the code computes them (nelz is NOT replaced by max(1, nelz) here) *)
Definition dom_size {K} (c : padcfg K) (d : nat) : Z :=
  match d with O => nelx (pg c) | S O => nely (pg c) | _ => nelz (pg c) end.
Definition pad_size {K} (c : padcfg K) (d : nat) : Z :=
  match d with O => ppx c | S O => ppy c | _ => ppz c end.
Definition padded_size {K} (c : padcfg K) (d : nat) : Z := dom_size c d + 2 * pad_size c d.
(* n_range = [np.arange(max(1, s)) for s in padded_sizes]; n_range[direction] = r *)
Definition n_range {K} (c : padcfg K) (dir : nat) (r : list Z) (d : nat) : list Z :=
  if Nat.eqb d dir then r else zrange (Z.max 1 (padded_size c d)).
(* override_padded_values: empty index sets are not stored *)
Definition mk_pad_override {K} (c : padcfg K) (dir : nat) (r : list Z) (v : K) : list (override K) :=
  let rx := n_range c dir r 0%nat in let ry := n_range c dir r 1%nat in let rz := n_range c dir r 2%nat in
  if (Z.of_nat (length rx) * Z.of_nat (length ry) * Z.of_nat (length rz) =? 0) then [] else [OvBox rx ry rz v].
(* one call of _process_padding: edge 1 is processed before edge 0 *)
Definition axis_overrides {K} (c : padcfg K) (dir : nat) (m0 m1 : bmode K) : list (override K) :=
  let p := pad_size c dir in
  (match m1 with
   | BConst v => mk_pad_override c dir (map (fun t => p + dom_size c dir + t) (zrange p)) v
   | _ => [] end) ++
  (match m0 with
   | BConst v => mk_pad_override c dir (zrange p) v
   | _ => [] end).
Definition pad_overrides {K} (c : padcfg K) : list (override K) :=
  axis_overrides c 0%nat (mx0 c) (mx1 c) ++ axis_overrides c 1%nat (my0 c) (my1 c) ++
  axis_overrides c 2%nat (mz0 c) (mz1 c).

(* override_values(index, value): index selects positions of the ORIGINAL domain; the harness hands over the
   selected (i, j, k) triples, the code shifts them by the pad sizes *)
Definition user_override {K} (c : padcfg K) (pts : list (Z * Z * Z)) (v : K) : override K :=
  OvPts (map (fun t => match t with (i, j, k) => (ppx c + i, ppy c + j, ppz c + k) end) pts) v.

(* get_padded_vector: xpad = x[el3d_pad]; then the overrides in order.  uov = the user's overrides (appended
   to self.overrides after construction) *)
Definition zget {K} `{Num K} (x : list K) (e : Z) : K := nth (Z.to_nat e) x nzero.
Definition shape3 {A} (a : arr3 A) : Z * Z * Z :=
  (Z.of_nat (length a), Z.of_nat (length (hd [] a)), Z.of_nat (length (hd [] (hd [] a)))).

Definition xpad_at {K} `{Num K} (c : padcfg K) (uov : list (override K)) (x : list K) (i j k : Z) : K :=
  apply_ovs (pad_overrides c ++ uov) i j k (zget x (nth3 (el3d_pad c) i j k 0)).

Definition xpad_arr {K} `{Num K} (c : padcfg K) (uov : list (override K)) (x : list K) : arr3 K :=
  let e := el3d_pad c in
  let ovs := pad_overrides c ++ uov in
  match shape3 e with
  | (nx, ny, nz) => tab3 nx ny nz (fun i j k => apply_ovs ovs i j k (zget x (nth3 e i j k 0)))
  end.

(* ------------------------------------------------------------------ specification: the ideal extension *)
(* "the field extended beyond each boundary by the selected rule", one axis of length n:
   where does position i (in original coordinates, possibly outside [0, n)) read from? *)
Inductive src (K : Type) := SIdx (i : Z) | SConst (v : K).
Arguments SIdx {K}. Arguments SConst {K}.

Definition ext1 {K} (m0 m1 : bmode K) (n i : Z) : src K :=
  if i <? 0 then
    match m0 with BSym => SIdx (sym_idx n i) | BEdge => SIdx 0 | BWrap => SIdx (i mod n) | BConst v => SConst v end
  else if n <=? i then
    match m1 with BSym => SIdx (sym_idx n i) | BEdge => SIdx (n - 1) | BWrap => SIdx (i mod n) | BConst v => SConst v end
  else SIdx i.

(* the same with the elementary one-period formulas (valid up to n positions beyond either boundary):
   mirror about the boundary face, clamp, shift by one period *)
Definition ext1_simple {K} (m0 m1 : bmode K) (n i : Z) : src K :=
  if i <? 0 then
    match m0 with BSym => SIdx (- 1 - i) | BEdge => SIdx 0 | BWrap => SIdx (i + n) | BConst v => SConst v end
  else if n <=? i then
    match m1 with BSym => SIdx (2 * n - 1 - i) | BEdge => SIdx (n - 1) | BWrap => SIdx (i - n) | BConst v => SConst v end
  else SIdx i.

(* modes for which the faithful sequence is the per-side rule also for pad sizes larger than the axis *)
Definition modes_compatible {K} (m0 m1 : bmode K) : bool :=
  match m0, m1 with
  | BSym, BSym => true
  | BSym, _ => false
  | BWrap, BSym => false
  | _, _ => true
  end.

(* the field x on the domain of c, extended in x, then y, then z (a constant on a later axis wins in corners) *)
Definition ext3 {K} `{Num K} (c : padcfg K) (x : list K) (a b d : Z) : K :=
  match ext1 (mz0 c) (mz1 c) (sz1 c) d with
  | SConst v => v
  | SIdx d' =>
    match ext1 (my0 c) (my1 c) (sy1 c) b with
    | SConst v => v
    | SIdx b' =>
      match ext1 (mx0 c) (mx1 c) (sx1 c) a with
      | SConst v => v
      | SIdx a' => zget x (elemnumber (pg c) a' b' d')
      end
    end
  end.

(* the ideal index array (0 where a constant is read) *)
Definition ext3_idx {K} (c : padcfg K) (a b d : Z) : Z :=
  match ext1 (mz0 c) (mz1 c) (sz1 c) d with
  | SConst _ => 0
  | SIdx d' =>
    match ext1 (my0 c) (my1 c) (sy1 c) b with
    | SConst _ => 0
    | SIdx b' =>
      match ext1 (mx0 c) (mx1 c) (sx1 c) a with
      | SConst _ => 0
      | SIdx a' => elemnumber (pg c) a' b' d'
      end
    end
  end.
