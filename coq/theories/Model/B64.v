(* RFC 4648 base64 on byte lists (bytes are Z in [0,256), text is a list of character codes) and the VTK block
   layout used by DomainDefinition.write_to_vti:
       enc_data = base64.b64encode(vec_to_write)
       enc_len  = base64.b64encode(struct.pack('<Q', len(enc_data)))
       file.write(enc_len); file.write(enc_data)
   Definitions only (lemmas: Proofs/B64P.v). *)
From Coq Require Import ZArith List Bool.
From Pymoto Require Import Base.Bytes.
Import ListNotations.
Open Scope Z_scope.

(* the alphabet "A-Za-z0-9+/" as arithmetic on codes (Example alphabet_ok in B64P.v ties it to the RFC table) *)
Definition enc_char (s : Z) : Z :=
  if s <? 26 then 65 + s
  else if s <? 52 then 71 + s
  else if s <? 62 then s - 4
  else if s =? 62 then 43 else 47.

Definition dec_char (c : Z) : option Z :=
  if (65 <=? c) && (c <=? 90) then Some (c - 65)
  else if (97 <=? c) && (c <=? 122) then Some (c - 71)
  else if (48 <=? c) && (c <=? 57) then Some (c + 4)
  else if c =? 43 then Some 62
  else if c =? 47 then Some 63
  else None.

Definition pad_char : Z := 61.  (* '=' *)

(* three bytes -> four sextets; the tail of one or two bytes is padded with '=' *)
Fixpoint b64_encode (bs : list Z) : str :=
  match bs with
  | [] => []
  | a :: t1 =>
    match t1 with
    | [] => [enc_char (a / 4); enc_char ((a mod 4) * 16); pad_char; pad_char]
    | b :: t2 =>
      match t2 with
      | [] => [enc_char (a / 4); enc_char ((a mod 4) * 16 + b / 16); enc_char ((b mod 16) * 4); pad_char]
      | c :: t =>
        enc_char (a / 4) :: enc_char ((a mod 4) * 16 + b / 16) :: enc_char ((b mod 16) * 4 + c / 64)
          :: enc_char (c mod 64) :: b64_encode t
      end
    end
  end.

(* strict decoder: groups of four characters, '=' only at the very end *)
Fixpoint b64_decode (s : str) : option (list Z) :=
  match s with
  | [] => Some []
  | c0 :: c1 :: c2 :: c3 :: t =>
    match dec_char c0, dec_char c1 with
    | Some s0, Some s1 =>
      if c2 =? pad_char then
        (if (c3 =? pad_char) then match t with [] => Some [s0 * 4 + s1 / 16] | _ => None end else None)
      else
        match dec_char c2 with
        | None => None
        | Some s2 =>
          if c3 =? pad_char then
            match t with [] => Some [s0 * 4 + s1 / 16; (s1 mod 16) * 16 + s2 / 4] | _ => None end
          else
            match dec_char c3, b64_decode t with
            | Some s3, Some r => Some (s0 * 4 + s1 / 16 :: (s1 mod 16) * 16 + s2 / 4 :: (s2 mod 4) * 64 + s3 :: r)
            | _, _ => None
            end
        end
    | _, _ => None
    end
  | _ => None
  end.

(* the UInt64 block header and the block *)
Definition le64 (v : Z) : list Z := le_bytes 8 v.
Definition vtk_block (raw : list Z) : str :=
  let enc_data := b64_encode raw in
  b64_encode (le64 (Z.of_nat (length enc_data))) ++ enc_data.

(* reading a block back: the header is 8 bytes = 12 base64 characters, the rest is the data *)
Definition vtk_block_header (blk : str) : option Z := option_map le_value (b64_decode (firstn 12 blk)).
Definition vtk_block_data (blk : str) : option (list Z) := b64_decode (skipn 12 blk).
