(* Executable mirror of Model/EigAdj.v over the dyadic Gaussian rationals (Base/QMat.v: DyC = pairs of m * 2^e; matrices = lists of rows), used
   ONLY to evaluate (vm_compute) the premises and the conclusion of the theorems of Props/C01d.v on the data returned by
   the implementation (tools/checks/C01_eig.py): every float64 / complex128 is an exact (Gaussian) rational.
   The definitions follow Model/EigAdj.v line by line (x_<name> mirrors <name>); the link between the two is by reading
   (same formulas under another interpretation), not proved.  Definitions only. *)
From Coq Require Import ZArith QArith Qabs List Bool.
From Pymoto Require Import Base.Num Base.QMat.
Import ListNotations.

(* scalars: pairs of dyadic numbers m * 2^e (Base/QMat.v: Dy, DyC); + - * are exact and need no gcd *)
Definition C : Type := DyC.
Definition c0 : C := (dy0, dy0).
Definition cone : C := ((1, 0)%Z, dy0).
Definition chalf : C := ((1, -1)%Z, dy0).
Definition cadd : C -> C -> C := dc_add.
Definition csub : C -> C -> C := dc_sub.
Definition cmul : C -> C -> C := dc_mul.
Definition copp : C -> C := dc_opp.
Definition ceqb (a b : C) : bool := dy_eqb (fst a) (fst b) && dy_eqb (snd a) (snd b).
(* |Re (a - b)| <= tol and |Im (a - b)| <= tol, tol a rational *)
Definition cclose (tol : Q) (a b : C) : bool :=
  dy_le_Q (dy_abs (dy_sub (fst a) (fst b))) tol && dy_le_Q (dy_abs (dy_sub (snd a) (snd b))) tol.

Definition cvec := list C.
Definition cmat := list (list C).   (* list of rows *)
Definition cdot (a b : cvec) : C := fold_right cadd c0 (map (fun p => cmul (fst p) (snd p)) (combine a b)).
Fixpoint transpose_rows (m : cmat) (ncols : nat) : cmat :=
  match ncols with
  | O => []
  | S k => map (fun r => hd c0 r) m :: transpose_rows (map (fun r => tl r) m) k
  end.
Definition ncols (m : cmat) : nat := match m with [] => O | r :: _ => length r end.
Definition mtrans (m : cmat) : cmat := transpose_rows m (ncols m).
Fixpoint list_all2 {A} (f : A -> A -> bool) (a b : list A) : bool :=
  match a, b with
  | [], [] => true
  | x :: a', y :: b' => f x y && list_all2 f a' b'
  | _, _ => false
  end.
Definition meqb (a b : cmat) : bool := list_all2 (list_all2 ceqb) a b.
Definition mclose (tol : Q) (a b : cmat) : bool := list_all2 (list_all2 (cclose tol)) a b.
Definition msub (a b : cmat) : cmat :=
  map (fun p => map (fun q => csub (fst q) (snd q)) (combine (fst p) (snd p))) (combine a b).

Definition cvadd (a b : cvec) : cvec := map (fun p => cadd (fst p) (snd p)) (combine a b).
Definition cvsub (a b : cvec) : cvec := map (fun p => csub (fst p) (snd p)) (combine a b).
Definition cvscale (c : C) (a : cvec) : cvec := map (cmul c) a.
Definition cvopp (a : cvec) : cvec := map copp a.
Definition cvzero (n : nat) : cvec := repeat c0 n.
Definition cmv (M : cmat) (x : cvec) : cvec := map (fun r => cdot r x) M.
Definition couter (u v : cvec) : cmat := map (fun a => map (fun b => cmul a b) v) u.
Definition cmadd (a b : cmat) : cmat := map (fun p => cvadd (fst p) (snd p)) (combine a b).
Definition cmscale (c : C) (a : cmat) : cmat := map (cvscale c) a.
Definition cmopp (a : cmat) : cmat := map cvopp a.
Definition cmzero (n : nat) : cmat := repeat (cvzero n) n.
Definition cmsum (n : nat) (l : list cmat) : cmat := fold_left cmadd l (cmzero n).
Definition csum (l : list C) : C := fold_right cadd c0 l.
(* <G, D> = sum_ij G_ij D_ij (no conjugation) *)
Definition cfrob (G D : cmat) : C := csum (map (fun p => cdot (fst p) (snd p)) (combine G D)).
Definition cvclose (tol : Q) (a b : cvec) : bool := list_all2 (cclose tol) a b.

(* ---- the eigenproblem and its linearisation (residuals: zero means the equation holds) ---- *)
Definition x_pencil (A B : cmat) (w : C) : cmat := msub A (cmscale w B).
Definition x_eig_res (A B : cmat) (w : C) (q : cvec) : cvec := cvsub (cmv A q) (cvscale w (cmv B q)).
Definition x_norm (B : cmat) (q : cvec) : C := cdot q (cmv B q).
Definition x_lin_eig (A B : cmat) (w : C) (q : cvec) (dA dB : cmat) (dw : C) (dq : cvec) : cvec :=
  cvadd (cmv (x_pencil A B w) dq) (cmv (msub (msub dA (cmscale dw B)) (cmscale w dB)) q).
Definition x_lin_norm (B : cmat) (q : cvec) (dB : cmat) (dq : cvec) : C :=
  cadd (cdot q (cmv (cmadd B (mtrans B)) dq)) (cdot q (cmv dB q)).

(* ---- _dense_sens ---- *)
Definition x_symhalf (B : cmat) : cmat := cmscale chalf (cmadd B (mtrans B)).
(* the two block rows of  P [nu; alpha]  *)
Definition x_dense_row1 (A B : cmat) (w : C) (q nu : cvec) (alpha : C) : cvec :=
  cvsub (cmv (mtrans (x_pencil A B w)) nu) (cvscale alpha (cmv (x_symhalf B) q)).
Definition x_dense_row2 (B : cmat) (q nu : cvec) : C := copp (cdot (cmv B q) nu).
Definition x_dense_gA (nu q : cvec) : cmat := couter (cvopp nu) q.
Definition x_dense_gB (w : C) (nu : cvec) (alpha : C) (q : cvec) : cmat :=
  couter (cvadd (cvscale w nu) (cvscale (cmul alpha chalf) q)) q.

(* ---- _sparse_eigvec_sens / _sparse_eigval_sens ---- *)
Definition x_sp_alpha (phi dphi : cvec) : C := copp (cdot phi dphi).
Definition x_sp_r (B : cmat) (phi dphi : cvec) : cvec := cvadd dphi (cvscale (x_sp_alpha phi dphi) (cmv (mtrans B) phi)).
(* vp @ B @ phi *)
Definition x_sp_c (B : cmat) (phi vp : cvec) : C := copp (cdot (cmv (mtrans B) vp) phi).
Definition x_sp_v (B : cmat) (phi vp : cvec) : cvec := cvadd vp (cvscale (x_sp_c B phi vp) phi).
Definition x_sp_gA (B : cmat) (phi vp : cvec) : cmat := cmopp (couter (x_sp_v B phi vp) phi).
Definition x_sp_gB (B : cmat) (lam : C) (phi dphi vp : cvec) : cmat :=
  couter (cvadd (cvscale (cmul (x_sp_alpha phi dphi) chalf) phi) (cvscale lam (x_sp_v B phi vp))) phi.
(* division by qmq: the harness supplies iq with iq * qmq = 1 (checked to 1e-24) *)
Definition x_qmq (B : cmat) (q : cvec) : C := cdot q (cmv B q).
Definition x_ev_gA (iq : C) (q : cvec) (ww : C) : cmat := couter (cvscale (cmul ww iq) q) q.
Definition x_ev_gB (iq : C) (w : C) (q : cvec) (ww : C) : cmat := cmopp (couter (cvscale (cmul (cmul w ww) iq) q) q).

(* ---- one seeded mode of a case: data of the mode, the harness' witnesses and the exact tangent ---- *)
Record mode := { m_w : C; m_q : cvec; m_wq : cvec; m_ww : C;
                 m_wit : cvec;     (* dense: nu;  sparse: vp *)
                 m_al : C;         (* dense: alpha;  sparse: 1 / qmq *)
                 m_dw : C; m_dq : cvec }.

Definition seed_pairing (ms : list mode) : C :=
  csum (map (fun m => cadd (cdot (m_wq m) (m_dq m)) (cmul (m_ww m) (m_dw m))) ms).
(* residuals of the linearised equations for the tangent of a mode *)
Definition m_e1 (A B dA dB : cmat) (m : mode) : cvec := x_lin_eig A B (m_w m) (m_q m) dA dB (m_dw m) (m_dq m).
Definition m_e2 (B dB : cmat) (m : mode) : C := x_lin_norm B (m_q m) dB (m_dq m).
Definition tangent_ok (tolS : Q) (n : nat) (A B dA dB : cmat) (m : mode) : bool :=
  cvclose tolS (m_e1 A B dA dB m) (cvzero n) && cclose tolS (m_e2 B dB m) c0.

(* _dense_sens on the seeded modes ms (the skipped ones are left out by the harness; their seeds are 0).  All data are
   dyadic rationals (floats; witnesses and tangents = exact solutions rounded to 128 bits), so every operation below is exact
   and cheap.  (1) the witnesses solve the bordered systems (tolS = 1e-24 relative), (2)(3) the returned gA, gB are the
   model's (1e-9), (4) the tangent satisfies the linearised equations (tolS), (5) EXACT instance of C01_eig_dense_adjoint_residual
   on this data: with the seeds P [nu; alpha] of the witnesses and the residuals e1, e2 of the tangent,
   sum (row1 . dq + row2 dw) = <gA_model, dA> + <gB_model, dB> + sum (nu . e1 - alpha/2 e2),
   (6) the adjoint identity for the RETURNED matrices and the real seeds (1e-9) *)
Definition dense_model_gA (n : nat) (ms : list mode) : cmat := cmsum n (map (fun m => x_dense_gA (m_wit m) (m_q m)) ms).
Definition dense_model_gB (n : nat) (ms : list mode) : cmat :=
  cmsum n (map (fun m => x_dense_gB (m_w m) (m_wit m) (m_al m) (m_q m)) ms).
Definition dense_check_parts (n : nat) (hasB : bool) (A B dA dB gA gB : cmat) (ms : list mode) (tolS tolA tolB tolI : Q) : list bool :=
  let mA := dense_model_gA n ms in
  let mB := dense_model_gB n ms in
  let row1 := fun m => x_dense_row1 A B (m_w m) (m_q m) (m_wit m) (m_al m) in
  let row2 := fun m => x_dense_row2 B (m_q m) (m_wit m) in
  [ forallb (fun m => cvclose tolS (row1 m) (m_wq m) && cclose tolS (row2 m) (m_ww m)) ms;
    mclose tolA mA gA;
    (if hasB then mclose tolB mB gB else true);
    forallb (tangent_ok tolS n A B dA dB) ms;
    ceqb (csum (map (fun m => cadd (cdot (row1 m) (m_dq m)) (cmul (row2 m) (m_dw m))) ms))
         (cadd (cadd (cfrob mA dA) (cfrob mB dB))
               (csum (map (fun m => csub (cdot (m_wit m) (m_e1 A B dA dB m)) (cmul (cmul (m_al m) chalf) (m_e2 B dB m))) ms)));
    cclose tolI (seed_pairing ms) (cadd (cfrob gA dA) (if hasB then cfrob gB dB else c0)) ].
Definition dense_check n hasB A B dA dB gA gB ms tolS tolA tolB tolI : bool :=
  forallb (fun b => b) (dense_check_parts n hasB A B dA dB gA gB ms tolS tolA tolB tolI).

(* _sparse_eigvec_sens (+ _sparse_eigval_sens), symmetric pencil.  evs: modes with an eigenvalue seed, vcs: modes with an
   eigenvector seed (m_ww is 0 there; a mode seeded both ways appears in both lists with the seeds split).
   (0) A, B symmetric EXACTLY, eigenpairs / normalisation within tolE (they are float results),
   (1) vp solves the (numerically singular) transposed system, iq * qmq = 1 (tolS),
   (2)(3) returned gA, gB == model (1e-9), (4) tangent (tolS), (5)/(6) identity for the model / returned matrices (1e-9;
   the theorem needs the exact eigenpair, the float one has a residual of 1e-16) *)
Definition sparse_model_gA (n : nat) (B : cmat) (evs vcs : list mode) : cmat :=
  cmadd (cmsum n (map (fun m => x_ev_gA (m_al m) (m_q m) (m_ww m)) evs))
        (cmsum n (map (fun m => x_sp_gA B (m_q m) (m_wit m)) vcs)).
Definition sparse_model_gB (n : nat) (B : cmat) (evs vcs : list mode) : cmat :=
  cmadd (cmsum n (map (fun m => x_ev_gB (m_al m) (m_w m) (m_q m) (m_ww m)) evs))
        (cmsum n (map (fun m => x_sp_gB B (m_w m) (m_q m) (m_wq m) (m_wit m)) vcs)).
Definition sparse_check_parts (n : nat) (hasB : bool) (A B dA dB gA gB : cmat) (evs vcs : list mode)
    (tolE tolS tolA tolB tolI : Q) : list bool :=
  let mA := sparse_model_gA n B evs vcs in
  let mB := sparse_model_gB n B evs vcs in
  let lhs := cadd (seed_pairing evs) (seed_pairing vcs) in
  [ meqb (mtrans A) A && meqb (mtrans B) B
    && forallb (fun m => cvclose tolE (x_eig_res A B (m_w m) (m_q m)) (cvzero n) && cclose tolE (x_norm B (m_q m)) cone) (evs ++ vcs);
    forallb (fun m => cvclose tolS (cmv (mtrans (x_pencil A B (m_w m))) (m_wit m)) (x_sp_r B (m_q m) (m_wq m))) vcs
    && forallb (fun m => cclose tolS (cmul (m_al m) (x_qmq B (m_q m))) cone) evs;
    mclose tolA mA gA;
    (if hasB then mclose tolB mB gB else true);
    forallb (tangent_ok tolS n A B dA dB) (evs ++ vcs);
    cclose tolI lhs (cadd (cfrob mA dA) (cfrob mB dB));
    cclose tolI lhs (cadd (cfrob gA dA) (if hasB then cfrob gB dB else c0)) ].
Definition sparse_check n hasB A B dA dB gA gB evs vcs tolE tolS tolA tolB tolI : bool :=
  forallb (fun b => b) (sparse_check_parts n hasB A B dA dB gA gB evs vcs tolE tolS tolA tolB tolI).

(* model == implementation as a RELATION, for any (also non-symmetric) sparse pencil, one eigenvector-seeded mode:
   the returned gA is - v phi^T for a v with  (A - lam B)^T v = r + c (A - lam B)^T phi  and  v . B phi = c (1 - phi . B phi) ~ 0,
   i.e. v = vp + c phi for a solution vp of the TRANSPOSED system (the harness supplies v and c) *)
Definition sparse_relation_parts (A B gA : cmat) (lam : C) (phi dphi v : cvec) (c : C) (tolV tolA : Q) : list bool :=
  let Zt := mtrans (x_pencil A B lam) in
  [ mclose tolA (cmopp (couter v phi)) gA;
    cvclose tolV (cmv Zt v) (cvadd (x_sp_r B phi dphi) (cvscale c (cmv Zt phi)));
    cclose tolV (cdot (cmv (mtrans B) v) phi) c0 ].
Definition sparse_relation A B gA lam phi dphi v c tolV tolA : bool :=
  forallb (fun b => b) (sparse_relation_parts A B gA lam phi dphi v c tolV tolA).
