(* Model of DomainDefinition.eval_shape_fun / eval_shape_fun_der, generic over a numeric type. *)
From Coq Require Import ZArith List.
From Pymoto Require Import Base.Num Model.Grid.
Import ListNotations.

Section Shape.
  Context {K : Type} `{Num K}.
  Local Open Scope num_scope.

  Definition two : K := none_ + none_.
  Definition nth3 (v : list K) (i : nat) : K := nth i v nzero.
  Definition sgn3 (n : Z * Z * Z) (i : nat) : K :=
    match n with (a, b, c) => nofZ (match i with O => a | S O => b | _ => c end) end.

  (* factor d of node n:  element_size[d]/2 + n[d]*pos[d] *)
  Definition fac (h pos : list K) (n : Z * Z * Z) (d : nat) : K :=
    nth3 h d / two + sgn3 n d * nth3 pos d.

  (* v = prod(element_size[:dim]) *)
  Definition vol (d : nat) (h : list K) : K := nprod (firstn d h).

  (* shapefn = ones/v ; for i in range(dim): shapefn *= [h_i/2 + n_i*pos_i for n in node_numbering] *)
  Definition shape_one (d : nat) (h pos : list K) (n : Z * Z * Z) : K :=
    fold_left (fun acc i => acc * fac h pos n i) (seq 0 d) (none_ / vol d h).
  Definition shape_fun (d : nat) (h pos : list K) : list K :=
    map (shape_one d h pos) (node_numbering (Z.of_nat d)).

  (* dN_dx[i,:] = ones/v ; for j != i: *= fac j ; then *= n[i] *)
  Definition dshape_one (d : nat) (h pos : list K) (i : nat) (n : Z * Z * Z) : K :=
    fold_left (fun acc j => if Nat.eqb i j then acc else acc * fac h pos n j) (seq 0 d) (none_ / vol d h)
    * sgn3 n i.
  Definition shape_der (d : nat) (h pos : list K) : list (list K) :=
    map (fun i => map (dshape_one d h pos i) (node_numbering (Z.of_nat d))) (seq 0 d).

  (* get_node_position: element_size[:dim] * ijk *)
  Definition node_position (g : grid) (h : list K) (n : Z) : list K :=
    map (fun q => fst q * nofZ (snd q)) (combine h (node_indices g n)).
End Shape.
