(* Model of pymoto.AggActiveSet (pymoto/modules/aggregation.py), definitions only.

   The model is written once over an abstract "float-like" signature FOps K (the operations the code
   performs on numbers: - * /, the comparisons, int -> float conversion and int() truncation).
   It is instantiated with
     * PrimFloat (binary64, bit-exact with CPython/numpy): the instance that is EXECUTED in the
       correspondence check -- the counts int(n*lower_amt), int(n*(1-upper_amt)) and the value tests
       are float computations and are reproduced bit for bit;
     * R (Proofs/ActiveSetP.v): the instance the "clean" real-number statements are about.
   The structural theorems (band, zero count, removed entries are extremes) are proved for EVERY
   instance, hence also for the executed one.

   np.argsort is not re-implemented as one particular algorithm: the model takes the permutation as an
   argument (any sorting permutation; numpy's quicksort is not stable, so the position among equal
   values is unspecified).  The harness supplies numpy's permutation and `sorting_perm_b` checks inside
   Coq that it is a sorting permutation of x ("checked oracle"); `isort_model` is a concrete stable
   argsort (insertion sort) showing that the hypothesis is satisfiable for every x. *)
From Coq Require Import ZArith List Bool.
Import ListNotations.

Record FOps (K : Type) := mkFOps {
  f0 : K; f1 : K;
  fsub : K -> K -> K; fmul : K -> K -> K; fdiv : K -> K -> K;
  fleb : K -> K -> bool;          (* a <= b *)
  fltb : K -> K -> bool;          (* a <  b *)
  feqb : K -> K -> bool;          (* a == b *)
  fofZ : Z -> K;                  (* int -> float conversion of  x.size * <float>  *)
  ftrunc : K -> Z                 (* int(<float>): truncation towards zero *)
}.
Arguments f0 {K}. Arguments f1 {K}. Arguments fsub {K}. Arguments fmul {K}. Arguments fdiv {K}.
Arguments fleb {K}. Arguments fltb {K}. Arguments feqb {K}. Arguments fofZ {K}. Arguments ftrunc {K}.

(* ---- Python slice semantics on lists (step 1):  l[:stop]  and  l[start:]  for any integer *)
Definition py_norm (len i : Z) : Z := if (i <? 0)%Z then Z.max (len + i) 0 else Z.min i len.
Definition slice_to {A} (l : list A) (stop : Z) : list A :=
  firstn (Z.to_nat (py_norm (Z.of_nat (length l)) stop)) l.
Definition slice_from {A} (l : list A) (start : Z) : list A :=
  skipn (Z.to_nat (py_norm (Z.of_nat (length l)) start)) l.

(* sel[idx] = False  (fancy-index assignment of a scalar; idx entries are valid indices) *)
Definition mem_nat (i : nat) (l : list nat) : bool := existsb (Nat.eqb i) l.
Definition clear_idx (idx : list nat) (sel : list bool) : list bool :=
  map (fun q => if mem_nat (fst q) idx then false else snd q) (combine (seq 0 (length sel)) sel).

Definition and_mask (a b : list bool) : list bool := map (fun q => andb (fst q) (snd q)) (combine a b).

Inductive as_result := AS_AssertionError | AS_ValueError | AS_BadOracle | AS_All | AS_Mask (m : list bool).

Section ActiveSet.
  Context {K : Type} (O : FOps K).
  Local Notation F0 := (f0 O).
  Local Notation F1 := (f1 O).

  Record as_cfg := mkCfg { lower_rel : K; upper_rel : K; lower_amt : K; upper_amt : K }.

  (* __init__: assert upper_rel > lower_rel; assert upper_amt > lower_amt *)
  Definition as_init_ok (c : as_cfg) : bool :=
    fltb O (lower_rel c) (upper_rel c) && fltb O (lower_amt c) (upper_amt c).

  (* np.min / np.max of a non-empty array (value semantics) *)
  Definition vmin (h : K) (t : list K) : K := fold_left (fun m v => if fltb O v m then v else m) t h.
  Definition vmax (h : K) (t : list K) : K := fold_left (fun m v => if fltb O m v then v else m) t h.

  (* xrel = (x - xmin) / (xmax - xmin) *)
  Definition xrel_of (xmin xmax v : K) : K := fdiv O (fsub O v xmin) (fsub O xmax xmin).

  (* n_lower_amt = int(x.size * self.lower_amt);  n_upper_amt = int(x.size * (1 - self.upper_amt)) *)
  Definition n_lower (c : as_cfg) (n : Z) : Z := ftrunc O (fmul O (fofZ O n) (lower_amt c)).
  Definition n_upper (c : as_cfg) (n : Z) : Z := ftrunc O (fmul O (fofZ O n) (fsub O F1 (upper_amt c))).

  (* the index lists that are set to False by the two count clauses (empty when the clause is skipped) *)
  Definition removed_lo (c : as_cfg) (isort : list nat) (n : Z) : list nat :=
    if fltb O F0 (lower_amt c) then slice_to isort (n_lower c n) else [].
  Definition removed_hi (c : as_cfg) (isort : list nat) (n : Z) : list nat :=
    if fltb O (upper_amt c) F1
    then (if (0 <? n_upper c n)%Z then slice_from isort (- n_upper c n) else [])   (* repaired code: guard *)
    else [].
  (* the code before fix b753644 (finding F01): no guard, i_sort[-0:] is the whole array *)
  Definition removed_hi_unguarded (c : as_cfg) (isort : list nat) (n : Z) : list nat :=
    if fltb O (upper_amt c) F1 then slice_from isort (- n_upper c n) else [].

  Definition value_mask (c : as_cfg) (xmin xmax : K) (x : list K) : list bool :=
    let sel0 := map (fun _ => true) x in
    let xrel := map (xrel_of xmin xmax) x in
    let sel1 := if fltb O F0 (lower_rel c) then and_mask sel0 (map (fun r => fleb O (lower_rel c) r) xrel) else sel0 in
    if fltb O (upper_rel c) F1 then and_mask sel1 (map (fun r => fleb O r (upper_rel c)) xrel) else sel1.

  (* AggActiveSet.__call__ *)
  Definition active_set_gen (rem_hi : as_cfg -> list nat -> Z -> list nat)
             (c : as_cfg) (isort : list nat) (x : list K) : as_result :=
    match x with
    | [] => AS_ValueError                                   (* np.min of an empty array raises *)
    | h :: t =>
      let xmin := vmin h t in
      let xmax := vmax h t in
      if feqb O (fsub O xmax xmin) F0 then AS_All            (* return Ellipsis *)
      else
        let n := Z.of_nat (length x) in
        let sel2 := value_mask c xmin xmax x in
        let sel3 := clear_idx (removed_lo c isort n) sel2 in
        AS_Mask (clear_idx (rem_hi c isort n) sel3)
    end.
  Definition active_set := active_set_gen removed_hi.
  Definition active_set_unguarded := active_set_gen removed_hi_unguarded.

  (* constructor + call, as driven through the public API *)
  Definition active_set_api (c : as_cfg) (isort : list nat) (x : list K) : as_result :=
    if as_init_ok c then active_set c isort x else AS_AssertionError.

  (* ---- argsort as a checked oracle *)
  Definition nthK (x : list K) (i : nat) : K := nth i x F0.
  Fixpoint sorted_b (x : list K) (p : list nat) : bool :=
    match p with
    | a :: ((b :: _) as t) => fleb O (nthK x a) (nthK x b) && sorted_b x t
    | _ => true
    end.
  Definition perm_b (n : nat) (p : list nat) : bool :=
    Nat.eqb (length p) n && forallb (fun i => mem_nat i p) (seq 0 n).
  Definition sorting_perm_b (x : list K) (p : list nat) : bool := perm_b (length x) p && sorted_b x p.

  Definition active_set_checked (c : as_cfg) (isort : list nat) (x : list K) : as_result :=
    if sorting_perm_b x isort then active_set_api c isort x else AS_BadOracle.

  (* a concrete stable argsort (insertion sort on indices) *)
  Fixpoint ins_idx (x : list K) (i : nat) (p : list nat) : list nat :=
    match p with
    | [] => [i]
    | j :: t => if fltb O (nthK x i) (nthK x j) then i :: p else j :: ins_idx x i t
    end.
  Definition isort_model (x : list K) : list nat := fold_left (fun p i => ins_idx x i p) (seq 0 (length x)) [].

  (* x[select] *)
  Definition select_mask (m : list bool) (x : list K) : list K :=
    map snd (filter (fun q => fst q) (combine m x)).
  Definition apply_select (r : as_result) (x : list K) : list K :=
    match r with AS_Mask m => select_mask m x | _ => x end.
  (* values removed (for comparing masks as multisets when there are ties) *)
  Definition removed_values (m : list bool) (x : list K) : list K :=
    map snd (filter (fun q => negb (fst q)) (combine m x)).
  Definition sort_values (v : list K) : list K := map (nthK v) (isort_model v).
End ActiveSet.

Arguments lower_rel {K}. Arguments upper_rel {K}. Arguments lower_amt {K}. Arguments upper_amt {K}.
Arguments mkCfg {K}.

(* ---- the executed instance: IEEE binary64 *)
From Coq Require Import PrimFloat.
From Pymoto Require Import Base.PyFloat.
Definition FloatOps : FOps float :=
  {| f0 := PrimFloat.zero; f1 := PrimFloat.one;
     fsub := PrimFloat.sub; fmul := PrimFloat.mul; fdiv := PrimFloat.div;
     fleb := PrimFloat.leb; fltb := PrimFloat.ltb; feqb := PrimFloat.eqb;
     fofZ := float_of_Z; ftrunc := float_trunc |}.

Definition result_eqb (a b : as_result) : bool :=
  match a, b with
  | AS_AssertionError, AS_AssertionError | AS_ValueError, AS_ValueError | AS_All, AS_All => true
  | AS_Mask m, AS_Mask m' => Nat.eqb (length m) (length m') && forallb (fun q => Bool.eqb (fst q) (snd q)) (combine m m')
  | _, _ => false
  end.
