(* The file system as far as ScalarToFile / WriteToVTI (pymoto/modules/io.py) and write_to_vti see it: a finite map
   from path names (normalised, relative to the working directory, "/" separated) to the bytes of the regular file of
   that name.  Directories are implicit; the only thing that matters about them is that a directory prefix of a path
   must not be a regular file.  The Python calls that are modelled:
     open(name, "w") / "w+" / "wb" + writes   fs_open_w   (creates or TRUNCATES, then the writes)
     open(name, "a+") + writes                fs_open_a   (creates if missing, writes go to the end)
     os.remove(name)                          fs_remove   (only used for changes made by the environment)
     Path(p).parent.mkdir(parents=True, exist_ok=True)    mkdir_parents
   Definitions only (lemmas: Proofs/FsP.v). *)
From Coq Require Import ZArith List Bool.
From Pymoto Require Import Base.Cmp Base.Bytes.
Import ListNotations.
Open Scope Z_scope.

(* d[k] = v on an insertion-ordered dictionary: a present key keeps its position *)
Fixpoint dict_set {A} (d : list (str * A)) (k : str) (v : A) : list (str * A) :=
  match d with
  | [] => [(k, v)]
  | (k', v') :: t => if Zl_eqb k' k then (k', v) :: t else (k', v') :: dict_set t k v
  end.

Definition fsys := list (str * str).

Fixpoint fs_read (fs : fsys) (name : str) : option str :=
  match fs with
  | [] => None
  | (n, b) :: t => if Zl_eqb n name then Some b else fs_read t name
  end.

Definition fs_open_w (fs : fsys) (name bytes : str) : fsys := dict_set fs name bytes.
Definition fs_open_a (fs : fsys) (name bytes : str) : fsys :=
  dict_set fs name (match fs_read fs name with Some old => old ++ bytes | None => bytes end).
Definition fs_remove (fs : fsys) (name : str) : fsys := filter (fun nb => negb (Zl_eqb (fst nb) name)) fs.

(* the proper directory prefixes of a path: "a/b/c.txt" -> ["a"; "a/b"]  (pre: what was read so far, reversed) *)
Fixpoint dir_prefixes_from (pre s : str) : list str :=
  match s with
  | [] => []
  | c :: t => if c =? 47 then rev pre :: dir_prefixes_from (c :: pre) t else dir_prefixes_from (c :: pre) t
  end.
Definition dir_prefixes (p : str) : list str := dir_prefixes_from [] p.

(* Path(p).parent.mkdir(parents=True, exist_ok=True): FileExistsError / NotADirectoryError (both OSError, class
   "other" for the harness) when a directory prefix of p is a regular file; nothing observable otherwise *)
Definition mkdir_parents (fs : fsys) (p : str) : res unit :=
  if existsb (fun d => match fs_read fs d with Some _ => true | None => false end) (dir_prefixes p)
  then Err OtherError else Ok tt.

(* two file systems hold the same files (used by the generated case files; names in `b` are distinct) *)
Definition fs_eqb (a b : fsys) : bool :=
  Nat.eqb (length a) (length b)
  && forallb (fun nb => option_eqb Zl_eqb (fs_read b (fst nb)) (Some (snd nb))) a
  && forallb (fun nb => option_eqb Zl_eqb (fs_read a (fst nb)) (Some (snd nb))) b.
