(* Algebraic model of the _response methods of pymoto/modules/linalg.py:
   LinSolve, Inverse, SystemOfEquations, StaticCondensation — terms of a star ring with selectors.
   Definitions only.

   Reading (T-alg, see tools/gen_C07.py which regenerates the SystemOfEquations / StaticCondensation terms):
     index sets f, p (free / prescribed) or m, f (main / free) are idempotent selectors D_f, D_p, D_m:
       A[f, :][:, p]                 D_f * A * D_p          (a block, embedded in the full-size ring)
       x = zeros; x[p] = xp          Xp  with  D_p * Xp = Xp   (the prescribed values, embedded)
       b = zeros; b[f] = bf          Bf  with  D_f * Bf = Bf
       M @ v                         product
     the inner LinSolve module (class detection + auto_determine_solver + optional LDAWrapper + solver.solve) is a
     solver for the block system, i.e. a function `solve_ff` with the C05/C06 contract on the f-corner
     (ff_solver_ok). *)
From mathcomp Require Import all_ssreflect all_algebra.
From Pymoto Require Import Base.StarRing.
Set Implicit Arguments.
Unset Strict Implicit.
Unset Printing Implicit Defensive.
Local Open Scope ring_scope.

Section LinMods.
Variable M : ringType.
Variables tr cj : M -> M.

(* ---- LinSolve._response:  self.u = self.solver.solve(rhs, x0=self.u)   (trans = 'N') *)
Definition linsolve (solve : trans -> M -> M) (b : M) : M := solve tN b.
(* LinSolve._sensitivity uses  self.solver.solve(dfdv, trans='T') *)
Definition linsolve_adjoint (solve : trans -> M -> M) (g : M) : M := solve tT g.

(* the C05 contract of whatever solver object LinSolve ends up with (auto-determined or overridden,
   wrapped in LDAWrapper or not): it solves every requested system of the CURRENT matrix *)
Definition solver_ok (solve : trans -> M -> M) (A : M) : Prop :=
  forall t b, op tr cj t A * solve t b = b.

(* ---- Inverse._response: np.linalg.inv(A) *)
Definition inverse (inv : M -> M) (A : M) : M := inv A.

(* ---- SystemOfEquations._response *)
Section SoE.
Variables Df Dp : M.
Variable solve_ff : M -> M.          (* inner LinSolve on Aff *)
Variables A Bf Xp : M.

Definition soe_Aff := Df * A * Df.
Definition soe_Afp := Df * A * Dp.
Definition soe_Apf := Dp * A * Df.
Definition soe_App := Dp * A * Dp.
Definition soe_xf : M := solve_ff (Bf - soe_Afp * Xp).
Definition soe_x : M := Xp + soe_xf.
Definition soe_b : M := Bf + (soe_Apf * soe_xf + soe_App * Xp).

(* contract of the inner solve on the f-corner: the answer lives on f and solves the block system *)
Definition ff_solver_ok : Prop :=
  forall r, Df * r = r -> Df * solve_ff r = solve_ff r /\ soe_Aff * solve_ff r = r.
End SoE.

(* ---- StaticCondensation._response *)
Section Schur.
Variables Dm Df : M.
Variable solve_ff : M -> M.          (* inner LinSolve on A_ff with the block right-hand side A_fm *)
Variable A : M.
Definition sc_X : M := solve_ff (Df * A * Dm).
Definition sc_Ared : M := Dm * A * Dm - Dm * A * Df * sc_X.
End Schur.

End LinMods.
