(* Construction histories for C03: the network a history runs on may still be under construction.
   Definitions only.

   Model/Hist.v runs a history on the FINAL flat module list (Network.response / sensitivity / reset of nested
   networks iterate the member tree; their effect is that of the flat list in depth-first order: Model/NetBuild.v,
   C02).  In /repo a Network can be extended after it was placed in an outer network and after the outer network
   was evaluated: outer = Network(...); outer.append(inner); outer.response(); ...; inner.append(m); ...
   At every moment the outer network reaches a SUBSET of the final modules (those attached, directly or through
   attached inner networks); because members are appended at the end of a member list, the depth-first order of
   the reached modules is the final order restricted to that subset.  A module that is not reached yet takes no
   part in response(), sensitivity() and reset(): it is replaced by `absent_h` AT ITS POSITION, so the memories
   (s_mem is positional) stay aligned. *)
From Coq Require Import List Bool.
From Pymoto Require Import Base.Num Model.Net Model.Hist.
Import ListNotations.

Section HistBuild.
  Context {K : Type} `{NK : Num K}.
  Context {M : Type}.

  (* a module that is not (yet) reachable from the outer network: no signals, memory untouched *)
  Definition absent_h : @hmod K M :=
    {| h_ins := []; h_outs := []; h_resp := fun mu _ => (mu, []); h_sens := fun _ _ _ _ => [] |}.

  (* the module list the outer network reaches; a missing mask entry means "reached" *)
  Fixpoint visible (vis : list bool) (mods : list (@hmod K M)) : list (@hmod K M) :=
    match vis, mods with
    | b :: vis', h :: mods' => (if b then h else absent_h) :: visible vis' mods'
    | _, _ => mods
    end.

  (* a construction history: segments (modules reached during the segment, ops applied to the outer network) *)
  Definition run_built (keep : nat -> bool) (mods : list (@hmod K M)) (segs : list (list bool * list (@op K)))
             (x : @nst K M) : @nst K M :=
    fold_left (fun x sg => run keep (visible (fst sg) mods) (snd sg) x) segs x.

  Definition all_true (l : list bool) : bool := forallb (fun b => b) l.
End HistBuild.
