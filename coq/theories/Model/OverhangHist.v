(* Model of OverhangFilter INSTANCES AS OBJECTS WITH MEMORY, driven through call histories
   (pymoto/modules/filter.py : OverhangFilter._prepare / set_parameters / _response / _sensitivity, and the
   Module.response / sensitivity / reset wrappers of pymoto/core_objects.py).  Hand-written, executable.
   Definitions only, no proofs in this file.

   One process holds
     * ONE DomainDefinition (the grid g: never written by the filter),
     * input Signals  s = 0, 1, ...   (the contents of the array each of them holds at the moment),
     * filter instances j = 0, 1, ... each built by _prepare with its own direction / nsampling / parameters and
       connected to one of the input signals (c_src); two instances may read the SAME signal.
   What an instance keeps between calls is exactly what the methods write on `self` (the frame, tied to the source by
   tools/gen_C14.py + coq/bridge/C14/OverhangBridge.v through the attribute lists below):
       _prepare        direction domain xi_0 p eps nsampling  q shift backshift (None)  smax (None)
       set_parameters  q shift backshift            (first _response only: `if self.q is None`)
       _response       smax                         (`self.smax = x.copy()`, then `self.smax[els] = max_supp` per layer)
       _sensitivity    nothing                      (it works on `dxprint.copy()` and `np.zeros_like(dxprint)`)
   and the state of its output signal.  `xprint = x.copy()` / `self.smax = x.copy()`: neither the result nor the memory
   is a view of the caller's array, so the model is value-semantic: `SetSig` (sx.state = <fresh array>) and `WriteAll`
   (sx.state[:] = ..., in place) are the same transition here; the correspondence check drives them differently.  *)
From Coq Require Import ZArith QArith List Bool String.
From Pymoto Require Import Model.Grid Model.Overhang.
Import ListNotations.
Open Scope Z_scope.

(* ------------------------------------------------------------------------------------------------ *)
(* the frame: attributes of `self` written / mentioned by each method (first-occurrence order)        *)
Open Scope string_scope.
(* the methods of the class; it has no class-level attributes (nothing shared between instances) *)
Definition filter_methods : list string := ["_prepare"; "set_parameters"; "_response"; "_sensitivity"].
Definition class_level_attrs : list string := [].
Definition prepare_writes : list string :=
  ["direction"; "domain"; "xi_0"; "p"; "eps"; "nsampling"; "q"; "shift"; "backshift"; "smax"].
Definition set_parameters_writes : list string := ["q"; "shift"; "backshift"].
Definition response_writes : list string := ["smax"].
Definition sensitivity_writes : list string := [].
(* every `self.<name>` that occurs in the method (read, written or called), sorted *)
Definition response_mentions : list string :=
  ["backshift"; "direction"; "domain"; "eps"; "nsampling"; "p"; "q"; "set_parameters"; "shift"; "smax"].
Definition sensitivity_mentions : list string :=
  ["backshift"; "direction"; "domain"; "eps"; "nsampling"; "p"; "q"; "shift"; "sig_in"; "sig_out"; "smax"].
Close Scope string_scope.

Section Hist.
  Context {T : Type}.
  Variable dflt : T.

  (* what _prepare fixes for one instance (+ the index of the input signal it is connected to) *)
  Record config := { c_src : nat; c_dl : Z; c_dx : Z; c_ns : Z; c_smin : T -> T -> T; c_smax : list T -> T }.

  (* ---------------------------------------------------------------------------------------------- *)
  (* _response as written, together with the array it stores on the instance:
        xprint = x.copy(); self.smax = x.copy()
        per layer:  max_supp = smax(supports of xprint) ; self.smax[els] = max_supp ; xprint[els] = smin(x[els], max_supp) *)
  Section Resp.
    Variable g : grid.
    Variable c : config.

    Definition layer_step_mem (x : list T) (st : list T * list T) (L : Z) : list T * list T :=
      (layer_step (c_smin c) (c_smax c) dflt g (c_dl c) (c_dx c) (c_ns c) x (fst st) L,
       scatter_by (fun p => elnum g (c_dl c) (o1 g (c_dl c)) (o2 g (c_dl c)) L (fst p) (snd p))
                  (fun p => c_smax c (supports dflt g (c_dl c) (c_dx c) (c_ns c) (fst st) L p))
                  (entire_layer (n1 g (c_dl c)) (n2 g (c_dl c))) (snd st)).

    Fixpoint sweep_mem_loop (fuel : nat) (x : list T) (st : list T * list T) (ind : Z) : list T * list T :=
      match fuel with
      | O => st
      | S f => if (0 <=? ind) && (ind <? nlay g (c_dl c))
               then sweep_mem_loop f x (layer_step_mem x st ind) (ind + c_dx c)
               else st
      end.

    (* (xprint, self.smax) after _response(x) *)
    Definition sweep_mem (x : list T) : list T * list T :=
      sweep_mem_loop (Z.to_nat (nlay g (c_dl c))) x (x, x) (ind_start g (c_dl c) (c_dx c)).

    (* the layer sweep of Model/Overhang.v for this instance *)
    Definition sweep_of (x : list T) : list T :=
      sweep (c_smin c) (c_smax c) dflt g (c_dl c) (c_dx c) (c_ns c) x.
  End Resp.

  (* ---------------------------------------------------------------------------------------------- *)
  (* memory of one instance: state of its output signal, self.smax, `self.q is not None` *)
  Record inst := { i_out : option (list T); i_smax : option (list T); i_params : bool }.
  Definition inst0 : inst := {| i_out := None; i_smax := None; i_params := false |}.

  (* S: every sensitivity attribute of every signal (what Seed / Sens / Reset write); kept abstract *)
  Context {S : Type}.
  Record sys := { s_sigs : list (list T); s_insts : list inst; s_aux : S }.

  Inductive event :=
  | SetSig (s : nat) (x : list T)         (* sx.state = <fresh array with contents x>              *)
  | WriteAll (s : nat) (x : list T)       (* sx.state[:] = x          in place                      *)
  | WriteAt (s : nat) (i : Z) (v : T)     (* sx.state[i] = v          in place, 0 <= i (x[i] += h)  *)
  | Respond (j : nat)                     (* m_j.response()                                        *)
  | Seed (j : nat) (w : list T)           (* sy_j.sensitivity = w                                  *)
  | Sens (j : nat)                        (* m_j.sensitivity()                                     *)
  | Reset (j : nat).                      (* m_j.reset()                                           *)

  (* Seed / Sens / Reset: ANY function of the whole state (input, output, self.smax, seeds ...) into the
     sensitivity attributes; they write nothing else (sensitivity_writes = []) *)
  Variable aux_step : grid -> list config -> event -> sys -> S.

  Definition sig_of (sigs : list (list T)) (s : nat) : list T := nth s sigs [].

  (* what an event does to the input signals (the filter itself never writes them) *)
  Definition sig_step (sigs : list (list T)) (e : event) : list (list T) :=
    match e with
    | SetSig s x | WriteAll s x => upd sigs s x
    | WriteAt s i v => upd sigs s (upd (sig_of sigs s) (Z.to_nat i) v)
    | _ => sigs
    end.

  (* one call; the observation is (instance, state of its output signal) after a response() *)
  Definition step (g : grid) (cfgs : list config) (st : sys) (e : event) : sys * option (nat * list T) :=
    match e with
    | SetSig _ _ | WriteAll _ _ | WriteAt _ _ _ =>
        ({| s_sigs := sig_step (s_sigs st) e; s_insts := s_insts st; s_aux := s_aux st |}, None)
    | Respond j =>
        match nth_error cfgs j with
        | Some c =>
            let r := sweep_mem g c (sig_of (s_sigs st) (c_src c)) in
            ({| s_sigs := s_sigs st;
                s_insts := upd (s_insts st) j {| i_out := Some (fst r); i_smax := Some (snd r); i_params := true |};
                s_aux := s_aux st |}, Some (j, fst r))
        | None => (st, None)
        end
    | Seed _ _ | Sens _ | Reset _ =>
        ({| s_sigs := s_sigs st; s_insts := s_insts st; s_aux := aux_step g cfgs e st |}, None)
    end.

  (* a history: the observations in call order, and the final state *)
  Fixpoint run (g : grid) (cfgs : list config) (h : list event) (st : sys) : list (nat * list T) * sys :=
    match h with
    | [] => ([], st)
    | e :: h' =>
        let r := step g cfgs st e in
        let r' := run g cfgs h' (fst r) in
        (match snd r with Some o => o :: fst r' | None => fst r' end, snd r')
    end.

  (* the memory-free specification: every response() is the layer sweep of the CURRENT contents of the input
     signal of that instance, with the configuration of that instance *)
  Fixpoint responses_spec (g : grid) (cfgs : list config) (h : list event) (sigs : list (list T)) : list (nat * list T) :=
    match h with
    | [] => []
    | e :: h' =>
        match e with
        | Respond j =>
            match nth_error cfgs j with
            | Some c => (j, sweep_of g c (sig_of sigs (c_src c))) :: responses_spec g cfgs h' sigs
            | None => responses_spec g cfgs h' sigs
            end
        | _ => responses_spec g cfgs h' (sig_step sigs e)
        end
    end.

  Definition quiet (e : event) : bool := match e with Seed _ _ | Sens _ | Reset _ => true | _ => false end.

  (* one optimisation-like iteration on signal 0 / instance 0: new design (fresh array or in place), any number of
     Seed / Sens / Reset calls, response() *)
  Definition iteration (it : bool * list T * list event) : list event :=
    match it with (inplace, x, noise) => (if inplace then WriteAll 0 x else SetSig 0 x) :: noise ++ [Respond 0%nat] end.
End Hist.

Arguments config : clear implicits.
Arguments inst : clear implicits.
Arguments sys : clear implicits.
Arguments event : clear implicits.

(* ------------------------------------------------------------------------------------------------ *)
(* the executable instance over Q used by the correspondence check: _prepare (direction parsing, nsampling
   default) followed by the rational smooth min / max of Model/Overhang.v                              *)
Definition cfgQ (g : grid) (src : nat) (a : dir_arg) (ns : option Z) (p : nat) (k eps : Q) : option (config Q) :=
  match prepare (dim g) a ns with
  | Ok (d, n) => Some {| c_src := src; c_dl := dir_layer_of d; c_dx := dx_layer_of d; c_ns := n;
                         c_smin := smin_Q eps; c_smax := smax_Q p (invq_of p k) 0 0 |}
  | Err _ => None
  end.
Definition all_some {A} (l : list (option A)) : option (list A) :=
  fold_right (fun o acc => match o, acc with Some a, Some t => Some (a :: t) | _, _ => None end) (Some []) l.
Definition sys0 (sigs : list (list Q)) (ninst : nat) : sys Q unit :=
  {| s_sigs := sigs; s_insts := repeat inst0 ninst; s_aux := tt |}.
Definition run_Q (g : grid) (cfgs : list (config Q)) (sigs : list (list Q)) (h : list (event Q)) : list (nat * list Q) :=
  fst (run 0%Q (fun _ _ _ _ => tt) g cfgs h (sys0 sigs (List.length cfgs))).
