(* Real-number models of the scalar-formula modules (family F2 of C01): aggregation functions and their
   hand-written derivatives as in pymoto/modules/aggregation.py, ComplexNorm, Scaling.
   Over R (not executable); tied to the code by `interval` goals generated from implementation runs. *)
From Coq Require Import Reals List.
Import ListNotations.
Open Scope R_scope.

Definition rpow (x p : R) : R := exp (p * ln x).            (* x ** p for x > 0 *)
Definition sumf (phi : R -> R) (xs : list R) : R := fold_right (fun x acc => phi x + acc) 0 xs.
Definition rdot (a b : list R) : R := fold_right (fun p acc => fst p * snd p + acc) 0 (combine a b).

(* PNorm.aggregation_function / aggregation_derivative on positive data (abs(x) = x, sign(x) = 1) *)
Definition pnorm (p : R) (xs : list R) : R := rpow (sumf (fun x => rpow x p) xs) (/ p).
Definition pnorm_grad (p : R) (xs : list R) : list R :=
  map (fun x => rpow (sumf (fun y => rpow y p) xs) (/ p - 1) * rpow x (p - 1)) xs.

(* KSFunction *)
Definition ks (rho : R) (xs : list R) : R := / rho * ln (sumf (fun x => exp (rho * x)) xs).
Definition ks_grad (rho : R) (xs : list R) : list R :=
  map (fun x => exp (rho * x) / sumf (fun y => exp (rho * y)) xs) xs.

(* SoftMinMax: y = sum(x * softmax(alpha x)); derivative softmax(alpha x) * (1 + alpha (x - y)) *)
Definition softmm (alpha : R) (xs : list R) : R :=
  sumf (fun x => x * exp (alpha * x)) xs / sumf (fun x => exp (alpha * x)) xs.
Definition softmm_grad (alpha : R) (xs : list R) : list R :=
  map (fun x => exp (alpha * x) / sumf (fun y => exp (alpha * y)) xs * (1 + alpha * (x - softmm alpha xs))) xs.

(* Aggregation._response / _sensitivity with the scale factor sf treated as a constant of the evaluation *)
Definition agg_resp (sf : R) (f : list R -> R) (xs : list R) : R := sf * f xs.
Definition agg_sens (sf dfdy : R) (g : list R) : list R := map (fun d => sf * dfdy * d) g.

(* ComplexNorm on one entry z = a + i b; sensitivity 1/A * dA * conj(z) = (dA a / A) - i (dA b / A) *)
Definition cnorm (a b : R) : R := sqrt (a * a + b * b).
Definition cnorm_sens_re (dA a b : R) : R := dA * a / cnorm a b.
Definition cnorm_sens_im (dA a b : R) : R := - (dA * b / cnorm a b).

(* Scaling (three modes) with frozen scale factor sf *)
Definition scaling_resp (mode : nat) (sf lim x : R) : R :=
  match mode with O => x * sf | S O => (1 - x / lim) * sf | _ => (x / lim - 1) * sf end.
Definition scaling_sens (mode : nat) (sf lim dy : R) : R :=
  match mode with O => dy * sf | S O => - (dy * sf) / lim | _ => dy * sf / lim end.

(* points on a line x + t v *)
Definition line (xs vs : list R) (t : R) : list R := map (fun p => fst p + t * snd p) (combine xs vs).
