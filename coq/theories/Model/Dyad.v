(* Model of pymoto/common/dyadcarrier.py : class DyadCarrier (C15), as the code is written
   (tree at fix commits eba3b5f "dot products", 3674b14 "slicing", 3e6329a "[:, :] = 0", 843a4ae+77d4285 "contract_multi dtype").
   Data: Gaussian integers (exact image of integer-valued float64 / complex128 arrays); every stored vector
   carries its own dtype flag (false = float64, true = complex128), the carrier carries self.dtype.
   Part 1: the carrier-level model (hand-written, executable): constructor / add_dyad (utils._parse_to_list, block
           summation, 0-d promotion, length checks, zero vectors dropped, dtype promotion, fac), copy, +A, -A, +=, -=,
           + - with scalar 0 / carrier / broadcast dense array, * scalar, T, conj, real, imag, todense, diagonal,
           dot / @ from both sides, __getitem__, __setitem__, contract, contract_multi.  Errors are an enum.
           numpy primitives (indexing with int / slice / integer array incl. CPython's slice.indices, broadcasting,
           @, einsum contraction) are modelled by their documented semantics.
           Not modelled (never generated): casting errors that cannot occur while the invariant "a complex stored
           vector makes the carrier complex" holds (proved preserved), add_dyad with a complex fac, min()/max(),
           multiplication by arrays, A += A on the same object, einsum broadcasting of length-1 axes.
   Part 3: programs over a store of carriers.  Part 4: comparison with the implementation's observations.
   (Part 2, the dense specification the theorems compare with, is Model/DyadSpec.v.)  Definitions only, no proofs. *)
From Coq Require Import ZArith List Bool.
From Pymoto Require Import Base.Gauss Base.Mat.
Import ListNotations.
Local Open Scope Z_scope.

(* ================================================================== Part 1: the carrier *)
Record vec := mkvec { vd : vect; vf : bool }.
Record carrier := mkcar { us : list vec; vs : list vec; ulen : Z; vlen : Z; cplx : bool }.

Inductive err := TypeE | ValueE | IndexE | AssertE | RuntimeE | OtherE.
Inductive res (A : Type) := Ok (a : A) | Er (e : err).
Arguments Ok {A} a.
Arguments Er {A} e.

Definition zlen {A} (l : list A) : Z := Z.of_nat (length l).
Definition empty (r c : Z) : carrier := mkcar [] [] r c false.      (* __init__ before add_dyad: dtype float64 *)
Definition n_dyads (c : carrier) : Z := zlen (us c).
Definition size (c : carrier) : Z := if (ulen c <? 0) || (vlen c <? 0) then 0 else ulen c * vlen c.

(* ---- arguments of the constructor / add_dyad: what np.array(ui) can be *)
Inductive inarr :=
| IScal (x : C) (f : bool)                      (* 0-d: promoted by ui[np.newaxis] *)
| IVec (d : vect) (f : bool)                    (* 1-d *)
| IBlk (nc : Z) (rows : matr) (f : bool).       (* >1-d, reshaped (-1, nc): summed over all but the last axis *)
Inductive uarg := UNone | UOne (a : inarr) | UList (l : list inarr).

Definition in_vec (a : inarr) : vec :=
  match a with
  | IScal x f => mkvec [x] f
  | IVec d f => mkvec d f
  | IBlk nc rows f => mkvec (msum_rows (Z.to_nat nc) rows) f
  end.

(* utils._parse_to_list *)
Definition parse_to_list (u : uarg) : list inarr :=
  match u with UNone => [] | UOne a => [a] | UList l => l end.

Definition vscaleZ (fac : option Z) (v : vec) : vec :=          (* ui.copy() if fac is None else fac*ui  (fac: float) *)
  match fac with None => v | Some f => mkvec (map (cmul (cofZ f)) (vd v)) (vf v) end.

(* the loop of add_dyad; on an error the carrier keeps what was changed before (as in Python) *)
Fixpoint add_loop (c : carrier) (l : list (inarr * inarr)) (fac : option Z) : carrier * option err :=
  match l with
  | [] => (c, None)
  | (a, b) :: l' =>
    let ui := in_vec a in
    let vi := in_vec b in
    let c1 := if ulen c <? 0 then mkcar (us c) (vs c) (zlen (vd ui)) (vlen c) (cplx c) else c in
    let c2 := if vlen c1 <? 0 then mkcar (us c1) (vs c1) (ulen c1) (zlen (vd vi)) (cplx c1) else c1 in
    if negb (zlen (vd ui) =? ulen c2) then (c2, Some TypeE)
    else if negb (zlen (vd vi) =? vlen c2) then (c2, Some TypeE)
    else if vis0 (vd ui) || vis0 (vd vi) then add_loop c2 l' fac
    else add_loop (mkcar (us c2 ++ [vscaleZ fac ui]) (vs c2 ++ [vi]) (ulen c2) (vlen c2)
                         (cplx c2 || vf ui || vf vi)) l' fac
  end.

Definition add_dyad (c : carrier) (u v : uarg) (fac : option Z) : carrier * option err :=
  let ul := parse_to_list u in
  let vl := match v with UNone => ul | _ => parse_to_list v end in
  if negb (Nat.eqb (length ul) (length vl)) then (c, Some TypeE) else add_loop c (combine ul vl) fac.

Definition to_res (p : carrier * option err) : res carrier :=
  match snd p with None => Ok (fst p) | Some e => Er e end.

(* DyadCarrier(u, v, shape=(r, c)) *)
Definition new (u v : uarg) (r c : Z) : res carrier := to_res (add_dyad (empty r c) u v None).

(* DyadCarrier(list of stored vectors, list of stored vectors, shape=...) : what every operator ends with *)
Definition vecs_arg (l : list vec) : uarg := UList (map (fun v => IVec (vd v) (vf v)) l).
Definition mk (ul vl : list vec) (r c : Z) : res carrier := new (vecs_arg ul) (vecs_arg vl) r c.

Definition vmapv (h : C -> C) (v : vec) : vec := mkvec (map h (vd v)) (vf v).
Definition vmapr (h : C -> C) (v : vec) : vec := mkvec (map h (vd v)) false.        (* .real / .imag: float64 *)

Definition copy (c : carrier) : res carrier := mk (us c) (vs c) (ulen c) (vlen c).
Definition pos (c : carrier) : res carrier := copy c.
Definition neg (c : carrier) : res carrier := mk (map (vmapv copp) (us c)) (vs c) (ulen c) (vlen c).
Definition transpose (c : carrier) : res carrier := mk (vs c) (us c) (vlen c) (ulen c).
Definition conj (c : carrier) : res carrier :=
  mk (map (vmapv cconj) (us c)) (map (vmapv cconj) (vs c)) (ulen c) (vlen c).
Definition real (c : carrier) : res carrier :=
  mk (map (vmapr cre) (us c) ++ map (vmapr (fun x => copp (cim x))) (us c))
     (map (vmapr cre) (vs c) ++ map (vmapr cim) (vs c)) (ulen c) (vlen c).
Definition imag (c : carrier) : res carrier :=
  mk (map (vmapr cre) (us c) ++ map (vmapr cim) (us c))
     (map (vmapr cim) (vs c) ++ map (vmapr cre) (vs c)) (ulen c) (vlen c).
(* other * self  and  self * other  for a scalar other (value, complex flag) *)
Definition rmul (c : carrier) (x : C) (f : bool) : res carrier :=
  mk (map (fun u => mkvec (map (cmul x) (vd u)) (vf u || f)) (us c)) (vs c) (ulen c) (vlen c).
Definition mul (c : carrier) (x : C) (f : bool) : res carrier :=
  mk (us c) (map (fun v => mkvec (map (fun a => cmul a x) (vd v)) (vf v || f)) (vs c)) (ulen c) (vlen c).

Definition iadd (c o : carrier) : carrier * option err := add_dyad c (vecs_arg (us o)) (vecs_arg (vs o)) None.
Definition isub (c o : carrier) : carrier * option err := add_dyad c (vecs_arg (us o)) (vecs_arg (vs o)) (Some (-1)).

(* todense: val = zeros((max(0,ulen), max(0,vlen))); val += outer(ui, vi) *)
Definition todense (c : carrier) : matr :=
  fold_left (fun M p => madd M (outer (vd (fst p)) (vd (snd p)))) (combine (us c) (vs c))
            (mzeros (Z.to_nat (ulen c)) (Z.to_nat (vlen c))).

(* ---- operands and results of the public operations *)
Inductive operand :=
| PScal (x : C) (f : bool)
| PVec (d : vect) (f : bool)
| PMat (nr nc : Z) (m : matr) (f : bool)
| PDyad (o : carrier).

Inductive out :=
| ODyad (c : carrier)
| OScal (x : C) (f : bool)
| OVec (d : vect) (f : bool)
| OMat (r c : Z) (m : matr) (f : bool)
| OBatch (bs : list Z) (d : vect) (f : bool)
| ONone.

Definition lift (r : res carrier) : res out := match r with Ok c => Ok (ODyad c) | Er e => Er e end.

(* np.broadcast_to(other, self.shape) for a 1-d or 2-d other *)
Definition broadcast_to (x : operand) (r c : Z) : res (matr * bool) :=
  if (r <? 0) || (c <? 0) then Er ValueE else
  match x with
  | PVec d f =>
    if (zlen d =? c) || (zlen d =? 1)
    then Ok (mtab (Z.to_nat r) (Z.to_nat c) (fun _ j => vget d (if zlen d =? 1 then 0%nat else j)), f)
    else Er ValueE
  | PMat nr nc m f =>
    if ((nr =? r) || (nr =? 1)) && ((nc =? c) || (nc =? 1))
    then Ok (mtab (Z.to_nat r) (Z.to_nat c)
                  (fun i j => mget m (if nr =? 1 then 0%nat else i) (if nc =? 1 then 0%nat else j)), f)
    else Er ValueE
  | _ => Er OtherE
  end.

Definition shape_eqb (a b : carrier) : bool := (ulen a =? ulen b) && (vlen a =? vlen b).

(* self + other *)
Definition add (c : carrier) (x : operand) : res out :=
  match x with
  | PScal s _ => if cis0 s then lift (copy c) else Er RuntimeE          (* NotImplementedError *)
  | PDyad o =>
    if negb (shape_eqb o c) && ((size c >? 0) && (size o >? 0)) then Er ValueE
    else match copy c with
         | Ok c' => lift (to_res (iadd c' o))
         | Er e => Er e
         end
  | _ => match broadcast_to x (ulen c) (vlen c) with
         | Ok (B, f) => Ok (OMat (ulen c) (vlen c) (madd B (todense c)) (f || cplx c))
         | Er e => Er e
         end
  end.

Definition neg_operand (x : operand) : res operand :=
  match x with
  | PScal s f => Ok (PScal (copp s) f)
  | PVec d f => Ok (PVec (map copp d) f)
  | PMat nr nc m f => Ok (PMat nr nc (mmap copp m) f)
  | PDyad o => match neg o with Ok o' => Ok (PDyad o') | Er e => Er e end
  end.

(* self - other = self.__add__(-other) *)
Definition sub (c : carrier) (x : operand) : res out :=
  match neg_operand x with Ok x' => add c x' | Er e => Er e end.

(* other - self *)
Definition rsub (c : carrier) (x : operand) : res out :=
  match x with
  | PScal s _ => if cis0 s then match copy c with Ok c' => lift (neg c') | Er e => Er e end else Er RuntimeE
  | PDyad _ => Er TypeE
  | _ => match broadcast_to x (ulen c) (vlen c) with
         | Ok (B, f) => Ok (OMat (ulen c) (vlen c) (madd B (mmap copp (todense c))) (f || cplx c))
         | Er e => Er e
         end
  end.

(* diagonal(k) *)
Definition vslice (u : vect) (start n : Z) : vect := vtab (Z.to_nat n) (fun t => vget u (Z.to_nat start + t)%nat).
Definition diagonal (c : carrier) (k : Z) : out :=
  if (ulen c =? 0) || (vlen c =? 0) then OVec [] (cplx c) else
  let ustart := Z.max 0 (- k) in
  let vstart := Z.max 0 k in
  let n := Z.min (ulen c - ustart) (vlen c - vstart) in
  if n <? 0 then OVec [] (cplx c) else
  OVec (fold_left (fun d p => vadd d (vmul (vslice (vd (fst p)) ustart n) (vslice (vd (snd p)) vstart n)))
                  (combine (us c) (vs c)) (vzeros (Z.to_nat n))) (cplx c).

(* ---- products with dense vectors / matrices *)
Fixpoint map_res {A B} (f : A -> res B) (l : list A) : res (list B) :=
  match l with
  | [] => Ok []
  | x :: l' => match f x with
               | Er e => Er e
               | Ok y => match map_res f l' with Ok r => Ok (y :: r) | Er e => Er e end
               end
  end.

(* val = zeros(max(ulen,0)); val += ui * vi.dot(other) *)
Definition dot_vec (c : carrier) (d : vect) (f : bool) : res out :=
  match map_res (fun p => if zlen (vd (snd p)) =? zlen d
                          then Ok (map (fun a => cmul a (vdot (vd (snd p)) d)) (vd (fst p))) else Er ValueE)
                (combine (us c) (vs c)) with
  | Er e => Er e
  | Ok terms => Ok (OVec (fold_left vadd terms (vzeros (Z.to_nat (ulen c)))) (cplx c || f))
  end.
(* val = zeros(max(vlen,0)); val += vi * other.dot(ui) *)
Definition rdot_vec (c : carrier) (d : vect) (f : bool) : res out :=
  match map_res (fun p => if zlen d =? zlen (vd (fst p))
                          then Ok (map (fun a => cmul a (vdot d (vd (fst p)))) (vd (snd p))) else Er ValueE)
                (combine (us c) (vs c)) with
  | Er e => Er e
  | Ok terms => Ok (OVec (fold_left vadd terms (vzeros (Z.to_nat (vlen c)))) (cplx c || f))
  end.

(* self @ other *)
Definition matmul (c : carrier) (x : operand) : res out :=
  match x with
  | PVec d f => dot_vec c d f
  | PMat nr nc m f =>
    match map_res (fun v => if zlen (vd v) =? nr then Ok (mkvec (vecmat (vd v) m (Z.to_nat nc)) (vf v || f))
                            else Er ValueE) (vs c) with
    | Er e => Er e
    | Ok vl => lift (mk (us c) vl (ulen c) nc)
    end
  | _ => Er OtherE
  end.
(* other @ self *)
Definition rmatmul (c : carrier) (x : operand) : res out :=
  match x with
  | PVec d f => rdot_vec c d f
  | PMat nr nc m f =>
    match map_res (fun u => if nc =? zlen (vd u) then Ok (mkvec (matvec m (vd u)) (vf u || f))
                            else Er ValueE) (us c) with
    | Er e => Er e
    | Ok ul => lift (mk ul (vs c) nr (vlen c))
    end
  | _ => Er OtherE
  end.
(* self.dot(other): 2-d -> matmul, else the vector loop *)
Definition dot (c : carrier) (x : operand) : res out := matmul c x.

(* ---- indexing *)
Inductive idx := IInt (i : Z) | ISlice (a b s : option Z) | IArr (l : list Z).

Definition norm_index (n i : Z) : res Z :=
  if (- n <=? i) && (i <? n) then Ok (if i <? 0 then i + n else i) else Er IndexE.

(* slice.indices(n) of CPython, then the positions start + k*step *)
Definition slice_pos (n : Z) (a b s : option Z) : res (list Z) :=
  let step := match s with None => 1 | Some s => s end in
  if step =? 0 then Er ValueE else
  let lower := if step <? 0 then -1 else 0 in
  let upper := if step <? 0 then n - 1 else n in
  let start := match a with
               | None => if step <? 0 then upper else lower
               | Some a => if a <? 0 then Z.max (a + n) lower else Z.min a upper
               end in
  let stop := match b with
              | None => if step <? 0 then lower else upper
              | Some b => if b <? 0 then Z.max (b + n) lower else Z.min b upper
              end in
  let len := if step <? 0 then (if stop <? start then (start - stop - 1) / (- step) + 1 else 0)
             else (if start <? stop then (stop - start - 1) / step + 1 else 0) in
  Ok (map (fun k => start + Z.of_nat k * step) (seq 0 (Z.to_nat len))).

(* positions selected by np.zeros(n)[ix] *)
Definition idx_pos (n : Z) (ix : idx) : res (list Z) :=
  match ix with
  | IInt i => match norm_index n i with Ok k => Ok [k] | Er e => Er e end
  | ISlice a b s => slice_pos n a b s
  | IArr l => map_res (norm_index n) l
  end.
Definition idx_scalar (ix : idx) : bool := match ix with IInt _ => true | _ => false end.
Definition idx_arr (ix : idx) : bool := match ix with IArr _ => true | _ => false end.
Definition idx_null (ix : idx) : bool := match ix with ISlice None None None => true | _ => false end.
Definition vtake (u : vect) (ps : list Z) : vect := map (fun k => vget u (Z.to_nat k)) ps.

(* the product ui*vi of the (sub-)vectors in the uni-slice / paired-array branch *)
Definition slice_prod (si sj : bool) (u v : vect) : vect :=
  if si then map (cmul (vget u 0)) v
  else if sj then map (fun a => cmul a (vget v 0)) u
  else vmul u v.

Definition getitem (c : carrier) (i j : idx) : res out :=
  if (ulen c <? 0) && (vlen c <? 0) then Ok (ODyad (empty (-1) (-1))) else
  if ulen c <? 0 then Er ValueE else                    (* np.zeros(negative) *)
  match idx_pos (ulen c) i with
  | Er e => Er e
  | Ok pu =>
    if vlen c <? 0 then Er ValueE else
    match idx_pos (vlen c) j with
    | Er e => Er e
    | Ok pv =>
      let uni := idx_scalar i || idx_scalar j in
      let nps := idx_arr i && idx_arr j in
      if nps && negb (Nat.eqb (length pu) (length pv)) then Er IndexE else
      let usub := map (fun u => mkvec (vtake (vd u) pu) (vf u)) (us c) in
      let vsub := map (fun v => mkvec (vtake (vd v) pv) (vf v)) (vs c) in
      if uni || nps then
        (* res = zeros(broadcast(usample, vsample).shape, dtype=self.dtype); res = res + ui*vi *)
        let n := if idx_scalar i then length pv else length pu in
        let r := fold_left (fun acc p => vadd acc (slice_prod (idx_scalar i) (idx_scalar j) (vd (fst p)) (vd (snd p))))
                           (combine usub vsub) (vzeros n) in
        let f := fold_left (fun acc p => acc || vf (fst p) || vf (snd p)) (combine usub vsub) (cplx c) in
        if idx_scalar i && idx_scalar j then Ok (OScal (vget r 0) f) else Ok (OVec r f)
      else lift (mk usub vsub (zlen pu) (zlen pv))
    end
  end.

(* ui[subscript] = 0 *)
Definition vset0 (u : vect) (ps : list Z) : vect :=
  vtab (length u) (fun k => if existsb (Z.eqb (Z.of_nat k)) ps then c0 else vget u k).
Definition vec_set0 (ix : idx) (v : vec) : res vec :=
  if idx_null ix then Ok v else
  match idx_pos (zlen (vd v)) ix with Ok ps => Ok (mkvec (vset0 (vd v) ps) (vf v)) | Er e => Er e end.

(* the loop of __setitem__ over zip(self.u, self.v); an error leaves the dyads before it modified *)
Fixpoint set_loop (i j : idx) (ul vl : list vec) : list vec * list vec * option err :=
  match ul, vl with
  | u :: ul', v :: vl' =>
    match vec_set0 i u with
    | Er e => (ul, vl, Some e)
    | Ok u' => match vec_set0 j v with
               | Er e => (u' :: ul', vl, Some e)
               | Ok v' => match set_loop i j ul' vl' with (a, b, e) => (u' :: a, v' :: b, e) end
               end
    end
  | _, _ => (ul, vl, None)
  end.

Definition setitem (c : carrier) (i j : idx) (val : C) : carrier * option err :=
  if negb (cis0 val) then (c, Some ValueE) else
  if negb (idx_null i) && negb (idx_null j) then (c, Some IndexE) else
  if idx_null i && idx_null j then (mkcar [] [] (ulen c) (vlen c) (cplx c), None) else     (* self.u, self.v = [], [] *)
  match set_loop i j (us c) (vs c) with
  | (ul, vl, e) => (mkcar ul vl (ulen c) (vlen c) (cplx c), e)
  end.

(* ---- contract(mat, rows, cols):  y[p] = sum_k u_k[rows_p]^T . B_p . v_k[cols_p]
   mat:  None | a 2-d matrix (dense or sparse: same arithmetic) | a batch of matrices with batch shape bs
   rows / cols: None | a 1-d index array | a batch of index vectors with batch shape bs *)
Record cmat := mkcmat { cm_bs : option (list Z); cm_nr : Z; cm_nc : Z; cm_mats : list matr; cm_f : bool }.
Record cidx := mkcidx { ci_bs : option (list Z); ci_n : Z; ci_rows : list (list Z) }.

Fixpoint zl_eqb (a b : list Z) : bool :=
  match a, b with
  | [], [] => true
  | x :: a', y :: b' => (x =? y) && zl_eqb a' b'
  | _, _ => false
  end.
Definition zprod (l : list Z) : Z := fold_right Z.mul 1 l.

(* batchsize: from the matrix, else from rows, else from cols; later ones must agree (ValueError) *)
Definition batch_join (b : option (list Z)) (ix : option cidx) : res (option (list Z)) :=
  match ix with
  | Some i => match ci_bs i with
              | Some bi => match b with
                           | None => Ok (Some bi)
                           | Some bb => if zl_eqb bi bb then Ok b else Er ValueE
                           end
              | None => Ok b
              end
  | None => Ok b
  end.
Definition batch_shape (mat : option cmat) (rows cols : option cidx) : res (option (list Z)) :=
  match batch_join (match mat with Some m => cm_bs m | None => None end) rows with
  | Er e => Er e
  | Ok b1 => batch_join b1 cols
  end.

(* ui[rows] for batch item p *)
Definition sel_idx (ix : option cidx) (p : nat) (u : vect) : res vect :=
  match ix with
  | None => Ok u
  | Some i =>
    let l := match ci_bs i with None => nth 0%nat (ci_rows i) [] | Some _ => nth p (ci_rows i) [] end in
    match map_res (norm_index (zlen u)) l with Ok ps => Ok (vtake u ps) | Er e => Er e end
  end.
Definition sel_mat (m : cmat) (p : nat) : matr :=
  match cm_bs m with None => nth 0%nat (cm_mats m) [] | Some _ => nth p (cm_mats m) [] end.

(* uarg @ varg   or   uarg @ mat @ varg   (numpy raises ValueError on non-conforming lengths) *)
Definition form1 (mat : option cmat) (ua va : vect) (p : nat) : res C :=
  match mat with
  | None => if zlen ua =? zlen va then Ok (vdot ua va) else Er ValueE
  | Some m => if (zlen ua =? cm_nr m) && (cm_nc m =? zlen va)
              then Ok (vdot (vecmat ua (sel_mat m p) (Z.to_nat (cm_nc m))) va) else Er ValueE
  end.

(* the contribution of one dyad to every batch item: first ui[rows], then vi[cols], then the products *)
Definition dyad_forms (mat : option cmat) (rows cols : option cidx) (P : nat) (u v : vec) : res vect :=
  match map_res (fun p => sel_idx rows p (vd u)) (seq 0 P) with
  | Er e => Er e
  | Ok uas =>
    match map_res (fun p => sel_idx cols p (vd v)) (seq 0 P) with
    | Er e => Er e
    | Ok vas => map_res (fun t => form1 mat (fst (fst t)) (snd (fst t)) (snd t)) (combine (combine uas vas) (seq 0 P))
    end
  end.

Definition contract (c : carrier) (mat : option cmat) (rows cols : option cidx) : res out :=
  let fmat := match mat with Some m => cm_f m | None => false end in
  match batch_shape mat rows cols with
  | Er e => Er e
  | Ok None =>           (* val = 0.0; val += uarg @ mat @ varg : a scalar whose type follows the summands *)
    match map_res (fun q => dyad_forms mat rows cols 1 (fst q) (snd q)) (combine (us c) (vs c)) with
    | Er e => Er e
    | Ok terms => Ok (OScal (csum (map (fun t => vget t 0) terms))
                            (existsb (fun q => vf (fst q) || vf (snd q) || fmat) (combine (us c) (vs c))))
    end
  | Ok (Some bs) =>      (* val = zeros(batchsize, result_type(mat, self.dtype)); val += einsum(...) *)
    let P := Z.to_nat (zprod bs) in
    match map_res (fun q => dyad_forms mat rows cols P (fst q) (snd q)) (combine (us c) (vs c)) with
    | Er e => Er e
    | Ok terms => Ok (OBatch bs (fold_left vadd terms (vzeros P)) (fmat || cplx c))
    end
  end.

(* ---- contract_multi(mats): one value per matrix of a list; entries are None, a sparse matrix (its coo triples
   (row, col, data)) or anything without .tocoo() (a dense array: falls back to contract) *)
Inductive mmat := MNone | MSp (tr : list (Z * Z * C)) (f : bool) | MDense (m : cmat).
Definition mmat_flag (m : mmat) : bool := match m with MNone => false | MSp _ f => f | MDense m => cm_f m end.

Definition contract_multi (c : carrier) (mats : list mmat) : res out :=
  let fl := cplx c || existsb mmat_flag mats in      (* np.result_type(self.dtype, *[m.dtype for m in mats if m is not None]) *)
  if Nat.eqb (length (us c)) 0 || Nat.eqb (length (vs c)) 0 then Ok (OVec (vzeros (length mats)) fl) else
  match map_res (fun m =>
          match m with
          | MNone => Ok c0
          | MSp tr _ =>      (* einsum('ij,i,ij->', U[row, :], data, V[col, :]) with U = array(self.u).T *)
            match map_res (fun e => norm_index (ulen c) (fst (fst e))) tr with
            | Er e => Er e
            | Ok rs =>
              match map_res (fun e => norm_index (vlen c) (snd (fst e))) tr with
              | Er e => Er e
              | Ok cs => Ok (csum (map (fun t => csum (map (fun q => cmul (cmul (vget (vd (fst q)) (Z.to_nat (fst (fst t)))) (snd t))
                                                                         (vget (vd (snd q)) (Z.to_nat (snd (fst t)))))
                                                          (combine (us c) (vs c))))
                                      (combine (combine rs cs) (map snd tr))))
              end
            end
          | MDense m => match contract c (Some m) None None with
                        | Ok (OScal x _) => Ok x
                        | Ok _ => Er ValueE
                        | Er e => Er e
                        end
          end) mats with
  | Er e => Er e
  | Ok vals => Ok (OVec vals fl)
  end.

(* ================================================================== Part 3: programs over a store of carriers *)
Inductive unop := UCopy | UPos | UNeg | UTr | UConj | UReal | UImag.
Inductive binop := BAdd | BRadd | BSub | BRsub | BMatmul | BRmatmul | BDot.
(* second operand of a binary operator: a literal dense value or another carrier of the store *)
Inductive arg := AScal (x : C) (f : bool) | AVec (d : vect) (f : bool) | AMat (nr nc : Z) (m : matr) (f : bool)
               | ASlot (n : nat).

Inductive op :=
| ONew (dst : nat) (u v : uarg) (r c : Z)                (* store[dst] = DyadCarrier(u, v, shape=(r, c)) *)
| OAddDyad (tgt : nat) (u v : uarg) (fac : option Z)     (* store[tgt].add_dyad(u, v, fac) *)
| OUn (k : unop) (dst src : nat)                         (* store[dst] = k(store[src]) *)
| OIadd (tgt src : nat)                                  (* store[tgt] += store[src]      (tgt <> src) *)
| OIsub (tgt src : nat)
| OBin (k : binop) (dst a : nat) (b : arg)               (* store[dst] / output = store[a] `k` b *)
| OMul (dst a : nat) (x : C) (f : bool)                  (* store[dst] = store[a] * x *)
| ORmul (dst a : nat) (x : C) (f : bool)                 (* store[dst] = x * store[a] *)
| OTodense (a : nat)
| ODiag (a : nat) (k : Z)
| OGet (dst a : nat) (i j : idx)                         (* store[a][i, j]  (a carrier result goes to dst) *)
| OSet (tgt : nat) (i j : idx) (v : C)                   (* store[tgt][i, j] = v *)
| OContract (a : nat) (mat : option cmat) (rows cols : option cidx)      (* store[a].contract(mat, rows, cols) *)
| OContractMulti (a : nat) (mats : list mmat).                           (* store[a].contract_multi(mats) *)

Definition store := list carrier.

Fixpoint set_slot (s : store) (n : nat) (c : carrier) : store :=
  match s, n with
  | [], _ => [c]
  | _ :: s', O => c :: s'
  | x :: s', S n' => x :: set_slot s' n' c
  end.
Definition get_slot (s : store) (n : nat) : res carrier :=
  match nth_error s n with Some c => Ok c | None => Er OtherE end.

Definition un_apply (k : unop) (c : carrier) : res carrier :=
  match k with
  | UCopy => copy c | UPos => pos c | UNeg => neg c | UTr => transpose c
  | UConj => conj c | UReal => real c | UImag => imag c
  end.

Definition arg_operand (s : store) (b : arg) : res operand :=
  match b with
  | AScal x f => Ok (PScal x f)
  | AVec d f => Ok (PVec d f)
  | AMat nr nc m f => Ok (PMat nr nc m f)
  | ASlot n => match get_slot s n with Ok o => Ok (PDyad o) | Er e => Er e end
  end.

Definition bin_apply (k : binop) (c : carrier) (x : operand) : res out :=
  match k with
  | BAdd | BRadd => add c x
  | BSub => sub c x
  | BRsub => rsub c x
  | BMatmul => matmul c x
  | BRmatmul => rmatmul c x
  | BDot => dot c x
  end.

(* a carrier result is bound to dst; everything else is only an output *)
Definition bind_out (s : store) (dst : nat) (r : res out) : store * res out :=
  match r with
  | Ok (ODyad c) => (set_slot s dst c, r)
  | _ => (s, r)
  end.
(* in-place operations always write the target back, also after an error *)
Definition bind_inplace (s : store) (tgt : nat) (p : carrier * option err) : store * res out :=
  (set_slot s tgt (fst p), match snd p with None => Ok (ODyad (fst p)) | Some e => Er e end).

Definition step (o : op) (s : store) : store * res out :=
  match o with
  | ONew dst u v r c => bind_out s dst (lift (new u v r c))
  | OAddDyad tgt u v fac =>
    match get_slot s tgt with Ok c => bind_inplace s tgt (add_dyad c u v fac) | Er e => (s, Er e) end
  | OUn k dst src =>
    match get_slot s src with Ok c => bind_out s dst (lift (un_apply k c)) | Er e => (s, Er e) end
  | OIadd tgt src =>
    match get_slot s tgt, get_slot s src with
    | Ok c, Ok o => bind_inplace s tgt (iadd c o)
    | _, _ => (s, Er OtherE)
    end
  | OIsub tgt src =>
    match get_slot s tgt, get_slot s src with
    | Ok c, Ok o => bind_inplace s tgt (isub c o)
    | _, _ => (s, Er OtherE)
    end
  | OBin k dst a b =>
    match get_slot s a, arg_operand s b with
    | Ok c, Ok x => bind_out s dst (bin_apply k c x)
    | _, _ => (s, Er OtherE)
    end
  | OMul dst a x f =>
    match get_slot s a with Ok c => bind_out s dst (lift (mul c x f)) | Er e => (s, Er e) end
  | ORmul dst a x f =>
    match get_slot s a with Ok c => bind_out s dst (lift (rmul c x f)) | Er e => (s, Er e) end
  | OTodense a =>
    match get_slot s a with
    | Ok c => (s, Ok (OMat (Z.max 0 (ulen c)) (Z.max 0 (vlen c)) (todense c) (cplx c)))
    | Er e => (s, Er e)
    end
  | ODiag a k =>
    match get_slot s a with Ok c => (s, Ok (diagonal c k)) | Er e => (s, Er e) end
  | OGet dst a i j =>
    match get_slot s a with Ok c => bind_out s dst (getitem c i j) | Er e => (s, Er e) end
  | OSet tgt i j v =>
    match get_slot s tgt with Ok c => bind_inplace s tgt (setitem c i j v) | Er e => (s, Er e) end
  | OContract a mat rows cols =>
    match get_slot s a with Ok c => (s, contract c mat rows cols) | Er e => (s, Er e) end
  | OContractMulti a mats =>
    match get_slot s a with Ok c => (s, contract_multi c mats) | Er e => (s, Er e) end
  end.

Fixpoint run (p : list op) (s : store) : store * list (res out) :=
  match p with
  | [] => (s, [])
  | o :: p' => let (s1, r) := step o s in let (s2, rs) := run p' s1 in (s2, r :: rs)
  end.

(* ================================================================== Part 4: comparison with observations *)
Definition C_eqb := ceqb.
Fixpoint leqb {A} (e : A -> A -> bool) (a b : list A) : bool :=
  match a, b with
  | [], [] => true
  | x :: a', y :: b' => e x y && leqb e a' b'
  | _, _ => false
  end.
Definition vect_eqb := leqb ceqb.
Definition matr_eqb := leqb vect_eqb.
Definition vec_eqb (a b : vec) : bool := vect_eqb (vd a) (vd b) && Bool.eqb (vf a) (vf b).
Definition carrier_eqb (a b : carrier) : bool :=
  leqb vec_eqb (us a) (us b) && leqb vec_eqb (vs a) (vs b) && (ulen a =? ulen b) && (vlen a =? vlen b)
  && Bool.eqb (cplx a) (cplx b).
Definition err_eqb (a b : err) : bool :=
  match a, b with
  | TypeE, TypeE | ValueE, ValueE | IndexE, IndexE | AssertE, AssertE | RuntimeE, RuntimeE | OtherE, OtherE => true
  | _, _ => false
  end.
Definition out_eqb (a b : out) : bool :=
  match a, b with
  | ODyad x, ODyad y => carrier_eqb x y
  | ODyad _, ONone => true        (* observed carriers are compared through the observed slot state *)
  | OScal x f, OScal y g => ceqb x y && Bool.eqb f g
  | OVec x f, OVec y g => vect_eqb x y && Bool.eqb f g
  | OMat r c x f, OMat r' c' y g => (r =? r') && (c =? c') && matr_eqb x y && Bool.eqb f g
  | OBatch bs x f, OBatch bs' y g => leqb Z.eqb bs bs' && vect_eqb x y && Bool.eqb f g
  | ONone, ONone => true
  | _, _ => false
  end.
Definition rout_eqb (a b : res out) : bool :=
  match a, b with
  | Ok x, Ok y => out_eqb x y
  | Er e, Er e' => err_eqb e e'
  | _, _ => false
  end.

(* one observed step: the operation, the observed result, the slot whose state was observed after the step together
   with that state and its todense() *)
Record obs := mkobs { o_op : op; o_res : res out; o_slot : nat; o_state : option carrier; o_dense : option matr }.

Definition check_step (s : store) (ob : obs) : store * bool :=
  let (s', r) := step (o_op ob) s in
  (s', rout_eqb r (o_res ob)
       && match o_state ob with
          | None => true
          | Some c => match nth_error s' (o_slot ob) with
                      | Some c' => carrier_eqb c' c
                                   && match o_dense ob with Some M => matr_eqb (todense c') M | None => true end
                      | None => false
                      end
          end).

Fixpoint check_prog (s : store) (l : list obs) : bool :=
  match l with
  | [] => true
  | ob :: l' => let (s', b) := check_step s ob in b && check_prog s' l'
  end.

(* per-step verdicts and the model's results (printed only for failing cases, for the replay) *)
Fixpoint check_trace (s : store) (l : list obs) : list bool :=
  match l with
  | [] => []
  | ob :: l' => let (s', b) := check_step s ob in b :: check_trace s' l'
  end.
Fixpoint model_trace (s : store) (l : list obs) : list (res out * option carrier) :=
  match l with
  | [] => []
  | ob :: l' => let (s', r) := step (o_op ob) s in (r, nth_error s' (o_slot ob)) :: model_trace s' l'
  end.

(* helpers for the generated case files: real / complex vector literals *)
Definition rv (l : list Z) : vect := map cofZ l.
Definition rm (l : list (list Z)) : matr := map rv l.
