(* Model of the aggregation modules of pymoto/modules/aggregation.py, definitions only.
     PNorm / KSFunction / SoftMinMax .aggregation_function   -- formulas over R (list = 1-D array)
     AggScaling.__call__                                      -- one-register state machine (generic Num)
     Aggregation._response                                    -- select, aggregate, scale (generic Num)
   The same formulas are regenerated from the source on every run (tools/gen_C16.py -> gen/C16/AggGen.v)
   and proved equal to these definitions in bridge/C16/AggBridge.v. *)
From Coq Require Import Reals List ZArith.
From Pymoto Require Import Base.Num.
Import ListNotations.

(* ---- formulas over R *)
Section Formulas.
  Local Open Scope R_scope.
  Definition rsum (l : list R) : R := fold_right Rplus 0 l.                     (* np.sum *)
  Definition rmul (a b : list R) : list R := map (fun q => fst q * snd q) (combine a b).   (* a * b *)
  Definition rscale (c : R) (a : list R) : list R := map (fun v => c * v) a.    (* c * a *)

  (* PNorm:  np.sum(np.abs(x) ** self.p) ** (1/self.p) *)
  Definition pnorm (p : R) (x : list R) : R :=
    Rpower (rsum (map (fun v => Rpower v p) (map Rabs x))) (1 / p).

  (* KSFunction:  1/self.rho * np.log(np.sum(np.exp(self.rho * x))) *)
  Definition ks (rho : R) (x : list R) : R :=
    1 / rho * ln (rsum (map exp (rscale rho x))).

  (* scipy.special.softmax(z) = exp(z) / sum(exp(z))  (the library subtracts max(z) first for range
     reasons; the real function is the same) *)
  Definition softmax (z : list R) : list R := map (fun v => exp v / rsum (map exp z)) z.

  (* SoftMinMax:  np.sum(x * spsp.softmax(self.alpha * x)) *)
  Definition softminmax (alpha : R) (x : list R) : R :=
    rsum (rmul x (softmax (rscale alpha x))).
End Formulas.

(* ---- AggScaling and Aggregation._response, generic over the number type *)
Section Scaling.
  Context {K : Type} `{Num K}.
  Local Open Scope num_scope.

  (* AggScaling.__call__: sf is the register (None before the first call); returns the new register.
       scale = trueval / fx_approx
       self.sf = scale                                            if self.sf is None
               = damping * self.sf + (1 - damping) * scale        otherwise                      *)
  Definition scaling_step (d : K) (sf : option K) (trueval approx : K) : K :=
    match sf with
    | None => trueval / approx
    | Some s => d * s + (none_ - d) * (trueval / approx)
    end.

  (* a history of calls (trueval_k, approx_k), starting from register sf: the returned scale factors *)
  Fixpoint scaling_run (d : K) (sf : option K) (calls : list (K * K)) : list K :=
    match calls with
    | [] => []
    | (t, a) :: r => let s := scaling_step d sf t a in s :: scaling_run d (Some s) r
    end.

  (* Aggregation._response on the already selected entries xs = x[self.select]:
       xagg = aggregation_function(xs); if scaling: self.sf = scaling(xs, xagg); return self.sf * xagg
     agg : the aggregation function, ext : np.min or np.max (AggScaling.f),
     damp = None: no scaling object (self.sf stays 1.0).  State = register of the scaling object. *)
  Definition response (agg ext : list K -> K) (damp : option K) (sf : option K) (xs : list K) : K * option K :=
    let xagg := agg xs in
    match damp with
    | None => (none_ * xagg, sf)
    | Some d => let s := scaling_step d sf (ext xs) xagg in (s * xagg, Some s)
    end.

  (* a history of response() calls on one module *)
  Fixpoint response_run (agg ext : list K -> K) (damp : option K) (sf : option K) (hist : list (list K)) : list K :=
    match hist with
    | [] => []
    | xs :: r => let q := response agg ext damp sf xs in fst q :: response_run agg ext damp (snd q) r
    end.

  (* a history of response() calls on ONE module whose aggregation parameter (PNorm.p, KSFunction.rho, SoftMinMax.alpha)
     is re-assigned between the calls (continuation, sign flips): aggregation_function reads self.p / self.rho /
     self.alpha at every call, so the aggregation function of call k is that of the CURRENT parameter:
     hist = [(agg_k, x[select]_k)].  The register of the scaling object is carried across the calls as before. *)
  Fixpoint response_run_par (ext : list K -> K) (damp : option K) (sf : option K)
           (hist : list ((list K -> K) * list K)) : list K :=
    match hist with
    | [] => []
    | (agg, xs) :: r => let q := response agg ext damp sf xs in fst q :: response_run_par ext damp (snd q) r
    end.
End Scaling.

(* ---- evaluation instance for the correspondence check (Q; floats are converted exactly) *)
From Coq Require Import QArith PrimFloat.
From Pymoto Require Import Base.PyFloat.

(* np.max / np.min over Q *)
Definition qext (is_max : bool) (l : list Q) : Q :=
  match l with
  | [] => 0%Q
  | h :: t => fold_left (fun m v => if is_max then (if Qle_bool m v then v else m) else (if Qle_bool v m then v else m)) t h
  end.

(* exact rational value of a binary64 number *)
Definition f2q (f : float) : Q := let q := float_to_Zpair f in Qred (Qmake (fst q) (Z.to_pos (snd q))).

(* a history of response() calls in which the value of aggregation_function at step k is supplied
   (observed from the implementation and validated separately against the R formulas by `interval`):
   hist = [(x[select]_k, xagg_k)] *)
Fixpoint response_run_obs (is_max : bool) (damp : option Q) (sf : option Q) (hist : list (list Q * Q)) : list Q :=
  match hist with
  | [] => []
  | (xs, a) :: r =>
      let q := response (fun _ => a) (qext is_max) damp sf xs in
      fst q :: response_run_obs is_max damp (snd q) r
  end.
