(* Executable model of pymoto.EigenSolve (pymoto/modules/linalg.py): _prepare, _response, _sparse_eigs.
   Definitions only (proofs: Proofs/EigP.v).

   The library eigen-decompositions (scipy.linalg.eigh / eig, scipy.sparse.linalg.eigsh / eigs) are NOT
   modelled: `response` returns the *call* the module makes (which routine, with which matrices, k, sigma,
   mode and which shift-invert operator); the raw result (W, Q) of that call is an input of `postprocess`
   (an oracle: in the theorems a hypothesis `contract`, in the correspondence check the recorded library
   output on which Coq re-checks the contract).  What pyMOTO adds is modelled as written:
     - is_hermitian detection (np.allclose based, cached in the module after the first call) and the
       dense/sparse, Hermitian/general dispatch,
     - W[isort], Q[:, isort] for the index list returned by the sorting function (default np.argsort),
     - the normalisation loop  sf = sgn / sqrt(q^T B q)  (bilinear form, sign from the real part of the mean),
       `assert isfinite(sf)`, in-place scaling of the view Q[:, i],
     - the state machine of _sparse_eigs: nmodes / sigma defaults, mat_shifted = A - sigma B (B := I when
       absent and sigma != 0), creation of the solver `Ainv`, the do_solve flag, Ainv.update(mat_shifted).
   Number domain: any `Num K` plus the operations in `EigOps K`; instances at the end: R (theorems),
   dyadic numbers (float64 data) and pairs of them (complex128 data) for evaluation on the exact values
   of the floats. *)
From Coq Require Import ZArith QArith Qabs Reals List Bool.
From Pymoto Require Import Base.Num Base.QMat.
Import ListNotations.

Inductive err := EAssert | EIndex | ENotImpl | EOther.
Inductive res (A : Type) : Type := Ok (a : A) | Err (e : err).
Arguments Ok {A} a.
Arguments Err {A} e.

Definition err_eqb (a b : err) : bool :=
  match a, b with
  | EAssert, EAssert | EIndex, EIndex | ENotImpl, ENotImpl | EOther, EOther => true
  | _, _ => false
  end.

(* operations of the scalar type beyond the ring signature *)
Record EigOps (K : Type) : Type := {
  ksqrt : K -> K;              (* np.sqrt (principal branch on complex data) *)
  knormable : K -> bool;       (* np.isfinite(1 / np.sqrt(v)):  v > 0 on float64 data, v != 0 on complex128 data *)
  kre_nonneg : K -> bool;      (* np.real(x) >= 0 *)
  kleb : K -> K -> bool;       (* order of np.argsort: <= on reals, lexicographic (re, im) on complex *)
  kabs2 : K -> K;              (* |x|^2 (order-equivalent to np.abs for sorting keys) *)
  kconj : K -> K;
  keqb : K -> K -> bool;       (* x == y *)
  kclose_np : K -> K -> bool;  (* np.isclose(a, b) = |a - b| <= 1e-8 + 1e-5 |b| *)
  ksmall_np : K -> bool        (* np.isclose(a, 0) = |a| <= 1e-8 *)
}.
Arguments ksqrt {K} _ _.
Arguments knormable {K} _ _.
Arguments kre_nonneg {K} _ _.
Arguments kleb {K} _ _ _.
Arguments kabs2 {K} _ _.
Arguments kconj {K} _ _.
Arguments keqb {K} _ _ _.
Arguments kclose_np {K} _ _ _.
Arguments ksmall_np {K} _ _.

(* ---------------------------------------------------------------------------------------------- *)
(* np.argsort as a stable insertion sort on indices                                                *)
Section Sort.
  Context {K : Type}.
  Variable leb : K -> K -> bool.
  Variable key : nat -> K.

  Fixpoint ins (i : nat) (l : list nat) : list nat :=
    match l with
    | [] => [i]
    | j :: t => if leb (key j) (key i) then j :: ins i t else i :: j :: t
    end.
  Definition isort_from (idx : list nat) (acc : list nat) : list nat :=
    fold_left (fun l i => ins i l) idx acc.
End Sort.

Section Model.
  Context {K : Type} `{Num K}.
  Variable ops : EigOps K.
  Local Notation mat := (@QMat.mat K).

  Definition argsort (keys : list K) : list nat :=
    isort_from (kleb ops) (fun j => nth j keys nzero) (seq 0 (length keys)) [].

  (* the default  sorting_func = lambda W, Q: np.argsort(W)  and the custom ones the harness uses *)
  Definition sortfn : Type := list K -> mat -> list nat.
  Definition sort_default : sortfn := fun W _ => argsort W.
  Definition sort_desc : sortfn := fun W _ => argsort (map nopp W).                 (* np.argsort(-W) *)
  Definition sort_rev : sortfn := fun W _ => rev (argsort W).                        (* np.argsort(W)[::-1] *)
  Definition sort_abs : sortfn := fun W _ => argsort (map (kabs2 ops) W).            (* np.argsort(np.abs(W)) *)
  Definition sort_dist (t : K) : sortfn :=                                           (* np.argsort(np.abs(W - t)) *)
    fun W _ => argsort (map (fun w => kabs2 ops (nsub w t)) W).
  Definition sort_firstk (k : nat) : sortfn := fun W _ => firstn k (argsort W).      (* np.argsort(W)[:k] *)
  Definition sort_row0 : sortfn :=                                                   (* np.argsort(-np.abs(Q[0, :])) *)
    fun _ Qm => argsort (map (fun x => nopp (kabs2 ops x)) (nth 0 Qm [])).
  Definition sort_const (idx : list nat) : sortfn := fun _ _ => idx.                 (* a fixed index list *)

  (* ---- the eigenpair contract of the library call:  A q_i = lambda_i M q_i  (M = None: identity) ---- *)
  Definition Bmul (B : option mat) (q : list K) : list K :=
    match B with None => q | Some b => mv b q end.
  Definition eigpair (A : mat) (B : option mat) (lam : K) (q : list K) : Prop :=
    mv A q = vscale lam (Bmul B q).
  Definition contract (A : mat) (B : option mat) (W : list K) (Qm : mat) : Prop :=
    ncols_ok (length W) Qm /\
    forall i, (i < length W)%nat -> eigpair A B (nth i W nzero) (getcol i Qm).
  (* q^T B q, the bilinear form of the documentation *)
  Definition bform (B : option mat) (q : list K) : K := dot q (Bmul B q).

  (* ---- the normalisation loop of _response ---- *)
  Definition norm_factor (B : option mat) (qi : list K) : K :=
    let normval := ksqrt ops (bform B qi) in                                          (* np.sqrt(qi @ Bqi) *)
    let sgn := if kre_nonneg ops (navg qi) then none_ else nopp none_ in              (* real(average) >= 0 *)
    ndiv sgn normval.
  Definition norm_step (B : option mat) (acc : res mat) (i : nat) : res mat :=
    match acc with
    | Err e => Err e
    | Ok Qm =>
        let qi := getcol i Qm in                                                      (* view Q[:, i] *)
        if knormable ops (bform B qi)                                                 (* assert np.isfinite(sf) *)
        then Ok (scale_col i (norm_factor B qi) Qm)                                   (* qi *= sf *)
        else Err EAssert
    end.
  Definition normalise (B : option mat) (nW : nat) (Qm : mat) : res mat :=
    fold_left (norm_step B) (seq 0 nW) (Ok Qm).

  (* ---- sorting + normalisation: everything _response does after the library call ---- *)
  Definition postprocess (sf : sortfn) (B : option mat) (W : list K) (Qm : mat) : res (list K * mat) :=
    let isort := sf W Qm in
    if negb (forallb (fun i => Nat.ltb i (length W)) isort) then Err EIndex
    else
      let W' := take isort W in
      let Q' := take_cols isort Qm in
      match normalise B (length W') Q' with
      | Ok Q'' => Ok (W', Q'')
      | Err e => Err e
      end.

  (* ---- Hermitian detection (pymoto.solvers.matrix_is_hermitian) ---- *)
  (* dense:  np.allclose(A, A.T.conj());  sparse:  np.allclose((A - A.T.conj()).data, 0) *)
  Definition entry (M : mat) (i j : nat) : K := nth j (nth i M []) nzero.
  Definition is_hermitian_mat (sparse : bool) (M : mat) : bool :=
    let n := length M in
    forallb (fun i => forallb (fun j =>
      if sparse then ksmall_np ops (nsub (entry M i j) (kconj ops (entry M j i)))
      else kclose_np ops (entry M i j) (kconj ops (entry M j i))) (seq 0 n)) (seq 0 n).

  (* ---- module state and the library call it issues ---- *)
  Inductive libfun := EIGH | EIG | EIGSH | EIGS.
  Definition libfun_eqb (a b : libfun) : bool :=
    match a, b with EIGH, EIGH | EIG, EIG | EIGSH, EIGSH | EIGS, EIGS => true | _, _ => false end.

  Record pencil : Type := {
    pA : mat; pAsp : bool;                  (* A and whether it is a scipy sparse matrix *)
    pB : option mat; pBsp : bool            (* B (optional second input signal) *)
  }.
  (* solver object: (kind chosen by auto_determine_solver at creation, matrix of the last update) *)
  Definition solver : Type := (nat * option mat)%type.
  Record estate : Type := {
    sHerm : option bool;                    (* self.is_hermitian *)
    sNmodes : option Z;                     (* self.nmodes *)
    sSigma : option K;                      (* self.sigma *)
    sMode : nat;                            (* self.mode: 0 'normal', 1 'buckling', 2 'cayley' *)
    sAinv : option solver;                  (* self.Ainv *)
    sDoSolve : bool;                        (* self.do_solve *)
    sAdjUpd : bool                          (* self.adjoint_solvers_need_update *)
  }.
  Record libcall : Type := {
    cFun : libfun; cA : mat; cM : option mat;
    cMisB : bool;                           (* M is the module's own input B (not the identity made for the shift) *)
    cK : option Z; cSigma : option K; cMode : option nat;
    cOPinv : option solver                  (* the object behind the LinearOperator passed as OPinv *)
  }.

  (* _prepare *)
  Definition prepare (hermitian : option bool) (nmodes : option Z) (sigma : option K) (mode : nat) : estate :=
    {| sHerm := hermitian; sNmodes := nmodes; sSigma := sigma; sMode := mode;
       sAinv := None; sDoSolve := false; sAdjUpd := true |}.

  (* auto_determine_solver(mat_shifted, ishermitian=...) only chooses the kind of solver; oracle *)
  Variable auto_solver : mat -> bool -> nat.

  Definition truthy_sigma_zero (s : K) : bool := keqb ops s nzero.

  (* _sparse_eigs *)
  Definition sparse_eigs (st : estate) (herm : bool) (A : mat) (B : option mat) : estate * res libcall :=
    let nmodes := match sNmodes st with None => 6%Z | Some k => k end in
    let sigma := match sSigma st with None => nzero | Some s => s end in
    let '(B', misB, mat_shifted) :=
      if truthy_sigma_zero sigma then (B, true, A)
      else
        let Bv := match B with None => eye (length A) | Some b => b end in
        (Some Bv, match B with None => false | Some _ => true end, mshift A sigma Bv) in
    let '(ainv1, ds1) :=
      match sAinv st with
      | None => ((auto_solver mat_shifted herm, None), true)
      | Some s => (s, sDoSolve st)
      end in
    let ds2 := if negb (truthy_sigma_zero sigma) then true else ds1 in
    let ainv2 : solver := if ds2 then (fst ainv1, Some mat_shifted) else ainv1 in      (* Ainv.update(mat_shifted) *)
    let st' := {| sHerm := Some herm; sNmodes := Some nmodes; sSigma := Some sigma; sMode := sMode st;
                  sAinv := Some ainv2; sDoSolve := ds2; sAdjUpd := true |} in
    if herm then
      (st', Ok {| cFun := EIGSH; cA := A; cM := B'; cMisB := misB; cK := Some nmodes; cSigma := Some sigma;
                  cMode := Some (sMode st); cOPinv := Some ainv2 |})
    else if negb (Nat.eqb (sMode st) 0) then (st', Err ENotImpl)
    else
      (st', Ok {| cFun := EIGS; cA := A; cM := B'; cMisB := misB; cK := Some nmodes; cSigma := Some sigma;
                  cMode := None; cOPinv := Some ainv2 |}).

  (* self.is_sparse / self.is_hermitian as computed at the top of _response *)
  Definition pencil_sparse (p : pencil) : bool :=
    pAsp p && match pB p with None => true | Some _ => pBsp p end.
  Definition herm_flag (st : estate) (p : pencil) : bool :=
    match sHerm st with
    | Some h => h
    | None => is_hermitian_mat (pAsp p) (pA p) &&
              match pB p with None => true | Some b => is_hermitian_mat (pBsp p) b end
    end.

  (* _response up to and including the library call *)
  Definition response (st : estate) (p : pencil) : estate * res libcall :=
    let herm := herm_flag st p in
    if pencil_sparse p then sparse_eigs st herm (pA p) (pB p)
    else
      ({| sHerm := Some herm; sNmodes := sNmodes st; sSigma := sSigma st; sMode := sMode st;
          sAinv := sAinv st; sDoSolve := sDoSolve st; sAdjUpd := true |},
       Ok {| cFun := if herm then EIGH else EIG; cA := pA p; cM := pB p; cMisB := true;
             cK := None; cSigma := None; cMode := None; cOPinv := None |}).

  (* histories: the user may assign m.sigma between calls *)
  Inductive op := OpCall (p : pencil) | OpSetSigma (s : option K).
  Definition step (st : estate) (o : op) : estate * option (res libcall) :=
    match o with
    | OpCall p => let '(st', c) := response st p in (st', Some c)
    | OpSetSigma s =>
        ({| sHerm := sHerm st; sNmodes := sNmodes st; sSigma := s; sMode := sMode st;
            sAinv := sAinv st; sDoSolve := sDoSolve st; sAdjUpd := sAdjUpd st |}, None)
    end.
  Fixpoint run (st : estate) (os : list op) : list (option (res libcall)) :=
    match os with
    | [] => []
    | o :: t => let '(st', c) := step st o in c :: run st' t
    end.
  Fixpoint run_state (st : estate) (os : list op) : estate :=
    match os with
    | [] => st
    | o :: t => run_state (fst (step st o)) t
    end.

  (* the matrix A - sigma B the shift-invert operator of a call must invert *)
  Definition shifted_of (sigma : option K) (p : pencil) : mat :=
    let s := match sigma with None => nzero | Some s => s end in
    if truthy_sigma_zero s then pA p
    else mshift (pA p) s (match pB p with None => eye (length (pA p)) | Some b => b end).

  (* what the library call issued in state st on pencil p must look like: the operator passed as OPinv is a solver
     whose last update was with the CURRENT A - sigma B, and k / sigma / M are the current nmodes (default 6),
     sigma (default 0) and B (identity when absent and sigma <> 0) *)
  Definition call_current (st : estate) (p : pencil) (c : libcall) : Prop :=
    if pencil_sparse p then
      exists kind,
        cOPinv c = Some (kind, Some (shifted_of (sSigma st) p)) /\
        cK c = Some (match sNmodes st with None => 6%Z | Some k => k end) /\
        cSigma c = Some (match sSigma st with None => nzero | Some s => s end) /\
        cM c = (if truthy_sigma_zero (match sSigma st with None => nzero | Some s => s end) then pB p
                else Some (match pB p with None => eye (length (pA p)) | Some b => b end))
    else cOPinv c = None /\ cM c = pB p.
  (* ... for every call of a history *)
  Fixpoint history_current (st : estate) (os : list op) : Prop :=
    match os with
    | [] => True
    | o :: t =>
        match o with
        | OpCall p => match snd (response st p) with
                      | Ok c => call_current st p c
                      | Err _ => True
                      end
        | OpSetSigma _ => True
        end /\ history_current (fst (step st o)) t
    end.

  (* contract of np.sqrt on the values that pass the assertion *)
  Definition sqrt_contract : Prop :=
    forall v, knormable ops v = true -> nmul (ksqrt ops v) (ksqrt ops v) = v /\ v <> nzero.

  (* ============================================================================================ *)
  (* correspondence checks (evaluated by vm_compute in the generated case files)                    *)
  Variable close : Q -> K -> K -> bool.        (* |a - b| <= tol *)

  Definition vclose (tol : Q) (a b : list K) : bool :=
    Nat.eqb (length a) (length b) && forallb (fun p => close tol (fst p) (snd p)) (combine a b).
  Definition mclose (tol : Q) (a b : mat) : bool :=
    Nat.eqb (length a) (length b) && forallb (fun p => vclose tol (fst p) (snd p)) (combine a b).

  (* toleranced version of `contract` on recorded library output *)
  Definition contract_ok (tol : Q) (A : mat) (B : option mat) (W : list K) (Qm : mat) : bool :=
    forallb (fun r => Nat.eqb (length r) (length W)) Qm &&
    forallb (fun i => let q := getcol i Qm in
                      vclose tol (mv A q) (vscale (nth i W nzero) (Bmul B q))) (seq 0 (length W)).

  (* columns compared strictly or up to sign (complex vectors / vectors with ~zero mean) *)
  Definition cols_close (tol : Q) (strict : list bool) (a b : mat) : bool :=
    Nat.eqb (length a) (length b) &&
    forallb (fun r => Nat.eqb (length r) (length strict)) a &&
    forallb (fun r => Nat.eqb (length r) (length strict)) b &&
    forallb (fun j =>
      let ca := getcol j a in let cb := getcol j b in
      vclose tol ca cb || (negb (nth j strict true) && vclose tol (map nopp ca) cb)) (seq 0 (length strict)).

  Inductive obsM := MNone | MSameB | MEye | MOther.
  Record obs : Type := {
    oLevel : nat;                      (* 0: everything; 1: dispatch only (library raised / class changed) *)
    oFun : option libfun;              (* recorded library routine (None: none was called) *)
    oK : option Z; oSigma : option K; oMode : option nat; oM : obsM;
    oProbe : option (list K * list K); (* (b, x) with x = OPinv.matvec(b) observed at call time *)
    oRawW : list K; oRawQ : mat;       (* what the library returned *)
    oAlt : list (libfun * (list K * mat)); (* level 2 only: results of the dense routines called by the harness itself *)
    oOut : res (list K * mat);         (* what the module returned / the exception class *)
    oStrict : list bool;               (* per RAW column: compare strictly (true) or up to sign *)
    oTolC : Q; oTolW : Q; oTolQ : Q; oTolP : Q
  }.

  Definition optZ_eqb (a b : option Z) : bool :=
    match a, b with None, None => true | Some x, Some y => Z.eqb x y | _, _ => false end.
  Definition optK_eqb (a b : option K) : bool :=
    match a, b with None, None => true | Some x, Some y => keqb ops x y | _, _ => false end.
  Definition optN_eqb (a b : option nat) : bool :=
    match a, b with None, None => true | Some x, Some y => Nat.eqb x y | _, _ => false end.
  Definition obsM_ok (c : libcall) (o : obsM) : bool :=
    match cM c, o with
    | None, MNone => true
    | Some _, MSameB => cMisB c
    | Some _, MEye => negb (cMisB c)
    | _, _ => false
    end.

  Definition dispatch_ok (c : libcall) (o : obs) : bool :=
    match oFun o with Some f => libfun_eqb f (cFun c) | None => false end &&
    optZ_eqb (cK c) (oK o) && optK_eqb (cSigma c) (oSigma o) && optN_eqb (cMode c) (oMode o) &&
    obsM_ok c (oM o).

  Definition probe_ok (c : libcall) (o : obs) : bool :=
    match oProbe o, cOPinv c with
    | None, None => true
    | Some (b, x), Some (_, Some m) => vclose (oTolP o) (mv m x) b
    | _, _ => false
    end.
  (* when a probe was taken it must fit, whatever happened afterwards (e.g. ARPACK raised) *)
  Definition probe_if_any (c : libcall) (o : obs) : bool :=
    match oProbe o with None => true | Some _ => probe_ok c o end.

  (* oLevel 0: everything; 1: dispatch only (the library raised / the matrix class changed in a history);
     2: the library call could not be recorded (fallback): dense routines are re-run by the harness (oAlt) and the
        MODEL's dispatch picks the result; for ARPACK (not reproducible) the module's own output serves as the oracle
        value (post-processing must then be idempotent up to sign); the recorded dispatch is not compared *)
  Definition check_call (sf : sortfn) (st : estate) (p : pencil) (o : obs) : estate * bool :=
    let '(st', rc) := response st p in
    (st',
     match rc with
     | Err e => match oFun o, oOut o with None, Err e' => err_eqb e e' | _, _ => false end
     | Ok c =>
         (Nat.eqb (oLevel o) 2 || dispatch_ok c o) && probe_if_any c o &&
         (Nat.eqb (oLevel o) 1 ||
          (let '(rW, rQ) :=
             if Nat.eqb (oLevel o) 2 then
               match find (fun a => libfun_eqb (fst a) (cFun c)) (oAlt o) with
               | Some (_, r) => r
               | None => (oRawW o, oRawQ o)
               end
             else (oRawW o, oRawQ o) in
           (Nat.eqb (oLevel o) 2 || probe_ok c o) &&
           contract_ok (oTolC o) (cA c) (cM c) rW rQ &&
           match postprocess sf (pB p) rW rQ, oOut o with
           | Ok (W, Qm), Ok (W', Qm') =>
               vclose (oTolW o) W W' &&
               cols_close (oTolQ o) (map (fun i => nth i (oStrict o) true) (sf rW rQ)) Qm Qm'
           | Err e, Err e' => err_eqb e e'
           | _, _ => false
           end))
     end).

  Inductive hop := HCall (p : pencil) (o : obs) | HSetSigma (s : option K).
  Fixpoint check_history (sf : sortfn) (st : estate) (h : list hop) : bool :=
    match h with
    | [] => true
    | HCall p o :: t => let '(st', ok) := check_call sf st p o in ok && check_history sf st' t
    | HSetSigma s :: t => check_history sf (fst (step st (OpSetSigma s))) t
    end.
End Model.

(* ================================================================================================ *)
(* instances                                                                                         *)

(* --- float64 data as exact dyadic numbers --- *)
Definition np_atol : Q := (1 # 100000000)%Q.
Definition np_rtol : Q := (1 # 100000)%Q.
Definition opsD : EigOps Dy := {|
  ksqrt := dy_sqrt;
  knormable := fun v => (0 <? fst v)%Z;
  kre_nonneg := fun x => (0 <=? fst x)%Z;
  kleb := dy_leb;
  kabs2 := fun x => dy_mul x x;
  kconj := fun x => x;
  keqb := dy_eqb;
  kclose_np := fun a b => Qle_bool (dy2Q (dy_abs (dy_sub a b))) (np_atol + np_rtol * dy2Q (dy_abs b));
  ksmall_np := fun a => Qle_bool (dy2Q (dy_abs a)) np_atol
|}.
Definition closeD (tol : Q) (a b : Dy) : bool := dy_le_Q (dy_abs (dy_sub a b)) tol.

(* --- complex128 data as pairs of dyadic numbers --- *)
Definition dc_lexleb (a b : DyC) : bool :=
  if dy_eqb (fst a) (fst b) then dy_leb (snd a) (snd b) else dy_leb (fst a) (fst b).
(* |a - b| <= atol + rtol |b| on complex numbers; the square roots are avoided when |a - b| <= atol or
   |a - b| > atol + rtol (|re b| + |im b|) already decide *)
Definition dc_isclose (a b : DyC) : bool :=
  let d2 := dy2Q (dc_abs2 (dc_sub a b)) in
  if Qle_bool d2 (np_atol * np_atol) then true
  else
    let ub := np_atol + np_rtol * (dy2Q (dy_abs (fst b)) + dy2Q (dy_abs (snd b))) in
    if negb (Qle_bool d2 (ub * ub)) then false
    else Qle_bool (dy2Q (dy_sqrt (dc_abs2 (dc_sub a b)))) (np_atol + np_rtol * dy2Q (dy_sqrt (dc_abs2 b))).
Definition opsDC : EigOps DyC := {|
  ksqrt := dc_sqrt;
  knormable := fun v => negb (dy_eqb (fst v) dy0 && dy_eqb (snd v) dy0);
  kre_nonneg := fun x => (0 <=? fst (fst x))%Z;
  kleb := dc_lexleb;
  kabs2 := fun x => (dc_abs2 x, dy0);
  kconj := dc_conj;
  keqb := fun a b => dy_eqb (fst a) (fst b) && dy_eqb (snd a) (snd b);
  kclose_np := dc_isclose;
  ksmall_np := fun a => Qle_bool (dy2Q (dc_abs2 a)) (np_atol * np_atol)
|}.
Definition closeDC (tol : Q) (a b : DyC) : bool := closeD tol (fst a) (fst b) && closeD tol (snd a) (snd b).

(* --- the reals (theorems): the true square root, decidable order by excluded middle on R --- *)
Definition Rleb (a b : R) : bool := if Rle_dec a b then true else false.
Definition opsR : EigOps R := {|
  ksqrt := sqrt;
  knormable := fun v => if Rlt_dec 0 v then true else false;
  kre_nonneg := fun x => Rleb 0 x;
  kleb := Rleb;
  kabs2 := fun x => (x * x)%R;
  kconj := fun x => x;
  keqb := fun a b => if Req_EM_T a b then true else false;
  kclose_np := fun a b => Rleb (Rabs (a - b)) (1 / 100000000 + 1 / 100000 * Rabs b)%R;
  ksmall_np := fun a => Rleb (Rabs a) (1 / 100000000)%R
|}.

(* entry points of the generated case files: the model at the two evaluation instances *)
Definition chkQ := @check_history Dy NumDy opsD (fun _ _ => O) closeD.
Definition chkC := @check_history DyC NumDyC opsDC (fun _ _ => O) closeDC.
Definition of_rowsQ := @of_rows Dy NumDy.
Definition of_rowsC := @of_rows DyC NumDyC.
Definition sortQ_default := @sort_default Dy NumDy opsD.
Definition sortQ_desc := @sort_desc Dy NumDy opsD.
Definition sortQ_rev := @sort_rev Dy NumDy opsD.
Definition sortQ_abs := @sort_abs Dy NumDy opsD.
Definition sortQ_dist := @sort_dist Dy NumDy opsD.
Definition sortQ_firstk := @sort_firstk Dy NumDy opsD.
Definition sortQ_row0 := @sort_row0 Dy NumDy opsD.
Definition sortC_default := @sort_default DyC NumDyC opsDC.
Definition sortC_desc := @sort_desc DyC NumDyC opsDC.
Definition sortC_rev := @sort_rev DyC NumDyC opsDC.
Definition sortC_abs := @sort_abs DyC NumDyC opsDC.
Definition sortC_dist := @sort_dist DyC NumDyC opsDC.
Definition sortC_firstk := @sort_firstk DyC NumDyC opsDC.
Definition sortC_row0 := @sort_row0 DyC NumDyC opsDC.

(* concrete instances for the non-vacuity examples of Props/C11.v *)
Definition exA : @QMat.mat R := [[2; 0]; [0; 1]]%R.
Definition exW : list R := [2; 1]%R.
Definition exQ : @QMat.mat R := [[-1; 0]; [0; 2]]%R.
(* a three-call history on the dyadic instance: default sigma, then m.sigma = 2, changing A *)
Definition dz (z : Z) : Dy := (z, 0%Z).
Definition exP1 : @pencil Dy := Build_pencil [[dz 2; dz 1]; [dz 1; dz 3]] true None false.
Definition exP2 : @pencil Dy := Build_pencil [[dz 5; dz 1]; [dz 1; dz 4]] true None false.
Definition ex_history : list (@op Dy) := [OpCall exP1; OpCall exP2; OpSetSigma (Some (dz 2)); OpCall exP1].
Definition ex_opinvs : list (option (@QMat.mat Dy)) :=
  map (fun c => match c with
                | Some (Ok c) => match @cOPinv Dy c with Some (_, m) => m | None => None end
                | _ => None
                end)
      (@run Dy NumDy opsD (fun _ _ => O) (prepare None None None 0) ex_history).
