(* Object-level model of how a pymoto Network comes into being (pymoto/core_objects.py, Network.__init__ /
   Network.append) and of the value types Signal.add_sensitivity accumulates (C02).  Definitions only.

   A Network OBJECT carries more than its member list: every call of ITS OWN append() recomputes the attributes
   sig_in / sig_out from the attributes its members have AT THAT MOMENT.  Networks are mutable and held by reference:
   `outer.append(inner); inner.append(m)` extends the member list outer sees, but outer.sig_in / outer.sig_out are not
   recomputed (they are stale).  Network.response / Network.sensitivity / Network.reset iterate self.mods and read
   self.print_timing; they never read sig_in / sig_out.  So the behaviour is a function of the final member tree:
   `ofold` below is the only read-out of an object that the evaluation uses, and it cannot see the stored lists. *)
From Coq Require Import List Arith Bool ZArith.
From Pymoto Require Import Base.Num Model.Net.
Import ListNotations.

(* l[i] = f(l[i]) ; out-of-range index: unchanged *)
Fixpoint map_nth {X : Type} (i : nat) (f : X -> X) (l : list X) : list X :=
  match l, i with
  | [], _ => []
  | x :: r, O => f x :: r
  | x :: r, S i' => x :: map_nth i' f r
  end.

Fixpoint set_nth {X : Type} (i : nat) (v : X) (l : list X) : list X :=
  match l, i with
  | [], _ => []
  | _ :: r, O => v :: r
  | x :: r, S i' => x :: set_nth i' v r
  end.

Section Objects.
  Variable A : Type.                          (* module objects (leaves) *)
  Variable a_ins : A -> list ref.             (* their sig_in *)
  Variable a_outs : A -> list nat.            (* their sig_out *)

  (* a module, or a Network object: print_timing, stored sig_in, stored sig_out, self.mods *)
  Inductive obj : Type :=
  | OLeaf (a : A)
  | ONet (tm : timing) (si : list ref) (so : list nat) (l : list obj).

  Definition obj_ins (o : obj) : list ref := match o with OLeaf a => a_ins a | ONet _ si _ _ => si end.
  Definition obj_outs (o : obj) : list nat := match o with OLeaf a => a_outs a | ONet _ _ so _ => so end.

  (* a whole signal that is produced inside (SignalSlice objects are never members of all_out) *)
  Definition whole_in (outs : list nat) (r : ref) : bool :=
    match r with RSig s => existsb (Nat.eqb s) outs | RSlice _ _ => false | RLost _ _ => false end.

  (* Network() *)
  Definition new_net (tm : timing) : obj := ONet tm [] [] [].

  (* self.append(x):  self.mods.extend([x]);  all_in / all_out = union over self.mods of m.sig_in / m.sig_out (the
     CURRENT attributes of the members; sets: only membership means anything);  self.sig_in = all_in - all_out;
     self.sig_out = all_out *)
  Definition append_here (x : obj) (o : obj) : obj :=
    match o with
    | OLeaf a => OLeaf a
    | ONet tm _ _ l =>
      let l' := l ++ [x] in
      let outs := flat_map obj_outs l' in
      ONet tm (filter (fun r => negb (whole_in outs r)) (flat_map obj_ins l')) outs l'
    end.

  (* the same call on a network that sits at `path` (member indices) below o: the shared object is extended, the
     networks above it are not told *)
  Fixpoint append_at (path : list nat) (x : obj) (o : obj) : obj :=
    match path with
    | [] => append_here x o
    | i :: p =>
      match o with
      | OLeaf a => OLeaf a
      | ONet tm si so l => ONet tm si so (map_nth i (append_at p x) l)
      end
    end.

  (* a construction history over a pool of objects (index = python object; None = has become a member of another
     one and is from then on addressed through that one):
     Attach src dst path  =  (network at `path` below pool[dst]).append(pool[src]) *)
  Inductive bop : Type := Attach (src dst : nat) (path : list nat).

  Definition step (st : list (option obj)) (op : bop) : list (option obj) :=
    match op with
    | Attach src dst path =>
      if Nat.eqb src dst then st else
      match nth src st None, nth dst st None with
      | Some x, Some o => set_nth dst (Some (append_at path x o)) (set_nth src None st)
      | _, _ => st
      end
    end.

  Definition run_history (ops : list bop) (st : list (option obj)) : list (option obj) := fold_left step ops st.
  (* the outer network is object 0 *)
  Definition built (ops : list bop) (st : list (option obj)) : option obj := nth 0 (run_history ops st) None.

  (* the only read-out used by response / sensitivity / reset: self.mods (recursively) and self.print_timing *)
  Fixpoint ofold {B : Type} (leaf : A -> B) (net : timing -> list B -> B) (o : obj) : B :=
    match o with
    | OLeaf a => leaf a
    | ONet tm _ _ l => net tm (map (ofold leaf net) l)
    end.

  (* the object with its stored signal lists blanked *)
  Definition bare (o : obj) : obj := ofold OLeaf (fun tm l => ONet tm [] [] l) o.
End Objects.

Arguments OLeaf {A} a.
Arguments ONet {A} tm si so l.
Arguments new_net {A} tm.
Arguments obj_outs {A} a_outs o.
Arguments obj_ins {A} a_ins o.
Arguments append_here {A} a_ins a_outs x o.
Arguments append_at {A} a_ins a_outs path x o.
Arguments step {A} a_ins a_outs st op.
Arguments run_history {A} a_ins a_outs ops st.
Arguments built {A} a_ins a_outs ops st.
Arguments ofold {A B} leaf net o.
Arguments bare {A} o.

Section Behaviour.
  Context {K : Type} `{NK : Num K}.

  (* objects whose leaves are arbitrary modules (user-defined ones included) *)
  Definition mobj : Type := obj (module K).
  Definition obj_node (o : mobj) : node K := ofold (@NMod K) (@NNet K) o.
  (* Network.response / Network.sensitivity of the object *)
  Definition fwd_obj (o : mobj) (t : tenv K) : tenv K := fwd_node (obj_node o) t.
  Definition bwd_obj (dims : nat -> nat) (o : mobj) (c : cenv K) : cenv K := bwd_node dims (obj_node o) c.
  Definition mappend_at := append_at (@m_ins K) (fun m : module K => m_outs m).
  Definition mbuilt := built (@m_ins K) (fun m : module K => m_outs m).

  (* objects whose leaves are block-matrix modules given as data (what the case files contain) *)
  Definition spec : Type := (list ref * list nat * lin K)%type.
  Definition spec_ins (p : spec) : list ref := fst (fst p).
  Definition spec_outs (p : spec) : list nat := snd (fst p).
  Definition sobj : Type := obj spec.
  Definition obj_stree (o : sobj) : stree K :=
    ofold (fun p : spec => SMod (spec_ins p) (spec_outs p) (snd p)) (@SNet K) o.
  Definition sbuilt := built spec_ins spec_outs.

  (* a module without outputs whose _sensitivity hands out fixed contributions (it "injects" sensitivities: a response
     that is accounted for outside the network, e.g. a penalty written to a log).  Module.sensitivity never skips it:
     the early exit asks for len(self.sig_out) > 0. *)
  Definition injmod (ins : list ref) (d : list (option (vec K))) : module K :=
    {| m_ins := ins; m_outs := []; m_fwd := fun _ => []; m_adj := fun _ => d |}.

  (* ---- Signal.add_sensitivity on a whole signal, by the way the stored sensitivity OBJECT accumulates.
     AccIadd: ndarray, float, DyadCarrier, user classes with __iadd__:
         `self.sensitivity += ds`  is  self.sensitivity = self.sensitivity.__iadd__(ds); __iadd__ returns the updated
         object (python protocol).
     AccMethod r: user classes with their own add_sensitivity(ds) ("custom add_sensitivity" branch, taken first when the
         attribute exists): the call updates the object in place; what it RETURNS (None when r = false, the object
         itself when r = true) is dropped, the attribute keeps referring to the updated object. *)
  Inductive acc_kind : Type := AccIadd | AccMethod (returns_self : bool).
  Definition method_result (returns_self : bool) (updated : vec K) : option (vec K) :=
    if returns_self then Some updated else None.
  Definition sig_add (k : acc_kind) (cur ds : option (vec K)) : option (vec K) :=
    match ds with
    | None => cur                                             (* if ds is None: return *)
    | Some d =>
      match cur with
      | None => Some d                                        (* copy.deepcopy(ds) *)
      | Some g =>
        match k with
        | AccMethod r => let updated := vadd g d in
                         let _dropped := method_result r updated in
                         Some updated                         (* self.sensitivity.add_sensitivity(ds) *)
        | AccIadd => Some (vadd g d)                          (* self.sensitivity += ds *)
        end
      end
    end.
End Behaviour.

(* ---- concrete instance over Z used by Props/C02.v: the network  y = x*x ; inner: z = 3 y ; g = y*z  at x = [1; 2]
   (Jacobians at the point), signals 0 = x, 1 = y, 2 = z, 3 = g; only g is seeded *)
Definition nb_sq : spec (K := Z) := ([RSig 0], [1], mkL [2] [2] [false] [(0, 0, [[2; 0]; [0; 4]]%Z)]).
Definition nb_scale : spec (K := Z) := ([RSig 1], [2], mkL [2] [2] [false] [(0, 0, [[3; 0]; [0; 3]]%Z)]).
Definition nb_mul : spec (K := Z) :=
  ([RSig 1; RSig 2], [3], mkL [2; 2] [2] [false; false] [(0, 0, [[3; 0]; [0; 12]]%Z); (0, 1, [[1; 0]; [0; 4]]%Z)]).
(* pool: 0 = outer, 1 = inner, 2.. = the three modules *)
Definition nb_pool : list (option (sobj (K := Z))) :=
  [Some (new_net TOff); Some (new_net TOff); Some (OLeaf nb_sq); Some (OLeaf nb_scale); Some (OLeaf nb_mul)].
(* inner is filled first and then placed in outer *)
Definition nb_fill_then_nest : list bop := [Attach 2 0 []; Attach 3 1 []; Attach 4 1 []; Attach 1 0 []].
(* outer.append(inner) first, inner.append(...) afterwards *)
Definition nb_nest_then_fill : list bop := [Attach 2 0 []; Attach 1 0 []; Attach 3 0 [1]; Attach 4 0 [1]].
Definition nb_seeds : list (option (list Z)) := [None; None; None; Some [1; 1]]%Z.
Definition nb_expected : list (option (list Z)) := [Some [12; 96]; Some [6; 24]; Some [1; 4]; Some [1; 1]]%Z.
