(* Histories on ONE module instance (C12, second part of the model of pymoto/modules/assembly.py).

   ElementOperation keeps state on the module between calls: `_response` re-assigns self.element_matrix when the
   operator has #nodes_per_element columns (repeat per dof), caches self.dofconn at the first call, and
   `_sensitivity` sizes its result by the state of the input signal of the last response.  NodalOperation prepares
   (element_matrix, dofconn, ndofs) once; `_response` allocates `np.zeros(self.ndofs)` at EVERY call and scatters
   into it.  Strain / Stress / ElementAverage are ElementOperations, ThermoMechanical is a NodalOperation with the
   operator arrays of Model/ElemOps.v, so the same two machines cover them.
   Definitions only; lemmas in Proofs/ElemHistP.v. *)
From Coq Require Import ZArith List Bool.
From Pymoto Require Import Base.Num Base.Qsqrt3 Base.SparseLin Base.FEMat Model.Grid Model.Shape Model.ElemMat Model.Assembly Model.ElemOps.
Import ListNotations.

Section ElemHist.
  Context {K : Type} `{Num K}.

  (* x.state = v; m.response()   |   y.sensitivity = dy; m.sensitivity() (after a reset) *)
  Inductive mop : Type := MResp (v : list (list K)) | MSens (dy : list (list K)).
  (* a nodal vector is the single row [u]; element data are the rows of the (..., nel) array *)
  Inductive mobs : Type := MOut (y : list (list K)) | MNone.

  Definition row1 (v : list (list K)) : list K := match v with r :: _ => r | [] => [] end.

  (* ---- ElementOperation ---- *)
  Record eo_st : Type := { es_em : @opmat K; es_dc : option (list (list Z)); es_n : Z }.
  Definition eo_prepare (em : @opmat K) : eo_st := {| es_em := em; es_dc := None; es_n := 0 |}.

  Definition eo_hstep (g : grid) (s : eo_st) (o : mop) : eo_st * mobs :=
    match o with
    | MResp v =>
        let u := row1 v in
        let ndof := eo_ndof g (Z.of_nat (length u)) in
        (* if self.element_matrix.shape[-1] != elemnodes*ndof: self.element_matrix = <repeated per dof> *)
        let em := eo_effective g (es_em s) ndof in
        (* if self.dofconn is None: self.dofconn = domain.get_dofconnectivity(ndof) *)
        let dc := match es_dc s with Some dc => dc | None => dofconn_all g ndof end in
        ({| es_em := em; es_dc := Some dc; es_n := Z.of_nat (length u) |}, MOut (op_fwd (om_rows em) dc u))
    | MSens dy =>
        match es_dc s with
        | None => (s, MNone)          (* no response yet: nothing to differentiate *)
        | Some dc =>
            (s, MOut [op_bwd (Z.to_nat (om_kd (es_em s))) (om_rows (es_em s)) dc (Z.to_nat (es_n s)) dy])
        end
    end.

  (* ---- NodalOperation ---- *)
  Record no_st : Type := { ns_em : @opmat K; ns_dc : list (list Z); ns_ndofs : Z }.
  Definition no_prepare (g : grid) (em : @opmat K) : no_st :=
    let ndof := no_ndof g em in {| ns_em := em; ns_dc := dofconn_all g ndof; ns_ndofs := ndof * nnodes g |}.

  Definition no_hstep (s : no_st) (o : mop) : no_st * mobs :=
    match o with
    | MResp x =>
        (* dofs = np.zeros(self.ndofs); np.add.at(dofs, self.dofconn, dofs_el); return dofs *)
        (s, MOut [op_bwd (Z.to_nat (om_kd (ns_em s))) (om_rows (ns_em s)) (ns_dc s) (Z.to_nat (ns_ndofs s)) x])
    | MSens df => (s, MOut (op_fwd (om_rows (ns_em s)) (ns_dc s) (row1 df)))
    end.

  Section Run.
    Context {S : Type}.
    Variable stepf : S -> mop -> S * mobs.
    Fixpoint hrun (s : S) (ops : list mop) : list mobs :=
      match ops with [] => [] | o :: t => let r := stepf s o in snd r :: hrun (fst r) t end.
    Fixpoint hstate (s : S) (ops : list mop) : S :=
      match ops with [] => s | o :: t => hstate (fst (stepf s o)) t end.
  End Run.

  (* what a FRESH module returns for one operation (Model/ElemOps.v); n = size of the nodal vector of the instance *)
  Definition eo_fresh (g : grid) (em : @opmat K) (n : Z) (o : mop) : mobs :=
    match o with
    | MResp v => MOut (eo_response g em (row1 v))
    | MSens dy => MOut [eo_sensitivity g em n dy]
    end.
  Definition no_fresh (g : grid) (em : @opmat K) (o : mop) : mobs :=
    match o with
    | MResp x => MOut [no_response g em x]
    | MSens df => MOut (no_sensitivity g em (row1 df))
    end.

  (* every response of the history is fed a nodal vector of n entries *)
  Definition resp_size (n : Z) (o : mop) : Prop :=
    match o with MResp v => Z.of_nat (length (row1 v)) = n | MSens _ => True end.
End ElemHist.

Arguments mop : clear implicits.
Arguments mobs : clear implicits.
