(* C01 (part d): the eigenVECTOR / eigenvalue sensitivities of EigenSolve  (pymoto/modules/linalg.py:
   `_dense_sens`, `_sparse_eigvec_sens`, `_sparse_eigval_sens`), one mode at a time and accumulated over the modes,
   as the code writes them; over matrices 'M[F]_n / column vectors 'cV[F]_n of ANY size n over ANY field F
   (mathcomp).  Definitions only.  The linear solves of the code enter as RELATIONS ("nu, alpha solve the bordered
   system", "vp solves (A - lam B)^T vp = r"), never as inverses.

   Conventions: a 1 x 1 product such as q^T B q is read as a scalar by `sc`; the Frobenius pairing `frob` is the
   plain sum of entrywise products, no conjugation (np.sum(g * v): the convention of finite_difference);
   x / 2 is x * 2^-1 in F (no property of 2^-1 is used by the theorems). *)
From mathcomp Require Import all_ssreflect all_algebra.
Set Implicit Arguments.
Unset Strict Implicit.
Unset Printing Implicit Defensive.
Import GRing.Theory.
Local Open Scope ring_scope.

Section EigAdj.
  Variable F : fieldType.

  (* <G, D> = sum_ij G_ij D_ij *)
  Definition frob m k (G D : 'M[F]_(m, k)) : F := \sum_i \sum_j G i j * D i j.
  (* the scalar of a 1 x 1 matrix *)
  Definition sc (X : 'M[F]_1) : F := X 0 0.

  Variable n : nat.
  Implicit Types (A B dA dB : 'M[F]_n) (q nu dq wq phi dphi vp : 'cV[F]_n) (w alpha dw ww lam : F).

  (* ------------------------------------------------------------------------------------------------------------ *)
  (* the generalised eigenproblem  A q = w B q,  q^T B q = 1  (EigenSolve._response normalises with q @ (B @ q),   *)
  (* no conjugation) and its linearisation along a tangent (dA, dB, dw, dq)                                        *)
  Definition eigpair A B w q : Prop := A *m q = w *: (B *m q).
  Definition normalised B q : Prop := sc (q^T *m B *m q) = 1.
  (* d/dt of  (A - w B) q = 0 *)
  Definition lin_eig A B w q dA dB dw dq : Prop :=
    (A - w *: B) *m dq + (dA - dw *: B - w *: dB) *m q = 0.
  (* d/dt of  q^T B q = 1 *)
  Definition lin_norm B q dB dq : Prop :=
    sc (q^T *m (B + B^T) *m dq) + sc (q^T *m dB *m q) = 0.

  (* ------------------------------------------------------------------------------------------------------------ *)
  (* _dense_sens, mode i:                                                                                          *)
  (*   P   = np.block([[(A - wi*B).T, -((B + B.T)/2) @ qi[..., np.newaxis]], [-B @ qi.T, 0]])                      *)
  (*   adj = np.linalg.solve(P, np.block([dqi, dwi]));  nu = adj[:-1];  alpha = adj[-1]                            *)
  (*   dAi = np.outer(-nu, qi);   dBi = np.outer(wi*nu + alpha/2*qi, qi)                                           *)
  Definition symhalf B : 'M[F]_n := 2%:R^-1 *: (B + B^T).
  Definition denseP A B w q : 'M[F]_(n + 1) :=
    block_mx ((A - w *: B)^T) (- (symhalf B *m q)) (- (B *m q)^T) 0.
  Definition dense_sys A B w q wq ww nu alpha : Prop :=
    denseP A B w q *m col_mx nu alpha%:M = col_mx wq ww%:M.
  Definition dense_gA nu q : 'M[F]_n := (- nu) *m q^T.
  Definition dense_gB w nu alpha q : 'M[F]_n := (w *: nu + (alpha / 2%:R) *: q) *m q^T.

  (* ------------------------------------------------------------------------------------------------------------ *)
  (* _sparse_eigvec_sens, mode i (phi = Q[:, i], dphi = dQ[:, i], lam = W[i]):                                     *)
  (*   alpha = - phi @ dphi;  r = dphi + alpha * B.T @ phi;  vp = solve(r, trans='T')  with Z = A - lam*B          *)
  (*   c = - vp @ B @ phi;  v = vp + c * phi;  dAi = -DyadCarrier(v, phi);  dBi = DyadCarrier(alpha/2*phi + lam*v, phi) *)
  Definition sp_alpha phi dphi : F := - sc (phi^T *m dphi).
  Definition sp_r B phi dphi : 'cV[F]_n := dphi + sp_alpha phi dphi *: (B^T *m phi).
  Definition sp_solve A B lam phi dphi vp : Prop := (A - lam *: B)^T *m vp = sp_r B phi dphi.
  Definition sp_c B phi vp : F := - sc (vp^T *m B *m phi).
  Definition sp_v B phi vp : 'cV[F]_n := vp + sp_c B phi vp *: phi.
  Definition sp_gA B phi vp : 'M[F]_n := - (sp_v B phi vp *m phi^T).
  Definition sp_gB B lam phi dphi vp : 'M[F]_n :=
    ((sp_alpha phi dphi / 2%:R) *: phi + lam *: sp_v B phi vp) *m phi^T.

  (* _sparse_eigval_sens, mode i:  qmq = qi @ (B @ qi);  dA += DyadCarrier((dwi/qmq)*qi, qi);                      *)
  (*                               dB -= DyadCarrier((wi*dwi/qmq)*qi, qi)                                          *)
  Definition qmq B q : F := sc (q^T *m (B *m q)).
  Definition ev_gA B q ww : 'M[F]_n := ((ww / qmq B q) *: q) *m q^T.
  Definition ev_gB B w q ww : 'M[F]_n := - (((w * ww / qmq B q) *: q) *m q^T).

  (* ------------------------------------------------------------------------------------------------------------ *)
  (* accumulation over the modes 0 .. k-1 (columns of Q / dQ, entries of W / dW).  A mode whose seeds are all zero *)
  (* is skipped by the code (`continue`): nothing is solved for it.                                                *)
  Variable k : nat.
  Implicit Types (Q WQ NU DQ VP : 'I_k -> 'cV[F]_n) (W WW AL DW : 'I_k -> F).

  (* _dense_sens: `if np.linalg.norm(dqi) == 0 and dwi == 0: continue` *)
  Definition dense_skip WQ WW (i : 'I_k) : bool := (WQ i == 0) && (WW i == 0).
  Definition dense_total_gA WQ WW NU Q : 'M[F]_n := \sum_(i | ~~ dense_skip WQ WW i) dense_gA (NU i) (Q i).
  Definition dense_total_gB WQ WW W NU AL Q : 'M[F]_n :=
    \sum_(i | ~~ dense_skip WQ WW i) dense_gB (W i) (NU i) (AL i) (Q i).

  (* _sparse_eigvec_sens with both seeds: first the eigenvalue routine (skips dwi == 0), then the eigenvector loop *)
  (* (skips dphi == 0)                                                                                             *)
  Definition sparse_total_gA B WQ WW VP Q : 'M[F]_n :=
    \sum_(i | WW i != 0) ev_gA B (Q i) (WW i) + \sum_(i | WQ i != 0) sp_gA B (Q i) (VP i).
  Definition sparse_total_gB B WQ WW W VP Q : 'M[F]_n :=
    \sum_(i | WW i != 0) ev_gB B (W i) (Q i) (WW i) + \sum_(i | WQ i != 0) sp_gB B (W i) (Q i) (WQ i) (VP i).
End EigAdj.
