(* C10 -- model of pymoto/common/mma.py: MMA.mmasub (asymptote adaptation, asymptotes, move limits,
   approximation coefficients, right-hand side), residual(), and subsolv() (initial point, loop structure,
   step length, line search; the Newton direction is a parameter).  Generic over the numeric classes
   Num / NumOrd: instantiated with R for the theorems and with Q for evaluation.  Definitions only.

   The component formulas of part 1 and the vector formulas of part 4 are also regenerated from the source by
   tools/gen_C10.py on every run and proved equal to these (bridge/C10/MMABridge.v). *)
From Coq Require Import ZArith String List Bool.
From Pymoto Require Import Base.Num Base.MMANum.
Import ListNotations.

(* mmaversion: `'1987' in s` is tested first, then `'2007' in s`, otherwise ValueError *)
Inductive version := V1987 | V2007.
Definition version_order : list string := ["1987"; "2007"]%string.
Definition version_of (has1987 has2007 : bool) : option version :=
  if has1987 then Some V1987 else if has2007 then Some V2007 else None.

(* self.low, self.upp and xval are handed to the parameters low, upp, x0 of subsolv (alfa, beta, P, Q, b are the formulas
   below); the FIRST result of subsolv is returned as the new design *)
Definition subsolv_binding : list (string * string) := [("low", "low"); ("upp", "upp"); ("x0", "xval")]%string.
Definition returned_index : nat := 0.

Section MMAform.
  Context {K : Type} `{Num K} `{NumOrd K}.
  Local Open Scope num_scope.

  (* ------------------------------------------------------------------ 1. mmasub, per component *)
  Record asypar := { asyinit : K; asyincr : K; asydecr : K; asybound : K; albefa : K }.

  (* self.dx = self.xmax - self.xmin (set once) *)
  Definition dx_c (xmin xmax : K) : K := xmax - xmin.
  (* self.offset = self.asyinit * np.ones(self.n) (set once) *)
  Definition offset_init_c (asyinit : K) : K := asyinit * nofZ 1.

  (* executed when xold1 and xold2 exist:
       zzz = (xval - xold1) * (xold1 - xold2)
       offset[zzz > 0] *= asyincr ; offset[zzz < 0] *= asydecr
       offset = clip(offset, 1/asybound**2, asybound) *)
  Definition offset_adapt_c (asyincr asydecr asybound xval xold1 xold2 offset : K) : K :=
    let zzz := (xval - xold1) * (xold1 - xold2) in
    let o1 := if nltb (nofZ 0) zzz then offset * asyincr else offset in
    let o2 := if nltb zzz (nofZ 0) then o1 * asydecr else o1 in
    clip o2 (nofZ 1 / sq asybound) asybound.

  Definition shift_c (offset dx : K) : K := offset * dx.
  Definition low_c (xval shift : K) : K := xval - shift.
  Definition upp_c (xval shift : K) : K := xval + shift.
  (* alfa = max(low + albefa*shift, xval - move*dx, xmin) *)
  Definition alfa_c (albefa move xval xmin dx shift low : K) : K :=
    nmax (nmax (low + albefa * shift) (xval - move * dx)) xmin.
  Definition beta_c (albefa move xval xmax dx shift upp : K) : K :=
    nmin (nmin (upp - albefa * shift) (xval + move * dx)) xmax.

  Definition dg_plus_c (dg : K) : K := nmax dg (nofZ 0).
  Definition dg_min_c (dg : K) : K := nmax (- dg) (nofZ 0).
  Definition dx2_c (shift : K) : K := sq shift.
  Definition P87_c (dx2 dgp : K) : K := dx2 * dgp.
  Definition Q87_c (dx2 dgm : K) : K := dx2 * dgm.
  Definition P07_c (dx dx2 dgp dgm : K) : K := dx2 * (dec 1001 1000 * dgp + dec 1 1000 * dgm + dec 1 100000 / dx).
  Definition Q07_c (dx dx2 dgp dgm : K) : K := dx2 * (dec 1 1000 * dgp + dec 1001 1000 * dgm + dec 1 100000 / dx).

  (* rhs_i = np.dot(P, 1/shift)_i + np.dot(Q, 1/shift)_i - g_i ;  b = rhs[1:] *)
  Definition rhs_row (shift Prow Qrow : list K) (g : K) : K :=
    dot Prow (map (fun s => nofZ 1 / s) shift) + dot Qrow (map (fun s => nofZ 1 / s) shift) - g.
  Definition b_of_rhs (rhs : list K) : list K := skipn 1 rhs.

  (* history: self.xold2, self.xold1 = self.xold1, xval.copy() *)
  Definition xold2_next (xold1 : K) : K := xold1.
  Definition xold1_next (xval : K) : K := xval.

  (* composed component functions (in terms of the inputs of one mmasub call) *)
  Definition offset_step (p : asypar) (xval : K) (xold1 xold2 offset : option K) : K :=
    let o := match offset with Some o => o | None => offset_init_c (asyinit p) end in
    match xold1, xold2 with
    | Some x1, Some x2 => offset_adapt_c (asyincr p) (asydecr p) (asybound p) xval x1 x2 o
    | _, _ => o
    end.
  Definition low_of (xval xmin xmax offset : K) : K := low_c xval (shift_c offset (dx_c xmin xmax)).
  Definition upp_of (xval xmin xmax offset : K) : K := upp_c xval (shift_c offset (dx_c xmin xmax)).
  Definition alfa_of (albefa move xval xmin xmax offset : K) : K :=
    let dx := dx_c xmin xmax in let sh := shift_c offset dx in
    alfa_c albefa move xval xmin dx sh (low_c xval sh).
  Definition beta_of (albefa move xval xmin xmax offset : K) : K :=
    let dx := dx_c xmin xmax in let sh := shift_c offset dx in
    beta_c albefa move xval xmax dx sh (upp_c xval sh).
  Definition P_of (v : version) (xmin xmax offset dg : K) : K :=
    let dx := dx_c xmin xmax in let d2 := dx2_c (shift_c offset dx) in
    match v with
    | V1987 => P87_c d2 (dg_plus_c dg)
    | V2007 => P07_c dx d2 (dg_plus_c dg) (dg_min_c dg)
    end.
  Definition Q_of (v : version) (xmin xmax offset dg : K) : K :=
    let dx := dx_c xmin xmax in let d2 := dx2_c (shift_c offset dx) in
    match v with
    | V1987 => Q87_c d2 (dg_min_c dg)
    | V2007 => Q07_c dx d2 (dg_plus_c dg) (dg_min_c dg)
    end.

  (* ------------------------------------------------------------------ 2. mmasub, whole vectors *)
  Record mmaout := { o_offset : list K; o_low : list K; o_upp : list K; o_alfa : list K; o_beta : list K;
                     o_P : list (list K); o_Q : list (list K); o_b : list K }.

  Definition optnth (l : option (list K)) (j : nat) : option K :=
    match l with Some v => Some (nthK v j) | None => None end.

  (* move is the per-variable vector (a scalar move limit is expanded by Model/MMAvars.v) *)
  Definition mmasub_vec (p : asypar) (v : version) (xval xmin xmax move : list K)
             (xold1 xold2 offset : option (list K)) (g : list K) (dg : list (list K)) : mmaout :=
    let idx := seq 0 (length xval) in
    let off := map (fun j => offset_step p (nthK xval j) (optnth xold1 j) (optnth xold2 j) (optnth offset j)) idx in
    let sh := map (fun j => shift_c (nthK off j) (dx_c (nthK xmin j) (nthK xmax j))) idx in
    let Pm := map (fun row => map (fun j => P_of v (nthK xmin j) (nthK xmax j) (nthK off j) (nthK row j)) idx) dg in
    let Qm := map (fun row => map (fun j => Q_of v (nthK xmin j) (nthK xmax j) (nthK off j) (nthK row j)) idx) dg in
    let rhs := map (fun i => rhs_row sh (nthL Pm i) (nthL Qm i) (nthK g i)) (seq 0 (length dg)) in
    {| o_offset := off;
       o_low := map (fun j => low_of (nthK xval j) (nthK xmin j) (nthK xmax j) (nthK off j)) idx;
       o_upp := map (fun j => upp_of (nthK xval j) (nthK xmin j) (nthK xmax j) (nthK off j)) idx;
       o_alfa := map (fun j => alfa_of (albefa p) (nthK move j) (nthK xval j) (nthK xmin j) (nthK xmax j) (nthK off j)) idx;
       o_beta := map (fun j => beta_of (albefa p) (nthK move j) (nthK xval j) (nthK xmin j) (nthK xmax j) (nthK off j)) idx;
       o_P := Pm; o_Q := Qm; o_b := b_of_rhs rhs |}.

  (* ------------------------------------------------------------------ 3. the approximating functions *)
  (* one term p/(upp - x) + q/(x - low) and the separable sum handed to the subproblem *)
  Definition approx_term (p q u l x : K) : K := p / (u - x) + q / (x - l).
  Fixpoint approx (Prow Qrow upp low x : list K) : K :=
    match Prow, Qrow, upp, low, x with
    | p :: P', q :: Q', u :: U', l :: L', t :: X' => approx_term p q u l t + approx P' Q' U' L' X'
    | _, _, _, _, _ => nzero
    end.

  (* ------------------------------------------------------------------ 4. residual and subsolv *)
  Record sstate := { sx : list K; sy : list K; sz : K; slam : list K; sxsi : list K; seta : list K;
                     smu : list K; szet : K; ss : list K }.
  (* data of one subproblem, as the parameters of subsolv (P0/Q0 objective rows, P1/Q1 constraint rows) *)
  Record sdata := { d_low : list K; d_upp : list K; d_alfa : list K; d_beta : list K;
                    d_P : list (list K); d_Q : list (list K); d_a0 : K; d_a : list K; d_b : list K;
                    d_c : list K; d_d : list K }.

  Definition residual (x y : list K) (z : K) (lam xsi eta mu : list K) (zet : K) (s upp low P0 : list K)
             (P1 : list (list K)) (Q0 : list K) (Q1 : list (list K)) (epsi a0 : K) (a b c d alfa beta : list K) : list K :=
    let ux1 := vmap2 nsub upp x in
    let xl1 := vmap2 nsub x low in
    let plam := vmap2 nadd P0 (vecmat lam P1) in
    let qlam := vmap2 nadd Q0 (vecmat lam Q1) in
    let gvec := vmap2 nadd (matvec P1 (map (fun v => nofZ 1 / v) ux1)) (matvec Q1 (map (fun v => nofZ 1 / v) xl1)) in
    let dpsidx := vmap2 nsub (vmap2 ndiv plam (map sq ux1)) (vmap2 ndiv qlam (map sq xl1)) in
    concat [ vmap2 nadd (vmap2 nsub dpsidx xsi) eta;                                        (* rex *)
             vmap2 nsub (vmap2 nsub (vmap2 nadd c (vmap2 nmul d y)) mu) lam;                 (* rey *)
             [a0 - zet - dot a lam];                                                         (* rez *)
             vmap2 nsub (vmap2 nadd (vmap2 nsub (vmap2 nsub gvec (map (fun v => v * z) a)) y) s) b;   (* relam *)
             map (fun v => v - epsi) (vmap2 nmul xsi (vmap2 nsub x alfa));                   (* rexsi *)
             map (fun v => v - epsi) (vmap2 nmul eta (vmap2 nsub beta x));                   (* reeta *)
             map (fun v => v - epsi) (vmap2 nmul mu y);                                      (* remu *)
             [zet * z - epsi];                                                               (* rezet *)
             map (fun v => v - epsi) (vmap2 nmul lam s) ].                                   (* res *)

  Definition P0_of (P : list (list K)) : list K := nthL P 0.
  Definition P1_of (P : list (list K)) : list (list K) := skipn 1 P.

  Definition residual_st (D : sdata) (epsi : K) (st : sstate) : list K :=
    residual (sx st) (sy st) (sz st) (slam st) (sxsi st) (seta st) (smu st) (szet st) (ss st)
             (d_upp D) (d_low D) (P0_of (d_P D)) (P1_of (d_P D)) (P0_of (d_Q D)) (P1_of (d_Q D))
             epsi (d_a0 D) (d_a D) (d_b D) (d_c D) (d_d D) (d_alfa D) (d_beta D).
  Definition residumax (residu : list K) : K := lmax (map nabs residu).

  (* initial point *)
  Definition x_init_mid (alfa beta : list K) : list K := map (fun v => dec 1 2 * v) (vmap2 nadd alfa beta).
  Definition x_init_x0 (alfa beta x0 : list K) : list K :=
    vmap3 clip x0 (map (fun v => v + dec 1 10000000000) alfa) (map (fun v => v - dec 1 10000000000) beta).
  Definition ones (m : nat) : list K := repeat (nofZ 1) m.
  Definition xsi_init (alfa x : list K) : list K :=
    map (fun v => nmax v (nofZ 1)) (map (fun v => nofZ 1 / v) (vmap2 nsub x alfa)).
  Definition eta_init (beta x : list K) : list K :=
    map (fun v => nmax v (nofZ 1)) (map (fun v => nofZ 1 / v) (vmap2 nsub beta x)).
  Definition mu_init (c : list K) : list K := map (fun v => nmax (nofZ 1) v) (map (fun v => dec 1 2 * v) c).
  Definition init_state (D : sdata) (x0 : option (list K)) : sstate :=
    let m := length (d_a D) in
    let x := match x0 with None => x_init_mid (d_alfa D) (d_beta D) | Some v => x_init_x0 (d_alfa D) (d_beta D) v end in
    {| sx := x; sy := ones m; sz := nofZ 1; slam := ones m; sxsi := xsi_init (d_alfa D) x;
       seta := eta_init (d_beta D) x; smu := mu_init (d_c D); szet := nofZ 1; ss := ones m |}.

  (* step length: the largest step <= 1 that keeps 1% distance to every bound *)
  Definition stm_vec (v dv : list K) : K := (- dec 101 100) * lmin (vmap2 ndiv dv v).
  Definition stm_sc (v dv : K) : K := (- dec 101 100) * dv / v.
  Definition stmxx_of (stmy stmz stmlam stmxsi stmeta stmmu stmzet stms : K) : K :=
    nmax (nmax (nmax (nmax (nmax (nmax (nmax stmy stmz) stmlam) stmxsi) stmeta) stmmu) stmzet) stms.
  Definition stmalfa_of (alfa x dx : list K) : K := (- dec 101 100) * lmin (vmap2 ndiv dx (vmap2 nsub x alfa)).
  Definition stmbeta_of (beta x dx : list K) : K := dec 101 100 * lmax (vmap2 ndiv dx (vmap2 nsub beta x)).
  Definition steg_of (stmxx stmalfa stmbeta : K) : K := nofZ 1 / nmax (nmax (nmax stmalfa stmbeta) stmxx) (nofZ 1).
  Definition step_length (D : sdata) (st d : sstate) : K :=
    steg_of (stmxx_of (stm_vec (sy st) (sy d)) (stm_sc (sz st) (sz d)) (stm_vec (slam st) (slam d))
                      (stm_vec (sxsi st) (sxsi d)) (stm_vec (seta st) (seta d)) (stm_vec (smu st) (smu d))
                      (stm_sc (szet st) (szet d)) (stm_vec (ss st) (ss d)))
            (stmalfa_of (d_alfa D) (sx st) (sx d)) (stmbeta_of (d_beta D) (sx st) (sx d)).

  (* new = old + steg * direction *)
  Definition adv_vec (v dv : list K) (steg : K) : list K := vmap2 nadd v (map (fun w => steg * w) dv).
  Definition adv_sc (v dv steg : K) : K := v + steg * dv.
  Definition advance (st d : sstate) (steg : K) : sstate :=
    {| sx := adv_vec (sx st) (sx d) steg; sy := adv_vec (sy st) (sy d) steg; sz := adv_sc (sz st) (sz d) steg;
       slam := adv_vec (slam st) (slam d) steg; sxsi := adv_vec (sxsi st) (sxsi d) steg;
       seta := adv_vec (seta st) (seta d) steg; smu := adv_vec (smu st) (smu d) steg;
       szet := adv_sc (szet st) (szet d) steg; ss := adv_vec (ss st) (ss d) steg |}.

  Definition epsi0 : K := nofZ 1.
  Definition maxittt : nat := 400.
  Definition outer_test (epsimin epsi : K) : bool := nltb epsimin epsi.                 (* while epsi > epsimin *)
  Definition epsi_next (epsi : K) : K := epsi / nofZ 10.
  Definition inner_test (epsi rmax : K) (ittt mx : nat) : bool :=                       (* while residumax > 0.9*epsi and ittt < maxittt *)
    nltb (dec 9 10 * epsi) rmax && Nat.ltb ittt mx.
  Definition ls_accept (residunorm normnew : K) : bool := nltb normnew residunorm.     (* if norm(residu) < residunorm: break *)
  Definition steg_next (steg : K) : K := steg / nofZ 2.

  Section Loop.
    (* the Newton direction (lines "Newton's method" .. "ds = ..." of subsolv; it contains np.linalg.solve) and
       np.linalg.norm are parameters: the theorems hold for every direction and every norm function *)
    Variable newton : sdata -> K -> sstate -> sstate.
    Variable norm : list K -> K.
    Variable D : sdata.

    (* for itto in range(maxittt): update; residu; if norm < residunorm: break; steg /= 2 *)
    Fixpoint linesearch (fuel : nat) (epsi residunorm steg : K) (old d cur : sstate) : sstate :=
      match fuel with
      | O => cur
      | S f => let new := advance old d steg in
               if ls_accept residunorm (norm (residual_st D epsi new)) then new
               else linesearch f epsi residunorm (steg_next steg) old d new
      end.

    Definition newton_step (epsi : K) (st : sstate) : sstate :=
      let d := newton D epsi st in
      linesearch maxittt epsi (norm (residual_st D epsi st)) (step_length D st d) st d st.

    (* inner loop:  while residumax > 0.9*epsi and ittt < maxittt:  ittt += 1; Newton step.
       `left` is structural fuel, used with left + ittt = maxittt (so the O branch below is never reached with a true test);
       result: the state and whether the loop ended with the residual test false, i.e. residumax <= 0.9*epsi *)
    Fixpoint inner (left ittt : nat) (epsi : K) (st : sstate) : sstate * bool :=
      let rm := residumax (residual_st D epsi st) in
      if inner_test epsi rm ittt maxittt then
        match left with
        | O => (st, false)
        | S l => inner l (S ittt) epsi (newton_step epsi st)
        end
      else (st, negb (nltb (dec 9 10 * epsi) rm)).

    (* outer loop; result: final state, the last epsi that was used, whether its inner loop ended normally
       (false when the loop body never ran) *)
    Fixpoint outer (fuel : nat) (epsimin epsi : K) (st : sstate) (last : K) (ok : bool) : option (sstate * K * bool) :=
      if outer_test epsimin epsi then
        match fuel with
        | O => None
        | S f => let r := inner maxittt 0 epsi st in outer f epsimin (epsi_next epsi) (fst r) epsi (snd r)
        end
      else Some (st, last, ok).

    Definition subsolv (fuel : nat) (epsimin : K) (x0 : option (list K)) : option (sstate * K * bool) :=
      outer fuel epsimin epsi0 (init_state D x0) epsi0 false.
  End Loop.
End MMAform.

Arguments asypar K : clear implicits.
Arguments sstate K : clear implicits.
Arguments sdata K : clear implicits.
Arguments mmaout K : clear implicits.
