(* Concrete integer instance of the dispatch model, used by the correspondence check:
   user-defined modules y_j = M_j . concat(inputs), adjoint split per input. *)
From Coq Require Import ZArith List Bool.
From Pymoto Require Import Base.Num Base.Cmp Model.Dispatch.
Import ListNotations.
Open Scope Z_scope.

Definition zvec := list Z.
Definition zplus (a b : zvec) : zvec := map (fun p => fst p + snd p) (combine a b).
Definition matvec (M : list zvec) (x : zvec) : zvec := map (fun r => dot r x) M.
Definition zeros (n : nat) : zvec := repeat 0 n.
(* M^T w *)
Definition tmatvec (M : list zvec) (ncols : nat) (w : zvec) : zvec :=
  fold_left (fun acc rw => zplus acc (map (fun c => c * snd rw) (fst rw))) (combine M w) (zeros ncols).

Fixpoint segments (lens : list nat) (v : zvec) : list zvec :=
  match lens with [] => [] | n :: t => firstn n v :: segments t (skipn n v) end.

Definition oflat (xs : list (option zvec)) : zvec := concat (map (fun o => match o with Some v => v | None => [] end) xs).

(* Ms: one matrix per output; lens: length of each input; nonez: the adjoint returns None for that input *)
Definition mk_mod (ins outs : list nat) (Ms : list (list zvec)) (lens : list nat) (nonez : list bool) : modl zvec :=
  {| ins := ins; outs := outs;
     resp := fun xs => map (fun M => matvec M (oflat xs)) Ms;
     vjp := fun _ _ ws =>
       let n := fold_right Nat.add 0%nat lens in
       let g := fold_left (fun acc Mw => match snd Mw with
                                         | Some w => zplus acc (tmatvec (fst Mw) n w)
                                         | None => acc end) (combine Ms ws) (zeros n) in
       map (fun p => if (fst p : bool) then None else Some (snd p)) (combine nonez (segments lens g)) |}.

Inductive op := OResp | OSens | OReset | OSeed (o : nat) (w : option zvec) | OSet (i : nat) (x : zvec).
Definition run_op (m : modl zvec) (e : env zvec) (o : op) : env zvec :=
  match o with
  | OResp => response e m
  | OSens => sensitivity zplus e m
  | OReset => reset e m
  | OSeed k w => seed e k w
  | OSet k x => set_state e k x
  end.
Definition run (m : modl zvec) (e : env zvec) (ops : list op) : env zvec := fold_left (run_op m) ops e.

Definition ozl_eqb := option_eqb Zl_eqb.
Definition sig_eqb (a b : sigst zvec) : bool := ozl_eqb (st a) (st b) && ozl_eqb (se a) (se b).
Definition env_eqb (a b : env zvec) : bool := list_eqb sig_eqb a b.
Definition mks (s e : option zvec) : sigst zvec := {| st := s; se := e |}.
