(* Histories of filter modules (C09, second part of the model of pymoto/modules/filter.py).

   (1) FilterConv: the public methods that change what the next response returns — override_values,
       override_padded_values (both APPEND to self.overrides), set_filter_radius (re-assigns self.weights; the pad
       sizes and index arrays of _prepare are not recomputed) — interleaved with response() and get_padded_vector().
       The state of the module is the record `fconv` of Model/Conv.v.
   (2) Filter / DensityFilter: _prepare stores H and the normalisation vector Hs ON THE MODULE (the nonpadding branch
       overwrites entries of the module's own Hs); _response reads them.  Several filters in one process, evaluated in
       any order.
   Definitions only; lemmas in Proofs/FiltHistP.v. *)
From Coq Require Import ZArith List Bool.
From Pymoto Require Import Base.Num Base.SparseLin Model.Grid Model.Pad Model.Conv Model.DensFilt.
Import ListNotations.
Open Scope Z_scope.

Section FcHist.
  Context {K : Type} `{Num K}.

  Inductive fop : Type :=
  | FOvVal (pts : list (Z * Z * Z)) (v : K)    (* m.override_values(index, v): positions of the ORIGINAL domain *)
  | FOvPad (pts : list (Z * Z * Z)) (v : K)    (* m.override_padded_values(index, v): positions of the PADDED array *)
  | FSetW (w : arr3 K)                         (* m.set_filter_radius(r, relative_units): self.weights = kernel *)
  | FResp (x : list K)                         (* x.state = x; m.response() *)
  | FPadded (x : list K).                      (* m.get_padded_vector(x) *)

  Inductive fobs : Type := ObsY (y : list K) | ObsPad (xp : arr3 K).

  Definition with_uov (f : fconv) (uov : list (override K)) : fconv :=
    {| fc_pad := fc_pad f; fc_w := fc_w f; fc_uov := uov |}.

  Definition fstep (f : fconv) (op : fop) : fconv * option fobs :=
    match op with
    | FOvVal pts v => (with_uov f (fc_uov f ++ [user_override (fc_pad f) pts v]), None)
    | FOvPad pts v =>
        (* if all([np.asarray(i).size == 0 for i in index]): return *)
        (match pts with [] => f | _ :: _ => with_uov f (fc_uov f ++ [OvPts pts v]) end, None)
    | FSetW w => ({| fc_pad := fc_pad f; fc_w := w; fc_uov := fc_uov f |}, None)
    | FResp x => (f, Some (ObsY (fc_response f x)))
    | FPadded x => (f, Some (ObsPad (xpad_arr (fc_pad f) (fc_uov f) x)))
    end.

  Fixpoint frun (f : fconv) (ops : list fop) : list fobs :=
    match ops with
    | [] => []
    | op :: t => let r := fstep f op in
                 match snd r with Some o => o :: frun (fst r) t | None => frun (fst r) t end
    end.

  (* what the history has registered, read off the operations alone *)
  Definition hist_overrides (c : padcfg K) (ops : list fop) : list (override K) :=
    flat_map (fun op => match op with
                        | FOvVal pts v => [user_override c pts v]
                        | FOvPad ((_ :: _) as pts) v => [OvPts pts v]
                        | _ => [] end) ops.
  Definition hist_kernel (w0 : arr3 K) (ops : list fop) : arr3 K :=
    fold_left (fun w op => match op with FSetW w' => w' | _ => w end) ops w0.
  Definition fc_at (f : fconv) (ops : list fop) : fconv :=
    {| fc_pad := fc_pad f; fc_w := hist_kernel (fc_w f) ops; fc_uov := fc_uov f ++ hist_overrides (fc_pad f) ops |}.
End FcHist.

Arguments fop : clear implicits.
Arguments fobs : clear implicits.

Section DensHist.
  Context {K : Type} `{Num K}.
  Variable kmax : K -> K -> K.

  Record dopts : Type := { do_g : grid; do_delem : Z; do_wtab : Z -> K; do_nonpad : option (list Z) }.

  (* what Filter._prepare leaves on `self` *)
  Record dprep : Type := {
    dp_rows : list (list (Z * K));     (* self.H, row by row *)
    dp_Hs : list K                     (* self.Hs *)
  }.

  Definition dens_prepare (o : dopts) : dprep :=
    let g := do_g o in
    let rows := map (h_row g (do_delem o) (do_wtab o)) (zrange (nel g)) in
    (* self.Hs = self.H.sum(1) *)
    let hs := map (fun r => nsum (map snd r)) rows in
    (* if nonpadding is not None: self.Hs[~isin(arange(n), nonpadding)] = np.max(self.Hs) *)
    let hs' := match do_nonpad o with
               | None => hs
               | Some l => let mx := match hs with [] => nzero | h :: t => fold_left kmax t h end in
                           map (fun p => if zmem (fst p) l then snd p else mx) (combine (zrange (nel g)) hs)
               end in
    {| dp_rows := rows; dp_Hs := hs' |}.

  (* Filter._response: H * x / Hs *)
  Definition dens_respond (p : dprep) (x : list K) : list K :=
    map (fun rs => ndiv (nsum (map (fun cv => nmul (snd cv) (zget x (fst cv))) (fst rs))) (snd rs))
        (combine (dp_rows p) (dp_Hs p)).

  Inductive dop : Type :=
  | DNew (o : dopts)                   (* f_k = DensityFilter(x, domain=..., radius=..., nonpadding=...) *)
  | DResp (i : nat) (x : list K).      (* x.state = x; f_i.response() *)

  Definition dstep (st : list dprep) (op : dop) : list dprep * option (option (list K)) :=
    match op with
    | DNew o => (st ++ [dens_prepare o], None)
    | DResp i x => (st, Some (option_map (fun p => dens_respond p x) (nth_error st i)))
    end.
  Fixpoint drun (st : list dprep) (ops : list dop) : list (option (list K)) :=
    match ops with
    | [] => []
    | op :: t => let r := dstep st op in
                 match snd r with Some o => o :: drun (fst r) t | None => drun (fst r) t end
    end.

  Definition dhist_opts (ops : list dop) : list dopts :=
    flat_map (fun op => match op with DNew o => [o] | DResp _ _ => [] end) ops.
  Definition dens_spec (o : dopts) (x : list K) : list K :=
    dens_response (do_g o) (do_delem o) (do_wtab o) kmax (do_nonpad o) x.
End DensHist.

Arguments dopts : clear implicits.
Arguments dprep : clear implicits.
Arguments dop : clear implicits.
