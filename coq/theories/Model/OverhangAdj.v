(* Model of pymoto/modules/filter.py : OverhangFilter._sensitivity (the reverse layer sweep), of the part of
   _response it depends on (the stored array self.smax), and the forward-mode linearisation (tangent sweep) of the
   response sweep.  Hand-written, executable.  Definitions only, no proofs in this file.
   The response sweep itself, the grid / offsets / masks and the real and rational smooth min / max are those of
   Model/Overhang.v (property C14); nothing is redefined here.

   Everything is generic over a number type K (Base/Num.v) and over five scalar functions
       smin a s                  the smooth minimum                 xprint = smin(x, max_supp)
       smax_of_list l            the P-Q smooth maximum of the support values (in offset order)
       dmin_x a s,  dmin_s a s   the two partial derivatives of smin at (a, s) = (x[e], self.smax[e])
       dmax s xp                 the partial derivative of the smooth maximum with respect to ONE support value xp,
                                 computed - as the code does - from the STORED maximum s = self.smax[e]
   The code computes (w = dxprint[els], r1 = x[els] - smax[els]):
       dfdr1   = -w * r1 / (2*sqrt(r1*r1 + eps))
       dx[els] = w/2 + dfdr1                              = w * dmin_x          dmin_x = 1/2 - r1/(2 sqrt(r1^2+eps))
       dfdsmax = w/2 - dfdr1                              = w * dmin_s          dmin_s = 1/2 + r1/(2 sqrt(r1^2+eps))
       keep    = power(smax[els] + backshift, q)
       dfdkeep = dfdsmax * power(keep, 1/q - 1) / q ;  c = p * dfdkeep
       dxprint[supp] += c * power(xprint[supp] + shift, p - 1)
                                                          = dfdsmax * dmax      dmax = p * keep^(1/q-1)/q * (xp+shift)^(p-1)
   i.e. every product with the incoming sensitivity w is written here as `w * factor`; the code's own grouping
   (-w*r1/(..)) differs from it by associativity / distributivity of real multiplication only (floats: rounding,
   covered by the 1e-9 comparison of the correspondence check).                                                  *)
From Coq Require Import ZArith QArith Qabs Qround List Bool Reals.
From Pymoto Require Import Base.Num Model.Grid Model.Overhang.
Import ListNotations.
Open Scope Z_scope.

(*  while 0 <= ind_layer < size[dir_layer]:  st = step(st, ind_layer);  ind_layer += dx_layer
    (the loop of _response; fuel = number of layers)                                                   *)
Fixpoint up_loop {S : Type} (step : S -> Z -> S) (nl dx : Z) (fuel : nat) (st : S) (ind : Z) : S :=
  match fuel with
  | O => st
  | S f => if (0 <=? ind) && (ind <? nl) then up_loop step nl dx f (step st ind) (ind + dx) else st
  end.

Section Generic.
  Context {K : Type} `{Num K}.
  Variable smin : K -> K -> K.
  Variable smax_of_list : list K -> K.
  Variable dmin_x dmin_s : K -> K -> K.
  Variable dmax : K -> K -> K.

  Definition gk (xs : list K) (e : Z) : K := getT nzero xs e.

  Section OneDirection.
    Variable g : grid.
    Variable dl dx : Z.                        (* dir_layer, dx_layer *)
    Variable nsamp : Z.

    (*  el[dir_layer] = L; el[dir_orth1] = a; el[dir_orth2] = b; els = get_elemnumber( *el )             *)
    Definition lkey (L : Z) (p : Z * Z) : Z := elnum g dl (o1 g dl) (o2 g dl) L (fst p) (snd p).
    Definition layer : list (Z * Z) := entire_layer (n1 g dl) (n2 g dl).
    Definition in_layer (p : Z * Z) : bool := inside (n1 g dl) (n2 g dl) p.

    (* ------------------------------------------------------------------------------------------ *)
    (* _response, keeping the second result the sensitivity reads:
         xprint = x.copy(); self.smax = x.copy()
         per layer:  max_supp = smax(supports) ; self.smax[els] = max_supp ; xprint[els] = smin(x[els], max_supp) *)
    Definition layer_step2 (x : list K) (st : list K * list K) (L : Z) : list K * list K :=
      let xprint := fst st in
      let max_supp := fun p => smax_of_list (supports nzero g dl dx nsamp xprint L p) in
      (scatter_by (lkey L) (fun p => smin (gk x (lkey L p)) (max_supp p)) layer xprint,
       scatter_by (lkey L) max_supp layer (snd st)).

    (* (xprint, self.smax) after _response *)
    Definition sweep2 (x : list K) : list K * list K :=
      up_loop (layer_step2 x) (nlay g dl) dx (Z.to_nat (nlay g dl)) (x, x) (ind_start g dl dx).

    (* ------------------------------------------------------------------------------------------ *)
    Section Linearised.
      (* x = sig_in[0].state, xprint = sig_out[0].state, smax = self.smax *)
      Variables x xprint smax : list K.

      (* ---- _sensitivity: one iteration of `while True` at layer L = ind_layer, state = (dxprint, dx) ---- *)

      (*  dx[els] = dxprint[els]/2 + dfdr1 *)
      Definition dx_value (dxprint : list K) (L : Z) (p : Z * Z) : K :=
        nmul (gk dxprint (lkey L p)) (dmin_x (gk x (lkey L p)) (gk smax (lkey L p))).
      (*  dfdsmax = dxprint[els]/2 - dfdr1   (an array over the layer, computed BEFORE dxprint is accumulated into) *)
      Definition dfdsmax (dxprint : list K) (L : Z) (p : Z * Z) : K :=
        nmul (gk dxprint (lkey L p)) (dmin_s (gk x (lkey L p)) (gk smax (lkey L p))).

      (*  for one offset o with its mask:  els = elements (layer L - dx_layer, position p + o) for the p with mask set
            dxprint[els] += c[supp_mask] * power(xprint[els] + shift, p - 1)
          numpy evaluates  dxprint[els] = dxprint[els] + ...  : gather from the array as it is before this statement,
          add, scatter.                                                                                          *)
      Definition accumulate_offset (c : Z * Z -> K) (L : Z) (dxprint : list K) (o : Z * Z) : list K :=
        scatter_by (fun p => lkey (L - dx) (padd p o))
                   (fun p => nadd (gk dxprint (lkey (L - dx) (padd p o)))
                                  (nmul (c p) (dmax (gk smax (lkey L p)) (gk xprint (lkey (L - dx) (padd p o))))))
                   (filter (fun p => in_layer (padd p o)) layer)
                   dxprint.

      Definition sens_layer (st : list K * list K) (L : Z) : list K * list K :=
        let dxprint := fst st in
        (fold_left (accumulate_offset (dfdsmax dxprint L) L) (layer_offsets nsamp) dxprint,
         scatter_by (lkey L) (dx_value dxprint L) layer (snd st)).

      (*  while True: <layer>; ind_layer -= dx_layer; if not 1 <= ind_layer < size[dir_layer]-1: break
          returns the state and the final ind_layer (fuel = number of layers)                                   *)
      Fixpoint sens_loop (fuel : nat) (st : list K * list K) (ind : Z) : (list K * list K) * Z :=
        match fuel with
        | O => (st, ind)
        | S f => let st' := sens_layer st ind in
                 let ind' := ind - dx in
                 if (1 <=? ind') && (ind' <? nlay g dl - 1) then sens_loop f st' ind' else (st', ind')
        end.

      (*  dxprint = dxprint.copy(); dx = zeros_like(dxprint)
          if size[dir_layer] < 2: return dxprint
          ind_layer = size[dir_layer]-1 if dx_layer >= 0 else 0
          <loop>
          dx[els(ind_layer)] = dxprint[els(ind_layer)]           (base layer is directly transferred)
          return dx                                                                                              *)
      Definition sens_sweep (w : list K) : list K :=
        if nlay g dl <? 2 then w
        else
          let r := sens_loop (Z.to_nat (nlay g dl)) (w, vzero (length w))
                             (if dx >=? 0 then nlay g dl - 1 else 0) in
          let dxprint := fst (fst r) in
          let ind := snd r in
          scatter_by (lkey ind) (fun p => gk dxprint (lkey ind p)) layer (snd (fst r)).

      (* ---- tangent (forward mode) of the response sweep in direction v: the linearisation of
               xprint = x.copy();  per layer  xprint[els] = smin(x[els], smax(xprint[supports]))
             with the same partial-derivative functions, evaluated at the same stored values ---- *)
      Definition tangent_value (v t : list K) (L : Z) (p : Z * Z) : K :=
        let e := lkey L p in
        let a := gk x e in
        let s := gk smax e in
        nadd (nmul (dmin_x a s) (gk v e))
             (nmul (dmin_s a s)
                   (nsum (map (fun o => let e' := lkey (L - dx) (padd p o) in
                                        nmul (dmax s (gk xprint e')) (gk t e'))
                              (filter (fun o => in_layer (padd p o)) (layer_offsets nsamp))))).
      Definition tangent_step (v t : list K) (L : Z) : list K :=
        scatter_by (lkey L) (tangent_value v t L) layer t.
      (* started from an arbitrary copy t0 (the proofs use t0 = v and t0 = v restricted to the base layer) *)
      Definition tangent_from (v t0 : list K) : list K :=
        up_loop (tangent_step v) (nlay g dl) dx (Z.to_nat (nlay g dl)) t0 (ind_start g dl dx).
      Definition tangent_sweep (v : list K) : list K := tangent_from v v.
    End Linearised.
  End OneDirection.

  (* the module for a (padded) direction vector d: response() then sensitivity() with seed w;
     and the tangent of response() at x in direction v *)
  Definition sensitivity (g : grid) (d : list Q) (nsamp : Z) (x w : list K) : list K :=
    let st := sweep2 g (dir_layer_of d) (dx_layer_of d) nsamp x in
    sens_sweep g (dir_layer_of d) (dx_layer_of d) nsamp x (fst st) (snd st) w.
  Definition tangent (g : grid) (d : list Q) (nsamp : Z) (x v : list K) : list K :=
    let st := sweep2 g (dir_layer_of d) (dx_layer_of d) nsamp x in
    tangent_sweep g (dir_layer_of d) (dx_layer_of d) nsamp x (fst st) (snd st) v.
End Generic.

(* ------------------------------------------------------------------------------------------------ *)
(* the partial derivatives over R, as the code computes them                                         *)
Open Scope R_scope.
(*  r1 = x - smax ;  1/2 - r1/(2*sqrt(r1*r1 + eps))   and   1/2 + r1/(2*sqrt(r1*r1 + eps))              *)
Definition dmin_x_R (eps a s : R) : R := 1 / 2 - (a - s) / (2 * sqrt ((a - s) * (a - s) + eps)).
Definition dmin_s_R (eps a s : R) : R := 1 / 2 + (a - s) / (2 * sqrt ((a - s) * (a - s) + eps)).
(*  keep = power(smax + backshift, q) ;  p * (power(keep, 1/q - 1) / q) * power(xp + shift, p - 1)         *)
Definition dmax_R (p q shift backshift s xp : R) : R :=
  p * (Rpower (Rpower (s + backshift) q) (1 / q - 1) / q) * Rpower (xp + shift) (p - 1).
Close Scope R_scope.

(* ------------------------------------------------------------------------------------------------ *)
(* instances over Q evaluated by the correspondence check: the same rational parameter sets as the response
   instance of Model/Overhang.v (integer p, q = p - k with 1/q in {1, 2, 1/2}, shift = backshift = 0 passed in,
   square roots by the integer square root to 2^-64)                                                          *)
Open Scope Q_scope.
(* every partial derivative is rounded down to a multiple of 2^-80: the factors are then dyadic, so the sums of
   products formed by the sweeps stay dyadic (no growth of denominators); the rounding is 1e-24, far below the
   comparison tolerance, and the adjoint identity is exact for ANY factor functions, hence also for these *)
Definition qdy_bits : Z := 80.
Definition qdy (v : Q) : Q :=
  let sc := (2 ^ qdy_bits)%Z in Qred (Qmake (Qfloor (v * inject_Z sc)) (Z.to_pos sc)).
(* eps = 0: r1/(2*sqrt(r1*r1)) = sign(r1)/2 (the code yields nan at r1 = 0; such cases are not generated) *)
Definition qhalf_sign_ratio (eps r : Q) : Q :=
  if Qeq_bool eps 0 then (if Qle_bool r 0 then (if Qle_bool 0 r then 0 else -(1#2)) else (1#2))
  else Qred (r / (2 * qsqrt (r * r + eps))).
Definition dmin_x_Q (eps a s : Q) : Q := qdy ((1#2) - qhalf_sign_ratio eps (a - s)).
Definition dmin_s_Q (eps a s : Q) : Q := qdy ((1#2) + qhalf_sign_ratio eps (a - s)).
(* power(v, e) for the exponents that occur: q and 1/q - 1 with q in {1, 2, 1/2} *)
Definition qfpow (e v : Q) : Q :=
  if Qeq_bool e 0 then 1
  else if Qeq_bool e 1 then v
  else if Qeq_bool e 2 then Qred (v * v)
  else if Qeq_bool e (1#2) then qsqrt v
  else Qred (/ qsqrt v).                                  (* e = -1/2 *)
Definition dmax_Q (p : nat) (invq shift backshift s xp : Q) : Q :=
  let q := Qred (/ invq) in
  let keep := qfpow q (s + backshift) in
  qdy (inject_Z (Z.of_nat p) * (qfpow (Qred (invq - 1)) keep / q) * qpow (xp + shift) (Nat.pred p)).
Close Scope Q_scope.

Definition sensitivity_Q (g : grid) (d : list Q) (nsamp : Z) (p : nat) (k eps : Q) (x w : list Q) : list Q :=
  sensitivity (smin_Q eps) (smax_Q p (invq_of p k) 0 0) (dmin_x_Q eps) (dmin_s_Q eps) (dmax_Q p (invq_of p k) 0 0)
              g d nsamp x w.
Definition tangent_Q (g : grid) (d : list Q) (nsamp : Z) (p : nat) (k eps : Q) (x v : list Q) : list Q :=
  tangent (smin_Q eps) (smax_Q p (invq_of p k) 0 0) (dmin_x_Q eps) (dmin_s_Q eps) (dmax_Q p (invq_of p k) 0 0)
          g d nsamp x v.
