(* pymoto/solvers/iterative.py : GeometricMultigrid.setup_interpolation, as written.
   The prolongation R (fine dofs x coarse dofs) is assembled from (row, col, value) triples by three nested loops over
   the offsets i, j, k in {-1, 0, 1} (k only 0 in 2-D); for each offset the coarse nodes whose fine neighbour
   (2 ix + i, 2 iy + j, 2 iz + k) exists are enumerated with np.meshgrid(ix, iy, iz, indexing='ij') and numbered with
   get_nodenumber of the coarse / fine domain; every dof of the node gets the same weight w[1+i, 1+j, 1+k].

   Weights: w = 1/8 * 2^(number of zero offsets); here they are kept as integers 8 w = w1 i * w1 j * w1 k.
   Definitions only; exact correspondence with the implementation's R on every run (tools/checks/C05.py). *)
From Coq Require Import ZArith List.
From Pymoto Require Import Model.Grid.
Import ListNotations.
Open Scope Z_scope.

Definition w1 (i : Z) : Z := if i =? 0 then 2 else 1.
Definition weight8 (i j k : Z) : Z := w1 i * w1 j * w1 k.           (* 8 * w[1+i, 1+j, 1+k] *)

(* np.arange(lo, hi) *)
Definition arange (lo hi : Z) : list Z := map (fun t => lo + Z.of_nat t) (seq 0 (Z.to_nat (hi - lo))).

(* self.sub_domain of a domain whose sizes are divisible by 2 *)
Definition sub_grid (g : grid) : grid := {| nelx := nelx g / 2; nely := nely g / 2; nelz := nelz g / 2 |}.

Definition offsets3 : list Z := [-1; 0; 1].

(* coarse index range for one offset: max(-i, 0) .. min(n + 1 - i, n + 1) *)
Definition crange (n i : Z) : list Z := arange (Z.max (- i) 0) (Z.min (n + 1 - i) (n + 1)).

(* meshgrid(ix, iy, iz, indexing='ij').flatten(): x slowest, z fastest *)
Definition mesh (ix iy iz : list Z) : list (Z * Z * Z) :=
  flat_map (fun a => flat_map (fun b => map (fun c => (a, b, c)) iz) iy) ix.

(* (row, col, 8 * value) triples in the order the loops append them *)
Definition interp_triples (fine : grid) (ndof : Z) : list (Z * Z * Z) :=
  let sub := sub_grid fine in
  flat_map (fun i =>
    flat_map (fun j =>
      flat_map (fun k =>
        let pts := mesh (crange (nelx sub) i) (crange (nely sub) j) (crange (nelz sub) k) in
        flat_map (fun d =>
          map (fun p => match p with (a, b, c) =>
                 (nodenumber fine (2 * a + i) (2 * b + j) (2 * c + k) * ndof + d,
                  nodenumber sub a b c * ndof + d,
                  weight8 i j k) end) pts)
          (arange 0 ndof))
        (if dim fine =? 3 then offsets3 else [0]))
      offsets3)
    offsets3.

Definition nfine (fine : grid) (ndof : Z) : Z := ndof * nnodes fine.
Definition ncoarse (fine : grid) (ndof : Z) : Z := ndof * nnodes (sub_grid fine).

(* row r of R applied to a vector x (indexed by coarse dof): sum of value * x[col] over the triples of that row
   (values as 8 * w, so this is 8 * (R x)[r]) *)
Definition apply_row (T : list (Z * Z * Z)) (x : Z -> Z) (r : Z) : Z :=
  fold_right (fun t acc => match t with (r', c, v) => if r' =? r then v * x c + acc else acc end) 0 T.

(* ---- comparison with the implementation's matrix (coo, duplicates summed, sorted by row * ncols + col) ---- *)
Fixpoint insert_key (kv : Z * Z) (l : list (Z * Z)) : list (Z * Z) :=
  match l with
  | [] => [kv]
  | h :: t => if fst kv <? fst h then kv :: l
              else if fst kv =? fst h then (fst h, snd h + snd kv) :: t
              else h :: insert_key kv t
  end.
(* sorted by key, equal keys summed; the triples arrive in blocks that are already nearly sorted, insertion from
   the back keeps this cheap enough for the sizes used in the correspondence *)
Definition canon (ncols : Z) (T : list (Z * Z * Z)) : list (Z * Z) :=
  fold_right (fun t acc => match t with (r, c, v) => insert_key (r * ncols + c, v) acc end) [] T.

Fixpoint kv_eqb (a b : list (Z * Z)) : bool :=
  match a, b with
  | [], [] => true
  | (k, v) :: a', (k', v') :: b' => (k =? k') && (v =? v') && kv_eqb a' b'
  | _, _ => false
  end.

Definition interp_matches (fine : grid) (ndof : Z) (obs : list (Z * Z)) : bool :=
  kv_eqb (canon (ncoarse fine ndof) (interp_triples fine ndof)) obs.
