(* Model of pymoto/utils.py: _parse_to_list, _concatenate_to_array, _split_from_array, and of the write-back
   loop of minimize_oc / minimize_mma  (s.state = xnew[cumlens[i]:cumlens[i+1]]).  Definitions only.
   A Signal state is None, a scalar or an array (flattened: np.append ravels its arguments). *)
From Coq Require Import ZArith List Bool.
Import ListNotations.

Inductive pstate (K : Type) := PNone | PScalar (k : K) | PArray (l : list K).
Arguments PNone {K}. Arguments PScalar {K}. Arguments PArray {K}.

Definition pflat {K} (s : pstate K) : list K :=
  match s with PNone => [] | PScalar k => [k] | PArray l => l end.
Definition is_none {K} (s : pstate K) : bool := match s with PNone => true | _ => false end.

(* ---- _parse_to_list with star-args *)
Inductive pyarg (A : Type) := ArgNone | ArgOne (a : A) | ArgList (l : list A) | ArgTuple (l : list A).
Arguments ArgNone {A}. Arguments ArgOne {A}. Arguments ArgList {A}. Arguments ArgTuple {A}.

(* one positional argument (the way minimize_oc / minimize_mma call it) *)
Definition parse_to_list1 {A} (v : pyarg A) : list A :=
  match v with ArgNone => [] | ArgOne a => [a] | ArgList l => l | ArgTuple l => l end.
(* several positional plain arguments: var_in = args (a tuple) -> list(args); none: [] *)
Definition parse_to_list {A} (args : list (pyarg A)) : list (pyarg A) :=
  match args with
  | [] => []
  | [v] => match v with ArgNone => [] | ArgOne a => [ArgOne a] | ArgList l => map ArgOne l | ArgTuple l => map ArgOne l end
  | _ => args
  end.

(* ---- Python slice  l[a:b]  for any integers a b *)
Definition py_idx (len i : Z) : Z := if (i <? 0)%Z then Z.max (len + i) 0 else Z.min i len.
Definition py_slice {A} (l : list A) (a b : Z) : list A :=
  let n := Z.of_nat (length l) in
  let a' := py_idx n a in let b' := py_idx n b in
  firstn (Z.to_nat (b' - a')) (skipn (Z.to_nat a') l).

Section Concat.
  Context {K : Type}.

  (* _concatenate_to_array: values = np.append(values, v); cumulative_inds[i+1] = len(values);
     returns None for the ValueError ("Trying to add None to the array").
     The accumulator holds the values so far and the cumulative indices so far (reversed). *)
  Fixpoint concat_loop (vars : list (pstate K)) (values : list K) (cum_rev : list Z) : option (list K * list Z) :=
    match vars with
    | [] => Some (values, rev cum_rev)
    | v :: r =>
        if is_none v then None
        else let values' := values ++ pflat v in
             concat_loop r values' (Z.of_nat (length values') :: cum_rev)
    end.
  Definition concatenate_to_array (vars : list (pstate K)) : option (list K * list Z) :=
    concat_loop vars [] [0%Z].

  (* _split_from_array: assert cumulative_inds[-1] == values.size (None = AssertionError) *)
  Fixpoint split_loop (values : list K) (cum : list Z) : list (list K) :=
    match cum with
    | a :: ((b :: _) as t) => py_slice values a b :: split_loop values t
    | _ => []
    end.
  Definition split_from_array (values : list K) (cum : list Z) : option (list (list K)) :=
    if (last cum (-1) =? Z.of_nat (length values))%Z then Some (split_loop values cum) else None.

  (* the write-back loop:  for i, s in enumerate(variables): s.state = xnew[cumlens[i]:cumlens[i+1]]
     (every variable, also a scalar one, receives a 1-D array) *)
  Definition write_back (nvars : nat) (xnew : list K) (cum : list Z) : list (pstate K) :=
    map (fun i => PArray (py_slice xnew (nth i cum 0%Z) (nth (S i) cum 0%Z))) (seq 0 nvars).
End Concat.
