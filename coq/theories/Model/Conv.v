(* Model of pymoto/modules/filter.py : FilterConv (_prepare, set_filter_radius, _response, _sensitivity).
   scipy.signal.convolve(mode='valid') / correlate(mode='full') are modelled by their defining sums.
   Hand-written, executable, polymorphic over the number type (Q for evaluation, R for the theorems).
   Definitions only; lemmas in Proofs/ConvP.v. *)
From Coq Require Import ZArith QArith List Bool.
From Pymoto Require Import Base.Num Base.SparseLin Model.Grid Model.Pad.
Import ListNotations.
Open Scope Z_scope.

Definition positions (nx ny nz : Z) : list (Z * Z * Z) :=
  flat_map (fun i => flat_map (fun j => map (fun k => (i, j, k)) (zrange nz)) (zrange ny)) (zrange nx).

Section Conv.
  Context {K : Type} `{Num K}.

  (* sum_{i=0}^{n-1} f i *)
  Definition zsum (n : Z) (f : Z -> K) : K := nsum (map f (zrange n)).
  Definition zsum3 (nx ny nz : Z) (f : Z -> Z -> Z -> K) : K :=
    zsum nx (fun a => zsum ny (fun b => zsum nz (fun c => f a b c))).

  Record fconv := {
    fc_pad : padcfg K;            (* domain, pad sizes, the six boundary modes *)
    fc_w : arr3 K;                (* self.weights, expanded to 3 dimensions *)
    fc_uov : list (override K)    (* overrides added through override_values after construction *)
  }.

  (* _prepare: pad_sizes = [v // 2 for v in weights.shape] *)
  Definition mk_fconv (g : grid) (w : arr3 K) (bx0 bx1 by0 by1 bz0 bz1 : bmode K)
             (upts : list (list (Z * Z * Z) * K)) : fconv :=
    match shape3 w with
    | (kx, ky, kz) =>
      let c := {| pg := g; ppx := kx / 2; ppy := ky / 2; ppz := kz / 2;
                  mx0 := bx0; mx1 := bx1; my0 := by0; my1 := by1; mz0 := bz0; mz1 := bz1 |} in
      {| fc_pad := c; fc_w := w; fc_uov := map (fun pv => user_override c (fst pv) (snd pv)) upts |}
    end.

  Definition wget (w : arr3 K) (qa qb qc : Z) : K := nth3 w qa qb qc nzero.

  (* scipy.signal.convolve(xp, w, mode='valid')[a, b, c]  (the kernel is flipped) *)
  Definition conv_valid_at (w : arr3 K) (xp : Z -> Z -> Z -> K) (a b c : Z) : K :=
    match shape3 w with
    | (kx, ky, kz) =>
      zsum3 kx ky kz (fun qa qb qc =>
        nmul (wget w qa qb qc) (xp (a + (kx - 1) - qa) (b + (ky - 1) - qb) (c + (kz - 1) - qc)))
    end.

  (* y3d = convolve(xpad, weights, 'valid') at (a, b, c) *)
  Definition fc_y3d_at (f : fconv) (x : list K) (a b c : Z) : K :=
    conv_valid_at (fc_w f) (xpad_at (fc_pad f) (fc_uov f) x) a b c.

  (* _response: y = zeros_like(x); np.add.at(y, el3d_orig, y3d) *)
  Definition fc_response (f : fconv) (x : list K) : list K :=
    let c := fc_pad f in
    let xp := xpad_arr c (fc_uov f) x in
    let eo := el3d_orig c in
    fold_left (fun y t => match t with (a, b, d) =>
                 vaddat y (Z.to_nat (nth3 eo a b d 0))
                        (conv_valid_at (fc_w f) (fun i j k => nth3 xp i j k nzero) a b d) end)
              (positions (sx1 c) (sy1 c) (sz1 c)) (vzero (length x)).

  (* the same map as a triple list (dst, src, coeff) plus the affine part produced by constant values:
     used for the sensitivity and by the adjointness property *)
  Definition fc_triples (f : fconv) : list (@triple K) :=
    let c := fc_pad f in
    let e := el3d_pad c in
    let eo := el3d_orig c in
    let ovs := pad_overrides c ++ fc_uov f in
    match shape3 (fc_w f) with
    | (kx, ky, kz) =>
      flat_map (fun t => match t with (a, b, d) =>
        flat_map (fun q => match q with (qa, qb, qc) =>
          let i := a + (kx - 1) - qa in let j := b + (ky - 1) - qb in let k := d + (kz - 1) - qc in
          if ov_any ovs i j k then []
          else [(Z.to_nat (nth3 eo a b d 0), Z.to_nat (nth3 e i j k 0), wget (fc_w f) qa qb qc)] end)
          (positions kx ky kz) end)
        (positions (sx1 c) (sy1 c) (sz1 c))
    end.

  Definition fc_affine (f : fconv) (m : nat) : list K :=
    let c := fc_pad f in
    let eo := el3d_orig c in
    let ovs := pad_overrides c ++ fc_uov f in
    match shape3 (fc_w f) with
    | (kx, ky, kz) =>
      fold_left (fun y t => match t with (a, b, d) =>
        vaddat y (Z.to_nat (nth3 eo a b d 0))
          (zsum3 kx ky kz (fun qa qb qc =>
             let i := a + (kx - 1) - qa in let j := b + (ky - 1) - qb in let k := d + (kz - 1) - qc in
             if ov_any ovs i j k then nmul (wget (fc_w f) qa qb qc) (apply_ovs ovs i j k nzero) else nzero)) end)
        (positions (sx1 c) (sy1 c) (sz1 c)) (vzero m)
    end.

  Definition fc_response_lin (f : fconv) (x : list K) : list K :=
    vadd (apply (fc_triples f) (length x) x) (fc_affine f (length x)).

  (* _sensitivity, literally:
       dx3d = correlate(dfdv[el3d_orig], weights, 'full');  dx3d[overrides] = 0;  np.add.at(dx, el3d_pad, dx3d)
     correlate(g, w, 'full')[s] = sum_a g[a] * w[a - s + (k-1)]  over the a for which the kernel index is in range *)
  Definition inr (q k : Z) : bool := (0 <=? q) && (q <? k).
  Definition corr_full_at (w : arr3 K) (g3 : Z -> Z -> Z -> K) (nx ny nz : Z) (s1 s2 s3 : Z) : K :=
    match shape3 w with
    | (kx, ky, kz) =>
      zsum3 nx ny nz (fun a b d =>
        let qa := a - s1 + (kx - 1) in let qb := b - s2 + (ky - 1) in let qc := d - s3 + (kz - 1) in
        if inr qa kx && inr qb ky && inr qc kz then nmul (g3 a b d) (wget w qa qb qc) else nzero)
    end.

  Definition fc_sensitivity (f : fconv) (n : nat) (dfdv : list K) : list K :=
    let c := fc_pad f in
    let e := el3d_pad c in
    let eo := el3d_orig c in
    let ovs := pad_overrides c ++ fc_uov f in
    let g3 := fun a b d => zget dfdv (nth3 eo a b d 0) in
    match shape3 e with
    | (px, py, pz) =>
      fold_left (fun dx t => match t with (i, j, k) =>
                   vaddat dx (Z.to_nat (nth3 e i j k 0))
                          (if ov_any ovs i j k then nzero
                           else corr_full_at (fc_w f) g3 (sx1 c) (sy1 c) (sz1 c) i j k) end)
                (positions px py pz) (vzero n)
    end.

  Definition fc_sensitivity_lin (f : fconv) (n : nat) (dfdv : list K) : list K :=
    apply (transpose (fc_triples f)) n dfdv.

  (* ---------------- set_filter_radius: cone weights, normalised by their sum *)
  Definition sum3 (w : arr3 K) : K := nsum (map (fun s => nsum (map (fun r => nsum r) s)) w).
  Definition map3 (h : K -> K) (w : arr3 K) : arr3 K := map (map (map h)) w.

  (* wtab maps the scaled integer squared distance (sx*qa)^2 + (sy*qb)^2 + (sz*qc)^2 to
     max(0, radius - sqrt(that distance in length units));  relative units: sx = sy = sz = 1 *)
  Definition cone_raw (dlx dly dlz : Z) (sx sy sz : Z) (wtab : Z -> K) : arr3 K :=
    tab3 (2 * dlx + 1) (2 * dly + 1) (2 * dlz + 1)
         (fun a b c => wtab (((a - dlx) * sx) * ((a - dlx) * sx) + ((b - dly) * sy) * ((b - dly) * sy)
                             + ((c - dlz) * sz) * ((c - dlz) * sz))).
  Definition normalise3 (raw : arr3 K) : arr3 K := let s := sum3 raw in map3 (fun v => ndiv v s) raw.
  Definition radius_kernel (dlx dly dlz : Z) (sx sy sz : Z) (wtab : Z -> K) : arr3 K :=
    normalise3 (cone_raw dlx dly dlz sx sy sz wtab).
End Conv.

(* delem = min(n, int((radius - 1e-10*dx)/dx)) : int() truncates towards zero; evaluated in exact rationals on
   the rational values of the floats (the generator keeps (radius-1e-10 dx)/dx away from integers) *)
Definition qtrunc (q : Q) : Z := Z.quot (Qnum q) (Zpos (Qden q)).
Definition eps_1em10 : Q := (7737125245533627 # 77371252455336267181195264)%Q.
Definition radius_delem (r dx : Q) (n : Z) : Z :=
  Z.min n (qtrunc (Qred ((r - eps_1em10 * dx) / dx)%Q)).

(* argument checks of _prepare (malformed stream: only the exception class is compared) *)
Inductive perr := ErrValue | ErrAssert | ErrOther.
Definition fc_prepare_check (has_weights has_radius : bool) (kshape : list Z) : option perr :=
  if (negb has_weights && negb has_radius) || (has_weights && has_radius) then Some ErrValue
  else if has_weights && existsb (fun v => negb (v mod 2 =? 1)) kshape then Some ErrAssert
  else None.
