(* Model of pymoto/common/domain.py : DomainDefinition (numbering, connectivity).
   Hand-written, executable, over Z.  No proofs in this file. *)
From Coq Require Import ZArith List.
Import ListNotations.
Open Scope Z_scope.

Record grid := { nelx : Z; nely : Z; nelz : Z }.

Definition dim (g : grid) : Z := if (nelz g =? 0) then (if nely g =? 0 then 1 else 2) else 3.
Definition nz1 (g : grid) : Z := Z.max (nelz g) 1.
Definition nel (g : grid) : Z := nelx g * nely g * nz1 g.
Definition nnodes (g : grid) : Z := (nelx g + 1) * (nely g + 1) * (nelz g + 1).
Definition elemnodes (g : grid) : Z := 2 ^ dim g.

(* get_elemnumber / get_nodenumber, as written *)
Definition elemnumber (g : grid) (i j k : Z) : Z := (k * nely g + j) * nelx g + i.
Definition nodenumber (g : grid) (i j k : Z) : Z := (k * (nely g + 1) + j) * (nelx g + 1) + i.

(* get_node_indices (Python // and % are floor division: Z.div / Z.modulo) *)
Definition node_i (g : grid) (n : Z) : Z := n mod (nelx g + 1).
Definition node_j (g : grid) (n : Z) : Z := (n / (nelx g + 1)) mod (nely g + 1).
Definition node_k (g : grid) (n : Z) : Z := n / ((nelx g + 1) * (nely g + 1)).
Definition node_indices (g : grid) (n : Z) : list Z :=
  if dim g =? 2 then [node_i g n; node_j g n] else [node_i g n; node_j g n; node_k g n].

(* inverse of elemnumber (not in the source; used to state the bijection and to index conn) *)
Definition elem_i (g : grid) (e : Z) : Z := e mod nelx g.
Definition elem_j (g : grid) (e : Z) : Z := (e / nelx g) mod nely g.
Definition elem_k (g : grid) (e : Z) : Z := e / (nelx g * nely g).

(* node_numbering table *)
Definition node_numbering (d : Z) : list (Z * Z * Z) :=
  if d =? 1 then [(-1,-1,-1); (1,-1,-1)]
  else if d =? 2 then [(-1,-1,-1); (1,-1,-1); (-1,1,-1); (1,1,-1)]
  else [(-1,-1,-1); (1,-1,-1); (-1,1,-1); (1,1,-1); (-1,-1,1); (1,-1,1); (-1,1,1); (1,1,1)].

(* get_elemconnectivity for one element *)
Definition elemconn (g : grid) (i j k : Z) : list Z :=
  map (fun n => match n with (n0, n1, n2) =>
         nodenumber g (i + Z.max n0 0) (j + Z.max n1 0) (k + Z.max n2 0) end)
      (node_numbering (dim g)).

(* Cartesian index lists in the order of the constructor:
   elx = repeat(arange(nelx), nely*nz), ely = tile(repeat(arange(nely), nz), nelx), elz = tile(arange(nz), nelx*nely) *)
Definition zrange (n : Z) : list Z := map Z.of_nat (seq 0 (Z.to_nat n)).
Definition ijk_list (g : grid) : list (Z * Z * Z) :=
  flat_map (fun i => flat_map (fun j => map (fun k => (i, j, k)) (zrange (nz1 g))) (zrange (nely g)))
           (zrange (nelx g)).

(* self.conn = zeros((nel, elemnodes)); self.conn[el, :] = get_elemconnectivity(elx, ely, elz):
   a scatter of rows by element number into an initially zero table *)
Fixpoint upd {A} (l : list A) (n : nat) (x : A) : list A :=
  match l, n with
  | [], _ => []
  | _ :: t, O => x :: t
  | h :: t, S m => h :: upd t m x
  end.
Definition conn_table (g : grid) : list (list Z) :=
  fold_left (fun tab ijk => match ijk with (i, j, k) =>
               upd tab (Z.to_nat (elemnumber g i j k)) (elemconn g i j k) end)
            (ijk_list g)
            (repeat (repeat 0 (Z.to_nat (elemnodes g))) (Z.to_nat (nel g))).

(* the closed form the table is proved equal to *)
Definition conn (g : grid) (e : Z) : list Z := elemconn g (elem_i g e) (elem_j g e) (elem_k g e).

(* get_dofconnectivity: repeat(conn*ndof, ndof, axis=-1) + tile(arange(ndof), elemnodes) *)
Definition rep_each {A} (n : nat) (l : list A) : list A := flat_map (fun x => repeat x n) l.
Fixpoint tile {A} (n : nat) (l : list A) : list A :=
  match n with O => [] | S m => l ++ tile m l end.
Definition zip_add (a b : list Z) : list Z := map (fun p => fst p + snd p) (combine a b).
Definition dofconn_row (ndof : Z) (row : list Z) : list Z :=
  zip_add (rep_each (Z.to_nat ndof) (map (fun n => n * ndof) row))
          (tile (length row) (zrange ndof)).
Definition dofconn (g : grid) (ndof : Z) (e : Z) : list Z := dofconn_row ndof (conn g e).

(* "elements" and "nodes" helper arrays: elements[i][j][k] = elemnumber i j k *)
Definition elements_tab (g : grid) : list (list (list Z)) :=
  map (fun i => map (fun j => map (fun k => elemnumber g i j k) (zrange (nz1 g))) (zrange (nely g))) (zrange (nelx g)).
Definition nodes_tab (g : grid) : list (list (list Z)) :=
  map (fun i => map (fun j => map (fun k => nodenumber g i j k) (zrange (nelz g + 1))) (zrange (nely g + 1))) (zrange (nelx g + 1)).
