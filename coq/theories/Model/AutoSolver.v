(* Decision procedure pymoto/solvers/auto_determine.py : auto_determine_solver, as a function of
     - what the matrix predicates report (matrix_is_sparse, shape test, matrix_is_diagonal, the two np.allclose
       triangularity tests, np.iscomplexobj, matrix_is_hermitian, matrix_is_symmetric, sign tests of the diagonal),
     - the availability flags of the optional packages (SolverSparsePardiso.defined, ...),
     - the six keyword overrides (None = detect).
   Definitions only.  The function is regenerated from the source by tools/gen_C05.py (T-dec) and proved equal to
   auto_solver in bridge/C05/AutoBridge.v. *)
From Coq Require Import Bool.

Inductive solver_kind :=
| KDenseQR | KDiagonal
| KPardiso (symmetric hermitian positive_definite : option bool)
| KSparseCholScikit | KSparseCholCVXOPT | KSparseLU
| KDenseCholesky
| KDenseLDL (hermitian : option bool)
| KDenseLU
| KAssertionError        (* the `assert ishermitian == issymmetric` for real matrices fails *)
| KNoReturn.             (* unreachable: every path returns *)

(* Python truthiness / None tests of an Optional[bool] *)
Definition otrue (o : option bool) : bool := match o with Some true => true | _ => false end.
Definition isnone (o : option bool) : bool := match o with None => true | _ => false end.
Definition obeq (a b : option bool) : bool :=
  match a, b with
  | Some x, Some y => Bool.eqb x y
  | None, None => true
  | _, _ => false
  end.
(* `x if x is not None else d` *)
Definition odefault (o : option bool) (d : bool) : option bool := match o with None => Some d | _ => o end.

Section Auto.
(* matrix predicates as reported by the library checks *)
Variables f_sparse f_square f_diag f_lower f_upper f_complex f_herm f_sym f_dpos f_dneg : bool.
Variables has_pardiso has_scikit has_cvxopt : bool.
Variables o_diag o_lower o_upper o_herm o_sym o_pd : option bool.

(* resolution of ishermitian / issymmetric (lines 59-77) : None stands for the AssertionError *)
Definition resolve_herm_sym : option (option bool * option bool) :=
  if f_complex then Some (odefault o_herm f_herm, odefault o_sym f_sym)
  else match o_herm, o_sym with
       | None, None => Some (Some f_sym, Some f_sym)
       | Some h, Some s => if Bool.eqb h s then Some (o_herm, o_sym) else None
       | None, Some _ => Some (o_sym, o_sym)
       | Some _, None => Some (o_herm, o_herm)
       end.

Definition auto_solver : solver_kind :=
  if negb f_square then KDenseQR
  else if otrue (odefault o_diag f_diag) then KDiagonal
  else match resolve_herm_sym with
  | None => KAssertionError
  | Some (ishermitian, issymmetric) =>
    if f_sparse then
      if has_pardiso && negb f_complex then KPardiso issymmetric ishermitian o_pd
      else if otrue ishermitian && otrue (odefault o_pd (f_dpos || f_dneg)) && has_scikit then KSparseCholScikit
      else if otrue ishermitian && otrue (odefault o_pd (f_dpos || f_dneg)) && has_cvxopt then KSparseCholCVXOPT
      else KSparseLU
    else
      if otrue ishermitian then
        if f_dpos || f_dneg then KDenseCholesky else KDenseLDL ishermitian
      else if otrue issymmetric then KDenseLDL ishermitian
      else KDenseLU
  end.
End Auto.

(* ---- documented class of each solver, as a predicate of the TRUE properties of the matrix --------------- *)
Record mclass := {
  m_sparse : bool;     (* scipy sparse storage *)
  m_square : bool;
  m_diag : bool;       (* A is diagonal *)
  m_complex : bool;    (* complex dtype *)
  m_herm : bool;       (* A^H = A *)
  m_sym : bool;        (* A^T = A *)
  m_def : bool         (* A or -A is (Hermitian) positive definite *)
}.

(* an option passed to a constructor is either None (detect) or the truth *)
Definition truthful (o : option bool) (v : bool) : bool :=
  match o with None => true | Some x => Bool.eqb x v end.

Definition admissible (k : solver_kind) (m : mclass) : bool :=
  match k with
  | KDiagonal => m_diag m                                   (* "Solver for diagonal matrices" *)
  | KDenseQR => negb (m_sparse m)                           (* dense square matrices *)
  | KDenseLU => negb (m_sparse m)                           (* dense square matrices *)
  | KDenseCholesky => negb (m_sparse m) && m_herm m         (* Hermitian PD; LDL fallback otherwise *)
  | KDenseLDL h => negb (m_sparse m) &&
        match h with Some true => m_herm m | Some false => m_sym m | None => m_herm m || m_sym m end
  | KSparseLU => m_sparse m                                 (* sparse square matrices *)
  | KSparseCholScikit | KSparseCholCVXOPT => m_sparse m && m_herm m && m_def m   (* PD Hermitian *)
  | KPardiso s h pd => m_sparse m && negb (m_complex m) &&  (* real; flags passed on must be true *)
        truthful s (m_sym m) && truthful h (m_herm m) &&
        match pd with Some true => m_def m | _ => true end
  | KAssertionError | KNoReturn => false
  end.

(* basic facts relating the true properties *)
Definition mclass_consistent (m : mclass) : bool :=
  (m_complex m || Bool.eqb (m_herm m) (m_sym m)) &&      (* real: Hermitian = symmetric *)
  (negb (m_diag m) || m_sym m).                         (* diagonal matrices are symmetric *)

(* decidable equality of results, used by the generated correspondence cases *)
Definition kind_eqb (a b : solver_kind) : bool :=
  match a, b with
  | KDenseQR, KDenseQR | KDiagonal, KDiagonal | KSparseCholScikit, KSparseCholScikit
  | KSparseCholCVXOPT, KSparseCholCVXOPT | KSparseLU, KSparseLU | KDenseCholesky, KDenseCholesky
  | KDenseLU, KDenseLU | KAssertionError, KAssertionError | KNoReturn, KNoReturn => true
  | KPardiso s h p, KPardiso s' h' p' => obeq s s' && obeq h h' && obeq p p'
  | KDenseLDL h, KDenseLDL h' => obeq h h'
  | _, _ => false
  end.
