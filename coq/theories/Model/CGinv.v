(* The (block) preconditioned conjugate-gradient loop of pymoto/solvers/iterative.py (class CG, method solve)
   as a state machine over a star ring.  Definitions only.

   Everything the property does not depend on is an ARBITRARY function:
     precond : the preconditioner's solve (Preconditioner, DampedJacobi, SOR, ILU, GeometricMultigrid, anything)
     orth1, orth2 : orth(., normalize=True) / orth(., normalize=False)   (may even drop columns)
     inv     : np.linalg.inv
     small   : the exit test  `tval.max() <= self.tol`  as a predicate of the residual block r (b is fixed)
   `A` is the matrix selected at the top of solve() (A, A.T or A.conj().T: cg_mat);  x0 is the initial iterate
   (zeros when no x0 is given).  The loop body is regenerated from the source by tools/gen_C05.py and proved equal
   to cg_step_x / cg_step_r / cg_step_p in bridge/C05/CGBridge.v. *)
From mathcomp Require Import all_ssreflect all_algebra.
From Pymoto Require Import Base.StarRing.
Set Implicit Arguments.
Unset Strict Implicit.
Unset Printing Implicit Defensive.
Local Open Scope ring_scope.

Section CG.
Variable M : ringType.
Variables tr cj : M -> M.
Variables precond orth1 orth2 inv : M -> M.
Variable small : M -> bool.

(* A = self.A / self.A.T / self.A.conj().T *)
Definition cg_mat (A0 : M) (t : trans) : M :=
  match t with tN => A0 | tT => tr A0 | tH => tr (cj A0) end.

Variables A b : M.
Variable restart : nat.

Definition cg_r0 (x : M) : M := b - A * x.
Definition cg_p0 (r : M) : M := orth1 (precond r).

(* one pass through the body of `for i in range(self.maxit)` up to the exit test *)
Definition cg_step_x (x r p : M) : M :=
  let q := A * p in
  let pq := tr (cj p) * q in
  let pq_inv := inv pq in
  let alpha := pq_inv * (tr (cj p) * r) in
  x + p * alpha.

Definition cg_step_r (restart_now : bool) (x r p : M) : M :=
  let q := A * p in
  let pq := tr (cj p) * q in
  let pq_inv := inv pq in
  let alpha := pq_inv * (tr (cj p) * r) in
  if restart_now then b - A * cg_step_x x r p else r - q * alpha.

(* ... and after it: new search directions *)
Definition cg_step_p (restart_now : bool) (x r p : M) : M :=
  let q := A * p in
  let pq := tr (cj p) * q in
  let pq_inv := inv pq in
  let z := precond (cg_step_r restart_now x r p) in
  let beta := (- pq_inv) * (tr (cj q) * z) in
  orth2 (z + p * beta).

Definition restart_now (i : nat) : bool := (i %% restart == 0)%N.

(* the loop: `fuel` iterations left, iteration counter i; result (x, r, converged) *)
Fixpoint cg_loop (fuel i : nat) (x r p : M) : M * M :=
  match fuel with
  | O => (x, r)
  | S f =>
      let x' := cg_step_x x r p in
      let r' := cg_step_r (restart_now i) x r p in
      if small r' then (x', r')
      else cg_loop f i.+1 x' r' (cg_step_p (restart_now i) x r p)
  end.

(* solve(): (returned x, last residual block r the exit test / the warning looked at) *)
Definition cg_solve (maxit : nat) (x0 : M) : M * M :=
  let r := cg_r0 x0 in
  if small r then (x0, r) else cg_loop maxit 0 x0 r (cg_p0 r).

(* the max-iteration warning is issued iff the last tval is above the tolerance *)
Definition cg_warns (maxit : nat) (x0 : M) : bool := ~~ small (cg_solve maxit x0).2.

(* trace of all (x_k, r_k) pairs visited, for the "at every iteration" statement *)
Fixpoint cg_trace (fuel i : nat) (x r p : M) : seq (M * M) :=
  match fuel with
  | O => [::]
  | S f =>
      let x' := cg_step_x x r p in
      let r' := cg_step_r (restart_now i) x r p in
      (x', r') :: (if small r' then [::] else cg_trace f i.+1 x' r' (cg_step_p (restart_now i) x r p))
  end.

End CG.
