(* Algebraic model of the solve() methods of pymoto/solvers/dense.py and sparse.py (SolverSparseLU):
   each return expression as a term of a star ring (Base/StarRing.v).  Definitions only.

   Reading of the numpy/scipy expressions (T-alg dialect, see tools/gen_C05.py which regenerates these terms
   from the source on every run; bridge/C05/SolverBridge.v proves generated = these):
     X @ Y                      X * Y
     X.T  /  X.conj()           tr X / cj X
     spla.solve_triangular(F, B, trans=t, lower=l, unit_diagonal=u)     tsolve l u F t B     (library oracle)
     rhs / d,  rhs / d[..., None]     ddiv d rhs        (row scaling by a diagonal, d = diag(A) as a matrix)
     X[self.p]   (LDL, p an index vector)        Pm * X          (Pm = row-selection matrix of p)
     u = zeros; u[self.p] = X                    tr Pm * X
     self.l[self.p, :]                           Pm * l
     self.dinv(X) / self.dinvH(X)                d1 * X  /  tr (cj d1) * X      (lambdas defined in update())
     self.inv.solve(rhs, trans=t)  (SuperLU)     splu t rhs                     (library oracle)
   Branches on `trans`, `self.hermitian`, `self.success` are kept as matches on the corresponding arguments;
   the `rhs.ndim == 1` branches of SolverDiagonal are the same term. *)
From mathcomp Require Import all_ssreflect all_algebra.
From Pymoto Require Import Base.StarRing.
Set Implicit Arguments.
Unset Strict Implicit.
Unset Printing Implicit Defensive.
Local Open Scope ring_scope.

Section Terms.
Variable M : ringType.
Variables tr cj : M -> M.
(* library oracles *)
Variable tsolve : bool -> bool -> M -> trans -> M -> M.   (* lower, unit_diagonal, factor, trans, rhs *)
Variable ddiv : M -> M -> M.                              (* divisor (diagonal), rhs *)
Variable splu : trans -> M -> M.                          (* SuperLU object's solve *)

(* SolverDiagonal.solve : self.diag = A.diagonal() *)
Definition sol_Diagonal (diag : M) (t : trans) (rhs : M) : M :=
  ddiv (match t with tH => cj diag | _ => diag end) rhs.

(* SolverDenseQR.solve : self.q, self.r = spla.qr(A) *)
Definition sol_QR (q r : M) (t : trans) (rhs : M) : M :=
  match t with
  | tN => tsolve false false r tN (cj (tr q) * rhs)
  | tT => cj q * tsolve false false r tT rhs
  | tH => q * tsolve false false r tH rhs
  end.

(* SolverDenseLU.solve : self.p, self.l, self.u = spla.lu(A) *)
Definition sol_LU (p l u : M) (t : trans) (rhs : M) : M :=
  match t with
  | tN => tsolve false false u tN (tsolve true false l tN (tr p * rhs))
  | tT => p * tsolve true false l tT (tsolve false false u tT rhs)
  | tH => p * tsolve true false l tH (tsolve false false u tH rhs)
  end.

(* SolverDenseLDL.solve : self.l, self.d, self.p = spla.ldl(A, hermitian=h); lp = l[p, :]; d1 = inverse of d *)
Definition sol_LDL (h : bool) (l d1 Pm : M) (t : trans) (rhs : M) : M :=
  let lp := Pm * l in
  match t with
  | tN =>
      let u1 := tsolve true true lp tN (Pm * rhs) in
      let u2 := d1 * u1 in
      tr Pm * tsolve true true lp (if h then tH else tT) u2
  | tT =>
      let u1 := if h then cj (tsolve true true lp tN (cj (Pm * rhs)))
                else tsolve true true lp tN (Pm * rhs) in
      let u2 := cj (tr (cj d1) * cj u1) in
      tr Pm * tsolve true true lp tT u2
  | tH =>
      let u1 := if ~~ h then cj (tsolve true true lp tN (cj (Pm * rhs)))
                else tsolve true true lp tN (Pm * rhs) in
      let u2 := tr (cj d1) * u1 in
      tr Pm * tsolve true true lp tH u2
  end.

(* SolverDenseCholesky.solve : self.U = spla.cholesky(A) (upper factor) when `success`, else the backup
   SolverDenseLDL (constructed with hermitian=None, i.e. detected from the matrix: flag hb) *)
Definition sol_Cholesky (success : bool) (U : M) (hb : bool) (l d1 Pm : M) (t : trans) (rhs : M) : M :=
  if success then
    match t with
    | tN | tH => tsolve false false U tN (tsolve false false U tH rhs)
    | tT => cj (tsolve false false U tN (cj (tsolve false false U tT rhs)))
    end
  else sol_LDL hb l d1 Pm t rhs.

(* SolverSparseLU.solve *)
Definition sol_SparseLU (t : trans) (rhs : M) : M := splu t rhs.

End Terms.

(* Library contracts (validated at run time on the solver's own factors, see tools/checks/C05.py) *)
Section Contracts.
Variable M : ringType.
Variables tr cj : M -> M.

(* scipy.linalg.solve_triangular on the factor F with the given lower / unit_diagonal flags solves the
   requested system for every mode and right-hand side *)
Definition tri_ok (tsolve : bool -> bool -> M -> trans -> M -> M) (lower unitd : bool) (F : M) : Prop :=
  forall t b, op tr cj t F * tsolve lower unitd F t b = b.

(* numpy broadcasting division by a (non-singular) diagonal *)
Definition ddiv_ok (ddiv : M -> M -> M) (D : M) : Prop := forall b, D * ddiv D b = b.

(* scipy.sparse.linalg.splu(A).solve *)
Definition splu_ok (splu : trans -> M -> M) (A : M) : Prop := forall t b, op tr cj t A * splu t b = b.

(* the requested system *)
Definition solves (A : M) (t : trans) (x b : M) : Prop := op tr cj t A * x = b.
End Contracts.
