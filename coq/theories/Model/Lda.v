(* Model of pymoto/solvers/solvers.py: get_diagonal_indices and LDAWrapper (update, _do_solve_1rhs, solve),
   and of the matrix-class tests of pymoto/solvers/matrix_checks.py, as the code is written after the fix commits
   F04 (row AND column decoupling), F05 (x0 outer product), F08 (relative acceptance test when a vector is added),
   F09 (out-of-place orthogonalisation: a real solution is stored next to complex ones), F10 (x0 promoted).
   Definitions only.  Generic over a field with involution (Base.Fld); exact arithmetic.

   Reading of the code embodied here (validated by the correspondence check, tools/checks/C06.py):
   * vectors are lists, matrices lists of rows, a right-hand side is a list of columns;
   * `diagonal_idx`/`nondiagonal_idx` (np.argwhere of a mask, i.e. the sorted positions) are kept as the mask;
     `v[idia]`, `v[isel]` are the masked vectors `pd m v`, `pn m v`.  The code stores the database vectors
     compressed to the non-diagonal dofs; the model stores them embedded in full length with zeros on the diagonal
     dofs (same inner products, same updates of `rhs_loc[isel]`/`sol[isel]`);
   * the normalisation `badd /= bnrm; xadd /= bnrm` is omitted: every use of a stored pair (x, b) is through
     `<r,b>/<b,b> * b`, `<r,b>/<b,b> * x` or `<x0,x>/<x,x> * x`, which are invariant under a common scaling of the pair
     (lemma lda_normalisation_irrelevant in Proofs/LdaP.v);
   * tests against a tolerance are exact tests: `residual > tol` is `|A sol - rhs|^2 != 0`,
     `bnrm <= tol*bnrm0` is `|badd|^2 == 0`, `|imag| < 1e-10 |real|` is "all entries real and not all zero";
   * numpy dtypes are tags (true = complex): dtype = result_type(A, rhs); a stored pair carries the dtype it
     was created with; the inner solver returns result_type(A, rhs) (validated at run time);
   * the inner solver is a parameter `inner A adj R X0` = self.solver.solve(R, trans='H' if adj else 'N', x0=X0). *)
From Coq Require Import List Bool Arith ZArith.
From Pymoto Require Import Base.Fld.
Import ListNotations.

Inductive err := ETypeError | EValueError | EOther.

Section Lda.
  Context {F : Type} `{Fld F}.
  Variable inner : (mat F) -> bool -> list (vec F) -> option (list (vec F)) -> list (vec F).

  (* ---------------------------------------------------------------- matrix_checks.py *)
  Definition is_symmetric (A : mat F) : bool := mat_eqb A (mtrans A).
  (* matrix_is_hermitian: complex dtype -> A == A.T.conj(), else matrix_is_symmetric *)
  Definition is_hermitian (cplx : bool) (A : mat F) : bool :=
    if cplx then mat_eqb A (mconj (mtrans A)) else is_symmetric A.

  (* ---------------------------------------------------------------- get_diagonal_indices *)
  Definition bmat (A : mat F) : list (list bool) := map (map (fun z => negb (fis0 z))) A.
  Definition bentry (B : list (list bool)) (i j : nat) : bool := nth j (nth i B []) false.
  Definition get_diagonal_indices (A : mat F) : list bool :=
    let n := Nat.min (length A) (ncols A) in
    let B := bmat A in
    let has_diag := map (fun i => bentry B i i) (seq 0 n) in
    (* bmat.sum(axis=0)[:n]: number of non-zeros in column j *)
    let nnz_rows := map (fun j => count_true (map (fun row => nth j row false) B)) (seq 0 n) in
    (* bmat.sum(axis=1)[:n]: number of non-zeros in row i *)
    let nnz_cols := firstn n (map count_true B) in
    map2 andb (map2 andb has_diag (map (fun c => c <=? 1) nnz_rows)) (map (fun c => c <=? 1) nnz_cols).

  (* ---------------------------------------------------------------- state *)
  Record pair := { p_tag : bool; p_x : (vec F); p_b : (vec F) }.
  Record state := {
    s_A : option (bool * (mat F));          (* self.A with its dtype tag; None before the first update *)
    s_sym : option bool; s_herm : option bool;   (* self.symmetric / self.hermitian (None = not yet determined) *)
    s_mask : list bool;                 (* diagonal dofs *)
    s_dbN : list pair;                  (* x_stored / b_stored *)
    s_dbH : list pair                   (* xadj_stored / badj_stored *)
  }.
  Definition init_state (sym herm : option bool) : state :=
    {| s_A := None; s_sym := sym; s_herm := herm; s_mask := []; s_dbN := []; s_dbH := [] |}.

  (* ---------------------------------------------------------------- update *)
  Definition update (st : state) (cplx : bool) (A : mat F) : state :=
    let sym := match s_sym st with Some s => s | None => is_symmetric A end in
    let herm := match s_herm st with Some h => h | None => is_hermitian cplx A end in
    {| s_A := Some (cplx, A); s_sym := Some sym; s_herm := Some herm;
       s_mask := get_diagonal_indices A; s_dbN := []; s_dbH := [] |}.

  (* ---------------------------------------------------------------- _do_solve_1rhs *)
  (* |imag(V)| < 1e-10 |real(V)| over the whole block: every entry real, not all zero *)
  Definition is_real (z : F) : bool := fis0 (fsub z (fconj z)).
  Definition castable (V : list (vec F)) : bool :=
    forallb (forallb is_real) V && negb (forallb (fun v => fis0 (nrm2 v)) V).

  (* one pass of the reconstruction loop `for (x, b) in zip(x_data, b_data)`; st = (rhs_loc, sol), blocks *)
  Definition gs_step (dt : bool) (st : list (vec F) * list (vec F)) (p : pair) : list (vec F) * list (vec F) :=
    let '(RL, SOL) := st in
    let alpha := map (fun rl => fdiv (hdot rl (p_b p)) (nrm2 (p_b p))) RL in
    let REM := map (fun a => vscale a (p_b p)) alpha in
    let ADD := map (fun a => vscale a (p_x p)) alpha in
    let narrow := p_tag p && negb dt in       (* iscomplexobj(rem_rhs) and not iscomplexobj(rhs_loc) *)
    if narrow && negb (castable REM) then st          (* warn; continue *)
    else if narrow && negb (castable ADD) then st     (* warn; continue *)
    else (map2 vsub RL REM, map2 vadd SOL ADD).

  (* projection of the initial guess: x0_loc[idia] = 0; for x in x_data: x0_loc -= x * <x0_loc, x>/<x, x> *)
  Definition x0_step (X : list (vec F)) (p : pair) : list (vec F) :=
    map (fun c => vsub c (vscale (fdiv (hdot c (p_x p)) (nrm2 (p_x p))) (p_x p))) X.
  Definition x0_loc (m : list bool) (db : list pair) (did : list bool) (isvec : bool) (X0 : list (vec F)) : list (vec F) :=
    let sel := if isvec then X0 else pick did X0 in
    fold_left x0_step db (map (pn m) sel).

  (* orthogonalise a new pair against the database (modified Gram-Schmidt on b, same combination on x) *)
  Definition orth_step (st : (vec F) * (vec F)) (p : pair) : (vec F) * (vec F) :=
    let '(xa, ba) := st in
    let beta := fdiv (hdot ba (p_b p)) (nrm2 (p_b p)) in
    (vsub xa (vscale beta (p_x p)), vsub ba (vscale beta (p_b p))).
  Definition add_db (A : mat F) (m : list bool) (dt : bool) (db : list pair) (xn : (vec F)) : list pair :=
    let xadd := pn m xn in
    let badd := pn m (mv A xn) in
    let '(xa, ba) := fold_left orth_step db (xadd, badd) in
    if fis0 (nrm2 ba) then db                      (* bnrm <= tol * bnrm0 (or bnrm0 == 0): nothing new *)
    else db ++ [{| p_tag := dt || existsb p_tag db; p_x := xa; p_b := ba |}].

  (* sol[isel, did] += xnew[isel] *)
  Fixpoint merge (m : list bool) (did : list bool) (SOL XN : list (vec F)) : list (vec F) :=
    match did, SOL with
    | true :: did', s :: SOL' =>
        match XN with
        | xn :: XN' => vadd s (pn m xn) :: merge m did' SOL' XN'
        | [] => s :: merge m did' SOL' []
        end
    | false :: did', s :: SOL' => s :: merge m did' SOL' XN
    | _, _ => []
    end.

  Definition diag_div (m : list bool) (r D : (vec F)) : (vec F) :=
    map2 (fun (b : bool) (q : F * F) => if b then fdiv (fst q) (snd q) else f0) m (combine r D).

  Record call := { c_adj : bool; c_rhs : list (vec F); c_x0 : option (list (vec F)) }.

  (* returns (solution columns, new database, the call that reached the inner solver if any) *)
  Definition do_solve (A : mat F) (cplxA : bool) (m : list bool) (db : list pair) (adj : bool)
             (solve_fn : list (vec F) -> option (list (vec F)) -> list (vec F))
             (cplx_rhs : bool) (isvec : bool) (RHS : list (vec F)) (X0 : option (list (vec F)))
    : list (vec F) * list pair * option call :=
    let dt := cplxA || cplx_rhs in
    let D := diag A in
    let SOL0 := map (fun r => diag_div m r D) RHS in         (* sol[idia] = rhs_loc[idia] / A.diagonal()[idia] *)
    let RL0 := map (pn m) RHS in                             (* rhs_loc[idia] = 0 *)
    let '(RL, SOL) := fold_left (gs_step dt) db (RL0, SOL0) in
    (* residual(A, sol, rhs) > tol, per column *)
    let did := map2 (fun s r => negb (fis0 (nrm2 (vsub (mv A s) r)))) SOL RHS in
    if existsb (fun b => b) did then
      let X0l := match X0 with None => None | Some X => Some (x0_loc m db did isvec X) end in
      let R := pick did RL in
      let XN := solve_fn R X0l in
      (merge m did SOL XN, fold_left (add_db A m dt) XN db, Some {| c_adj := adj; c_rhs := R; c_x0 := X0l |})
    else (SOL, db, None).

  (* ---------------------------------------------------------------- solve *)
  (* trans: 0 = 'N', 1 = 'T', 2 = 'H' *)
  Definition adjoint_mode (sym herm : bool) (trans : Z) : bool :=
    negb (trans =? 0)%Z && negb (sym || herm).
  Definition conj_mode (sym herm : bool) (trans : Z) : bool :=
    (sym && (trans =? 2)%Z) || (negb sym && (trans =? 1)%Z).

  Definition trans_valid (trans : Z) : bool := (trans =? 0)%Z || (trans =? 1)%Z || (trans =? 2)%Z.
  (* storage = 'H' if adjoint_mode else 'N' *)
  Definition storage_of (am : bool) : Z := if am then 2%Z else 0%Z.
  (* the two branches of `solve`: (storage, matrix 0 = self.A / 2 = self.A.conj().T, database 0 = x_stored,b_stored /
     1 = xadj_stored,badj_stored, trans of the inner solve) *)
  Definition dispatch_table : list (Z * Z * Z * Z) := [(0, 0, 0, 0); (2, 2, 1, 2)]%Z.

  Record sres := { r_cplx : bool; r_x : list (vec F); r_call : option call }.

  Definition solve (st : state) (cplx_rhs isvec : bool) (RHS : list (vec F)) (X0 : option (list (vec F))) (trans : Z)
    : state * (err + sres) :=
    if negb (trans_valid trans) then (st, inl ETypeError)
    else match s_A st, s_sym st, s_herm st with
    | Some (cplxA, A), Some sym, Some herm =>
        let am := adjoint_mode sym herm trans in
        let cm := conj_mode sym herm trans in
        let RHS' := if cm then map vconj RHS else RHS in
        if am then
          let '(X, db, c) := do_solve (mH A) cplxA (s_mask st) (s_dbH st) true (inner A true) cplx_rhs isvec RHS' X0 in
          ({| s_A := s_A st; s_sym := s_sym st; s_herm := s_herm st; s_mask := s_mask st;
              s_dbN := s_dbN st; s_dbH := db |},
           inr {| r_cplx := cplxA || cplx_rhs; r_x := if cm then map vconj X else X; r_call := c |})
        else
          let '(X, db, c) := do_solve A cplxA (s_mask st) (s_dbN st) false (inner A false) cplx_rhs isvec RHS' X0 in
          ({| s_A := s_A st; s_sym := s_sym st; s_herm := s_herm st; s_mask := s_mask st;
              s_dbN := db; s_dbH := s_dbH st |},
           inr {| r_cplx := cplxA || cplx_rhs; r_x := if cm then map vconj X else X; r_call := c |})
    | _, _, _ => (st, inl EOther)        (* solve before update: 'NoneType' object has no attribute ... *)
    end.

  (* ---------------------------------------------------------------- histories *)
  Inductive op :=
  | Update (cplx : bool) (A : mat F)
  | Solve (cplx_rhs isvec : bool) (RHS : list (vec F)) (X0 : option (list (vec F))) (trans : Z).

  Definition step (st : state) (o : op) : state * option (err + sres) :=
    match o with
    | Update c A => (update st c A, None)
    | Solve c v R X0 t => let '(st', r) := solve st c v R X0 t in (st', Some r)
    end.

  Fixpoint run (st : state) (ops : list op) : list (option (err + sres)) :=
    match ops with
    | [] => []
    | o :: ops' => let '(st', r) := step st o in r :: run st' ops'
    end.
  Fixpoint final (st : state) (ops : list op) : state :=
    match ops with
    | [] => st
    | o :: ops' => final (fst (step st o)) ops'
    end.
End Lda.
