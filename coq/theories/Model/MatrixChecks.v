(* pymoto/solvers/matrix_checks.py : matrix_is_sparse / matrix_is_complex / matrix_is_diagonal /
   matrix_is_symmetric / matrix_is_hermitian, as they are written: one branch per kind of container
   (scipy sparse; among those the scipy.sparse.dia_matrix fast path that looks only at the offsets array;
   cvxopt spmatrix; dense numpy array).

   Level 1 (record `atoms`): every library expression the predicates evaluate is an atom; the predicates are
   boolean functions of the atoms.  They are regenerated from the source by tools/gen_C05.py (gen_checks) and
   proved equal to the definitions below for ALL atom values in bridge/C05/ChecksBridge.v.

   Level 2 (`atoms_of`): the atoms of a concrete matrix with exact (Gaussian rational) entries held in a given
   container.  np.allclose(x, 0) of integer-valued data is x = 0; `.data` of a scipy difference holds every entry
   that can be non-zero.  This reading is what the per-run correspondence compares with the implementation
   (every storage format, every matrix class).

   Level 3 (`auto_on`): auto_determine_solver on a concrete stored matrix = Model/AutoSolver.v fed with the
   predicates of level 2.  Definitions only. *)
From Coq Require Import ZArith QArith List Bool.
From Pymoto Require Import Base.CQMat Model.AutoSolver.
Import ListNotations.

(* ------------------------------------------------------------------ level 1: the predicates over atoms *)
Record atoms := {
  at_sparse : bool;            (* sps.issparse(A) *)
  at_cvxopt : bool;            (* isinstance(A, cvxopt.spmatrix) if _has_cvxopt else False *)
  at_isdia : bool;             (* isinstance(A, sps.dia_matrix) *)
  at_offsets : list Z;         (* A.offsets, in stored order *)
  at_cplxobj : bool;           (* np.iscomplexobj(A) *)
  at_cvx_z : bool;             (* A.typecode == 'z' *)
  at_sp_offdiag0 : bool;       (* np.allclose((A - sps.spdiags(A.diagonal(), 0, *A.shape)).data, 0.0) *)
  at_cvx_offdiag0 : bool;      (* max(abs(A.I - A.J)) == 0 *)
  at_dn_offdiag0 : bool;       (* np.allclose(A, np.diag(np.diag(A))) *)
  at_sp_sym : bool;            (* np.allclose((A - A.T).data, 0) *)
  at_cvx_sym : bool;           (* np.isclose(max(abs(A - A.T)), 0.0) *)
  at_dn_sym : bool;            (* np.allclose(A, A.T) *)
  at_sp_herm : bool;           (* np.allclose((A - A.T.conj()).data, 0) *)
  at_cvx_herm : bool;          (* np.isclose(max(abs(A - A.ctrans())), 0.0) *)
  at_dn_herm : bool            (* np.allclose(A, A.T.conj()) *)
}.

(* len(A.offsets) == k   and   A.offsets[i] == k  (an index out of range raises: reported as false; the
   source guards it with the length test through short-circuit `and`) *)
Definition offs_len_is (offs : list Z) (k : Z) : bool := (Z.of_nat (length offs) =? k)%Z.
Definition offs_nth_is (offs : list Z) (i : nat) (k : Z) : bool :=
  match nth_error offs i with Some o => (o =? k)%Z | None => false end.

(* the DIA fast path: exactly one stored diagonal and it is the main one *)
Definition offs_main_only (offs : list Z) : bool :=
  match offs with [o] => (o =? 0)%Z | _ => false end.

Definition is_cvxopt_spmatrix (a : atoms) : bool := at_cvxopt a.
Definition matrix_is_sparse (a : atoms) : bool := at_sparse a.
Definition matrix_is_complex (a : atoms) : bool :=
  if at_cvxopt a then at_cvx_z a else at_cplxobj a.
Definition matrix_is_diagonal (a : atoms) : bool :=
  if at_sparse a then
    if at_isdia a then offs_main_only (at_offsets a) else at_sp_offdiag0 a
  else if at_cvxopt a then at_cvx_offdiag0 a
  else at_dn_offdiag0 a.
Definition matrix_is_symmetric (a : atoms) : bool :=
  if at_sparse a then at_sp_sym a else if at_cvxopt a then at_cvx_sym a else at_dn_sym a.
Definition matrix_is_hermitian (a : atoms) : bool :=
  if matrix_is_complex a then
    if at_sparse a then at_sp_herm a else if at_cvxopt a then at_cvx_herm a else at_dn_herm a
  else matrix_is_symmetric a.

(* ------------------------------------------------------------------ level 2: a stored exact matrix *)
Inductive storage :=
| SDense                              (* numpy array *)
| SDiaMatrix (offsets : list Z)       (* scipy.sparse.dia_matrix with its offsets array as stored *)
| SSparse.                            (* every other scipy sparse container: csc, csr, coo, bsr, lil, dok,
                                         and the *_array classes (dia_array is not a dia_matrix) *)
Definition st_sparse (s : storage) : bool := match s with SDense => false | _ => true end.
Definition st_isdia (s : storage) : bool := match s with SDiaMatrix _ => true | _ => false end.
Definition st_offsets (s : storage) : list Z := match s with SDiaMatrix o => o | _ => [] end.

Definition mget (A : cmat) (i j : nat) : C := nth j (nth i A []) c0.
Definition offdiag_zero (A : cmat) : bool :=
  forallb (fun i => forallb (fun j => Nat.eqb i j || ceqb (mget A i j) c0) (seq 0 (ncols A))) (seq 0 (length A)).
Definition m_symmetric (A : cmat) : bool := meqb A (mtrans A).
Definition m_hermitian (A : cmat) : bool := meqb A (mtrans (mconj A)).
Definition m_square_shape (A : cmat) : bool := Nat.eqb (length A) (ncols A).

(* numpy orders complex numbers lexicographically (real part first) *)
Definition q_pos (x : Q) : bool := negb (Qle_bool x 0).
Definition q_neg (x : Q) : bool := negb (Qle_bool 0 x).
Definition c_pos (z : C) : bool := q_pos (fst z) || (Qeq_bool (fst z) 0 && q_pos (snd z)).
Definition c_neg (z : C) : bool := q_neg (fst z) || (Qeq_bool (fst z) 0 && q_neg (snd z)).
Definition mdiag (A : cmat) : list C := map (fun i => mget A i i) (seq 0 (Nat.min (length A) (ncols A))).
Definition diag_pos (A : cmat) : bool := forallb c_pos (mdiag A).     (* np.all(A.diagonal() > 0) *)
Definition diag_neg (A : cmat) : bool := forallb c_neg (mdiag A).     (* np.all(A.diagonal() < 0) *)

(* cplx is the dtype class of the container (a complex dtype may hold real values) *)
Definition atoms_of (s : storage) (cplx : bool) (A : cmat) : atoms :=
  let od := offdiag_zero A in let sy := m_symmetric A in let he := m_hermitian A in
  {| at_sparse := st_sparse s; at_cvxopt := false; at_isdia := st_isdia s; at_offsets := st_offsets s;
     at_cplxobj := cplx; at_cvx_z := false;
     at_sp_offdiag0 := od; at_cvx_offdiag0 := od; at_dn_offdiag0 := od;
     at_sp_sym := sy; at_cvx_sym := sy; at_dn_sym := sy;
     at_sp_herm := he; at_cvx_herm := he; at_dn_herm := he |}.

(* what the five predicates and the two sign tests of the diagonal report *)
Definition mc_flags (s : storage) (cplx : bool) (A : cmat) : list bool :=
  let a := atoms_of s cplx A in
  [matrix_is_sparse a; matrix_is_diagonal a; matrix_is_symmetric a; matrix_is_hermitian a; matrix_is_complex a;
   diag_pos A; diag_neg A].

(* scipy DIA semantics: data[k][j] is the entry of column j on diagonal offsets[k], i.e. A[i][j] with
   j - i = offsets[k] *)
Definition dia_entry (offs : list Z) (data : list (list C)) (i j : nat) : C :=
  fold_right cadd c0
    (map (fun od => if (fst od =? Z.of_nat j - Z.of_nat i)%Z then nth j (snd od) c0 else c0) (combine offs data)).
Definition dia_dense (n m : nat) (offs : list Z) (data : list (list C)) : cmat :=
  map (fun i => map (fun j => dia_entry offs data i j) (seq 0 m)) (seq 0 n).

(* ------------------------------------------------------------------ level 3: the decision on a stored matrix *)
Definition auto_on (s : storage) (cplx : bool) (A : cmat) (hp hs hc : bool) (o_diag o_herm o_sym o_pd : option bool)
  : solver_kind :=
  let a := atoms_of s cplx A in
  auto_solver (matrix_is_sparse a) (m_square_shape A) (matrix_is_diagonal a) cplx (matrix_is_hermitian a)
              (matrix_is_symmetric a) (diag_pos A) (diag_neg A) hp hs hc o_diag o_herm o_sym o_pd.

(* one stored matrix, many (availability, overrides, observed result) rows: the predicates are evaluated once *)
Definition auto_row := (bool * bool * bool * (option bool * option bool * option bool * option bool) * solver_kind)%type.
Definition auto_row_ok (fs fq fd fc fh fy fp fn : bool) (r : auto_row) : bool :=
  match r with
  | (hp, hs, hc, (od, oh, os, op), got) => kind_eqb (auto_solver fs fq fd fc fh fy fp fn hp hs hc od oh os op) got
  end.
Definition auto_group (s : storage) (cplx : bool) (A : cmat) (rows : list auto_row) : bool :=
  let a := atoms_of s cplx A in
  let fs := matrix_is_sparse a in let fq := m_square_shape A in let fd := matrix_is_diagonal a in
  let fh := matrix_is_hermitian a in let fy := matrix_is_symmetric a in
  let fp := diag_pos A in let fn := diag_neg A in
  forallb (auto_row_ok fs fq fd cplx fh fy fp fn) rows.

(* ------------------------------------------------------------------ the tolerance of np.allclose made explicit
   np.allclose(x, 0) is  |x| <= atol  entry by entry (atol = 1e-8; the relative part vanishes against a zero reference).
   All atoms whose reference is zero are stated exactly:  the three "off-diagonal part is zero" atoms (for the dense
   one the reference np.diag(np.diag(A)) is zero off the diagonal and equals A on it) and the sparse symmetric /
   Hermitian atoms ((A - A.T).data, (A - A.T.conj()).data against 0).  Moduli are compared through their squares.
   The dense symmetric / Hermitian atoms (np.allclose(A, A.T): relative part 1e-5 |A.T| present) keep the exact
   reading; magnitude effects there are covered by the implementation-side oracle only. *)
Definition atol8 : Q := 1 # 100000000.
Definition cabs2 (z : C) : Q := fst z * fst z + snd z * snd z.
Definition c_within (tol : Q) (z : C) : bool := Qle_bool (cabs2 z) (tol * tol).
Definition offdiag_within (tol : Q) (A : cmat) : bool :=
  forallb (fun i => forallb (fun j => Nat.eqb i j || c_within tol (mget A i j)) (seq 0 (ncols A))) (seq 0 (length A)).
Definition diff_within (tol : Q) (A B : cmat) : bool :=
  list_all2 (list_all2 (fun a b => c_within tol (csub a b))) A B.

Definition atoms_of_tol (tol : Q) (s : storage) (cplx : bool) (A : cmat) : atoms :=
  let od := offdiag_within tol A in
  {| at_sparse := st_sparse s; at_cvxopt := false; at_isdia := st_isdia s; at_offsets := st_offsets s;
     at_cplxobj := cplx; at_cvx_z := false;
     at_sp_offdiag0 := od; at_cvx_offdiag0 := od; at_dn_offdiag0 := od;
     at_sp_sym := diff_within tol A (mtrans A); at_cvx_sym := m_symmetric A; at_dn_sym := m_symmetric A;
     at_sp_herm := diff_within tol A (mtrans (mconj A)); at_cvx_herm := m_hermitian A; at_dn_herm := m_hermitian A |}.

Definition auto_on_tol (tol : Q) (s : storage) (cplx : bool) (A : cmat) (hp hs hc : bool)
           (o_diag o_herm o_sym o_pd : option bool) : solver_kind :=
  let a := atoms_of_tol tol s cplx A in
  auto_solver (matrix_is_sparse a) (m_square_shape A) (matrix_is_diagonal a) cplx (matrix_is_hermitian a)
              (matrix_is_symmetric a) (diag_pos A) (diag_neg A) hp hs hc o_diag o_herm o_sym o_pd.

(* [diagonal; symmetric; Hermitian] with the tolerance explicit (symmetric / Hermitian: sparse containers) *)
Definition mc_flags_tol (tol : Q) (s : storage) (cplx : bool) (A : cmat) : list bool :=
  let a := atoms_of_tol tol s cplx A in
  [matrix_is_diagonal a; matrix_is_symmetric a; matrix_is_hermitian a].

(* entries that are (Gaussian) integers: what the exact reading of the correspondence relies on *)
Definition q_integer (x : Q) : bool := Pos.eqb (Qden x) 1.
Definition c_integer (z : C) : bool := q_integer (fst z) && q_integer (snd z).
Definition m_integer (A : cmat) : bool := forallb (forallb c_integer) A.
