(* Model of a DomainDefinition OBJECT (pymoto/common/domain.py) and of its callers.

   Model/Grid.v and Model/Shape.v are functional: a query is a function of (grid, element sizes) and cannot have a
   history.  The Python object can: its methods read the attributes stored on `self` (nelx, nely, dim, nel, nnodes,
   elemnodes, node_numbering and the arrays element_size, origin, conn, elements, nodes), they could write to them,
   they could hand out one of the object's own arrays instead of a new one, and the caller may overwrite every array
   it was handed.  This file models exactly that: arrays live in a heap and are addressed by references, the domain
   record holds scalars and references, every public method is written as in the source in terms of what is STORED
   on the object (`m_*` below read the record / the heap, never the constructor arguments), every query ALLOCATES
   its result (np.stack / arithmetic / np.repeat create new arrays), and the caller operation `OFill` overwrites an
   array the caller was handed.  A method that returned `self.conn` itself would be modelled by returning `r_conn`
   without allocation; a method that scaled `self.element_size[0:3]` in place by a heap update at `r_esize`.

   Layout of results: one row per item (per node / per element); the harness transposes numpy's (dim, n) results of
   get_node_indices / get_node_position.  A 1-D array is a single row.  Definitions only; lemmas in
   Proofs/GridHistP.v. *)
From Coq Require Import ZArith QArith List Bool.
From Pymoto Require Import Base.Num Base.Cmp Model.Grid Model.Shape.
Import ListNotations.
Open Scope Z_scope.

Inductive arr : Type := AZ (rows : list (list Z)) | AQ (rows : list (list Q)).
Definition heap := list arr.

Record dom : Type := {
  d_nelx : Z; d_nely : Z; d_nelz : Z;
  d_dim : Z; d_nel : Z; d_nnodes : Z; d_elemnodes : Z;
  d_unit : list Q;                         (* unitx, unity, unitz *)
  d_numbering : list (Z * Z * Z);          (* node_numbering (a Python list of lists; no method hands it out) *)
  r_esize : nat; r_origin : nat; r_conn : nat; r_elements : nat; r_nodes : nat   (* the arrays the object owns *)
}.

Definition hp_Z (hp : heap) (r : nat) : list (list Z) := match nth_error hp r with Some (AZ t) => t | _ => [] end.
Definition hp_Q (hp : heap) (r : nat) : list (list Q) := match nth_error hp r with Some (AQ t) => t | _ => [] end.
Definition row0 {A} (t : list (list A)) : list A := match t with r :: _ => r | [] => [] end.

(* __init__: five arrays are allocated behind whatever the heap holds already (other domains, callers' arrays) *)
Definition dom_new (hp : heap) (g : grid) (h : list Q) : heap * dom :=
  let n := length hp in
  (hp ++ [AQ [h]; AQ [[0; 0; 0]%Q]; AZ (conn_table g); AZ (concat (elements_tab g)); AZ (concat (nodes_tab g))],
   {| d_nelx := nelx g; d_nely := nely g; d_nelz := nelz g;
      d_dim := dim g; d_nel := nel g; d_nnodes := nnodes g; d_elemnodes := elemnodes g;
      d_unit := h; d_numbering := node_numbering (dim g);
      r_esize := n; r_origin := S n; r_conn := S (S n); r_elements := S (S (S n)); r_nodes := S (S (S (S n))) |}).

(* ---- the public methods, in terms of what is stored on the object ---- *)
Definition m_esize (hp : heap) (d : dom) : list Q := row0 (hp_Q hp (r_esize d)).
Definition m_dimn (d : dom) : nat := Z.to_nat (d_dim d).

(* get_elemnumber: (elk * self.nely + elj) * self.nelx + eli *)
Definition m_elemnumber (d : dom) (i j k : Z) : Z := (k * d_nely d + j) * d_nelx d + i.
(* get_nodenumber: (nodk * (self.nely + 1) + nodj) * (self.nelx + 1) + nodi *)
Definition m_nodenumber (d : dom) (i j k : Z) : Z := (k * (d_nely d + 1) + j) * (d_nelx d + 1) + i.
(* get_node_indices *)
Definition m_node_indices (d : dom) (n : Z) : list Z :=
  let nodi := n mod (d_nelx d + 1) in
  let nodj := (n / (d_nelx d + 1)) mod (d_nely d + 1) in
  if d_dim d =? 2 then [nodi; nodj] else [nodi; nodj; n / ((d_nelx d + 1) * (d_nely d + 1))].
(* nod_idx = np.arange(self.nnodes) if None *)
Definition m_idx (d : dom) (idx : option (list Z)) : list Z :=
  match idx with Some l => l | None => zrange (d_nnodes d) end.
(* get_node_position: (self.element_size[:self.dim] * ijk.T).T *)
Definition m_node_position (hp : heap) (d : dom) (n : Z) : list Q :=
  map (fun q => nmul (fst q) (nofZ (snd q))) (combine (firstn (m_dimn d) (m_esize hp d)) (m_node_indices d n)).
(* get_elemconnectivity: [get_nodenumber(i+max(n[0],0), j+max(n[1],0), k+max(n[2],0)) for n in self.node_numbering] *)
Definition m_elemconn (d : dom) (i j k : Z) : list Z :=
  map (fun n => match n with (n0, n1, n2) =>
         m_nodenumber d (i + Z.max n0 0) (j + Z.max n1 0) (k + Z.max n2 0) end) (d_numbering d).
(* get_dofconnectivity: np.repeat(self.conn*ndof, ndof, axis=-1) + np.tile(np.arange(ndof), self.elemnodes) *)
Definition m_dofconn (hp : heap) (d : dom) (ndof : Z) : list (list Z) :=
  map (dofconn_row ndof) (hp_Z hp (r_conn d)).
(* eval_shape_fun / eval_shape_fun_der: element_size, dim and node_numbering of the object *)
Definition m_shape (hp : heap) (d : dom) (pos : list Q) : list Q :=
  map (shape_one (m_dimn d) (m_esize hp d) pos) (d_numbering d).
Definition m_shape_der (hp : heap) (d : dom) (pos : list Q) : list (list Q) :=
  map (fun i => map (dshape_one (m_dimn d) (m_esize hp d) pos i) (d_numbering d)) (seq 0 (m_dimn d)).
(* write_to_vti: dx, dy, dz = self.element_size[0:3]*scale  and  origin[i]*scale  (what goes into the header) *)
Definition m_vti_spacing (hp : heap) (d : dom) (scale : Q) : list Q :=
  map (fun v => nmul v scale) (firstn 3 (m_esize hp d)).
Definition m_vti_origin (scale : Q) (origin : list Q) : list Q := map (fun v => nmul v scale) origin.

(* ---- operations of a history ---- *)
Inductive op : Type :=
| OElemNumber (ijk : list (Z * Z * Z))        (* get_elemnumber(i, j, k) on index arrays *)
| ONodeNumber (ijk : list (Z * Z * Z))
| ONodeIndices (idx : option (list Z))
| ONodePosition (idx : option (list Z))
| OElemConn (ijk : list (Z * Z * Z))
| ODofConn (ndof : Z)
| OShape (pos : list Q)
| OShapeDer (pos : list Q)
| OWriteVti (scale : Q) (origin : list Q)
| OPlot                                       (* plot / update_plot: only temporaries of get_node_position *)
| OFill (r : nat) (v : Z)                     (* the CALLER overwrites every entry of the array with reference r *)
| OSnap.                                      (* read every attribute of the object *)

Inductive obs : Type :=
| ObArr (a : arr)
| ObVti (spacing origin : list Q)
| ObSnap (scalars : list Z) (unit : list Q) (numbering : list (Z * Z * Z)) (own : list arr)
| ObNone.


Definition app3 {A} (f : Z -> Z -> Z -> A) (t : Z * Z * Z) : A := match t with (i, j, k) => f i j k end.

(* the array a query returns (None: the operation is not a query) *)
Definition query_result (hp : heap) (d : dom) (o : op) : option arr :=
  match o with
  | OElemNumber ijk => Some (AZ [map (app3 (m_elemnumber d)) ijk])
  | ONodeNumber ijk => Some (AZ [map (app3 (m_nodenumber d)) ijk])
  | ONodeIndices idx => Some (AZ (map (m_node_indices d) (m_idx d idx)))
  | ONodePosition idx => Some (AQ (map (m_node_position hp d) (m_idx d idx)))
  | OElemConn ijk => Some (AZ (map (app3 (m_elemconn d)) ijk))
  | ODofConn ndof => Some (AZ (m_dofconn hp d ndof))
  | OShape pos => Some (AQ [m_shape hp d pos])
  | OShapeDer pos => Some (AQ (m_shape_der hp d pos))
  | _ => None
  end.

Definition snapshot (hp : heap) (d : dom) : obs :=
  ObSnap [d_nelx d; d_nely d; d_nelz d; d_dim d; d_nel d; d_nnodes d; d_elemnodes d] (d_unit d) (d_numbering d)
         [AQ (hp_Q hp (r_esize d)); AQ (hp_Q hp (r_origin d)); AZ (hp_Z hp (r_conn d));
          AZ (hp_Z hp (r_elements d)); AZ (hp_Z hp (r_nodes d))].

Definition fill_arr (v : Z) (a : arr) : arr :=
  match a with
  | AZ t => AZ (map (map (fun _ => v)) t)
  | AQ t => AQ (map (map (fun _ => inject_Z v)) t)
  end.
Fixpoint heap_upd (hp : heap) (r : nat) (f : arr -> arr) : heap :=
  match hp, r with
  | [], _ => []
  | a :: t, O => f a :: t
  | a :: t, S m => a :: heap_upd t m f
  end.

(* state of the little world: the heap, the domain object, and the references the caller has been handed *)
Record st : Type := { s_hp : heap; s_dom : dom; s_owned : list nat }.

Definition step (s : st) (o : op) : st * obs :=
  match query_result (s_hp s) (s_dom s) o with
  | Some a => ({| s_hp := s_hp s ++ [a]; s_dom := s_dom s; s_owned := length (s_hp s) :: s_owned s |}, ObArr a)
  | None =>
      match o with
      | OFill r v =>
          (* a caller can only write into arrays it can reach: the ones it was handed *)
          (if existsb (Nat.eqb r) (s_owned s)
           then {| s_hp := heap_upd (s_hp s) r (fill_arr v); s_dom := s_dom s; s_owned := s_owned s |}
           else s, ObNone)
      | OWriteVti scale origin => (s, ObVti (m_vti_spacing (s_hp s) (s_dom s) scale) (m_vti_origin scale origin))
      | OSnap => (s, snapshot (s_hp s) (s_dom s))
      | _ => (s, ObNone)
      end
  end.

Fixpoint run (s : st) (ops : list op) : st :=
  match ops with [] => s | o :: t => run (fst (step s o)) t end.
Fixpoint run_obs (s : st) (ops : list op) : list obs :=
  match ops with [] => [] | o :: t => let r := step s o in snd r :: run_obs (fst r) t end.

Definition new_st (hp0 : heap) (g : grid) (h : list Q) : st :=
  let r := dom_new hp0 g h in {| s_hp := fst r; s_dom := snd r; s_owned := [] |}.

(* ---- what a query returns on a pristine domain, in terms of Model/Grid.v and Model/Shape.v only ---- *)
Definition p_idx (g : grid) (idx : option (list Z)) : list Z :=
  match idx with Some l => l | None => zrange (nnodes g) end.
Definition pure_obs (g : grid) (h : list Q) (o : op) : obs :=
  match o with
  | OElemNumber ijk => ObArr (AZ [map (app3 (elemnumber g)) ijk])
  | ONodeNumber ijk => ObArr (AZ [map (app3 (nodenumber g)) ijk])
  | ONodeIndices idx => ObArr (AZ (map (node_indices g) (p_idx g idx)))
  | ONodePosition idx => ObArr (AQ (map (node_position g h) (p_idx g idx)))
  | OElemConn ijk => ObArr (AZ (map (app3 (elemconn g)) ijk))
  | ODofConn ndof => ObArr (AZ (map (dofconn_row ndof) (conn_table g)))
  | OShape pos => ObArr (AQ [shape_fun (Z.to_nat (dim g)) h pos])
  | OShapeDer pos => ObArr (AQ (shape_der (Z.to_nat (dim g)) h pos))
  | OWriteVti scale origin => ObVti (map (fun v => nmul v scale) (firstn 3 h)) (map (fun v => nmul v scale) origin)
  | OSnap => ObSnap [nelx g; nely g; nelz g; dim g; nel g; nnodes g; elemnodes g] h (node_numbering (dim g))
                    [AQ [h]; AQ [[0; 0; 0]%Q]; AZ (conn_table g); AZ (concat (elements_tab g)); AZ (concat (nodes_tab g))]
  | OPlot => ObNone
  | OFill _ _ => ObNone
  end.

(* ---- boolean comparison of observations (correspondence) ---- *)
Definition triple_eqb (a b : Z * Z * Z) : bool :=
  match a, b with (a0, a1, a2), (b0, b1, b2) => Z.eqb a0 b0 && Z.eqb a1 b1 && Z.eqb a2 b2 end.
Definition arr_eqb (a b : arr) : bool :=
  match a, b with
  | AZ x, AZ y => Zll_eqb x y
  | AQ x, AQ y => Qll_eqb x y
  | _, _ => false
  end.
Definition obs_eqb (a b : obs) : bool :=
  match a, b with
  | ObArr x, ObArr y => arr_eqb x y
  | ObVti s1 o1, ObVti s2 o2 => Ql_eqb s1 s2 && Ql_eqb o1 o2
  | ObSnap s1 u1 n1 w1, ObSnap s2 u2 n2 w2 =>
      Zl_eqb s1 s2 && Ql_eqb u1 u2 && list_eqb triple_eqb n1 n2 && list_eqb arr_eqb w1 w2
  | ObNone, ObNone => true
  | _, _ => false
  end.
Definition obsl_eqb := list_eqb obs_eqb.
(* indices of the operations whose observation differs (for the report) *)
Definition obs_failing (a b : list obs) : list nat := failing (map (fun p => obs_eqb (fst p) (snd p)) (combine a b)).
