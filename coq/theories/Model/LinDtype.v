(* Dtype tags of the _response methods of pymoto/modules/linalg.py (SystemOfEquations, StaticCondensation, LinSolve,
   Inverse): which numpy dtype every buffer is allocated with and which dtype every value stored into it has.
   Definitions only (plain Coq, so that the generated case files can evaluate them next to Base/CQMat.v).

   Reading (T-dtype, see tools/gen_C07.py gen_lindtype which regenerates these terms from the source):
     the dtypes that occur are bool < int64 < float64 < complex128 (a chain; single precision is outside the property:
     the 1e-9 accuracy of the defining equations cannot hold there);
       np.result_type(a, b, ...)          rt a (rt b ...)          (least upper bound)
       X @ Y, X + Y, X - Y                rt dX dY
       A[rows][:, cols], .toarray(), np.asarray                   dtype unchanged
       np.zeros(shape, dtype=E)           a buffer of dtype E;   np.zeros_like(buf)   a buffer of the dtype of buf
       buf[idx, ...] = v                  a STORE of a value of dtype dv into buf: numpy casts v to the dtype of buf
                                          (complex -> float drops the imaginary part with only a warning), so the
                                          algebraic reading "scatter = embedded sum" of Model/LinMods.v is right
                                          exactly when dv <= dtype of buf
     the inner LinSolve module answers with dtype `sol dM drhs`; its contract (solver stack of C05/C06, validated on
     every generated case) is sol = linsolve_dtype. *)
From Coq Require Import List Bool Arith.
Import ListNotations.

Inductive dtype : Set := DBool | DInt | DFloat | DComplex.

Definition drank (d : dtype) : nat :=
  match d with DBool => 0 | DInt => 1 | DFloat => 2 | DComplex => 3 end.
Definition dle (a b : dtype) : bool := Nat.leb (drank a) (drank b).
Definition dtype_eqb (a b : dtype) : bool := Nat.eqb (drank a) (drank b).
(* np.result_type of two dtypes *)
Definition rt (a b : dtype) : dtype := if dle a b then b else a.
(* np.result_type(d1, ..., dk), k >= 1 *)
Definition rtl (l : list dtype) : dtype := fold_left rt l DBool.
(* every value stored into a buffer of dtype buf keeps its value *)
Definition stores_lossless (buf : dtype) (stores : list dtype) : bool := forallb (fun d => dle d buf) stores.

(* codes used by the generated cases: 0 bool, 1 integer, 2 float64, 3 complex128; anything else (single precision,
   object, ...) is code 9 and equals no model dtype *)
Definition dof (code : nat) : dtype :=
  match code with 0 => DBool | 1 => DInt | 2 => DFloat | _ => DComplex end.
Definition dtype_obs (d : dtype) (code : nat) : bool := Nat.eqb (drank d) code.

(* ---- LinSolve: dtype of the answer of the solver stack for (matrix dtype, rhs dtype) — contract *)
Definition linsolve_dtype (dM drhs : dtype) : dtype := rt (rt dM drhs) DFloat.
(* ---- Inverse: np.linalg.inv — contract *)
Definition inverse_dtype (dA : dtype) : dtype := rt dA DFloat.

(* ---- SystemOfEquations._response *)
Section SoE.
Variable sol : dtype -> dtype -> dtype.      (* inner LinSolve *)
Variables dA dBf dXp : dtype.
(* self.x = np.zeros((n, ...), dtype=np.result_type(A.dtype, bf.dtype, xp.dtype, float));  b = np.zeros_like(self.x) *)
Definition soe_x_buf : dtype := rt (rt (rt dA dBf) dXp) DFloat.
Definition soe_b_buf : dtype := soe_x_buf.
(* inner system:  Aff,  bf - Afp @ xp *)
Definition soe_inner_mat : dtype := dA.
Definition soe_inner_rhs : dtype := rt dBf (rt dA dXp).
Definition soe_xf_dtype : dtype := sol soe_inner_mat soe_inner_rhs.
(* Apf @ xf + App @ xp *)
Definition soe_bp_dtype : dtype := rt (rt dA soe_xf_dtype) (rt dA dXp).
(* stores in program order:  x[p] = xp; x[f] = xf   /   b[f] = bf; b[p] = Apf @ xf + App @ xp *)
Definition soe_x_stores : list dtype := [dXp; soe_xf_dtype].
Definition soe_b_stores : list dtype := [dBf; soe_bp_dtype].
End SoE.

(* ---- StaticCondensation._response:  A[m][:, m] - A[m][:, f] @ X,   X = inner LinSolve (A_ff, A_fm) *)
Section Schur.
Variable sol : dtype -> dtype -> dtype.
Variable dA : dtype.
Definition sc_inner_mat : dtype := dA.
Definition sc_inner_rhs : dtype := dA.
Definition sc_out_dtype : dtype := rt dA (rt dA (sol sc_inner_mat sc_inner_rhs)).
End Schur.

(* executable checks of the generated correspondence cases (codes as above) *)
Definition check_linsolve_dtype (a b ox : nat) : bool := dtype_obs (linsolve_dtype (dof a) (dof b)) ox.
Definition check_inv_dtype (a o : nat) : bool := dtype_obs (inverse_dtype (dof a)) o.
Definition check_soe_dtype (a bf xp ox ob : nat) : bool :=
  dtype_obs (soe_x_buf (dof a) (dof bf) (dof xp)) ox && dtype_obs (soe_b_buf (dof a) (dof bf) (dof xp)) ob &&
  stores_lossless (soe_x_buf (dof a) (dof bf) (dof xp)) (soe_x_stores linsolve_dtype (dof a) (dof bf) (dof xp)) &&
  stores_lossless (soe_b_buf (dof a) (dof bf) (dof xp)) (soe_b_stores linsolve_dtype (dof a) (dof bf) (dof xp)).
Definition check_sc_dtype (a o : nat) : bool := dtype_obs (sc_out_dtype linsolve_dtype (dof a)) o.
