(* Model of pymoto/modules/assembly.py : ElementOperation, Strain, Stress, ElementAverage, NodalOperation,
   ThermoMechanical — written as in the source, generic over a numeric type K with a zero test
   (np.count_nonzero in Strain._prepare).  s3 is the number np.sqrt(3).  Definitions only. *)
From Coq Require Import ZArith List Bool.
From Pymoto Require Import Base.Num Base.Qsqrt3 Base.SparseLin Base.FEMat Model.Grid Model.Shape Model.ElemMat Model.Assembly.
Import ListNotations.

Section ElemOps.
  Context {K : Type} `{Num K} `{ZeroTest K}.
  Local Open Scope num_scope.
  Variable s3 : K.

  (* ---- the two einsum primitives ---- *)
  (* einsum('...k, lk -> ...l', EM, u[dofconn]):  out[r][l] = sum_k EM[r][k] * u[dofconn[l][k]]
     (EM given as the list of its rows = C-order flattening of the leading dimensions) *)
  Definition op_fwd (rows : list (list K)) (dcs : list (list Z)) (u : list K) : list (list K) :=
    map (fun r => map (fun dce => dot r (gatherZ u dce)) dcs) rows.

  (* einsum('...k, ...l -> lk', EM, y):  el[l][k] = sum_r EM[r][k] * y[r][l] *)
  Definition op_el (kd : nat) (rows : list (list K)) (y : list (list K)) (nel : nat) : list (list K) :=
    map (fun l => map (fun k => dot (mcol rows k) (mcol y l)) (seq 0 kd)) (seq 0 nel).

  (* np.add.at(out, dofconn, el) on out = zeros(n) *)
  Definition scatter_add (n : nat) (dcs : list (list Z)) (el : list (list K)) : list K :=
    fold_left (fun acc p =>
                 fold_left (fun acc2 q => vaddat acc2 (Z.to_nat (fst q)) (snd q)) (combine (fst p) (snd p)) acc)
              (combine dcs el) (vzero n).

  Definition op_bwd (kd : nat) (rows : list (list K)) (dcs : list (list Z)) (n : nat) (y : list (list K)) : list K :=
    scatter_add n dcs (op_el kd rows y (length dcs)).

  (* ---- ElementOperation ---- *)
  (* the operator array: leading shape and rows of length kd (kd = shape[-1]) *)
  Record opmat : Type := { om_lead : list Z; om_kd : Z; om_rows : list (list K) }.

  (* self.element_matrix[i, ..., i::ndof] = em *)
  Definition spread (ndof i : nat) (r : list K) : list K :=
    flat_map (fun v => map (fun d => if Nat.eqb d i then v else nzero) (seq 0 ndof)) r.

  (* the operator actually used by _response for a vector with ndof dofs per node *)
  Definition eo_effective (g : grid) (em : opmat) (ndof : Z) : opmat :=
    if Z.eqb (om_kd em) (elemnodes g * ndof) then em
    else {| om_lead := ndof :: om_lead em; om_kd := ndof * elemnodes g;
            om_rows := flat_map (fun i => map (spread (Z.to_nat ndof) i) (om_rows em)) (seq 0 (Z.to_nat ndof)) |}.

  (* exception class: 0 none, 3 IndexError (prepare: shape[-1] % elemnodes; response: u.size % nnodes),
     4 AssertionError (shape[-1] is neither #dofs_per_element nor #nodes_per_element) *)
  Definition eo_status (g : grid) (em : opmat) (usize : Z) : Z :=
    if negb (Z.eqb (om_kd em mod elemnodes g) 0) then 3%Z
    else if negb (Z.eqb (usize mod nnodes g) 0) then 3%Z
    else let ndof := (usize / nnodes g)%Z in
         if Z.eqb (om_kd em) (elemnodes g * ndof) then 0%Z
         else if Z.eqb (om_kd em) (elemnodes g) then 0%Z else 4%Z.

  Definition eo_ndof (g : grid) (usize : Z) : Z := (usize / nnodes g)%Z.

  (* response: rows of the output (C order) and its shape *)
  Definition eo_response (g : grid) (em : opmat) (u : list K) : list (list K) :=
    let ndof := eo_ndof g (Z.of_nat (length u)) in
    op_fwd (om_rows (eo_effective g em ndof)) (dofconn_all g ndof) u.
  Definition eo_shape (g : grid) (em : opmat) (usize : Z) : list Z :=
    om_lead (eo_effective g em (eo_ndof g usize)) ++ [nel g].

  (* sensitivity for an output seed dy (rows as the output) *)
  Definition eo_sensitivity (g : grid) (em : opmat) (usize : Z) (dy : list (list K)) : list K :=
    let ndof := eo_ndof g usize in
    let ef := eo_effective g em ndof in
    op_bwd (Z.to_nat (om_kd ef)) (om_rows ef) (dofconn_all g ndof) (Z.to_nat usize) dy.

  (* the same map as a SparseLin triple list: output index r*nel + l, input index dofconn[l][k] *)
  Definition op_triples (rows : list (list K)) (dcs : list (list Z)) : list (@triple K) :=
    flat_map (fun pr => flat_map (fun pl =>
       map (fun q => ((fst pr * length dcs + fst pl)%nat, Z.to_nat (fst q), snd q)) (combine (snd pl) (snd pr)))
       (combine (seq 0 (length dcs)) dcs)) (combine (seq 0 (length rows)) rows).

  (* ---- NodalOperation ---- *)
  (* 0 none, 3 IndexError *)
  Definition no_status (g : grid) (em : opmat) : Z :=
    if negb (Z.eqb (om_kd em mod elemnodes g) 0) then 3%Z else 0%Z.
  Definition no_ndof (g : grid) (em : opmat) : Z := (om_kd em / elemnodes g)%Z.
  Definition no_response (g : grid) (em : opmat) (x : list (list K)) : list K :=
    let ndof := no_ndof g em in
    op_bwd (Z.to_nat (om_kd em)) (om_rows em) (dofconn_all g ndof) (Z.to_nat (ndof * nnodes g)) x.
  Definition no_sensitivity (g : grid) (em : opmat) (dx : list K) : list (list K) :=
    op_fwd (om_rows em) (dofconn_all g (no_ndof g em)) dx.

  (* ---- Strain ---- *)
  Definition count_nonzero (row : list K) : nat := length (filter (fun v => negb (is0 v)) row).

  (* B = None; for n in node_numbering: B_add = w*get_B(dN_dx); B = B_add or B += B_add;  w = 1/elemnodes *)
  Definition strain_Bavg (d : nat) (h : list K) : list (list K) :=
    let w := none_ / nofZ (2 ^ Z.of_nat d) in
    let Badd n := mscale w (B_at d h (gauss_pos s3 h n)) in
    match node_numbering (Z.of_nat d) with
    | [] => []
    | n0 :: rest => fold_left (fun B n => madd B (Badd n)) rest (Badd n0)
    end.

  (* idx_shear = count_nonzero(B, axis=1) == 2*elemnodes;  B[idx_shear, :] *= 2 *)
  Definition voigt_scale (d : nat) (B : list (list K)) : list (list K) :=
    map (fun row => if Nat.eqb (count_nonzero row) (2 * 2 ^ d) then map (fun v => v * two) row else row) B.

  Definition strain_B (d : nat) (h : list K) (voigt : bool) : list (list K) :=
    let B := strain_Bavg d h in if voigt then voigt_scale d B else B.

  Definition strain_opmat (d : nat) (h : list K) (voigt : bool) : opmat :=
    {| om_lead := [Z.of_nat (nstrain d)]; om_kd := Z.of_nat (eldofs d); om_rows := strain_B d h voigt |}.

  (* ---- Stress:  element_matrix = D @ strain_B(voigt=True) ---- *)
  Definition stress_B (d : nat) (h : list K) (E nu : K) (mode : Z) : list (list K) :=
    mmul (eldofs d) (material_D d h E nu mode) (strain_B d h true).
  Definition stress_opmat (d : nat) (h : list K) (E nu : K) (mode : Z) : opmat :=
    {| om_lead := [Z.of_nat (nstrain d)]; om_kd := Z.of_nat (eldofs d); om_rows := stress_B d h E nu mode |}.

  (* ---- ElementAverage: shape functions at the centroid ---- *)
  Definition average_opmat (d : nat) (h : list K) : opmat :=
    {| om_lead := []; om_kd := 2 ^ Z.of_nat d; om_rows := [shape_fun d h [nzero; nzero; nzero]] |}.

  (* ---- ThermoMechanical:  BDPhi += w * B.T @ D @ Phi;  element_matrix = alpha*BDPhi ---- *)
  Definition thermo_phi (d : nat) : list K :=
    if Nat.eqb d 2 then [none_; none_; nzero] else [none_; none_; none_; nzero; nzero; nzero].
  Definition thermo_BDPhi (d : nat) (h : list K) (E nu : K) (mode : Z) : list K :=
    let D := material_D d h E nu mode in
    let w := gauss_w d h in
    fold_left (fun acc n =>
                 let B := B_at d h (gauss_pos s3 h n) in
                 vadd acc (mvmul (mmul (nstrain d) (mscale w (mtrans (eldofs d) B)) D) (thermo_phi d)))
              (node_numbering (Z.of_nat d)) (vzero (eldofs d)).
  Definition thermo_opmat (d : nat) (h : list K) (E nu alpha : K) (mode : Z) : opmat :=
    {| om_lead := []; om_kd := Z.of_nat (eldofs d); om_rows := [vscale alpha (thermo_BDPhi d h E nu mode)] |}.
End ElemOps.
