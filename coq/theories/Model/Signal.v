(* C18 — heap-level model of pymoto.core_objects.Signal / SignalSlice (definitions only).

   Python objects:
     * immutable scalars (python int/complex, numpy scalars)            -> VScal value is_complex is_numpy_scalar
     * numpy arrays                                                     -> VWin r ix shp : a *window* onto buffer r of
       the heap: logical (C-order, flattened) entry k of the array is entry (nth k ix) of the buffer; shp is the numpy
       shape, carried but not interpreted.  A freshly allocated array is the whole buffer (ix = seq 0 n); a numpy
       view is a window with a sub-list of the parent's positions; so two arrays share memory iff they are windows on
       the same buffer with a common position.
     * None                                                             -> VNone
   Data are Gaussian integers (pairs of Z) with a dtype flag (complex or not) on every buffer / scalar.

   numpy's indexing semantics is an ORACLE: a Python slice object `sl` is represented by what numpy does with it on an
   array of a given shape, [(parent shape, {positions selected (C order), view/copy/scalar/IndexError, result shape})],
   computed by the harness with np.arange(size).reshape(shape)[sl] and np.shares_memory.

   A Signal object is a root (state, sensitivity, keep_alloc); a SignalSlice has no fields of its own besides
   (base, slice) and keep_alloc = False, so it is identified with (root index, path of slices), innermost slice LAST
   (base[a][b] has path [b; a]).  Every method below follows core_objects.py statement by statement, including the
   repeated property-getter calls (they can allocate copies) and the exception classes. *)
From Coq Require Import ZArith List Bool.
From Pymoto Require Import Base.Cmp.
Import ListNotations.
Local Open Scope Z_scope.

Definition C := (Z * Z)%type.
Definition c0 : C := (0, 0).
Definition cadd (a b : C) : C := (fst a + fst b, snd a + snd b).

Record buf := { bdata : list C; bcplx : bool }.
Definition buf0 : buf := {| bdata := []; bcplx := false |}.

Inductive val := VNone | VScal (c : C) (cx : bool) (np : bool) | VWin (r : nat) (ix : list nat) (shp : list Z).

Inductive kind := KView | KCopy | KScalar | KBad.
Record sinfo := { si_idx : list nat; si_kind : kind; si_shape : list Z }.
Definition slc := list (list Z * sinfo).

Inductive err := ETypeError | EValueError | EIndexError | EOther.

Record rootsig := { r_st : val; r_se : val; r_keep : bool }.
Definition root0 : rootsig := {| r_st := VNone; r_se := VNone; r_keep := false |}.
Record world := { heap : list buf; roots : list rootsig; vars : list val }.

(* ---------------------------------------------------------------- result monad (world is threaded, also on errors) *)
Inductive res (A : Type) := Ok (a : A) | Er (e : err).
Arguments Ok {A} a.
Arguments Er {A} e.
Definition M (A : Type) := world -> world * res A.
Definition ret {A} (a : A) : M A := fun w => (w, Ok a).
Definition fail {A} (e : err) : M A := fun w => (w, Er e).
Definition bind {A B} (m : M A) (f : A -> M B) : M B :=
  fun w => match m w with (w', Ok a) => f a w' | (w', Er e) => (w', Er e) end.

(* ---------------------------------------------------------------- lists and heap primitives *)
Fixpoint upd {A} (l : list A) (i : nat) (x : A) : list A :=
  match l, i with
  | [], _ => []
  | _ :: t, O => x :: t
  | h :: t, S i' => h :: upd t i' x
  end.

(* write values vs at positions ix (in order; ix is repeat-free for every numpy index we admit) *)
Fixpoint wr_list (d : list C) (ix : list nat) (vs : list C) : list C :=
  match ix, vs with
  | i :: ix', v :: vs' => wr_list (upd d i v) ix' vs'
  | _, _ => d
  end.

Definition getbuf (h : list buf) (r : nat) : buf := nth r h buf0.
Definition rd (h : list buf) (r : nat) (ix : list nat) : list C := map (fun i => nth i (bdata (getbuf h r)) c0) ix.
Definition hwrite (h : list buf) (r : nat) (ix : list nat) (vs : list C) : list buf :=
  upd h r {| bdata := wr_list (bdata (getbuf h r)) ix vs; bcplx := bcplx (getbuf h r) |}.

Definition set_heap (w : world) (h : list buf) : world := {| heap := h; roots := roots w; vars := vars w |}.
Definition set_roots (w : world) (rs : list rootsig) : world := {| heap := heap w; roots := rs; vars := vars w |}.
Definition set_vars (w : world) (vs : list val) : world := {| heap := heap w; roots := roots w; vars := vs |}.

Definition halloc (d : list C) (cx : bool) : M nat :=
  fun w => (set_heap w (heap w ++ [{| bdata := d; bcplx := cx |}]), Ok (length (heap w))).
Definition mwrite (r : nat) (ix : list nat) (vs : list C) : M unit :=
  fun w => (set_heap w (hwrite (heap w) r ix vs), Ok tt).
Definition mread (r : nat) (ix : list nat) : M (list C) := fun w => (w, Ok (rd (heap w) r ix)).
Definition mcplx (r : nat) : M bool := fun w => (w, Ok (bcplx (getbuf (heap w) r))).

Definition whole (n : nat) : list nat := seq 0 n.
Definition sub_ix (ix : list nat) (js : list nat) : list nat := map (fun j => nth j ix O) js.

Fixpoint lookup_slc (s : slc) (shp : list Z) : option sinfo :=
  match s with
  | [] => None
  | (p, si) :: s' => if Zl_eqb p shp then Some si else lookup_slc s' shp
  end.

(* a fresh array holding data d *)
Definition new_array (d : list C) (cx : bool) (shp : list Z) : M val :=
  bind (halloc d cx) (fun r => ret (VWin r (whole (length d)) shp)).

(* ---------------------------------------------------------------- numpy operations on values *)
(* v[s] *)
Definition getitem (v : val) (s : slc) : M val :=
  match v with
  | VNone => fail ETypeError
  | VScal _ _ np => fail (if np then EIndexError else ETypeError)   (* "invalid index to scalar variable" / not subscriptable *)
  | VWin r ix shp =>
      match lookup_slc s shp with
      | None => fail EOther
      | Some si =>
          let tix := sub_ix ix (si_idx si) in
          match si_kind si with
          | KBad => fail EIndexError
          | KView => ret (VWin r tix (si_shape si))
          | KCopy => bind (mread r tix) (fun d => bind (mcplx r) (fun cx => new_array d cx (si_shape si)))
          | KScalar => bind (mread r tix) (fun d => bind (mcplx r) (fun cx => ret (VScal (hd c0 d) cx true)))
          end
      end
  end.

(* buffer r, positions tix (logical shape shp, or a scalar slot) := x      -- the data of x are read first *)
Definition assign (r : nat) (tix : list nat) (isscal : bool) (shp : list Z) (x : val) : M unit :=
  match x with
  | VNone => bind (mcplx r) (fun tcx => fail (if tcx then EOther else ETypeError))   (* None becomes nan in inexact arrays *)
  | VScal c cx np =>
      bind (mcplx r) (fun tcx =>
      if cx && negb tcx then fail (if np then EOther else ETypeError)   (* numpy complex scalars are truncated silently *)
      else mwrite r tix (repeat c (length tix)))
  | VWin r' ix' shp' =>
      bind (mread r' ix') (fun d => bind (mcplx r') (fun cx => bind (mcplx r) (fun tcx =>
      match shp' with
      | [] => if cx && negb tcx then fail EOther else mwrite r tix (repeat (hd c0 d) (length tix))
      | _ => if isscal then fail EOther       (* ValueError or TypeError depending on dtype: not modelled *)
             else if negb (Zl_eqb shp' shp) then fail EValueError
             else if cx && negb tcx then fail EOther
             else mwrite r tix d
      end)))
  end.

(* v[s] = x *)
Definition setitem (v : val) (s : slc) (x : val) : M unit :=
  match v with
  | VNone => fail ETypeError
  | VScal _ _ _ => fail ETypeError
  | VWin r ix shp =>
      match lookup_slc s shp with
      | None => fail EOther
      | Some si =>
          match si_kind si with
          | KBad => fail EIndexError
          | KScalar => assign r (sub_ix ix (si_idx si)) true (si_shape si) x
          | _ => assign r (sub_ix ix (si_idx si)) false (si_shape si) x
          end
      end
  end.

(* v * 0 *)
Definition mul0 (v : val) : M val :=
  match v with
  | VNone => fail ETypeError
  | VScal _ cx np => ret (VScal c0 cx np)
  | VWin r ix shp =>
      bind (mcplx r) (fun cx =>
      match shp with
      | [] => ret (VScal c0 cx true)                   (* 0-d array * 0 is a numpy scalar *)
      | _ => new_array (repeat c0 (length ix)) cx shp
      end)
  end.

(* copy.deepcopy(v) *)
Definition deepcopy (v : val) : M val :=
  match v with
  | VWin r ix shp => bind (mread r ix) (fun d => bind (mcplx r) (fun cx => new_array d cx shp))
  | _ => ret v
  end.

Fixpoint map2 {A B D} (f : A -> B -> D) (a : list A) (b : list B) : list D :=
  match a, b with
  | x :: a', y :: b' => f x y :: map2 f a' b'
  | _, _ => []
  end.

(* t += x ; returns the object that python binds afterwards *)
Definition iadd (t x : val) : M val :=
  match t with
  | VNone => fail ETypeError
  | VScal c cx np =>
      match x with
      | VNone => fail ETypeError
      | VScal c' cx' np' => ret (VScal (cadd c c') (cx || cx') (np || np'))
      | VWin r' ix' shp' =>
          bind (mread r' ix') (fun d => bind (mcplx r') (fun cx' =>
          match shp' with
          | [] => ret (VScal (cadd c (hd c0 d)) (cx || cx') true)
          | _ => new_array (map (cadd c) d) (cx || cx') shp'
          end))
      end
  | VWin r ix shp =>
      bind (mcplx r) (fun tcx => bind (mread r ix) (fun cur =>
      match x with
      | VNone => fail ETypeError
      | VScal c' cx' _ =>
          if cx' && negb tcx then fail ETypeError
          else bind (mwrite r ix (map (fun a => cadd a c') cur)) (fun _ => ret t)
      | VWin r' ix' shp' =>
          bind (mread r' ix') (fun d => bind (mcplx r') (fun cx' =>
          if cx' && negb tcx then fail ETypeError
          else match shp' with
               | [] => bind (mwrite r ix (map (fun a => cadd a (hd c0 d)) cur)) (fun _ => ret t)
               | _ => if negb (Zl_eqb shp' shp) then fail EValueError
                      else bind (mwrite r ix (map2 cadd cur d)) (fun _ => ret t)
               end))
      end))
  end.

(* t + x (out of place), evaluated when numpy refused `t += x` with a TypeError (UFuncTypeError: the sum does not fit
   the dtype of t, i.e. a complex contribution onto a non-complex array): a FRESH array (numpy scalar when everything is
   0-d) of the promoted dtype holding t + x; t's buffer is only read.  A 0-d t takes the shape of x; otherwise x is a
   scalar, 0-d or of t's shape (general broadcasting is not modelled: ValueError, as for +=). *)
Definition oadd (t x : val) : M val :=
  match t with
  | VWin r ix shp =>
      bind (mcplx r) (fun tcx => bind (mread r ix) (fun cur =>
      match x with
      | VNone => fail ETypeError
      | VScal c' cx' _ =>
          match shp with
          | [] => ret (VScal (cadd (hd c0 cur) c') (tcx || cx') true)
          | _ => new_array (map (fun a => cadd a c') cur) (tcx || cx') shp
          end
      | VWin r' ix' shp' =>
          bind (mread r' ix') (fun d => bind (mcplx r') (fun cx' =>
          match shp', shp with
          | [], [] => ret (VScal (cadd (hd c0 cur) (hd c0 d)) (tcx || cx') true)
          | [], _ => new_array (map (fun a => cadd a (hd c0 d)) cur) (tcx || cx') shp
          | _, [] => new_array (map (cadd (hd c0 cur)) d) (tcx || cx') shp'
          | _, _ => if negb (Zl_eqb shp' shp) then fail EValueError
                    else new_array (map2 cadd cur d) (tcx || cx') shp
          end))
      end))
  | _ => fail ETypeError             (* scalars never refuse += ; None + x *)
  end.

(* try: m   except TypeError: h *)
Definition catch_type {A} (m h : M A) : M A :=
  fun w => match m w with
           | (w', Er ETypeError) => h w'
           | q => q
           end.

(* Signal.add_sensitivity, accumulate branch (F37):
     try: self.sensitivity += ds
     except TypeError: self.sensitivity = self.sensitivity + ds *)
Definition iadd_promote (t x : val) : M val := catch_type (iadd t x) (oadd t x).

(* ---------------------------------------------------------------- Signal / SignalSlice *)
Definition get_root (i : nat) : M rootsig := fun w => (w, Ok (nth i (roots w) root0)).
Definition put_root (i : nat) (rs : rootsig) : M unit := fun w => (set_roots w (upd (roots w) i rs), Ok tt).

(* the two property getters are the same code on different fields:
     SignalSlice.state:        None if self.base.state is None else self.base.state[self.slice]
     SignalSlice.sensitivity:  None if self.base.sensitivity is None else self.base.sensitivity[self.slice] *)
Fixpoint get_fld (f : rootsig -> val) (i : nat) (p : list slc) : M val :=
  match p with
  | [] => bind (get_root i) (fun rs => ret (f rs))
  | s :: p' => bind (get_fld f i p') (fun b => match b with VNone => ret VNone | _ => getitem b s end)
  end.
Definition get_st := get_fld r_st.
Definition get_se := get_fld r_se.

(* .state = x *)
Definition set_st (i : nat) (p : list slc) (x : val) : M unit :=
  match p with
  | [] => bind (get_root i) (fun rs => put_root i {| r_st := x; r_se := r_se rs; r_keep := r_keep rs |})
  | s :: p' => bind (get_st i p') (fun b => setitem b s x)
  end.

Definition is_none (v : val) : bool := match v with VNone => true | _ => false end.

(* .sensitivity = x *)
Fixpoint set_se (i : nat) (p : list slc) (x : val) : M unit :=
  match p with
  | [] => bind (get_root i) (fun rs => put_root i {| r_st := r_st rs; r_se := x; r_keep := r_keep rs |})
  | s :: p' =>
      bind (get_se i p') (fun bs =>
      bind (if is_none bs
            then if is_none x then ret false
                 else bind (get_st i p') (fun b => bind (mul0 b) (fun z => bind (set_se i p' z) (fun _ => ret true)))
            else ret true) (fun cont =>
      if cont : bool
      then bind (get_se i p') (fun bs' => setitem bs' s (if is_none x then VScal c0 false false else x))
      else ret tt))
  end.

(* add_sensitivity(ds) *)
Definition add_se (i : nat) (p : list slc) (ds : val) : M unit :=
  if is_none ds then ret tt else
  match p with
  | [] =>
      bind (get_se i []) (fun cur =>
      if is_none cur then bind (deepcopy ds) (fun c => set_se i [] c)
      else bind (iadd_promote cur ds) (fun t => set_se i [] t))
  | s :: p' =>
      bind (get_se i p') (fun bs =>
      bind (if is_none bs
            then bind (get_st i p') (fun b => bind (mul0 b) (fun z => set_se i p' z))
            else ret tt) (fun _ =>
      bind (get_se i p) (fun _ =>                       (* hasattr(self.sensitivity, "add_sensitivity") *)
      bind (get_se i p) (fun cur =>                     (* self.sensitivity += ds : get, __iadd__, set *)
      bind (iadd cur ds) (fun t => set_se i p t)))))
  end.

(* reset(keep_alloc) *)
Definition reset (i : nat) (p : list slc) (k : option bool) : M unit :=
  match p with
  | [] =>
      bind (get_root i) (fun rs =>
      match r_se rs with
      | VNone => ret tt
      | se =>
          if (match k with Some b => b | None => r_keep rs end)
          then match se with
               | VWin r ix _ => mwrite r ix (repeat c0 (length ix))          (* sensitivity[...] = 0 *)
               | VScal _ cx np => put_root i {| r_st := r_st rs; r_se := VScal c0 cx np; r_keep := r_keep rs |}  (* *= 0 *)
               | VNone => ret tt
               end
          else put_root i {| r_st := r_st rs; r_se := VNone; r_keep := r_keep rs |}
      end)
  | _ :: _ => bind (get_se i p) (fun cur => if is_none cur then ret tt else set_se i p VNone)
  end.

(* ---------------------------------------------------------------- the test program: operations on signals and on
   the objects the test owns (a fixed number of variable slots) *)
Inductive op :=
| ONewArr (k : nat) (d : list C) (cx : bool) (shp : list Z)     (* vars[k] = np.array(d).reshape(shp) *)
| ONewScal (k : nat) (c : C) (cx np : bool)                     (* vars[k] = scalar *)
| ONewNone (k : nat)                                            (* vars[k] = None *)
| OSliceVar (k : nat) (v : nat) (s : slc)                       (* vars[k] = vars[v][s] *)
| OMut (v : nat) (d : list C)                                   (* vars[v][...] = d  (external in-place mutation) *)
| ONewSig (vst vse : nat)                                       (* Signal(state=vars[vst], sensitivity=vars[vse]) *)
| OSetState (i : nat) (p : list slc) (v : nat)                  (* sig.state = vars[v] *)
| OSetSens (i : nat) (p : list slc) (v : nat)                   (* sig.sensitivity = vars[v] *)
| OGetState (k : nat) (i : nat) (p : list slc)                  (* vars[k] = sig.state *)
| OGetSens (k : nat) (i : nat) (p : list slc)                   (* vars[k] = sig.sensitivity *)
| OAddSens (i : nat) (p : list slc) (v : nat)                   (* sig.add_sensitivity(vars[v]) *)
| OReset (i : nat) (p : list slc) (k : option bool).            (* sig.reset(k) *)

Definition get_var (v : nat) : M val := fun w => (w, Ok (nth v (vars w) VNone)).
Definition put_var (k : nat) (x : val) : M unit := fun w => (set_vars w (upd (vars w) k x), Ok tt).

Definition step (o : op) : M unit :=
  match o with
  | ONewArr k d cx shp => bind (new_array d cx shp) (put_var k)
  | ONewScal k c cx np => put_var k (VScal c cx np)
  | ONewNone k => put_var k VNone
  | OSliceVar k v s => bind (get_var v) (fun x => bind (getitem x s) (put_var k))
  | OMut v d =>
      bind (get_var v) (fun x =>
      match x with
      | VWin r ix _ => if Nat.eqb (length d) (length ix) then mwrite r ix d else fail EOther
      | _ => fail ETypeError
      end)
  | ONewSig vst vse =>
      bind (get_var vst) (fun st => bind (get_var vse) (fun se =>
      fun w => (set_roots w (roots w ++ [{| r_st := st; r_se := se; r_keep := negb (is_none se) |}]), Ok tt)))
  | OSetState i p v => bind (get_var v) (set_st i p)
  | OSetSens i p v => bind (get_var v) (set_se i p)
  | OGetState k i p => bind (get_st i p) (put_var k)
  | OGetSens k i p => bind (get_se i p) (put_var k)
  | OAddSens i p v => bind (get_var v) (add_se i p)
  | OReset i p k => reset i p k
  end.

Definition exec (o : op) (w : world) : world := fst (step o w).
Definition run (os : list op) (w : world) : world := fold_left (fun w o => exec o w) os w.
Definition world0 (nvars : nat) : world := {| heap := []; roots := []; vars := repeat VNone nvars |}.

(* ---------------------------------------------------------------- observation (what the harness compares) *)
Definition errcode (e : err) : Z :=
  match e with ETypeError => 1 | EValueError => 2 | EIndexError => 3 | EOther => 4 end.
Definition outcome {A} (r : res A) : Z := match r with Ok _ => 0 | Er e => errcode e end.
Definition zb (b : bool) : Z := if b then 1 else 0.

Definition enc_data (cx : bool) (d : list C) : list Z :=
  if cx then flat_map (fun c => [fst c; snd c]) d else map fst d.
Definition obs_val (h : list buf) (v : val) : list Z :=
  match v with
  | VNone => [0]
  | VScal c cx np => [1; zb cx; zb np; fst c; snd c]
  | VWin r ix shp => 2 :: zb (bcplx (getbuf h r)) :: Z.of_nat (length shp) :: shp ++ enc_data (bcplx (getbuf h r)) (rd h r ix)
  end.

Definition overlap (a b : val) : bool :=
  match a, b with
  | VWin r ix _, VWin r' ix' _ => Nat.eqb r r' && existsb (fun i => existsb (Nat.eqb i) ix') ix
  | _, _ => false
  end.
Fixpoint pairs_overlap (l : list val) : list bool :=
  match l with
  | [] => []
  | v :: t => map (overlap v) t ++ pairs_overlap t
  end.

(* evaluate the getters of the watched slices in a scratch world (they may allocate) *)
Fixpoint watch (ws : list (nat * list slc)) (w : world) : world * list (res val) :=
  match ws with
  | [] => (w, [])
  | (i, p) :: t =>
      let '(w1, a) := get_st i p w in
      let '(w2, b) := get_se i p w1 in
      let '(w3, l) := watch t w2 in (w3, a :: b :: l)
  end.

Definition obs_res (h : list buf) (r : res val) : list Z :=
  match r with Ok v => obs_val h v | Er e => [9; errcode e] end.
Definition res_val (r : res val) : val := match r with Ok v => v | Er _ => VNone end.
Fixpoint bits (l : list bool) : Z := match l with [] => 0 | b :: t => zb b + 2 * bits t end.

(* observed: the test's variables, the watched slice getters, then state and sensitivity of every Signal;
   the sharing relation between all of them as a bit mask (pairs in row-major order) *)
Definition observe (ws : list (nat * list slc)) (w : world) : list (list Z) * Z :=
  let '(w', l) := watch ws w in
  let all := map Ok (vars w) ++ l ++ map Ok (flat_map (fun rs => [r_st rs; r_se rs]) (roots w)) in
  (map (obs_res (heap w')) all, bits (pairs_overlap (map res_val all))).

(* the expected observations are transmitted as differences to the previous step *)
Definition upd_or_app {A} (l : list A) (i : nat) (x : A) : list A :=
  if Nat.ltb i (length l) then upd l i x else l ++ [x].
Definition patch (l : list (list Z)) (ds : list (nat * list Z)) : list (list Z) :=
  fold_left (fun l d => upd_or_app l (fst d) (snd d)) ds l.

(* one correspondence case: run the ops, after each compare (outcome, observed values, sharing relation) *)
Fixpoint check_trace (ws : list (nat * list slc)) (w : world) (prev : list (list Z)) (os : list op)
         (expected : list (Z * list (nat * list Z) * Z)) : bool :=
  match os, expected with
  | [], [] => true
  | o :: os', (code, ds, mask) :: ex' =>
      let '(w', r) := step o w in
      let '(vals, m) := observe ws w' in
      let ex := patch prev ds in
      Z.eqb (outcome r) code && Zll_eqb vals ex && Z.eqb m mask && check_trace ws w' ex os' ex'
  | _, _ => false
  end.

(* index of the first disagreeing step (for replays) *)
Fixpoint first_bad (ws : list (nat * list slc)) (w : world) (prev : list (list Z)) (os : list op)
         (expected : list (Z * list (nat * list Z) * Z)) (n : nat) : option (nat * (Z * (list (list Z) * Z))) :=
  match os, expected with
  | o :: os', (code, ds, mask) :: ex' =>
      let '(w', r) := step o w in
      let '(vals, m) := observe ws w' in
      let ex := patch prev ds in
      if Z.eqb (outcome r) code && Zll_eqb vals ex && Z.eqb m mask then first_bad ws w' ex os' ex' (S n)
      else Some (n, (outcome r, (vals, m)))
  | _, _ => None
  end.
