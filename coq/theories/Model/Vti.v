(* Model of DomainDefinition.write_to_vti (pymoto/common/domain.py) and WriteToVTI (pymoto/modules/io.py).
   Arrays are given as (shape, entries in C order); an entry is a `word` = the 4 little-endian bytes of its float32
   image (ndarray.astype(float32) is an oracle, applied entry-wise before the layout logic, exactly as the code does).
   Definitions only (lemmas: Proofs/VtiP.v). *)
From Coq Require Import ZArith QArith Qabs List Bool.
From Pymoto Require Import Base.Cmp Base.Bytes Model.Grid Model.B64.
From Pymoto Require Export Model.Fs.
Import ListNotations.
Open Scope Z_scope.

Definition word := list Z.
Definition zero_word : word := [0; 0; 0; 0].      (* np.zeros(.., dtype=np.float32) *)

Definition size (shape : list Z) : Z := fold_right Z.mul 1 shape.   (* vec.size *)
Definition ndim (shape : list Z) : Z := Z.of_nat (length shape).

(* ---- sorting into point data and cell data (repaired code, /repo b871b84):
        sizes = vec.shape if vec.ndim == 2 else (vec.size,)
        if any(s % self.nel == 0 for s in sizes): cell  elif any(s % self.nnodes == 0 for s in sizes): point
   block vectors are sorted by the length of their axes, everything else by the total size; cell is asked first ---- *)
Inductive kind := Cell | Point | Skip.
Definition class_sizes (shape : list Z) : list Z := if ndim shape =? 2 then shape else [size shape].
Definition classify (g : grid) (shape : list Z) : kind :=
  if existsb (fun s => s mod nel g =? 0) (class_sizes shape) then Cell
  else if existsb (fun s => s mod nnodes g =? 0) (class_sizes shape) then Point
  else Skip.

(* vecax = next((i for i, s in enumerate(vec.shape) if s % n == 0), None) *)
Fixpoint find_ax (n : Z) (shape : list Z) (i : Z) : option Z :=
  match shape with
  | [] => None
  | s :: t => if s mod n =? 0 then Some i else find_ax n t (i + 1)
  end.

(* int(np.ceil(np.log10(nvectors))): least k with nvectors <= 10^k *)
Fixpoint nzeros_from (fuel : nat) (k p n : Z) : Z :=
  match fuel with
  | O => k
  | S f => if n <=? p then k else nzeros_from f (k + 1) (p * 10) n
  end.
Definition nzeros (n : Z) : Z := nzeros_from (Z.to_nat n) 0 1 n.

(* ---- strided slices l[k::step] and strided assignment l[k::step] = src ---- *)
Fixpoint every {A} (step k : nat) (l : list A) : list A :=
  match l with
  | [] => []
  | x :: t => match k with O => x :: every step (pred step) t | S k' => every step k' t end
  end.
Fixpoint set_every {A} (step k : nat) (l src : list A) : list A :=
  match l with
  | [] => []
  | x :: t =>
    match k with
    | O => match src with [] => x :: t | s :: src' => s :: set_every step (pred step) t src' end
    | S k' => x :: set_every step k' t src
    end
  end.

(* vec_pad = zeros(3*nnodes); vec_pad[0::3] = v[0::2]; vec_pad[1::3] = v[1::2] *)
Definition pad3 {A} (z : A) (nn : nat) (v : list A) : list A :=
  set_every 3 1 (set_every 3 0 (repeat z (3 * nn)) (every 2 0 v)) (every 2 1 v).

(* the i-th vector of a 2-D block given in C order with `cols` columns:
   vecax = 1: vec[i, :]   vecax = 0: vec[:, i] *)
Definition block_row {A} (cols : Z) (i : Z) (data : list A) : list A :=
  firstn (Z.to_nat cols) (skipn (Z.to_nat (i * cols)) data).
Definition block_col {A} (cols : Z) (i : Z) (data : list A) : list A :=
  every (Z.to_nat cols) (Z.to_nat i) data.

(* one <DataArray> *)
Record darray := mkDA { da_point : bool; da_name : str; da_ncomp : Z; da_words : list word }.

(* vecname: key, or key(i) for blocks; point data pads i with zeros to nzeros digits, cell data does not *)
Definition vec_name (point : bool) (nvec : Z) (key : str) (i : Z) : str :=
  key ++ [40] ++ (if point then zpad (Z.to_nat (nzeros nvec)) (dec i) else dec i) ++ [41].
(* the array written for one vector: 2-component point vectors of a 2-D domain are padded to three components *)
Definition mk_array (point padv : bool) (n ncomp : Z) (name : str) (v : list word) : darray :=
  if padv then mkDA point name 3 (pad3 zero_word (Z.to_nat n) v) else mkDA point name ncomp v.

(* the arrays written for one dictionary entry (n = nnodes for point data, nel for cell data) *)
Definition entry_arrays (point dim2 : bool) (n : Z) (key : str) (shape : list Z) (ws : list word)
  : res (list darray) :=
  match find_ax n shape 0 with
  | None => Err TypeError                                  (* vec.shape[None] *)
  | Some ax =>
    let ncomp := nth (Z.to_nat ax) shape 0 / n in
    let padv := point && (ncomp =? 2) && dim2 in            (* pad_to_vector *)
    if 2 <? ndim shape then Err AssertionError else        (* assert vec.ndim <= 2 *)
    let nvec := if ndim shape =? 1 then 1 else nth (Z.to_nat ((ax + 1) mod 2)) shape 0 in
    if 1 <? nvec then
      let cols := nth 1 shape 0 in
      Ok (map (fun i => mk_array point padv n ncomp (vec_name point nvec key i)
                                 (if ax =? 0 then block_col cols i ws else block_row cols i ws))
              (zrange nvec))
    else if nvec <? 1 then Ok []                            (* for i in range(nvectors): no iteration *)
    else Ok [mk_array point padv n ncomp key ws]            (* the whole array, flattened (repaired code, /repo 0eca39b) *)
  end.

(* sequencing of results in program order: the first error wins *)
Fixpoint collect {A} (l : list (res (list A))) : res (list A) :=
  match l with
  | [] => Ok []
  | Err e :: _ => Err e
  | Ok a :: t => match collect t with Ok b => Ok (a ++ b) | Err e => Err e end
  end.

Definition vec := (str * list Z * list word)%type.     (* key, shape, entries *)
Definition vkey (v : vec) := fst (fst v).
Definition vshape (v : vec) := snd (fst v).
Definition vwords (v : vec) := snd v.

Definition is_kind (k : kind) (g : grid) (v : vec) : bool :=
  match classify g (vshape v), k with Cell, Cell => true | Point, Point => true | Skip, Skip => true | _, _ => false end.
Definition point_vecs g (vs : list vec) := filter (is_kind Point g) vs.
Definition cell_vecs g (vs : list vec) := filter (is_kind Cell g) vs.

Definition point_arrays (g : grid) (vs : list vec) : res (list darray) :=
  collect (map (fun v => entry_arrays true (dim g =? 2) (nnodes g) (vkey v) (vshape v) (vwords v)) (point_vecs g vs)).
Definition cell_arrays (g : grid) (vs : list vec) : res (list darray) :=
  collect (map (fun v => entry_arrays false (dim g =? 2) (nel g) (vkey v) (vshape v) (vwords v)) (cell_vecs g vs)).
(* all arrays of the file in file order: point data first, then cell data; insertion order inside *)
Definition vti_arrays (g : grid) (vs : list vec) : res (list darray) :=
  collect [point_arrays g vs; cell_arrays g vs].

(* ---- the bytes of the file ---- *)
Definition nl : str := [10].
Definition sp : str := [32].
Definition extent (g : grid) : str := join sp [dec 0; dec (nelx g); dec 0; dec (nely g); dec 0; dec (nelz g)].

Definition render_array (d : darray) : str :=
  s2z "<DataArray type=""Float32"" Name=""" ++ da_name d ++ s2z """ NumberOfComponents=""" ++ dec (da_ncomp d)
  ++ s2z """ format=""binary"">" ++ nl ++ vtk_block (concat (da_words d)) ++ nl ++ s2z "</DataArray>" ++ nl.

(* a section is written when the dictionary of its kind is non-empty, even if it produced no array *)
Definition render_section (tag : str) (nonempty : bool) (ds : list darray) : str :=
  if nonempty then [60] ++ tag ++ [62] ++ nl ++ flat_map render_array ds ++ [60; 47] ++ tag ++ [62] ++ nl else [].
Definition nonempty {A} (l : list A) : bool := match l with [] => false | _ => true end.

(* origin_s / spacing_s: the three numbers as Python prints them (f"{origin[0]*scale}" etc.; float repr is an oracle) *)
Definition render_header (g : grid) (origin_s spacing_s : list str) : str :=
  s2z "<?xml version=""1.0""?>" ++ nl
  ++ s2z "<VTKFile type=""ImageData"" version=""0.1"" header_type=""UInt64"" byte_order=""LittleEndian"">" ++ nl
  ++ s2z "<ImageData WholeExtent=""" ++ extent g ++ s2z """"
  ++ s2z " Origin=""" ++ join sp origin_s ++ s2z """"
  ++ s2z " Spacing=""" ++ join sp spacing_s ++ s2z """>" ++ nl
  ++ s2z "<Piece Extent=""" ++ extent g ++ s2z """>" ++ nl.
Definition render_footer : str := s2z "</Piece>" ++ nl ++ s2z "</ImageData>" ++ nl ++ s2z "</VTKFile>".

(* write_to_vti: None = nothing to write (warning, no file) *)
Definition vti_file (g : grid) (origin_s spacing_s : list str) (vs : list vec) : res (option str) :=
  match point_vecs g vs, cell_vecs g vs with
  | [], [] => Ok None
  | _, _ =>
    match point_arrays g vs with
    | Err e => Err e
    | Ok pa =>
      match cell_arrays g vs with
      | Err e => Err e
      | Ok ca =>
        Ok (Some (render_header g origin_s spacing_s
                  ++ render_section (s2z "PointData") (nonempty (point_vecs g vs)) pa
                  ++ render_section (s2z "CellData") (nonempty (cell_vecs g vs)) ca
                  ++ render_footer))
      end
    end
  end.

(* the numbers behind the header: Origin = origin*scale, Spacing = element_size*scale *)
Definition geom_origin (scale : Q) (origin : list Q) : list Q := map (fun o => Qred (Qmult o scale)) origin.
Definition geom_spacing (scale : Q) (element_size : list Q) : list Q := map (fun h => Qred (Qmult h scale)) element_size.

(* file name: write_to_vti appends ".vti" unless the extension contains it *)
Definition vti_filename (fn : str) : str :=
  if contains (s2z ".vti") (lower (snd (splitext fn))) then fn else fn ++ s2z ".vti".

(* ---- WriteToVTI ---- *)
(* data = {}; for s in sig_in: data[s.tag] = s.state   (a repeated tag keeps its first position, takes the last value) *)
(* dict_set: Model/Fs.v *)
Definition dict_of (sigs : list vec) : list vec :=
  map (fun kv => (fst kv, fst (snd kv), snd (snd kv)))
      (fold_left (fun d v => dict_set d (vkey v) (vshape v, vwords v)) sigs []).

Definition iter_filename (saveto : str) (overwrite : bool) (it : Z) : str :=
  let pth := splitext saveto in
  if overwrite then fst pth ++ snd pth else fst pth ++ [46] ++ zpad 4 (dec it) ++ snd pth.

(* one response(): which file is written with which bytes (None: nothing written), or the exception *)
Definition wvti_response (g : grid) (saveto : str) (overwrite : bool) (origin_s spacing_s : list str)
           (it : Z) (sigs : list vec) : res (option (str * str)) :=
  match vti_file g origin_s spacing_s (dict_of sigs) with
  | Err e => Err e
  | Ok None => Ok None
  | Ok (Some bytes) => Ok (Some (vti_filename (iter_filename saveto overwrite it), bytes))
  end.

(* a history of successful calls: the file system afterwards (later writes replace earlier ones of the same name) *)
Fixpoint wvti_run (g : grid) (saveto : str) (overwrite : bool) (origin_s spacing_s : list str)
         (it : Z) (calls : list (list vec)) (fs : list (str * str)) : res (list (str * str)) :=
  match calls with
  | [] => Ok fs
  | c :: rest =>
    match wvti_response g saveto overwrite origin_s spacing_s it c with
    | Err e => Err e
    | Ok None => wvti_run g saveto overwrite origin_s spacing_s (it + 1) rest fs
    | Ok (Some (name, bytes)) => wvti_run g saveto overwrite origin_s spacing_s (it + 1) rest (dict_set fs name bytes)
    end
  end.

(* ---- WriteToVTI on a file system with ANY previous content (Model/Fs.v); several module instances ---- *)
Record vmod := mkVM { vm_grid : grid; vm_saveto : str; vm_overwrite : bool; vm_origin_s : list str;
                      vm_spacing_s : list str; vm_iter : Z }.

(* _prepare: Path(saveto).parent.mkdir(parents=True, exist_ok=True); self.iter = 0 *)
Definition wvti_new (fs : fsys) (g : grid) (saveto : str) (overwrite : bool) (origin_s spacing_s : list str) : res vmod :=
  match mkdir_parents fs saveto with
  | Err e => Err e
  | Ok _ => Ok (mkVM g saveto overwrite origin_s spacing_s 0)
  end.

Definition vm_response (m : vmod) (sigs : list vec) : res (option (str * str)) :=
  wvti_response (vm_grid m) (vm_saveto m) (vm_overwrite m) (vm_origin_s m) (vm_spacing_s m) (vm_iter m) sigs.
Definition vm_next (m : vmod) : vmod :=
  mkVM (vm_grid m) (vm_saveto m) (vm_overwrite m) (vm_origin_s m) (vm_spacing_s m) (vm_iter m + 1).

(* _response: write_to_vti opens the file with "wb" (previous content is gone), then self.iter += 1; when there is
   nothing to write no file is touched but the iteration is counted *)
Definition wvti_step (fs : fsys) (m : vmod) (sigs : list vec) : res (fsys * vmod) :=
  match vm_response m sigs with
  | Err e => Err e
  | Ok None => Ok (fs, vm_next m)
  | Ok (Some (name, bytes)) => Ok (fs_open_w fs name bytes, vm_next m)
  end.

(* a history of calls of ONE module instance without interference *)
Fixpoint wvti_fs_run (fs : fsys) (m : vmod) (calls : list (list vec)) : res (fsys * vmod) :=
  match calls with
  | [] => Ok (fs, m)
  | c :: rest => match wvti_step fs m c with Err e => Err e | Ok (fs', m') => wvti_fs_run fs' m' rest end
  end.

(* histories of events: module instances are created (numbered 0, 1, .. in order of creation) and called in any
   interleaving; the environment writes and removes files in between *)
Inductive vevent :=
| VNew (g : grid) (saveto : str) (overwrite : bool) (origin_s spacing_s : list str)
| VCall (id : nat) (sigs : list vec)
| VWrite (name content : str)
| VRemove (name : str)
(* Module.reset() of instance id (directly or through the reset() of a Network that contains it) and
   Module.sensitivity(): WriteToVTI defines neither _reset nor _sensitivity: the iteration counter and the files stay *)
| VReset (id : nat)
| VSens (id : nat).

Fixpoint set_nth {A} (l : list A) (k : nat) (x : A) : list A :=
  match l, k with
  | [], _ => []
  | _ :: t, O => x :: t
  | y :: t, S k' => y :: set_nth t k' x
  end.

Definition vworld := (fsys * list vmod)%type.
Definition wvti_event (w : vworld) (e : vevent) : res vworld :=
  let (fs, mods) := w in
  match e with
  | VNew g saveto ow os ss =>
    match wvti_new fs g saveto ow os ss with Err x => Err x | Ok m => Ok (fs, mods ++ [m]) end
  | VCall id sigs =>
    match nth_error mods id with
    | None => Err OtherError
    | Some m => match wvti_step fs m sigs with Err x => Err x | Ok (fs', m') => Ok (fs', set_nth mods id m') end
    end
  | VWrite name content => Ok (fs_open_w fs name content, mods)
  | VRemove name => Ok (fs_remove fs name, mods)
  | VReset id | VSens id => match nth_error mods id with None => Err OtherError | Some _ => Ok (fs, mods) end
  end.

(* the events that concern the sensitivities only *)
Definition v_quiet (e : vevent) : bool := match e with VReset _ | VSens _ => true | _ => false end.
Definition v_strip (events : list vevent) : list vevent := filter (fun e => negb (v_quiet e)) events.

(* the file system after every event; the history stops at the first exception, whose class is reported (0: none) *)
Fixpoint wvti_trace (w : vworld) (events : list vevent) : list fsys * Z :=
  match events with
  | [] => ([], 0)
  | e :: rest =>
    match wvti_event w e with
    | Err x => ([], exn_code x)
    | Ok w' => let (tr, code) := wvti_trace w' rest in (fst w' :: tr, code)
    end
  end.

(* ---- float32 words as numbers (used to CHECK the astype oracle on every generated value) ---- *)
Definition f32_value (w : word) : option Q :=
  let bits := le_value w in
  let s := bits / 2147483648 in
  let e := (bits / 8388608) mod 256 in
  let m := bits mod 8388608 in
  let sign (q : Q) := if s =? 0 then q else Qopp q in
  if e =? 255 then None
  else if e =? 0 then Some (sign (Qred (Qmake m (Z.to_pos (2 ^ 149)))))
  else
    let mant := 8388608 + m in
    if 150 <=? e then Some (sign (inject_Z (mant * 2 ^ (e - 150))))
    else Some (sign (Qred (Qmake mant (Z.to_pos (2 ^ (150 - e)))))).

(* |w - x| <= max(2^-24 |x|, 2^-150): w is x correctly rounded to binary32 (normal or subnormal range) *)
Definition f32_close (x : Q) (w : word) : bool :=
  match f32_value w with
  | None => false
  | Some v =>
    let err := Qabs (Qminus v x) in
    Qle_bool err (Qmult (Qabs x) (Qmake 1 16777216)) || Qle_bool err (Qmake 1 (Z.to_pos (2 ^ 150)))
  end.
Definition word_okb (w : word) : bool := Nat.eqb (length w) 4 && forallb byte_okb w.

(* reading the decoded bytes back as 4-byte words (np.frombuffer(.., '<f4') on the word level) *)
Fixpoint chunk4 (l : list Z) : list word :=
  match l with
  | a :: b :: c :: d :: t => [a; b; c; d] :: chunk4 t
  | _ => []
  end.

