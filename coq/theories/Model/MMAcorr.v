(* C10 -- boolean checks evaluated by the generated case files: the models of MMAform.v / MMAvars.v run over Q on the
   recorded inputs of one call and are compared with the recorded outputs (toleranced: |model - impl| <= 1e-9 * scale,
   exact where no arithmetic is involved).  Also the generated test functions (value and gradient) so that the g / dg
   collected by MMA.response can be compared.  Definitions only. *)
From Coq Require Import ZArith QArith Qabs Qround String List Bool.
From Pymoto Require Import Base.Num Base.Cmp Base.MMANum Model.MMAform Model.MMAvars.
Import ListNotations.

Local Open Scope num_scope.

(* ---- test functions  f(x) = sum_j q_j (x_j - t_j)^2 + c_j / x_j + w_j x_j  +  s (v.x - rho)^2 + k *)
Record fn := mkfn { f_q : list Q; f_t : list Q; f_c : list Q; f_w : list Q; f_s : Q; f_v : list Q; f_rho : Q; f_k : Q }.
Definition two : Q := nofZ 2.
Definition fval (f : fn) (x : list Q) : Q :=
  nsum (map (fun j => nthK (f_q f) j * sq (nthK x j - nthK (f_t f) j) + nthK (f_c f) j / nthK x j + nthK (f_w f) j * nthK x j)
            (seq 0 (length x)))
  + f_s f * sq (dot (f_v f) x - f_rho f) + f_k f.
Definition fgrad (f : fn) (x : list Q) : list Q :=
  map (fun j => two * nthK (f_q f) j * (nthK x j - nthK (f_t f) j) - nthK (f_c f) j / sq (nthK x j) + nthK (f_w f) j
                + two * f_s f * (dot (f_v f) x - f_rho f) * nthK (f_v f) j) (seq 0 (length x)).

(* ---- convex, continuously differentiable hinge terms  sum_j h_j * max(0, sg_j * (x_j - u_j))^2  (sg_j = 1 or -1) added to a
   test function: the gradient with respect to x_j vanishes identically while the term is inactive, so a module that
   reports a vanishing block as None changes its None pattern from iteration to iteration *)
Record hinge := mkh { h_h : list Q; h_u : list Q; h_sg : list Q }.
Definition hpos (h : hinge) (x : list Q) (j : nat) : Q :=
  Qmaxb (nofZ 0) (nthK (h_sg h) j * (nthK x j - nthK (h_u h) j)).
Definition hval (h : hinge) (x : list Q) : Q :=
  nsum (map (fun j => nthK (h_h h) j * sq (hpos h x j)) (seq 0 (length x))).
Definition hgrad (h : hinge) (x : list Q) : list Q :=
  map (fun j => two * nthK (h_h h) j * nthK (h_sg h) j * hpos h x j) (seq 0 (length x)).

Local Close Scope num_scope.

(* ---- comparison helpers *)
Definition Qclose_rel (a b : Q) : bool := Qle_bool (Qabs (a - b)) (Qtol * Qmaxb 1 (Qabs b)).
Definition Ql_close_rel := list_eqb Qclose_rel.
Fixpoint forallb3 (f : Q -> Q -> Q -> bool) (a b c : list Q) : bool :=
  match a, b, c with
  | [], [], [] => true
  | x :: a', y :: b', z :: c' => f x y z && forallb3 f a' b' c'
  | _, _, _ => false
  end.
Definition opt_eqb (a b : option (list Q)) : bool := option_eqb Ql_eqb a b.

(* ---- the responses and sensitivities MMA.response collects are the values / gradients of the test functions *)
Definition responses_ok (fs : list fn) (xval : list Q) (scales : list Q) (g : list Q) (dg : list (list Q)) : bool :=
  (length fs =? length g)%nat && (length fs =? length dg)%nat && (length fs =? length scales)%nat &&
  forallb (fun i => let f := nth i fs (mkfn [] [] [] [] 0 [] 0 0) in
                    let s := nth i scales 1%Q in
                    Qclose_s s (fval f xval) (nth i g 0%Q) && Ql_close_s s (fgrad f xval) (nth i dg []))
          (seq 0 (length fs)).

(* the same for test functions with hinge terms *)
Definition Ql_add (a b : list Q) : list Q := map (fun p => (fst p + snd p)%Q) (combine a b).
Definition responses_h_ok (fs : list (fn * hinge)) (xval : list Q) (scales : list Q) (g : list Q) (dg : list (list Q)) : bool :=
  (length fs =? length g)%nat && (length fs =? length dg)%nat && (length fs =? length scales)%nat &&
  forallb (fun i => let fh := nth i fs (mkfn [] [] [] [] 0 [] 0 0, mkh [] [] []) in
                    let s := nth i scales 1%Q in
                    Qclose_s s (fval (fst fh) xval + hval (snd fh) xval)%Q (nth i g 0%Q) &&
                    Ql_close_s s (Ql_add (fgrad (fst fh) xval) (hgrad (snd fh) xval)) (nth i dg []))
          (seq 0 (length fs)).

(* ---- the sensitivity rows MMA.response collects: row i of dg is built from what the variable signals held after the
   sensitivity run of response i (None = no sensitivity -> 0*state), exactly (Model/MMAvars.sens_row) *)
Definition sensrows_ok (states : list (sval Q)) (sens : list (list (option (sval Q)))) (dg : list (list Q)) : bool :=
  (length sens =? length dg)%nat &&
  forallb (fun p => Ql_eqb (sens_row (fun _ => 0%Q) states (fst p)) (snd p)) (combine sens dg).

(* ---- one call of MMA.mmasub: recorded offset / low / upp / alfa / beta / P / Q / b against the model *)
Definition mmasub_ok (p : asypar Q) (has87 has07 : bool) (xval xmin xmax move : list Q)
           (xold1 xold2 offset : option (list Q)) (g : list Q) (dg : list (list Q)) (sX sP sB : Q)
           (r_offset r_low r_upp r_alfa r_beta : list Q) (r_P r_Q : list (list Q)) (r_b : list Q) : bool :=
  match version_of has87 has07 with
  | None => false
  | Some v =>
      let out := mmasub_vec p v xval xmin xmax move xold1 xold2 offset g dg in
      Ql_close_s sX (o_offset out) r_offset && Ql_close_s sX (o_low out) r_low && Ql_close_s sX (o_upp out) r_upp &&
      Ql_close_s sX (o_alfa out) r_alfa && Ql_close_s sX (o_beta out) r_beta &&
      Qll_close_s sP (o_P out) r_P && Qll_close_s sP (o_Q out) r_Q && Ql_close_s sB (o_b out) r_b
  end.

(* history kept for the next call: xold1' = xval, xold2' = xold1 (exact copies) *)
Definition history_ok (xval : list Q) (xold1 xold1' xold2' : option (list Q)) : bool :=
  opt_eqb xold1' (Some (map xold1_next xval)) &&
  opt_eqb xold2' (match xold1 with Some l => Some (map xold2_next l) | None => None end).

(* ---- one call of subsolv *)
(* the arguments are what mmasub computed (exact copies), x0 is xval *)
Definition handover_ok (r_low r_upp r_alfa r_beta : list Q) (r_P r_Q : list (list Q)) (r_b xval : list Q)
           (D : sdata Q) (x0 : list Q) : bool :=
  Ql_eqb (d_low D) r_low && Ql_eqb (d_upp D) r_upp && Ql_eqb (d_alfa D) r_alfa && Ql_eqb (d_beta D) r_beta &&
  Qll_eqb (d_P D) r_P && Qll_eqb (d_Q D) r_Q && Ql_eqb (d_b D) r_b && Ql_eqb x0 xval.

(* first evaluated point = init_state; xsi / eta are compared on the recorded x (they are 1/(x - alfa) with x - alfa
   as small as 1e-10, so they must see the same x) *)
Definition init_ok (D : sdata Q) (x0 : option (list Q)) (sX : Q) (r : sstate Q) : bool :=
  let st := init_state D x0 in
  Ql_close_s sX (sx st) (sx r) && Ql_eqb (sy st) (sy r) && Qeq_bool (sz st) (sz r) && Ql_eqb (slam st) (slam r) &&
  Ql_close_rel (xsi_init (d_alfa D) (sx r)) (sxsi r) && Ql_close_rel (eta_init (d_beta D) (sx r)) (seta r) &&
  Ql_close_rel (smu st) (smu r) && Qeq_bool (szet st) (szet r) && Ql_eqb (ss st) (ss r).

(* the residual function on a recorded point *)
Definition residual_ok (D : sdata Q) (epsi : Q) (st : sstate Q) (sR : Q) (r_res : list Q) : bool :=
  Ql_close_s sR (residual_st D epsi st) r_res.

(* epsi levels 1, 1/10, ... while epsi > epsimin *)
Fixpoint epsi_levels (fuel : nat) (epsimin epsi : Q) : list Q :=
  if outer_test epsimin epsi then
    match fuel with O => [] | S f => epsi :: epsi_levels f epsimin (epsi_next epsi) end
  else [].
Definition levels_ok (epsimin : Q) (r_levels : list Q) : bool :=
  list_eqb (fun a b => Qle_bool (Qabs (a - b)) (Qtol * Qabs b)) (epsi_levels 60 epsimin epsi0) r_levels.

(* normal exit: recorded residual at the returned point against the recorded threshold fl(0.9 * epsi_last), and the
   threshold against the model's 0.9 * epsi *)
Definition exit_ok (epsi thr : Q) (r_res : list Q) : bool :=
  Qle_bool (residumax r_res) thr && Qle_bool (Qabs (dec 9 10 * epsi - thr)) (Qtol * Qabs thr).

(* returned design strictly inside (alfa, beta), multipliers and slacks positive: exact comparisons *)
Definition pos_l (l : list Q) : bool := forallb (fun v => Qltb 0 v) l.
Definition interior_ok (D : sdata Q) (st : sstate Q) : bool :=
  forallb3 (fun a x b => Qltb a x && Qltb x b) (d_alfa D) (sx st) (d_beta D) &&
  pos_l (sy st) && Qltb 0 (sz st) && pos_l (slam st) && pos_l (sxsi st) && pos_l (seta st) && pos_l (smu st) &&
  Qltb 0 (szet st) && pos_l (ss st).

(* ---- variable handling (exact) *)
Definition sval_eqb (a b : sval Q) : bool :=
  match a, b with
  | Scal x, Scal y => Qeq_bool x y
  | Arr l, Arr m => Ql_eqb l m
  | _, _ => false
  end.
Definition natl_eqb := list_eqb Nat.eqb.
Definition concat_ok (states : list (sval Q)) (r_vals : list Q) (r_cum : list nat) : bool :=
  let c := concat_to_array states in Ql_eqb (fst c) r_vals && natl_eqb (snd c) r_cum.
Definition writeback_ok (xval : list Q) (cum : list nat) (r_states : list (sval Q)) : bool :=
  list_eqb sval_eqb (writeback 0%Q xval cum (length r_states)) r_states.
(* None on both sides = RuntimeError *)
Definition expand_ok (n nvars : nat) (cum : list nat) (b : bspec Q) (r : option (list Q)) : bool :=
  opt_eqb (expand_bound 0%Q 0%Q n nvars cum b) r.
Definition split_ok (vals : list Q) (cum : list nat) (r : option (list (list Q))) : bool :=
  option_eqb Qll_eqb (split_from_array vals cum) r.

(* ---- variable handling with dtypes (exact).  astype over Q: storing into an integer dtype truncates towards zero;
   storing into float64 keeps the value (the recorded values are binary64 numbers; integers below 2^53 and float32
   numbers are binary64 numbers); storing into float32 is taken as exact too, which holds for the float32-representable
   values the generator uses (and never happens in the unchanged code: MMAvarsP.concat_t_dtype). *)
Definition Qtrunc (q : Q) : Q := if Qle_bool 0 q then inject_Z (Qfloor q) else inject_Z (Qceiling q).
Definition convQ (src dst : dtype) (q : Q) : Q := match dst with I32 | I64 => Qtrunc q | F32 | F64 => q end.
Definition dtype_eqb (a b : dtype) : bool :=
  match a, b with I32, I32 | I64, I64 | F32, F32 | F64, F64 => true | _, _ => false end.
Definition tarr_eqb (a b : tarr Q) : bool := dtype_eqb (fst a) (fst b) && Ql_eqb (snd a) (snd b).
Definition tstate_eqb (a b : tstate Q) : bool :=
  match a, b with
  | TNone, TNone => true
  | TVal s x, TVal t y => dtype_eqb s t && sval_eqb x y
  | _, _ => false
  end.
Definition otarr_eqb (a b : option (tarr Q)) : bool :=
  match a, b with Some x, Some y => tarr_eqb x y | None, None => true | _, _ => false end.
(* _concatenate_to_array on states of given dtypes: dtype and values of the result, cumulative indices (None = ValueError) *)
Definition tconcat_ok (states : list (tstate Q)) (r : option (tarr Q * list nat)) : bool :=
  match concat_to_array_t convQ states, r with
  | Some (v, c), Some (rv, rc) => tarr_eqb v rv && natl_eqb c rc
  | None, None => true
  | _, _ => false
  end.
(* the variable handling of MMA.response from the initial states to the expanded xmin / xmax / move (None = RuntimeError) *)
Definition tvars_ok (states : list (tstate Q)) (xmin xmax move : tbspec Q) (r_xval : tarr Q) (r_cum : list nat)
           (r_xmin r_xmax r_move : option (tarr Q)) : bool :=
  match concat_to_array_t convQ states with
  | Some (xv, cum) =>
      tarr_eqb xv r_xval && natl_eqb cum r_cum &&
      otarr_eqb (expand_bound_t 0%Q convQ 0%Q xv (length states) cum xmin) r_xmin &&
      otarr_eqb (expand_bound_t 0%Q convQ 0%Q xv (length states) cum xmax) r_xmax &&
      otarr_eqb (expand_move_t 0%Q convQ 0%Q xv (length states) cum move) r_move
  | None => false
  end.
Definition twriteback_ok (xval : tarr Q) (cum : list nat) (r_states : list (tstate Q)) : bool :=
  list_eqb tstate_eqb (writeback_t 0%Q xval cum (length r_states)) r_states.
