(* Several Assemble* modules in one process (C08, second part of the model of pymoto/modules/assembly.py).

   (1) _prepare / _response as the two phases they are in the source: _prepare stores the index arrays
       (rows, cols, bcselect, bcrows, bccols) and the options ON THE MODULE; the DomainDefinition is only read
       (get_dofconnectivity, elemnodes, nnodes); _response reads the stored arrays and the current state of x.
   (2) a small history language over modules that share one DomainDefinition object and one input signal:
       construct a module with its own options, re-assign the state of x, evaluate the response of module i.
       The interpreter `arun` keeps the PREPARED arrays per module, exactly what the objects hold.
   (3) the numpy dtype kind (integer / float64 / complex128) of the values handed to the sparse constructor and of
       the returned matrix, as a function of the kinds of element matrix, x, bcdiagval and add_constant.
   Definitions only. *)
From Coq Require Import ZArith List Bool Arith.
From Pymoto Require Import Base.Num Model.Grid Model.Assembly.
Import ListNotations.

Section Hist.
  Context {K : Type} `{Num K}.
  Local Open Scope num_scope.

  (* what AssembleGeneral._prepare leaves on `self` *)
  Record aprep : Type := {
    ap_elmat : list (list K);          (* self.elmat *)
    ap_bc : option (list Z);           (* self.bc *)
    ap_bcd : K;                        (* self.bcdiagval (np.max(element_matrix) already substituted) *)
    ap_keep : option (list bool);      (* self.bcselect, as the mask it is the argwhere of *)
    ap_rows : list Z;                  (* self.bcrows *)
    ap_cols : list Z;                  (* self.bccols *)
    ap_cst : list (@ztriple K)         (* self.add_constant *)
  }.

  Definition asm_prepare (g : grid) (elmat : list (list K)) (bc : option (list Z)) (bcdiagval : K)
             (cst : list (@ztriple K)) : aprep :=
    let ndof := asm_ndof g elmat in
    let m := Z.to_nat (elemnodes g * ndof) in
    let dc := dofconn_all g ndof in
    let rows := kron_rows m dc in
    let cols := kron_cols m dc in
    match bc with
    | None => {| ap_elmat := elmat; ap_bc := None; ap_bcd := bcdiagval; ap_keep := None;
                 ap_rows := rows; ap_cols := cols; ap_cst := cst |}
    | Some bcl =>
        let keep := bc_keep bcl rows cols in
        {| ap_elmat := elmat; ap_bc := Some bcl; ap_bcd := bcdiagval; ap_keep := Some keep;
           ap_rows := select keep rows ++ bcl; ap_cols := select keep cols ++ bcl; ap_cst := cst |}
    end.

  (* AssembleGeneral._response: only `self` and xscale are read *)
  Definition asm_respond (p : aprep) (x : list K) : list (@ztriple K) :=
    let vals := scaled_el (ap_elmat p) x in
    let mat_values :=
      match ap_bc p, ap_keep p with
      | Some bcl, Some keep => select keep vals ++ map (fun _ => ap_bcd p * none_) bcl
      | _, _ => vals
      end in
    zip3 (ap_rows p) (ap_cols p) mat_values ++ ap_cst p.

  (* options of one module *)
  Record aopts : Type := { ao_elmat : list (list K); ao_bc : option (list Z); ao_bcd : K; ao_cst : list (@ztriple K) }.

  Inductive aop : Type :=
  | ANew (o : aopts)          (* m_k = Assemble*(x, domain=d, ...)  on the shared domain *)
  | ASetX (x : list K)        (* x.state = ... *)
  | AResp (i : nat).          (* m_i.response(); the returned matrix is observed *)

  Record astate : Type := { as_mods : list aprep; as_x : list K }.
  Definition astate0 : astate := {| as_mods := []; as_x := [] |}.

  Definition astep (g : grid) (st : astate) (op : aop) : astate * option (option (list (@ztriple K))) :=
    match op with
    | ANew o => ({| as_mods := as_mods st ++ [asm_prepare g (ao_elmat o) (ao_bc o) (ao_bcd o) (ao_cst o)];
                    as_x := as_x st |}, None)
    | ASetX x => ({| as_mods := as_mods st; as_x := x |}, None)
    | AResp i => (st, Some (option_map (fun p => asm_respond p (as_x st)) (nth_error (as_mods st) i)))
    end.

  (* the observed matrices, in order (None: no such module) *)
  Fixpoint arun (g : grid) (st : astate) (ops : list aop) : list (option (list (@ztriple K))) :=
    match ops with
    | [] => []
    | op :: t => let r := astep g st op in
                 match snd r with Some o => o :: arun g (fst r) t | None => arun g (fst r) t end
    end.

  (* ---- what the property text says about a history: every response is the assembled matrix of the module's OWN
          options and the current x ---- *)
  Record hview : Type := { hv_opts : list aopts; hv_x : list K }.
  Definition hstep (v : hview) (op : aop) : hview :=
    match op with
    | ANew o => {| hv_opts := hv_opts v ++ [o]; hv_x := hv_x v |}
    | ASetX x => {| hv_opts := hv_opts v; hv_x := x |}
    | AResp _ => v
    end.
  Definition hview_of (ops : list aop) : hview := fold_left hstep ops {| hv_opts := []; hv_x := [] |}.
  Definition aspec (g : grid) (o : aopts) (x : list K) : list (@ztriple K) :=
    asm_matrix g (ao_elmat o) (ao_bc o) (ao_bcd o) (ao_cst o) x.
End Hist.

Arguments aprep : clear implicits.
Arguments aopts : clear implicits.
Arguments aop : clear implicits.
Arguments astate : clear implicits.
Arguments hview : clear implicits.

(* ---- dtype kinds ---- *)
Inductive akind : Set := KInt | KFloat | KComplex.
Definition krank (k : akind) : nat := match k with KInt => 0 | KFloat => 1 | KComplex => 2 end.
Definition kle (a b : akind) : bool := Nat.leb (krank a) (krank b).
(* np.result_type *)
Definition krt (a b : akind) : akind := if kle a b then b else a.

(* scaled_el = elmat.flatten() * xscale[..., None]                                    -> result_type(elmat, x)
   with bc:  np.concatenate((scaled_el[bcselect], bcdiagval * np.ones(len(bc))))      -> also bcdiagval and float64
   (bck = None: bc is None; Some kb: kind of self.bcdiagval — the kind of the element matrix for the default) *)
Definition asm_values_kind (ke kx : akind) (bck : option akind) : akind :=
  let ks := krt ke kx in
  match bck with None => ks | Some kb => krt ks (krt kb KFloat) end.
(* matrix_type keeps the dtype of the values;  mat += add_constant promotes *)
Definition asm_out_kind (ke kx : akind) (bck kc : option akind) : akind :=
  match kc with None => asm_values_kind ke kx bck | Some k => krt (asm_values_kind ke kx bck) k end.

Definition kof (code : nat) : akind := match code with 1%nat => KInt | 2%nat => KFloat | _ => KComplex end.
Definition okof (code : nat) : option akind := match code with 0%nat => None | _ => Some (kof code) end.
(* observation codes: 1 integer, 2 float64, 3 complex128 (anything else matches no kind) *)
Definition kind_obs (k : akind) (code : nat) : bool := Nat.eqb (S (krank k)) code.
