(* Model of pymoto/modules/filter.py : class OverhangFilter (direction parsing in _prepare, set_parameters,
   the layer sweep of _response).  Hand-written, executable.  Definitions only, no proofs in this file.

   (i)   direction parsing: string form and vector form, nsampling validation  -> result or exception class
   (ii)  the sweep of _response, generic in the value type and in the two functions smin / smax_of_list
   (iii) the direction-free specification print_spec and the coordinate map of a print direction
   (iv)  the formulas of set_parameters and the smooth min / smooth max over R (what the theorems are about)
   (v)   exact / fixed-point instances over Q (what the correspondence check evaluates) *)
From Coq Require Import ZArith QArith Qabs Qround List Bool String Ascii Reals.
From Pymoto Require Import Model.Grid.
Import ListNotations.
Open Scope Z_scope.

(* ------------------------------------------------------------------------------------------------ *)
(* exception classes (the enum of the malformed stream) and results                                  *)
Inductive exn := TypeError | ValueError | IndexError | AssertionError | RuntimeError | OtherError.
Inductive res (A : Type) := Ok (a : A) | Err (e : exn).
Arguments Ok {A} a.
Arguments Err {A} e.

(* ------------------------------------------------------------------------------------------------ *)
(* (i) direction parsing                                                                             *)

(* str.lower() restricted to ASCII *)
Definition lower_ascii (c : ascii) : ascii :=
  let n := N_of_ascii c in
  if ((65 <=? n) && (n <=? 90))%N then ascii_of_N (n + 32) else c.
Fixpoint lower (s : string) : string :=
  match s with EmptyString => EmptyString | String c t => String (lower_ascii c) (lower t) end.
(* `a in direction` for a one-character string a *)
Fixpoint contains (c : ascii) (s : string) : bool :=
  match s with EmptyString => false | String d t => Ascii.eqb c d || contains c t end.
(* np.argwhere(list of bool).flatten() *)
Fixpoint argwhere_from (i : Z) (l : list bool) : list Z :=
  match l with
  | [] => []
  | b :: t => if b then i :: argwhere_from (i + 1) t else argwhere_from (i + 1) t
  end.
(* direction = [0.0, 0.0, 0.0]; direction[k] = v *)
Definition set_nth (l : list Q) (k : Z) (v : Q) : list Q := upd l (Z.to_nat k) v.

(*  axes = np.argwhere([a in direction.lower() for a in ['x','y','z']]).flatten()
    if axes.size != 1: raise ValueError
    sign = -1.0 if '-' in direction else +1.0
    direction = [0.0, 0.0, 0.0]; direction[axes[0]] = sign                                           *)
Definition parse_string (s : string) : res (list Q) :=
  let axes := argwhere_from 0 (map (fun a => contains a (lower s)) ["x"; "y"; "z"]%char) in
  if negb (Z.of_nat (List.length axes) =? 1) then Err ValueError
  else
    let sign := if contains "-"%char s then (-1)%Q else 1%Q in
    Ok (set_nth [0%Q; 0%Q; 0%Q] (hd 0 axes) sign).

(*  direction = np.asarray(direction, dtype=float64).flatten()   (the harness passes the flat list)
    if direction.size < 3: pad with zeros to 3 ; elif direction.size > 3: direction[:3]              *)
Definition pad3 (v : list Q) : list Q :=
  if (List.length v <? 3)%nat then v ++ repeat 0%Q (3 - List.length v) else firstn 3 v.

Definition qsum (l : list Q) : Q := fold_left Qplus l 0%Q.
Definition norm2 (d : list Q) : Q := qsum (map (fun v => v * v)%Q d).      (* |d|_2 ^2 *)
Definition abs_sum (d : list Q) : Q := qsum (map Qabs d).                   (* |d|_1   *)
Definition align_thr : Q := (1 - 1 # 10000000000)%Q.                        (* 1.0 - 1e-10 *)

(*  self.direction = direction / np.linalg.norm(direction)
    if dim == 2: assert self.direction[2] == 0.0
    assert abs(self.direction).sum() >= 1.0 - 1e-10
    With n = |d|_2 > 0:  d[2]/n == 0  <->  d[2] == 0 ;  |d|_1/n >= t  <->  |d|_1^2 >= t^2 n^2  (t > 0).
    The zero vector gives 0/0 = nan in every component; every comparison with nan is False -> AssertionError.
    The value returned here is the padded, NOT yet normalised vector; see unit_dir / is_unit_of below. *)
Definition check_dir (dimg : Z) (d : list Q) : res (list Q) :=
  if Qeq_bool (norm2 d) 0 then Err AssertionError
  else if (dimg =? 2) && negb (Qeq_bool (nth 2 d 0%Q) 0) then Err AssertionError
  else if negb (Qle_bool (align_thr * align_thr * norm2 d) (abs_sum d * abs_sum d)) then Err AssertionError
  else Ok d.

(*  if nsampling is None: nsampling = 3 if dim == 2 else 5
    assert (dim == 2 and nsampling == 3) or (dim == 3 and (nsampling == 5 or nsampling == 9))          *)
Definition check_nsampling (dimg : Z) (ns : option Z) : res Z :=
  let n := match ns with None => if dimg =? 2 then 3 else 5 | Some n => n end in
  if ((dimg =? 2) && (n =? 3)) || ((dimg =? 3) && ((n =? 5) || (n =? 9))) then Ok n else Err AssertionError.

Inductive dir_arg := DStr (s : string) | DVec (v : list Q).

(* _prepare: (padded direction before normalisation, nsampling) or the exception class *)
Definition prepare (dimg : Z) (a : dir_arg) (ns : option Z) : res (list Q * Z) :=
  match (match a with DStr s => parse_string s | DVec v => Ok v end) with
  | Err e => Err e
  | Ok v =>
    match check_dir dimg (pad3 v) with
    | Err e => Err e
    | Ok d => match check_nsampling dimg ns with Err e => Err e | Ok n => Ok (d, n) end
    end
  end.

(* the normalised direction is rational exactly when one component is non-zero: then it is the sign vector *)
Definition qsign (q : Q) : Z := Z.sgn (Qnum q).
Definition nonzero_count (d : list Q) : nat := List.length (filter (fun v => negb (Qeq_bool v 0)) d).
Definition unit_dir (d : list Q) : option (list Q) :=
  if (nonzero_count d =? 1)%nat then Some (map (fun v => inject_Z (qsign v)) d) else None.
(* otherwise the implementation's vector u is checked to be the normalisation of d:
   parallel (cross product ~ 0), same orientation (positive dot product), unit length *)
Definition is_unit_of (tol : Q) (d u : list Q) : bool :=
  match d, u with
  | [d0; d1; d2], [u0; u1; u2] =>
      Qle_bool (Qabs (u0 * u0 + u1 * u1 + u2 * u2 - 1)) tol
      && Qle_bool (Qabs (d0 * u1 - d1 * u0)) (tol * abs_sum d)
      && Qle_bool (Qabs (d0 * u2 - d2 * u0)) (tol * abs_sum d)
      && Qle_bool (Qabs (d1 * u2 - d2 * u1)) (tol * abs_sum d)
      && negb (Qle_bool (d0 * u0 + d1 * u1 + d2 * u2) 0)
  | _, _ => false
  end%Q.
Definition dir_matches (tol : Q) (d u : list Q) : bool :=
  match unit_dir d with
  | Some e => (fix eqb (a b : list Q) := match a, b with
                                          | [], [] => true
                                          | x :: a', y :: b' => Qeq_bool x y && eqb a' b'
                                          | _, _ => false end) e u
  | None => is_unit_of tol d u
  end.

(*  dir_layer = int(np.argmax(abs(self.direction)))     first index of the largest |component|
    dx_layer  = int(np.sign(self.direction[dir_layer]))
    Both are invariant under positive scaling, so they are computed from the padded vector. *)
Fixpoint argmax_from (i best : Z) (bv : Q) (l : list Q) : Z :=
  match l with
  | [] => best
  | v :: t => if negb (Qle_bool (Qabs v) bv) then argmax_from (i + 1) i (Qabs v) t
              else argmax_from (i + 1) best bv t
  end.
Definition argmax_abs (d : list Q) : Z :=
  match d with [] => 0 | v :: t => argmax_from 1 0 (Qabs v) t end.
Definition dir_layer_of (d : list Q) : Z := argmax_abs d.
Definition dx_layer_of (d : list Q) : Z := qsign (nth (Z.to_nat (dir_layer_of d)) d 0%Q).

(* ------------------------------------------------------------------------------------------------ *)
(* (ii) the sweep of _response                                                                       *)

(* size = [nelx, nely, max(nelz, 1)] *)
Definition size3 (g : grid) : list Z := [nelx g; nely g; nz1 g].
Definition zth (l : list Z) (i : Z) : Z := nth (Z.to_nat i) l 0.

(*  dir_orth1 = (dir_layer + 1) % 3 ; dir_orth2 = (dir_layer + 2) % 3
    if dir_orth1 == 2 and dim == 2: swap                                                             *)
Definition dir_orth (g : grid) (dl : Z) : Z * Z :=
  let o1 := (dl + 1) mod 3 in
  let o2 := (dl + 2) mod 3 in
  if (o1 =? 2) && (dim g =? 2) then (o2, o1) else (o1, o2).

(*  layer_offsets = [[-1,0],[0,0],[1,0],[0,-1],[0,1],[-1,-1],[-1,1],[1,-1],[1,1]][:nsampling]           *)
Definition offsets_table : list (Z * Z) :=
  [(-1, 0); (0, 0); (1, 0); (0, -1); (0, 1); (-1, -1); (-1, 1); (1, -1); (1, 1)].
Definition layer_offsets (n : Z) : list (Z * Z) := firstn (Z.to_nat n) offsets_table.

(*  entire_layer = np.meshgrid(range(size[o1]), range(size[o2]), indexing='ij')   (flattened, C order) *)
Definition entire_layer (n1 n2 : Z) : list (Z * Z) :=
  flat_map (fun a => map (fun b => (a, b)) (zrange n2)) (zrange n1).

(*  offset_masks[i] = (0 <= a+o0 < size[o1]) and (0 <= b+o1 < size[o2])                               *)
Definition inside (n1 n2 : Z) (p : Z * Z) : bool :=
  ((0 <=? fst p) && (fst p <? n1)) && ((0 <=? snd p) && (snd p <? n2)).
Definition padd (p o : Z * Z) : Z * Z := (fst p + fst o, snd p + snd o).

(*  el = [None]*3; el[dir_layer] = L; el[dir_orth1] = a; el[dir_orth2] = b; get_elemnumber( *el )      *)
Definition set3 (t : Z * Z * Z) (pos v : Z) : Z * Z * Z :=
  match t with (a, b, c) =>
    if pos =? 0 then (v, b, c) else if pos =? 1 then (a, v, c) else (a, b, v) end.
Definition el_of (dl o1 o2 L a b : Z) : Z * Z * Z := set3 (set3 (set3 (0, 0, 0) dl L) o1 a) o2 b.
Definition elnum (g : grid) (dl o1 o2 L a b : Z) : Z :=
  match el_of dl o1 o2 L a b with (i, j, k) => elemnumber g i j k end.

Section Sweep.
  Context {T : Type}.
  Variable smin : T -> T -> T.               (* y = smin(x, s) *)
  Variable smax_of_list : list T -> T.       (* s = smax of the support values, in offset order *)
  Variable dflt : T.

  Definition getT (xs : list T) (e : Z) : T := nth (Z.to_nat e) xs dflt.

  (* xs[keys] = vals with vals computed beforehand (numpy fancy-index assignment) *)
  Definition scatter_by {P : Type} (key : P -> Z) (val : P -> T) (ps : list P) (xs : list T) : list T :=
    fold_left (fun acc p => upd acc (Z.to_nat (key p)) (val p)) ps xs.

  Section OneDirection.
    Variable g : grid.
    Variable dl dx : Z.                        (* dir_layer, dx_layer *)
    Variable nsamp : Z.

    Definition o1 : Z := fst (dir_orth g dl).
    Definition o2 : Z := snd (dir_orth g dl).
    Definition nlay : Z := zth (size3 g) dl.
    Definition n1 : Z := zth (size3 g) o1.
    Definition n2 : Z := zth (size3 g) o2.

    (* support values of position p of layer L: the entries of xprint in layer L - dx_layer at p + offset,
       for the offsets (in table order) whose mask is set at p *)
    Definition supports (xprint : list T) (L : Z) (p : Z * Z) : list T :=
      map (fun o => getT xprint (elnum g dl o1 o2 (L - dx) (fst (padd p o)) (snd (padd p o))))
          (filter (fun o => inside n1 n2 (padd p o)) (layer_offsets nsamp)).

    (* one iteration of the while loop: max_supp = smax(supports); xprint[els] = smin(x[els], max_supp) *)
    Definition layer_step (x xprint : list T) (L : Z) : list T :=
      scatter_by (fun p => elnum g dl o1 o2 L (fst p) (snd p))
                 (fun p => smin (getT x (elnum g dl o1 o2 L (fst p) (snd p)))
                                (smax_of_list (supports xprint L p)))
                 (entire_layer n1 n2) xprint.

    (* while 0 <= ind_layer < size[dir_layer]: ...; ind_layer += dx_layer      (fuel = number of layers) *)
    Fixpoint sweep_loop (fuel : nat) (x xprint : list T) (ind : Z) : list T :=
      match fuel with
      | O => xprint
      | S f => if (0 <=? ind) && (ind <? nlay)
               then sweep_loop f x (layer_step x xprint ind) (ind + dx)
               else xprint
      end.

    (* ind_layer = 1 if dx_layer >= 0 else size[dir_layer] - 2 ; xprint = x.copy() *)
    Definition ind_start : Z := if dx >=? 0 then 1 else nlay - 2.
    Definition sweep (x : list T) : list T := sweep_loop (Z.to_nat nlay) x x ind_start.

    (* ---- (iii) coordinate map of the print direction: layer l counted from the base plate ---- *)
    Definition phys (l : Z) : Z := if dx >=? 0 then l else nlay - 1 - l.
    Definition coord (l a b : Z) : Z := elnum g dl o1 o2 (phys l) a b.
  End OneDirection.

  (* _response for a (padded) direction vector d *)
  Definition response (g : grid) (d : list Q) (nsamp : Z) (x : list T) : list T :=
    sweep g (dir_layer_of d) (dx_layer_of d) nsamp x.

  (* direction-free specification: y_0 = x_0,
     y_l(p) = smin(x_l(p), smax [ y_{l-1}(p+o) : o in offsets, p+o inside the layer ]) *)
  Fixpoint print_spec (m1 m2 : Z) (offs : list (Z * Z)) (xl : nat -> Z * Z -> T) (l : nat) (p : Z * Z) : T :=
    match l with
    | O => xl O p
    | S l' => smin (xl l p)
                   (smax_of_list (map (fun o => print_spec m1 m2 offs xl l' (padd p o))
                                      (filter (fun o => inside m1 m2 (padd p o)) offs)))
    end.
End Sweep.

(* in-layer symmetries: optional swap of the two in-layer axes followed by optional mirrors *)
Record lsym := { ls_swap : bool; ls_m1 : bool; ls_m2 : bool }.
Definition lsym_sizes (s : lsym) (m1 m2 : Z) : Z * Z := if ls_swap s then (m2, m1) else (m1, m2).
Definition lsym_app (s : lsym) (m1 m2 : Z) (p : Z * Z) : Z * Z :=
  let q := if ls_swap s then (snd p, fst p) else p in
  let m := lsym_sizes s m1 m2 in
  (if ls_m1 s then fst m - 1 - fst q else fst q, if ls_m2 s then snd m - 1 - snd q else snd q).
Definition lsym_lin (s : lsym) (o : Z * Z) : Z * Z :=
  let q := if ls_swap s then (snd o, fst o) else o in
  (if ls_m1 s then - fst q else fst q, if ls_m2 s then - snd q else snd q).

(* ------------------------------------------------------------------------------------------------ *)
(* (iv) formulas over R                                                                              *)
Open Scope R_scope.
(*  q = p + log(nsampling)/log(xi_0) ; shift = 100*pow(tiny, 1/p) ;
    backshift = pow(nsampling, 1/q)*pow(shift, p/q)*0.95                                              *)
Definition q_of (p n xi0 : R) : R := p + ln n / ln xi0.
Definition shift_of (p tiny : R) : R := 100 * Rpower tiny (1 / p).
Definition backshift_of (n p q shift : R) : R := Rpower n (1 / q) * Rpower shift (p / q) * (95 / 100).
(*  keep = sum (xprint[supp] + shift)**p ; max_supp = keep**(1/q) - backshift                          *)
Definition rsum (l : list R) : R := fold_right Rplus 0 l.
Definition smax_R (p q shift backshift : R) (l : list R) : R :=
  Rpower (rsum (map (fun v => Rpower (v + shift) p) l)) (1 / q) - backshift.
(*  r1 = x - max_supp ; (x + max_supp - sqrt(r1*r1 + eps) + sqrt(eps))/2                               *)
Definition smin_R (eps a b : R) : R := (a + b - sqrt ((a - b) * (a - b) + eps) + sqrt eps) / 2.
Close Scope R_scope.

(* ------------------------------------------------------------------------------------------------ *)
(* (v) instances over Q evaluated by the correspondence check                                        *)
Open Scope Q_scope.
(* square root to 2^-64 by the integer square root:  s <= sqrt v < s + 2^-64 *)
Definition qsqrt_bits : Z := 64.
Definition qsqrt (v : Q) : Q :=
  let sc := (2 ^ qsqrt_bits)%Z in
  Qred (Qmake (Z.sqrt (Qfloor (v * inject_Z (sc * sc)))) (Z.to_pos sc)).
Definition qmin (a b : Q) : Q := if Qle_bool a b then a else b.
(* smin with eps = 0 is min (sqrt(r^2) = |r|); otherwise the formula with the fixed-point root;
   se = sqrt(eps) is supplied (and checked by the caller through se*se == eps) when it is rational *)
Definition smin_Q (eps : Q) (a b : Q) : Q :=
  if Qeq_bool eps 0 then qmin a b
  else Qred ((a + b - qsqrt ((a - b) * (a - b) + eps) + qsqrt eps) / 2).
Fixpoint qpow (v : Q) (p : nat) : Q := match p with O => 1 | S k => Qred (v * qpow v k) end.
(* smax for integer p and 1/q in {1, 2, 1/2}; shift and backshift are passed in (they are < 1e-75 for the
   instances used, far below the comparison tolerance, and are compared separately) *)
Definition qroot (invq : Q) (k : Q) : Q :=
  if Qeq_bool invq 1 then k else if Qeq_bool invq 2 then Qred (k * k) else qsqrt k.
Definition smax_Q (p : nat) (invq shift backshift : Q) (l : list Q) : Q :=
  Qred (qroot invq (fold_left (fun acc v => Qred (acc + qpow (v + shift) p)) l 0) - backshift).
(* q = p - k when xi_0 = nsampling^(-1/k)  (lemma q_of_root in Proofs/OverhangP.v) *)
Definition invq_of (p : nat) (k : Q) : Q := Qred (1 / (inject_Z (Z.of_nat p) - k)).
Close Scope Q_scope.

Definition response_Q (g : grid) (d : list Q) (nsamp : Z) (p : nat) (k eps : Q) (x : list Q) : list Q :=
  response (smin_Q eps) (smax_Q p (invq_of p k) 0 0) 0%Q g d nsamp x.

(* ------------------------------------------------------------------------------------------------ *)
(* grid symmetries used to state equivariance in element coordinates (i, j, k)                       *)
Definition get3 (t : Z * Z * Z) (pos : Z) : Z :=
  match t with (a, b, c) => if pos =? 0 then a else if pos =? 1 then b else c end.
Definition elemnumber3 (g : grid) (t : Z * Z * Z) : Z := match t with (i, j, k) => elemnumber g i j k end.
Definition in_grid (g : grid) (t : Z * Z * Z) : Prop :=
  match t with (i, j, k) => 0 <= i < nelx g /\ 0 <= j < nely g /\ 0 <= k < nz1 g end.
(* mirror the design along one axis *)
Definition mirror_el (g : grid) (axis : Z) (t : Z * Z * Z) : Z * Z * Z :=
  set3 t axis (zth (size3 g) axis - 1 - get3 t axis).
(* exchange two axes: the element (.., t[ax1], .., t[ax2], ..) goes to (.., t[ax2], .., t[ax1], ..) of the
   grid with the two sizes exchanged (2-D grids stay 2-D: only x <-> y is possible there) *)
Definition swap_el (ax1 ax2 : Z) (t : Z * Z * Z) : Z * Z * Z :=
  set3 (set3 t ax1 (get3 t ax2)) ax2 (get3 t ax1).
Definition swap_grid (g : grid) (ax1 ax2 : Z) : grid :=
  match swap_el ax1 ax2 (nelx g, nely g, nz1 g) with
  | (a, b, c) => {| nelx := a; nely := b; nelz := if nelz g =? 0 then 0 else c |}
  end.
Definition swap_axis (ax1 ax2 d : Z) : Z := if d =? ax1 then ax2 else if d =? ax2 then ax1 else d.

(* "fully supported solid" in layered coordinates: a solid element of the base layer, or a solid element with
   at least one supported solid element among its supports in the layer below *)
Inductive supported {T : Type} (one : T) (m1 m2 : Z) (offs : list (Z * Z)) (xl : nat -> Z * Z -> T) :
  nat -> Z * Z -> Prop :=
| sup_base p : xl O p = one -> supported one m1 m2 offs xl O p
| sup_step l p o : xl (S l) p = one -> In o offs -> inside m1 m2 (padd p o) = true ->
    supported one m1 m2 offs xl l (padd p o) -> supported one m1 m2 offs xl (S l) p.

(* a flat field read in the layered coordinates of a print direction *)
Definition layered {T : Type} (dflt : T) (g : grid) (dl dx : Z) (x : list T) : nat -> Z * Z -> T :=
  fun l p => getT dflt x (coord g dl dx (Z.of_nat l) (fst p) (snd p)).

(* np.finfo(np.float64).tiny *)
Definition dbl_tiny : R := Rpower 2 (-1022).

(* the vector of length len with c at position axis and zeros elsewhere *)
Definition axis_vec (len : nat) (axis : Z) (c : Q) : list Q := upd (repeat 0%Q len) (Z.to_nat axis) c.
