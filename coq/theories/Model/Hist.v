(* Histories on a network (C03): op language {set input, response, seed, sensitivity, reset} over the value-level
   model of Model/Net.v, extended with a per-module memory.  Definitions only.

   Module.reset  :  [s.reset() for s in self.sig_out]; [s.reset() for s in self.sig_in]; self._reset()
   Signal.reset  :  None stays None; keep_alloc -> sensitivity[...] = 0; else sensitivity = None
   SignalSlice.reset : if self.sensitivity is not None: self.sensitivity = None
                       (setter: base.sensitivity[slice] = 0 -- the base stays allocated)
   Network.reset :  [m.reset() for m in reversed(self.mods)] *)
From Coq Require Import List Arith Bool.
From Pymoto Require Import Base.Num Model.Net.
Import ListNotations.

Section HistModel.
  Context {K : Type} `{NK : Num K}.
  Context {M : Type}.                        (* what a module may remember between calls *)

  Local Notation vec := (list K) (only parsing).
  Local Notation tenv := (nat -> list K) (only parsing).
  Local Notation cenv := (nat -> option (list K)) (only parsing).

  (* a module with memory: the response may read and update it, the sensitivity may read it *)
  Record hmod : Type := {
    h_ins : list ref;
    h_outs : list nat;
    h_resp : M -> list vec -> M * list vec;                          (* memory, input states *)
    h_sens : M -> list vec -> list vec -> list vec -> list (option vec)  (* memory, input states, output states, seeds *)
  }.

  Inductive op : Type :=
  | OSet (s : nat) (v : vec)       (* signal.state = v            (an input of the network) *)
  | OResp                          (* network.response()          *)
  | OSeed (s : nat) (w : vec)      (* signal.sensitivity = w      *)
  | OSens                          (* network.sensitivity()       *)
  | OReset.                        (* network.reset()             *)

  Record nst : Type := {
    s_st : tenv;                   (* Signal.state       ([] = not set) *)
    s_se : cenv;                   (* Signal.sensitivity (None = not set) *)
    s_mem : list M;                (* memory of module k *)
    s_fresh : bool                 (* a response() has run since the last input update *)
  }.

  (* ---- response: modules in order, memories updated on the way *)
  Fixpoint resp_all (mods : list hmod) (mems : list M) (st : tenv) : list M * tenv :=
    match mods, mems with
    | h :: mods', mu :: mems' =>
      let r := h_resp h mu (map (read_t st) (h_ins h)) in
      let rest := resp_all mods' mems' (write_outs (h_outs h) (snd r) st) in
      (fst r :: fst rest, snd rest)
    | _, _ => (mems, st)
    end.

  (* ---- sensitivity: the dispatch of Net.v on the modules "at the point" (current states, current memory) *)
  Definition at_point (st : tenv) (h : hmod) (mu : M) : module K :=
    {| m_ins := h_ins h; m_outs := h_outs h;
       m_fwd := fun xs => snd (h_resp h mu xs);
       m_adj := fun ws => h_sens h mu (map (read_t st) (h_ins h)) (map st (h_outs h)) ws |}.

  Fixpoint at_points (st : tenv) (mods : list hmod) (mems : list M) : list (module K) :=
    match mods, mems with
    | h :: mods', mu :: mems' => at_point st h mu :: at_points st mods' mems'
    | _, _ => []
    end.

  Definition sdims (st : tenv) : nat -> nat := fun s => length (st s).

  Definition sens_all (mods : list hmod) (mems : list M) (st : tenv) (se : cenv) : cenv :=
    bwd (sdims st) (at_points st mods mems) se.

  (* ---- reset *)
  Definition reset_ref (keep : nat -> bool) (se : cenv) (r : ref) : cenv :=
    match r with
    | RSig s =>
      match se s with
      | None => se
      | Some g => if keep s then upd se s (Some (vzero (length g))) else upd se s None
      end
    | RSlice s idx =>
      match se s with
      | None => se
      | Some g => upd se s (Some (scatter_set idx (vzero (length idx)) g))
      end
    | RLost _ _ => se
    end.

  Definition reset_refs (keep : nat -> bool) (refs : list ref) (se : cenv) : cenv :=
    fold_left (reset_ref keep) refs se.

  (* the references reset by one module, in order: outputs, then inputs *)
  Definition mod_refs (h : hmod) : list ref := map RSig (h_outs h) ++ h_ins h.
  (* ... and by the network: modules in reversed order *)
  Definition net_refs (mods : list hmod) : list ref := flat_map mod_refs (rev mods).

  Definition reset_all (keep : nat -> bool) (mods : list hmod) (se : cenv) : cenv :=
    reset_refs keep (net_refs mods) se.

  (* ---- one op *)
  Definition step (keep : nat -> bool) (mods : list hmod) (x : nst) (o : op) : nst :=
    match o with
    | OSet s v => {| s_st := upd (s_st x) s v; s_se := s_se x; s_mem := s_mem x; s_fresh := false |}
    | OResp => let r := resp_all mods (s_mem x) (s_st x) in
               {| s_st := snd r; s_se := s_se x; s_mem := fst r; s_fresh := true |}
    | OSeed s w => {| s_st := s_st x; s_se := upd (s_se x) s (Some w); s_mem := s_mem x; s_fresh := s_fresh x |}
    | OSens => {| s_st := s_st x; s_se := sens_all mods (s_mem x) (s_st x) (s_se x); s_mem := s_mem x;
                  s_fresh := s_fresh x |}
    | OReset => {| s_st := s_st x; s_se := reset_all keep mods (s_se x); s_mem := s_mem x; s_fresh := s_fresh x |}
    end.

  Definition run (keep : nat -> bool) (mods : list hmod) (ops : list op) (x : nst) : nst :=
    fold_left (step keep mods) ops x.

  (* ---- wiring facts used by the protocol *)
  Definition shell (h : hmod) : module K :=
    {| m_ins := h_ins h; m_outs := h_outs h; m_fwd := fun _ => []; m_adj := fun _ => [] |}.
  (* acyclic wiring, as in Net.v *)
  Definition hwf (mods : list hmod) : bool := wf_net (map shell mods).
  Definition h_written (mods : list hmod) : list nat := flat_map h_outs mods.
  Definition sig_refs (rs : list ref) : list nat :=
    flat_map (fun r => match r with RSig s => [s] | _ => [] end) rs.
  (* signals that some module holds directly (as output or as un-sliced input): Network.reset resets them fully *)
  Definition direct (mods : list hmod) (s : nat) : bool := mem s (sig_refs (net_refs mods)).
  (* positions of s that some slice held by a module covers: Network.reset zeroes them *)
  Definition covered (mods : list hmod) (s k : nat) : bool :=
    existsb (fun r => match r with RSlice s' idx => Nat.eqb s' s && mem k idx | _ => false end) (net_refs mods).

  (* the protocol: sensitivity() only directly after a response(); seeds of the right shape on signals the network
     holds directly; inputs (never outputs) are updated, keeping their shape *)
  Definition admissible (mods : list hmod) (x : nst) (o : op) : Prop :=
    match o with
    | OSet s v => ~ In s (h_written mods) /\ length v = length (s_st x s)
    | OResp => True
    | OSeed s w => direct mods s = true /\ length w = length (s_st x s) /\ s_fresh x = true
    | OSens => s_fresh x = true
    | OReset => True
    end.

  Fixpoint admissible_run (keep : nat -> bool) (mods : list hmod) (ops : list op) (x : nst) : Prop :=
    match ops with
    | [] => True
    | o :: ops' => admissible mods x o /\ admissible_run keep mods ops' (step keep mods x o)
    end.

  (* ---- a freshly constructed network with the given inputs: nothing computed, nothing remembered *)
  (* keep s: the signal was constructed with a (zero) sensitivity array of its shape, Signal(..., sensitivity=zeros) *)
  Definition fresh (dims : nat -> nat) (keep : nat -> bool) (mods : list hmod) (mem0 : list M) (inputs : tenv) : nst :=
    {| s_st := fun s => if mem s (h_written mods) then [] else inputs s;
       s_se := fun s => if keep s then Some (vzero (dims s)) else None;
       s_mem := mem0; s_fresh := false |}.

  (* the cycle the property speaks about *)
  Definition seed_ops (seeds : list (nat * vec)) : list op := map (fun sw => OSeed (fst sw) (snd sw)) seeds.
  Definition final_cycle (seeds : list (nat * vec)) : list op := [OReset; OResp] ++ seed_ops seeds ++ [OSens].
  Definition fresh_cycle (seeds : list (nat * vec)) : list op := [OResp] ++ seed_ops seeds ++ [OSens].

  (* sensitivities are compared up to None = zero array *)
  Definition zeroish (n : nat) (o : option vec) : Prop := o = None \/ o = Some (vzero n).
  Definition ceq (dims : nat -> nat) (c1 c2 : cenv) : Prop :=
    forall s, c1 s = c2 s \/ (zeroish (dims s) (c1 s) /\ zeroish (dims s) (c2 s)).

  (* ---- what a history-independent module looks like *)
  (* no memory at all *)
  Definition memoryless (h : hmod) (f : list vec -> list vec)
             (g : list vec -> list vec -> list vec -> list (option vec)) : Prop :=
    (forall mu xs, h_resp h mu xs = (mu, f xs)) /\ (forall mu, h_sens h mu = g).

  (* a cache that is always a function of the inputs of the latest response:
     Good mu last  :  mu is a memory the module can have when its latest response ran on `last` (None: never ran) *)
  Definition cache_correct (h : hmod) (mu0 : M) (Good : M -> option (list vec) -> Prop)
             (f : list vec -> list vec) (g : list vec -> list vec -> list vec -> list (option vec)) : Prop :=
    Good mu0 None /\
    (forall mu last xs, Good mu last ->
        Good (fst (h_resp h mu xs)) (Some xs) /\ snd (h_resp h mu xs) = f xs) /\
    (forall mu xs ws, Good mu (Some xs) -> h_sens h mu xs (f xs) ws = g xs (f xs) ws).

  (* the memoryless module with the same input-output behaviour *)
  Definition pure_of (h : hmod) (f : list vec -> list vec)
             (g : list vec -> list vec -> list vec -> list (option vec)) : hmod :=
    {| h_ins := h_ins h; h_outs := h_outs h; h_resp := fun mu xs => (mu, f xs); h_sens := fun _ => g |}.
End HistModel.

Arguments hmod {K} M.
Arguments op {K}.
Arguments nst {K} M.
Arguments OResp {K}.
Arguments OSens {K}.
Arguments OReset {K}.
