(* Histories on a network (C03): op language {set input, response, seed, sensitivity, reset} over the value-level
   model of Model/Net.v, extended with a per-module memory.  Definitions only.

   Module.reset  :  [s.reset() for s in self.sig_out]; [s.reset() for s in self.sig_in]; self._reset()
   Signal.reset  :  None stays None; keep_alloc -> sensitivity[...] = 0; else sensitivity = None
   SignalSlice.reset : if self.sensitivity is not None: self.sensitivity = None
                       (setter: base.sensitivity[slice] = 0 -- the base stays allocated)
   Network.reset :  [m.reset() for m in reversed(self.mods)] *)
From Coq Require Import List Arith Bool.
From Pymoto Require Import Base.Num Model.Net.
Import ListNotations.

Section HistModel.
  Context {K : Type} `{NK : Num K}.
  Context {M : Type}.                        (* what a module may remember between calls *)

  Local Notation vec := (list K) (only parsing).
  Local Notation tenv := (nat -> list K) (only parsing).
  Local Notation cenv := (nat -> option (list K)) (only parsing).

  (* a module with memory: the response may read and update it, the sensitivity may read it *)
  Record hmod : Type := {
    h_ins : list ref;
    h_outs : list nat;
    h_resp : M -> list vec -> M * list vec;                          (* memory, input states *)
    h_sens : M -> list vec -> list vec -> list vec -> list (option vec)  (* memory, input states, output states, seeds *)
  }.

  Inductive op : Type :=
  | OSet (s : nat) (v : vec)       (* signal.state = v            (an input of the network) *)
  | OResp                          (* network.response()          *)
  | OSeed (s : nat) (w : vec)      (* signal.sensitivity = w      *)
  | OSens                          (* network.sensitivity()       *)
  | OReset.                        (* network.reset()             *)

  Record nst : Type := {
    s_st : tenv;                   (* Signal.state       ([] = not set) *)
    s_se : cenv;                   (* Signal.sensitivity (None = not set) *)
    s_mem : list M;                (* memory of module k *)
    s_fresh : bool                 (* a response() has run since the last input update *)
  }.

  (* ---- response: modules in order, memories updated on the way *)
  Fixpoint resp_all (mods : list hmod) (mems : list M) (st : tenv) : list M * tenv :=
    match mods, mems with
    | h :: mods', mu :: mems' =>
      let r := h_resp h mu (map (read_t st) (h_ins h)) in
      let rest := resp_all mods' mems' (write_outs (h_outs h) (snd r) st) in
      (fst r :: fst rest, snd rest)
    | _, _ => (mems, st)
    end.

  (* ---- sensitivity: the dispatch of Net.v on the modules "at the point" (current states, current memory) *)
  Definition at_point (st : tenv) (h : hmod) (mu : M) : module K :=
    {| m_ins := h_ins h; m_outs := h_outs h;
       m_fwd := fun xs => snd (h_resp h mu xs);
       m_adj := fun ws => h_sens h mu (map (read_t st) (h_ins h)) (map st (h_outs h)) ws |}.

  Fixpoint at_points (st : tenv) (mods : list hmod) (mems : list M) : list (module K) :=
    match mods, mems with
    | h :: mods', mu :: mems' => at_point st h mu :: at_points st mods' mems'
    | _, _ => []
    end.

  Definition sdims (st : tenv) : nat -> nat := fun s => length (st s).

  Definition sens_all (mods : list hmod) (mems : list M) (st : tenv) (se : cenv) : cenv :=
    bwd (sdims st) (at_points st mods mems) se.

  (* ---- reset *)
  Definition reset_ref (keep : nat -> bool) (se : cenv) (r : ref) : cenv :=
    match r with
    | RSig s =>
      match se s with
      | None => se
      | Some g => if keep s then upd se s (Some (vzero (length g))) else upd se s None
      end
    | RSlice s idx =>
      match se s with
      | None => se
      | Some g => upd se s (Some (scatter_set idx (vzero (length idx)) g))
      end
    | RLost _ _ => se
    end.

  Definition reset_refs (keep : nat -> bool) (refs : list ref) (se : cenv) : cenv :=
    fold_left (reset_ref keep) refs se.

  (* the references reset by one module, in order: outputs, then inputs *)
  Definition mod_refs (h : hmod) : list ref := map RSig (h_outs h) ++ h_ins h.
  (* ... and by the network: modules in reversed order *)
  Definition net_refs (mods : list hmod) : list ref := flat_map mod_refs (rev mods).

  Definition reset_all (keep : nat -> bool) (mods : list hmod) (se : cenv) : cenv :=
    reset_refs keep (net_refs mods) se.

  (* ---- one op *)
  Definition step (keep : nat -> bool) (mods : list hmod) (x : nst) (o : op) : nst :=
    match o with
    | OSet s v => {| s_st := upd (s_st x) s v; s_se := s_se x; s_mem := s_mem x; s_fresh := false |}
    | OResp => let r := resp_all mods (s_mem x) (s_st x) in
               {| s_st := snd r; s_se := s_se x; s_mem := fst r; s_fresh := true |}
    | OSeed s w => {| s_st := s_st x; s_se := upd (s_se x) s (Some w); s_mem := s_mem x; s_fresh := s_fresh x |}
    | OSens => {| s_st := s_st x; s_se := sens_all mods (s_mem x) (s_st x) (s_se x); s_mem := s_mem x;
                  s_fresh := s_fresh x |}
    | OReset => {| s_st := s_st x; s_se := reset_all keep mods (s_se x); s_mem := s_mem x; s_fresh := s_fresh x |}
    end.

  Definition run (keep : nat -> bool) (mods : list hmod) (ops : list op) (x : nst) : nst :=
    fold_left (step keep mods) ops x.

  (* ---- wiring facts used by the protocol *)
  Definition shell (h : hmod) : module K :=
    {| m_ins := h_ins h; m_outs := h_outs h; m_fwd := fun _ => []; m_adj := fun _ => [] |}.
  (* acyclic wiring, as in Net.v *)
  Definition hwf (mods : list hmod) : bool := wf_net (map shell mods).
  Definition h_written (mods : list hmod) : list nat := flat_map h_outs mods.
  Definition sig_refs (rs : list ref) : list nat :=
    flat_map (fun r => match r with RSig s => [s] | _ => [] end) rs.
  (* signals that some module holds directly (as output or as un-sliced input): Network.reset resets them fully *)
  Definition direct (mods : list hmod) (s : nat) : bool := mem s (sig_refs (net_refs mods)).
  (* positions of s that some slice held by a module covers: Network.reset zeroes them *)
  Definition covered (mods : list hmod) (s k : nat) : bool :=
    existsb (fun r => match r with RSlice s' idx => Nat.eqb s' s && mem k idx | _ => false end) (net_refs mods).

  (* the protocol: sensitivity() only directly after a response(); seeds of the right shape on signals the network
     holds directly; inputs (never outputs) are updated, keeping their shape *)
  Definition admissible (mods : list hmod) (x : nst) (o : op) : Prop :=
    match o with
    | OSet s v => ~ In s (h_written mods) /\ length v = length (s_st x s)
    | OResp => True
    | OSeed s w => direct mods s = true /\ length w = length (s_st x s) /\ s_fresh x = true
    | OSens => s_fresh x = true
    | OReset => True
    end.

  Fixpoint admissible_run (keep : nat -> bool) (mods : list hmod) (ops : list op) (x : nst) : Prop :=
    match ops with
    | [] => True
    | o :: ops' => admissible mods x o /\ admissible_run keep mods ops' (step keep mods x o)
    end.

  (* ---- a freshly constructed network with the given inputs: nothing computed, nothing remembered *)
  (* keep s: the signal was constructed with a (zero) sensitivity array of its shape, Signal(..., sensitivity=zeros) *)
  Definition fresh (dims : nat -> nat) (keep : nat -> bool) (mods : list hmod) (mem0 : list M) (inputs : tenv) : nst :=
    {| s_st := fun s => if mem s (h_written mods) then [] else inputs s;
       s_se := fun s => if keep s then Some (vzero (dims s)) else None;
       s_mem := mem0; s_fresh := false |}.

  (* the cycle the property speaks about *)
  Definition seed_ops (seeds : list (nat * vec)) : list op := map (fun sw => OSeed (fst sw) (snd sw)) seeds.
  Definition final_cycle (seeds : list (nat * vec)) : list op := [OReset; OResp] ++ seed_ops seeds ++ [OSens].
  Definition fresh_cycle (seeds : list (nat * vec)) : list op := [OResp] ++ seed_ops seeds ++ [OSens].

  (* sensitivities are compared up to None = zero array *)
  Definition zeroish (n : nat) (o : option vec) : Prop := o = None \/ o = Some (vzero n).
  Definition ceq (dims : nat -> nat) (c1 c2 : cenv) : Prop :=
    forall s, c1 s = c2 s \/ (zeroish (dims s) (c1 s) /\ zeroish (dims s) (c2 s)).

  (* ---- what a history-independent module looks like *)
  (* no memory at all *)
  Definition memoryless (h : hmod) (f : list vec -> list vec)
             (g : list vec -> list vec -> list vec -> list (option vec)) : Prop :=
    (forall mu xs, h_resp h mu xs = (mu, f xs)) /\ (forall mu, h_sens h mu = g).

  (* a cache that is always a function of the inputs of the latest response:
     Good mu last  :  mu is a memory the module can have when its latest response ran on `last` (None: never ran) *)
  Definition cache_correct (h : hmod) (mu0 : M) (Good : M -> option (list vec) -> Prop)
             (f : list vec -> list vec) (g : list vec -> list vec -> list vec -> list (option vec)) : Prop :=
    Good mu0 None /\
    (forall mu last xs, Good mu last ->
        Good (fst (h_resp h mu xs)) (Some xs) /\ snd (h_resp h mu xs) = f xs) /\
    (forall mu xs ws, Good mu (Some xs) -> h_sens h mu xs (f xs) ws = g xs (f xs) ws).

  (* the memoryless module with the same input-output behaviour *)
  Definition pure_of (h : hmod) (f : list vec -> list vec)
             (g : list vec -> list vec -> list vec -> list (option vec)) : hmod :=
    {| h_ins := h_ins h; h_outs := h_outs h; h_resp := fun mu xs => (mu, f xs); h_sens := fun _ => g |}.

  (* ---- hypotheses on modules and protocol data used by the theorems *)
  (* shape-correct w.r.t. fixed signal sizes `dims`, and the adjoint sends zero seeds to zero (or None) results
     (linearity in the seed, C04): for every memory and every evaluation point *)
  Definition h_shaped (dims : nat -> nat) (h : hmod) : Prop :=
    forallb (wt_ref dims) (h_ins h) = true /\
    (forall mu xs, shapes xs (map (ref_dim dims) (h_ins h)) ->
                   map (@length K) (snd (h_resp h mu xs)) = map dims (h_outs h)) /\
    (forall mu xs ys ws, shapes xs (map (ref_dim dims) (h_ins h)) -> shapes ws (map dims (h_outs h)) ->
                         oshapes (h_sens h mu xs ys ws) (map (ref_dim dims) (h_ins h))) /\
    (forall mu xs ys, shapes xs (map (ref_dim dims) (h_ins h)) ->
                      Forall2 (fun d n => zeroish n d)
                              (h_sens h mu xs ys (map (fun o => vzero (dims o)) (h_outs h)))
                              (map (ref_dim dims) (h_ins h))).

  Definition h_memless (h : hmod) : Prop := exists f g, memoryless h f g.

  Definition seeds_shaped (dims : nat -> nat) (seeds : list (nat * vec)) : Prop :=
    Forall (fun sw => length (snd sw) = dims (fst sw)) seeds.
  Definition only_sets (ops : list op) : Prop := Forall (fun o => exists s v, o = OSet s v) ops.

  (* a caching module together with its specification: initial memory, invariant, pure response, pure adjoint *)
  Record cspec : Type := {
    c_mu0 : M;
    c_good : M -> option (list vec) -> Prop;
    c_f : list vec -> list vec;
    c_g : list vec -> list vec -> list vec -> list (option vec)
  }.
  Definition cc (h : hmod) (sp : cspec) : Prop := cache_correct h (c_mu0 sp) (c_good sp) (c_f sp) (c_g sp).
  Definition pure_h (h : hmod) (sp : cspec) : hmod := pure_of h (c_f sp) (c_g sp).
  Fixpoint pures (mods : list hmod) (specs : list cspec) : list hmod :=
    match mods, specs with
    | h :: mods', sp :: specs' => pure_h h sp :: pures mods' specs'
    | _, _ => []
    end.

  (* ---- modules whose _sensitivity also WRITES their memory (EigenSolve keeps one adjoint solver per mode and
     (re)factorises it inside _sensitivity).  sm_after mu xs ys ws: the memory after _sensitivity ran with memory mu
     at the input states xs, the output states ys and the (filled) output sensitivities ws *)
  Record smod : Type := {
    sm_mod : hmod;
    sm_after : M -> list vec -> list vec -> list vec -> M
  }.

  (* Network.sensitivity with memories: [m.sensitivity() for m in reversed(self.mods)] -- the tail is processed before
     the head; Module.sensitivity returns early (memory untouched) when none of its outputs carries a sensitivity *)
  Fixpoint sens_sweep (mods : list smod) (mems : list M) (st : tenv) (c : cenv) : list M * cenv :=
    match mods, mems with
    | h :: mods', mu :: mems' =>
      let r := sens_sweep mods' mems' st c in
      let m := at_point st (sm_mod h) mu in
      let ws := map (snd r) (h_outs (sm_mod h)) in
      if skip m ws then (mu :: fst r, snd r)
      else (sm_after h mu (map (read_t st) (h_ins (sm_mod h))) (map st (h_outs (sm_mod h)))
                     (fill (sdims st) (h_outs (sm_mod h)) ws) :: fst r,
            apply_adj (sdims st) m ws (snd r))
    | _, _ => (mems, c)
    end.

  Definition step_s (keep : nat -> bool) (mods : list smod) (x : nst) (o : op) : nst :=
    match o with
    | OSens => let r := sens_sweep mods (s_mem x) (s_st x) (s_se x) in
               {| s_st := s_st x; s_se := snd r; s_mem := fst r; s_fresh := s_fresh x |}
    | _ => step keep (map sm_mod mods) x o
    end.

  Definition run_s (keep : nat -> bool) (mods : list smod) (ops : list op) (x : nst) : nst :=
    fold_left (step_s keep mods) ops x.

  (* cache-correct including the memory written by the sensitivity: the invariant survives every sensitivity pass
     that follows the response it belongs to *)
  Definition scc (h : smod) (sp : cspec) : Prop :=
    cc (sm_mod h) sp /\
    forall mu xs ws, c_good sp mu (Some xs) -> c_good sp (sm_after h mu xs (c_f sp xs) ws) (Some xs).

  (* an ordinary module (sensitivity reads the memory only) as an smod *)
  Definition lift_s (h : hmod) : smod := {| sm_mod := h; sm_after := fun mu _ _ _ => mu |}.

  Fixpoint admissible_run_s (keep : nat -> bool) (mods : list smod) (ops : list op) (x : nst) : Prop :=
    match ops with
    | [] => True
    | o :: ops' => admissible (map sm_mod mods) x o /\ admissible_run_s keep mods ops' (step_s keep mods x o)
    end.

  (* seeding, sensitivity() and reset() only: what may happen between a response() and a further sensitivity pass
     on the SAME response *)
  Definition pass_op (o : op) : bool :=
    match o with OSeed _ _ => true | OSens => true | OReset => true | _ => false end.
  (* one more pass on the current response: seeds; sensitivity() -- no new response() *)
  Definition pass_only (seeds : list (nat * vec)) : list op := seed_ops seeds ++ [OSens].
End HistModel.

Arguments hmod {K} M.
Arguments smod {K} M.
Arguments op {K}.
Arguments nst {K} M.
Arguments cspec {K} M.
Arguments OResp {K}.
Arguments OSens {K}.
Arguments OReset {K}.

(* =====================================================================================================
   The caching modules of /repo as modules with memory.  The numerics are oracles (Section variables); what is
   modelled is the bookkeeping: what is stored, when it is (re)computed, what it is used for. *)

(* ---- LinSolve (modules/linalg.py): stores the last solution self.u and uses it
        (a) as initial guess of the next solve, when it has the shape of the new right-hand side (fix F16),
        (b) in _sensitivity: dA = -lam u^T, db = lam with A^T lam = w.
        The solver object and the symmetry flags are functions of the matrix CLASS (kept constant in a history). *)
Section LinSolveModel.
  Context {K : Type} `{NK : Num K}.
  Variable solve : list K -> list K -> option (list K) -> list K.   (* matrix (flat), rhs, initial guess *)
  Variable solveT : list K -> list K -> list K.                     (* transposed solve *)
  Variable outer_neg : list K -> list K -> list K.                  (* -lam u^T (flat) *)

  Definition guess (mu : option (list K)) (b : list K) : option (list K) :=
    match mu with
    | Some u => if Nat.eqb (length u) (length b) then Some u else None
    | None => None
    end.

  Definition linsolve_h (ins : list ref) (out : nat) : hmod (option (list K)) :=
    {| h_ins := ins; h_outs := [out];
       h_resp := fun mu xs =>
                   let u := solve (nth 0 xs []) (nth 1 xs []) (guess mu (nth 1 xs [])) in (Some u, [u]);
       h_sens := fun mu xs ys ws =>
                   let u := match mu with Some u => u | None => [] end in
                   let lam := solveT (nth 0 xs []) (nth 0 ws []) in
                   [Some (outer_neg lam u); Some lam] |}.

  Definition linsolve_f (xs : list (list K)) : list (list K) := [solve (nth 0 xs []) (nth 1 xs []) None].
  Definition linsolve_g (xs ys ws : list (list K)) : list (option (list K)) :=
    let lam := solveT (nth 0 xs []) (nth 0 ws []) in [Some (outer_neg lam (nth 0 ys [])); Some lam].
  (* the stored solution is the one of the latest response *)
  Definition linsolve_good (mu : option (list K)) (last : option (list (list K))) : Prop :=
    match last with None => True | Some xs => mu = Some (solve (nth 0 xs []) (nth 1 xs []) None) end.
End LinSolveModel.

(* ---- OverhangFilter (modules/filter.py): q/shift/backshift are set on the first response as a function of the
        dtype only (`if self.q is None: self.set_parameters(x.dtype)`); smax is stored by every response and read
        by the sensitivity *)
Section OverhangModel.
  Context {K : Type} `{NK : Num K}.
  Variable P : Type.                                   (* (q, shift, backshift) *)
  Variable params_of_dtype : P.                        (* set_parameters(float64) *)
  Variable sweep : P -> list K -> list K * list K.     (* x |-> (xprint, smax) *)
  Variable sweep_adj : P -> list K -> list K -> list K -> list K -> list K.  (* x, xprint, smax, seed *)

  Definition overhang_h (r : ref) (out : nat) : hmod (option P * list K) :=
    {| h_ins := [r]; h_outs := [out];
       h_resp := fun mu xs =>
                   let p := match fst mu with None => params_of_dtype | Some p => p end in
                   let ys := sweep p (nth 0 xs []) in ((Some p, snd ys), [fst ys]);
       h_sens := fun mu xs ys ws =>
                   let p := match fst mu with None => params_of_dtype | Some p => p end in
                   [Some (sweep_adj p (nth 0 xs []) (nth 0 ys []) (snd mu) (nth 0 ws []))] |}.

  Definition overhang_f (xs : list (list K)) : list (list K) := [fst (sweep params_of_dtype (nth 0 xs []))].
  Definition overhang_g (xs ys ws : list (list K)) : list (option (list K)) :=
    [Some (sweep_adj params_of_dtype (nth 0 xs []) (nth 0 ys []) (snd (sweep params_of_dtype (nth 0 xs []))) (nth 0 ws []))].
  Definition overhang_good (mu : option P * list K) (last : option (list (list K))) : Prop :=
    (fst mu = None \/ fst mu = Some params_of_dtype) /\
    match last with
    | None => True
    | Some xs => fst mu = Some params_of_dtype /\ snd mu = snd (sweep params_of_dtype (nth 0 xs []))
    end.
End OverhangModel.

(* ---- SystemOfEquations (modules/linalg.py): the index sets f / p are completed on the first response from the
        matrix size n (`if self.f is None: self.f = setdiff1d(arange(n), self.p)`) and kept *)
Section SoEModel.
  Context {K : Type} `{NK : Num K}.
  Variable n_of : list (list K) -> nat.                          (* size of the system matrix among the inputs *)
  Variable complete : nat -> list nat * list nat.                (* (f, p) from n and the constructor arguments *)
  Variable soe : list nat * list nat -> list (list K) -> list (list K).     (* partitioned solve: [x; b] *)
  Variable soe_adj : list nat * list nat -> list (list K) -> list (list K) -> list (list K) -> list (option (list K)).

  Definition soe_h (ins : list ref) (outs : list nat) : hmod (option (list nat * list nat)) :=
    {| h_ins := ins; h_outs := outs;
       h_resp := fun mu xs =>
                   let fp := match mu with None => complete (n_of xs) | Some fp => fp end in
                   (Some fp, soe fp xs);
       h_sens := fun mu xs ys ws =>
                   let fp := match mu with None => complete (n_of xs) | Some fp => fp end in
                   soe_adj fp xs ys ws |}.
  Definition soe_f (n : nat) (xs : list (list K)) : list (list K) := soe (complete n) xs.
  Definition soe_g (n : nat) (xs ys ws : list (list K)) : list (option (list K)) := soe_adj (complete n) xs ys ws.
  Definition soe_good (n : nat) (mu : option (list nat * list nat)) (last : option (list (list K))) : Prop :=
    mu = None \/ mu = Some (complete n).
End SoEModel.

(* ---- EigenSolve, sparse branch (modules/linalg.py _sparse_eigs): the shift-invert operator Ainv is created on the
        first response (`if self.Ainv is None: ...; self.do_solve = True`), `if self.sigma != 0: self.do_solve = True`,
        and `if self.do_solve: self.Ainv.update(mat_shifted)`; do_solve is never cleared.  Memory = (factorisation
        held by Ainv, do_solve). *)
Section EigenSolveModel.
  Context {K : Type} `{NK : Num K}.
  Variable F : Type.                                            (* a factorisation *)
  Variable factorise : list K -> F.                             (* Ainv.update(mat_shifted) *)
  Variable shifted : list (list K) -> list K.                   (* A - sigma B from the inputs *)
  Variable sigma_nonzero : bool.
  Variable eigs : F -> list (list K) -> list (list K).          (* ARPACK with OPinv = the factorisation; post-processing *)
  Variable eig_adj : list (list K) -> list (list K) -> list (list K) -> list (option (list K)).

  Definition eigensolve_h (ins : list ref) (outs : list nat) : hmod (option F * bool) :=
    {| h_ins := ins; h_outs := outs;
       h_resp := fun mu xs =>
                   let created := match fst mu with None => true | Some _ => false end in
                   let do_solve := snd mu || created || sigma_nonzero in
                   let Fk := if do_solve then factorise (shifted xs)
                             else match fst mu with Some f => f | None => factorise (shifted xs) end in
                   ((Some Fk, do_solve), eigs Fk xs);
       h_sens := fun _ xs ys ws => eig_adj xs ys ws |}.
  Definition eigensolve_f (xs : list (list K)) : list (list K) := eigs (factorise (shifted xs)) xs.
  (* the factorisation in use is the one of the matrix of the latest response *)
  Definition eigensolve_good (mu : option F * bool) (last : option (list (list K))) : Prop :=
    match last with
    | None => mu = (None, false)
    | Some xs => mu = (Some (factorise (shifted xs)), true)
    end.
End EigenSolveModel.

(* ---- SolverDenseCholesky (solvers/dense.py), the solver LinSolve / SystemOfEquations / StaticCondensation select for
        dense Hermitian matrices whose diagonal has one sign:
          __init__ : self.backup_solver = SolverDenseLDL(); self.success = None
          update(A): try: self.U = cholesky(A); self.success = True
                     except LinAlgError: self.backup_solver.update(A); self.success = False
          solve    : if self.success: two triangular solves with self.U   else: self.backup_solver.solve(rhs, trans)
        Memory = (success, U, factorisation held by the backup solver).  A failed attempt leaves U untouched, a
        successful one leaves the backup factorisation untouched: both can be STALE, the flag decides which is read. *)
Section CholeskyFallbackModel.
  Context {K : Type}.
  Variable FU FL : Type.                                  (* Cholesky factor; LDL factorisation *)
  Variable chol : list K -> option FU.                    (* spla.cholesky(A); None = LinAlgError *)
  Variable ldl : list K -> FL.                            (* SolverDenseLDL.update(A) *)
  Variable usolve : FU -> bool -> list K -> list K.       (* factor, transposed?, right-hand side *)
  Variable lsolve : FL -> bool -> list K -> list K.
  Variable unfactorised : list K.                         (* a solve before any factorisation (an exception) *)
  Variable outer_neg : list K -> list K -> list K.        (* -lam u^T (flat) *)

  Record cstate : Type := { cs_success : option bool; cs_U : option FU; cs_L : option FL }.
  Definition cs_init : cstate := {| cs_success := None; cs_U := None; cs_L := None |}.

  Definition chol_update (s : cstate) (A : list K) : cstate :=
    match chol A with
    | Some U => {| cs_success := Some true; cs_U := Some U; cs_L := cs_L s |}
    | None => {| cs_success := Some false; cs_U := cs_U s; cs_L := Some (ldl A) |}
    end.

  (* `if self.success:` -- None and False both take the backup branch *)
  Definition chol_solve (s : cstate) (tr : bool) (b : list K) : list K :=
    match cs_success s with
    | Some true => match cs_U s with Some U => usolve U tr b | None => unfactorised end
    | _ => match cs_L s with Some L => lsolve L tr b | None => unfactorised end
    end.

  (* the answers of one solver object to a sequence of update(A_k); solve(b); solve(b, trans='T') *)
  Fixpoint chol_answers (s : cstate) (As : list (list K)) (b : list K) : list (list K) :=
    match As with
    | [] => []
    | A :: r => let s' := chol_update s A in chol_solve s' false b :: chol_solve s' true b :: chol_answers s' r b
    end.

  (* LinSolve with this solver: _response = solver.update(mat); self.u = solver.solve(rhs);
     _sensitivity = solver.solve(dfdv, trans='T') and the stored self.u
     (LDAWrapper.update clears its stored solutions and forwards to the inner solver; its solve is the inner solve) *)
  Definition chol_linsolve_h (ins : list ref) (out : nat) : hmod (cstate * option (list K)) :=
    {| h_ins := ins; h_outs := [out];
       h_resp := fun mu xs =>
                   let s := chol_update (fst mu) (nth 0 xs []) in
                   let u := chol_solve s false (nth 1 xs []) in ((s, Some u), [u]);
       h_sens := fun mu xs ys ws =>
                   let u := match snd mu with Some u => u | None => [] end in
                   let lam := chol_solve (fst mu) true (nth 0 ws []) in
                   [Some (outer_neg lam u); Some lam] |}.

  (* a freshly constructed solver that has seen only A *)
  Definition chol_fresh_solve (A : list K) (tr : bool) (b : list K) : list K :=
    match chol A with Some U => usolve U tr b | None => lsolve (ldl A) tr b end.
  Definition chol_f (xs : list (list K)) : list (list K) := [chol_fresh_solve (nth 0 xs []) false (nth 1 xs [])].
  Definition chol_g (xs ys ws : list (list K)) : list (option (list K)) :=
    let lam := chol_fresh_solve (nth 0 xs []) true (nth 0 ws []) in [Some (outer_neg lam (nth 0 ys [])); Some lam].
  (* whatever is stale inside, the solver ANSWERS for the matrix of the latest response, and u is its solution *)
  Definition chol_good (mu : cstate * option (list K)) (last : option (list (list K))) : Prop :=
    match last with
    | None => True
    | Some xs => (forall tr b, chol_solve (fst mu) tr b = chol_fresh_solve (nth 0 xs []) tr b) /\
                 snd mu = Some (chol_fresh_solve (nth 0 xs []) false (nth 1 xs []))
    end.
End CholeskyFallbackModel.

(* ---- EigenSolve._sparse_eigvec_sens (modules/linalg.py): one adjoint solver per mode, created and factorised INSIDE
        _sensitivity:
          _prepare / _response : self.adjoint_solvers_need_update = True            (nothing ever clears it)
          for i in range(W.size):
              if dQ[:, i] is all zero: continue                                      (unseeded modes are skipped)
              if self.adjoint_solvers_need_update or self.solvers[i] is None:
                  Z = A - W[i] * B
                  if not hasattr(self, 'solvers'): self.solvers = [None for _ in range(W.size)]
                  if self.solvers[i] is None: self.solvers[i] = auto_determine_solver(Z, ...)
                  if self.adjoint_solvers_need_update: self.solvers[i].update(Z)
              vp = self.solvers[i].solve(r, trans='T')
        Memory = (need_update, solvers).  A skipped mode keeps whatever factorisation its solver got in an EARLIER
        response; it is refreshed when the mode is visited again because the flag is still set. *)
Section EigenAdjointModel.
  Context {K : Type}.
  Variable FA : Type.                                     (* a factorisation of A - lambda_i B *)
  Variable afact : list K -> FA.                          (* solvers[i].update(Z) *)

  (* None: no solver object yet; Some None: created, never factorised; Some (Some f): holds factorisation f *)
  Definition acell : Type := option (option FA).
  (* (adjoint_solvers_need_update, self.solvers) -- None: the attribute does not exist yet *)
  Definition amem : Type := (bool * option (list acell))%type.
  Definition amem0 : amem := (true, None).

  Definition cell_fact (c : acell) : option FA := match c with Some (Some f) => Some f | _ => None end.
  Fixpoint put_nth {A : Type} (i : nat) (a : A) (l : list A) : list A :=
    match l, i with
    | [], _ => []
    | _ :: l', O => a :: l'
    | x :: l', S i' => x :: put_nth i' a l'
    end.

  (* self.adjoint_solvers_need_update = True *)
  Definition adj_on_response (mu : amem) : amem := (true, snd mu).

  (* the loop body for a seeded mode i; returns the memory and the factorisation solve() reads (None: the solver holds
     none -- an exception).  With the flag set the `or` short-circuits and self.solvers is not touched before it exists;
     flag clear + attribute missing is an AttributeError in the code and "no factorisation" here. *)
  Definition adj_visit (n : nat) (mu : amem) (i : nat) (Z : list K) : amem * option FA :=
    let cur : acell := match snd mu with Some l => nth i l None | None => None end in
    if fst mu || is_none cur then
      let l := match snd mu with Some l => l | None => repeat None n end in
      let c1 : acell := match nth i l None with None => Some None | Some c => Some c end in
      let c2 : acell := if fst mu then Some (Some (afact Z)) else c1 in
      ((fst mu, Some (put_nth i c2 l)), cell_fact c2)
    else (mu, cell_fact cur).

  (* modes = [(i, "dQ[:, i] is not all zero", A - W[i] B) for i in range(W.size)] *)
  Fixpoint adj_loop (n : nat) (mu : amem) (modes : list (nat * bool * list K)) : amem * list (nat * option FA) :=
    match modes with
    | [] => (mu, [])
    | (i, seeded, Z) :: r =>
      if seeded
      then let v := adj_visit n mu i Z in
           let rest := adj_loop n (fst v) r in (fst rest, (i, snd v) :: snd rest)
      else adj_loop n mu r
    end.

  (* what every visited mode reads when all adjoint solvers are freshly factorised *)
  Definition adj_current (modes : list (nat * bool * list K)) : list (nat * option FA) :=
    flat_map (fun m : nat * bool * list K => if snd (fst m) then [(fst (fst m), Some (afact (snd m)))] else []) modes.

  (* the factorisations held after each sensitivity pass of a history of one module:
     None = a response (of the next design), Some seeded = reset(); seed the listed modes; sensitivity() *)
  Fixpoint adj_trace (n : nat) (Zof : nat -> nat -> list K) (mu : amem) (k : nat) (ops : list (option (list bool)))
    : list (list (option FA)) :=
    match ops with
    | [] => []
    | None :: r => adj_trace n Zof (adj_on_response mu) (S k) r
    | Some seeded :: r =>
      let modes := map (fun ib => (fst ib, snd ib, Zof k (fst ib))) (combine (seq 0 n) seeded) in
      let mu' := fst (adj_loop n mu modes) in
      map cell_fact (match snd mu' with Some l => l | None => repeat None n end) :: adj_trace n Zof mu' k r
    end.

  (* the sparse EigenSolve as a module whose sensitivity writes its memory: shift-invert memory of eigensolve_h
     paired with the adjoint solvers *)
  Variable F : Type.
  Variable factorise : list K -> F.
  Variable shifted : list (list K) -> list K.
  Variable sigma_nonzero : bool.
  Variable eigs : F -> list (list K) -> list (list K).
  Variable nmodes : list (list K) -> nat.                                          (* W.size, from the output states *)
  Variable modes_of : list (list K) -> list (list K) -> list (list K) -> list (nat * bool * list K)
    (* inputs, outputs (W, Q), output sensitivities (dW, dQ) |-> the modes list above *).
  Variable eig_adj_with : list (list K) -> list (list K) -> list (list K) -> list (nat * option FA) -> list (option (list K))
    (* eigenvalue part + the contribution of every visited mode, each computed with the factorisation its solver holds *).

  Definition eigadj_s (ins : list ref) (outs : list nat) : smod ((option F * bool) * amem) :=
    let base := eigensolve_h F factorise shifted sigma_nonzero eigs (fun _ _ _ => []) ins outs in
    {| sm_mod := {| h_ins := ins; h_outs := outs;
                    h_resp := fun mu xs => let r := h_resp base (fst mu) xs in
                                           ((fst r, adj_on_response (snd mu)), snd r);
                    h_sens := fun mu xs ys ws =>
                                eig_adj_with xs ys ws (snd (adj_loop (nmodes ys) (snd mu) (modes_of xs ys ws))) |};
       sm_after := fun mu xs ys ws => (fst mu, fst (adj_loop (nmodes ys) (snd mu) (modes_of xs ys ws))) |}.

  Definition eigadj_f (xs : list (list K)) : list (list K) := eigs (factorise (shifted xs)) xs.
  Definition eigadj_g (xs ys ws : list (list K)) : list (option (list K)) :=
    eig_adj_with xs ys ws (adj_current (modes_of xs ys ws)).
  Definition eigadj_good (mu : (option F * bool) * amem) (last : option (list (list K))) : Prop :=
    eigensolve_good F factorise shifted (fst mu) last /\ fst (snd mu) = true.
End EigenAdjointModel.

(* ---- LinSolve._response with LDAWrapper.update (modules/linalg.py, solvers/solvers.py): what is detected from the
        matrix, and WHEN.
          at EVERY response : self.issparse, self.iscomplex = matrix_is_complex(mat)           (LinSolve)
                              self.A = A; diagonal_idx / nondiagonal_idx = the partition of the dofs in decoupled
                              (only a diagonal entry: boundary-condition rows) and coupled ones, get_diagonal_indices(A);
                              stored solution vectors cleared; inner solver updated            (LDAWrapper.update)
          at the FIRST one  : self.ishermitian, the solver object, LDAWrapper.symmetric / hermitian   (the matrix CLASS)
        solve (response and adjoint) goes through the partition: decoupled dofs are answered rhs_i / A_ii and removed
        from the right-hand side; _sensitivity reads iscomplex: dmat = -lam u^T, `.real` when the matrix is not complex;
        db = real(lam) when the CURRENT right-hand side is real.
        Memory = (class, iscomplex, partition, u).  The class is sticky (constant within a history: agreed scope); the
        VALUE KIND (real / complex) and the SPARSITY PATTERN (which dofs are decoupled) may change at every response. *)
Section LinSolveDetectModel.
  Context {K : Type}.
  Variable C P : Type.                                   (* class flags with the solver chosen from them; a partition *)
  Variable cls_of : list K -> C.                         (* matrix_is_hermitian, matrix_is_symmetric, auto_determine_solver *)
  Variable is_cplx : list K -> bool.                     (* matrix_is_complex *)
  Variable part_of : list K -> P.                        (* get_diagonal_indices *)
  Variable solve_with : C -> P -> list K -> bool -> list K -> list K.   (* class, partition, matrix, transposed?, rhs *)
  Variable dmat_of : bool -> list K -> list K -> list K. (* iscomplex, lam, u: -lam u^T, its real part if not iscomplex *)
  Variable db_of : list K -> list K -> list K.           (* current rhs, lam: real(lam) if the rhs is real *)

  Record dstate : Type := { d_cls : option C; d_cplx : bool; d_part : option P; d_u : option (list K) }.
  Definition d_init : dstate := {| d_cls := None; d_cplx := false; d_part := None; d_u := None |}.

  (* the detections of one response: the class only when none is held, value kind and partition always *)
  Definition det_update (s : dstate) (A : list K) : dstate :=
    {| d_cls := Some (match d_cls s with Some c => c | None => cls_of A end);
       d_cplx := is_cplx A; d_part := Some (part_of A); d_u := d_u s |}.

  (* a solve uses the class and the partition the module HOLDS *)
  Definition det_solve (s : dstate) (A : list K) (tr : bool) (b : list K) : list K :=
    match d_cls s, d_part s with
    | Some c, Some p => solve_with c p A tr b
    | _, _ => []                                          (* a solve before any update (an exception) *)
    end.

  Definition det_linsolve_h (ins : list ref) (out : nat) : hmod dstate :=
    {| h_ins := ins; h_outs := [out];
       h_resp := fun mu xs =>
                   let s := det_update mu (nth 0 xs []) in
                   let u := det_solve s (nth 0 xs []) false (nth 1 xs []) in
                   ({| d_cls := d_cls s; d_cplx := d_cplx s; d_part := d_part s; d_u := Some u |}, [u]);
       h_sens := fun mu xs ys ws =>
                   let u := match d_u mu with Some u => u | None => [] end in
                   let lam := det_solve mu (nth 0 xs []) true (nth 0 ws []) in
                   [Some (dmat_of (d_cplx mu) lam u); Some (db_of (nth 1 xs []) lam)] |}.

  (* a freshly constructed module that has seen only the current matrix *)
  Definition det_f (xs : list (list K)) : list (list K) :=
    [solve_with (cls_of (nth 0 xs [])) (part_of (nth 0 xs [])) (nth 0 xs []) false (nth 1 xs [])].
  Definition det_g (xs ys ws : list (list K)) : list (option (list K)) :=
    let A := nth 0 xs [] in
    let lam := solve_with (cls_of A) (part_of A) A true (nth 0 ws []) in
    [Some (dmat_of (is_cplx A) lam (nth 0 ys [])); Some (db_of (nth 1 xs []) lam)].
  (* the class held is the (constant) class c0; value kind, partition and u are those of the latest response *)
  Definition det_good (c0 : C) (mu : dstate) (last : option (list (list K))) : Prop :=
    (d_cls mu = None \/ d_cls mu = Some c0) /\
    match last with
    | None => True
    | Some xs => d_cls mu = Some c0 /\ d_cplx mu = is_cplx (nth 0 xs []) /\ d_part mu = Some (part_of (nth 0 xs [])) /\
                 d_u mu = Some (solve_with c0 (part_of (nth 0 xs [])) (nth 0 xs []) false (nth 1 xs []))
    end.

  (* what ONE module holds after each of the responses on A_1, A_2, ...: (iscomplex, partition) *)
  Fixpoint det_trace (s : dstate) (As : list (list K)) : list (bool * option P) :=
    match As with
    | [] => []
    | A :: r => let s' := det_update s A in (d_cplx s', d_part s') :: det_trace s' r
    end.
End LinSolveDetectModel.

(* executable instances for the bookkeeping correspondence of tools/checks/C03.py: matrices are TAGS.
   Cholesky: a matrix is [tag; 1 if positive definite else 0]; every answer names the factorisation it was computed
   with.  Adjoint solvers: Z_i of the k-th response is [k; i]. *)
From Coq Require Import ZArith.
Section TagInstances.
  Local Open Scope Z_scope.
  Definition tag_chol (A : list Z) : option Z := if Z.eqb (nth 1 A 0) 1 then Some (nth 0 A 0) else None.
  Definition tag_ldl (A : list Z) : Z := nth 0 A 0.
  Definition tag_answers (As : list (list Z)) : list (list Z) :=
    chol_answers Z Z tag_chol tag_ldl (fun U _ _ => [U]) (fun L _ _ => [L]) [-1] (cs_init Z Z) As [].
  Definition tag_adj_trace (n : nat) (ops : list (option (list bool))) : list (list (option (list Z))) :=
    adj_trace (list Z) (fun Zm => Zm) n (fun k i => [Z.of_nat k; Z.of_nat i]) (amem0 (list Z)) 0%nat ops.
  (* detections: a matrix is  kind :: n :: the n*n entries of `A != 0` (row major, 0/1);  kind = 1 for a complex-valued
     matrix.  get_diagonal_indices as written in solvers/solvers.py:
        bmat = mat != 0; has_diag = bmat.diagonal(); nnz_rows = bmat.sum(axis=0); nnz_cols = bmat.sum(axis=1)
        logical_and(logical_and(has_diag, nnz_rows <= 1), nnz_cols <= 1);   diagonal_idx = argwhere(...) *)
  Fixpoint chunk (m n : nat) (l : list Z) : list (list Z) :=
    match m with O => [] | S m' => firstn n l :: chunk m' n (skipn n l) end.
  Definition zsum (l : list Z) : Z := fold_right Z.add 0 l.
  Definition diag_indices (rows : list (list Z)) : list Z :=
    flat_map (fun i : nat =>
                let has_diag := negb (Z.eqb (nth i (nth i rows []) 0) 0) in
                let nnz_rows := zsum (map (fun r => nth i r 0) rows) in          (* sum over axis 0: column i *)
                let nnz_cols := zsum (nth i rows []) in                          (* sum over axis 1: row i *)
                if has_diag && Z.leb nnz_rows 1 && Z.leb nnz_cols 1 then [Z.of_nat i] else [])
             (seq 0 (length rows)).
  Definition tag_rows (A : list Z) : list (list Z) := chunk (Z.to_nat (nth 1 A 0)) (Z.to_nat (nth 1 A 0)) (skipn 2 A).
  Definition tag_det_trace (As : list (list Z)) : list (list Z) :=
    map (fun cp : bool * option (list Z) =>
           (if fst cp then 1 else 0) :: match snd cp with Some l => l | None => [-1] end)
        (det_trace unit (list Z) (fun _ => tt) (fun A => Z.eqb (nth 0 A 0) 1) (fun A => diag_indices (tag_rows A))
                   (d_init unit (list Z)) As).
End TagInstances.

(* =====================================================================================================
   Executable modules used by the correspondence (integer-exact core of tools/checks/C03.py) *)
From Coq Require Import ZArith.
From Pymoto Require Import Base.Cmp.

Section ExecModules.
  Local Open Scope Z_scope.
  (* what the test modules may remember: the inputs and outputs of the latest evaluation *)
  Definition zmem : Type := option (list (list Z) * list (list Z)).

  Definition lin_h (ins : list ref) (outs : list nat) (L : lin Z) : hmod zmem :=
    {| h_ins := ins; h_outs := outs;
       h_resp := fun mu xs => (mu, lin_fwd L xs);
       h_sens := fun _ _ _ ws => lin_adj L ws |}.

  (* y = x * x (elementwise), dx = 2 x w *)
  Definition sq_h (r : ref) (out : nat) : hmod zmem :=
    {| h_ins := [r]; h_outs := [out];
       h_resp := fun mu xs => (mu, [map (fun a => a * a) (nth 0 xs [])]);
       h_sens := fun _ xs _ ws =>
                   [Some (map (fun p => 2 * fst p * snd p) (combine (nth 0 xs []) (nth 0 ws [])))] |}.

  (* y = a * b (elementwise), da = b w, db = a w *)
  Definition mul_h (r1 r2 : ref) (out : nat) : hmod zmem :=
    {| h_ins := [r1; r2]; h_outs := [out];
       h_resp := fun mu xs => (mu, [map (fun p => fst p * snd p) (combine (nth 0 xs []) (nth 1 xs []))]);
       h_sens := fun _ xs _ ws =>
                   [Some (map (fun p => fst p * snd p) (combine (nth 1 xs []) (nth 0 ws [])));
                    Some (map (fun p => fst p * snd p) (combine (nth 0 xs []) (nth 0 ws [])))] |}.

  (* a user module with a (correct) cache: recomputes only when its inputs changed *)
  Definition cached_h (ins : list ref) (outs : list nat) (L : lin Z) : hmod zmem :=
    {| h_ins := ins; h_outs := outs;
       h_resp := fun mu xs =>
                   match mu with
                   | Some (xs0, ys0) => if Zll_eqb xs0 xs then (mu, ys0) else (Some (xs, lin_fwd L xs), lin_fwd L xs)
                   | None => (Some (xs, lin_fwd L xs), lin_fwd L xs)
                   end;
       h_sens := fun _ _ _ ws => lin_adj L ws |}.
  Definition cached_good (L : lin Z) (mu : zmem) (last : option (list (list Z))) : Prop :=
    match mu with None => True | Some (xs0, ys0) => ys0 = lin_fwd L xs0 end.

  (* the final observation of a history: states and sensitivities of the first N signals *)
  Definition observe (N : nat) (x : nst zmem) : list (list Z) * list (option (list Z)) :=
    (show_t N (s_st x), show_c N (s_se x)).
  Definition keep_of (l : list nat) : nat -> bool := fun s => mem s l.
  Definition start (dl : list nat) (keepl : list nat) (mods : list (hmod zmem)) (inputs : list (list Z)) : nst zmem :=
    fresh (dims_of dl) (keep_of keepl) mods (map (fun _ => None) mods) (env_of inputs).
End ExecModules.

(* ---- why the matrix class must stay constant within a history: LinSolve caches `ishermitian` (and the solver chosen
   from it) at the first response.  Concrete 2x2 integer instance: a symmetric-matrix solver reads the lower triangle
   only; matrices of determinant +-1 are solved exactly over Z (x = det * adj(A) b). *)
Section ClassFlagModel.
  Local Open Scope Z_scope.
  Definition m2 (A : list Z) (i : nat) : Z := nth i A 0.                 (* row major [a; b; c; d] *)
  Definition det2 (A : list Z) : Z := m2 A 0 * m2 A 3 - m2 A 1 * m2 A 2.
  Definition solve2 (A b : list Z) : list Z :=
    [det2 A * (m2 A 3 * nth 0 b 0 - m2 A 1 * nth 1 b 0); det2 A * (m2 A 0 * nth 1 b 0 - m2 A 2 * nth 0 b 0)].
  Definition is_sym2 (A : list Z) : bool := Z.eqb (m2 A 1) (m2 A 2).
  Definition mirror_lower (A : list Z) : list Z := [m2 A 0; m2 A 2; m2 A 2; m2 A 3].
  (* self.ishermitian is determined by the FIRST matrix and kept *)
  Definition flagged_linsolve_h : hmod (option bool) :=
    {| h_ins := [RSig 0; RSig 1]; h_outs := [2%nat];
       h_resp := fun mu xs =>
                   let flag := match mu with Some f => f | None => is_sym2 (nth 0 xs []) end in
                   let A := if flag then mirror_lower (nth 0 xs []) else nth 0 xs [] in
                   (Some flag, [solve2 A (nth 1 xs [])]);
       h_sens := fun _ _ _ _ => [None; None] |}.
  Definition cls_hist : list (@op Z) := [OSet 0 [1; 1; 1; 2]; OSet 1 [3; 1]; OResp; OSet 0 [1; 2; 0; 1]; OResp].
  Definition cls_fresh : list (@op Z) := [OSet 0 [1; 2; 0; 1]; OSet 1 [3; 1]; OResp].
  Definition cls_start : nst (option bool) :=
    fresh (dims_of [4; 2; 2]%nat) (fun _ => false) [flagged_linsolve_h] [None] (fun _ => []).
End ClassFlagModel.

(* ---- the example network of Props/C03.v (definitions only):
   0 = x (3, input), 1 = p (2, input, constructed with a sensitivity array: keep_alloc), 2 = a = A x[[0,2]],
   3 = y = a * a, 4 = g = C1 y + C2 p *)
Section Example.
  Definition ex_dims : list nat := [3; 2; 2; 2; 1].
  Definition ex_keep : list nat := [1].
  Definition ex_LA : lin Z := mkL [2] [2] [false] [(0, 0, [[1; 2]; [0; -1]]%Z)].
  Definition ex_LC : lin Z := mkL [2; 2] [1] [false; false] [(0, 0, [[1; -1]]%Z); (0, 1, [[2; 1]]%Z)].
  Definition ex_mods : list (hmod zmem) :=
    [lin_h [RSlice 0 [0; 2]] [2] ex_LA; sq_h (RSig 2) 3; lin_h [RSig 3; RSig 1] [4] ex_LC].
  Definition ex_mods_cached : list (hmod zmem) :=
    [lin_h [RSlice 0 [0; 2]] [2] ex_LA; sq_h (RSig 2) 3; cached_h [RSig 3; RSig 1] [4] ex_LC].
  Definition ex_inputs : list (list Z) := [[1; 2; -1]; [2; 1]]%Z.
  Definition ex_hist : list (@op Z) :=
    [OResp; OSeed 4 [1]%Z; OSens; OSens; OSet 0 [0; 1; 2]%Z; OResp; OSeed 3 [1; -1]%Z; OSens].
  Definition ex_sets : list (@op Z) := [OSet 1 [1; 1]%Z].
  Definition ex_seeds : list (nat * list Z) := [(4, [2]%Z)].
End Example.
