(* Shape-function identities over R for 2-D and 3-D elements. *)
From Coq Require Import ZArith List Reals Lra Lia.
From Pymoto Require Import Base.Num Model.Grid Model.Shape.
Import ListNotations.
Open Scope R_scope.

Ltac shape_unfold :=
  unfold shape_fun, shape_der, shape_one, dshape_one, fac, vol, nth3, sgn3, two, nsum, nprod, node_numbering;
  cbn -[Rmult Rplus Rdiv Rminus IZR Rinv];
  unfold nadd, nmul, ndiv, nsub, none_, nzero, nofZ; cbn -[Rmult Rplus Rdiv Rminus IZR Rinv].

Section S.
  Variables hx hy hz px py pz : R.
  Let h := [hx; hy; hz].
  Let p := [px; py; pz].

  Lemma pou2 : hx <> 0 -> hy <> 0 -> nsum (shape_fun 2 h p) = 1.
  Proof. intros. subst h p. shape_unfold. field; auto. Qed.

  Lemma pou3 : hx <> 0 -> hy <> 0 -> hz <> 0 -> nsum (shape_fun 3 h p) = 1.
  Proof. intros. subst h p. shape_unfold. field; auto. Qed.

  (* gradients of the shape functions sum to zero (needed for rigid modes / constants) *)
  Lemma dsum2 : hx <> 0 -> hy <> 0 -> map nsum (shape_der 2 h p) = [0; 0].
  Proof. intros. subst h p. shape_unfold. repeat f_equal; field; auto. Qed.

  Lemma dsum3 : hx <> 0 -> hy <> 0 -> hz <> 0 -> map nsum (shape_der 3 h p) = [0; 0; 0].
  Proof. intros. subst h p. shape_unfold. repeat f_equal; field; auto. Qed.
End S.

(* Kronecker property: N_a(node_b) = delta_ab, node_b at n_b * h/2 *)
Definition nodepos (h : list R) (n : Z * Z * Z) : list R :=
  match n with (a, b, c) => [IZR a * nth 0 h 0 / 2; IZR b * nth 1 h 0 / 2; IZR c * nth 2 h 0 / 2] end.

Definition delta_row (len b : nat) : list R := map (fun a => if Nat.eqb a b then 1 else 0) (seq 0 len).

Lemma kron2 hx hy hz b : hx <> 0 -> hy <> 0 -> (b < 4)%nat ->
  shape_fun 2 [hx; hy; hz] (nodepos [hx; hy; hz] (nth b (node_numbering 2) (0,0,0)%Z)) = delta_row 4 b.
Proof.
  intros Hx Hy Hb.
  do 4 (destruct b as [|b]; [shape_unfold; unfold delta_row; cbn; repeat f_equal; field; auto|]). lia.
Qed.

Lemma kron3 hx hy hz b : hx <> 0 -> hy <> 0 -> hz <> 0 -> (b < 8)%nat ->
  shape_fun 3 [hx; hy; hz] (nodepos [hx; hy; hz] (nth b (node_numbering 3) (0,0,0)%Z)) = delta_row 8 b.
Proof.
  intros Hx Hy Hz Hb.
  do 8 (destruct b as [|b]; [shape_unfold; unfold delta_row; cbn; repeat f_equal; field; auto|]). lia.
Qed.

(* non-negativity inside the element *)
Lemma fac_nonneg (h x : R) (s : Z) : (s = (-1)%Z \/ s = 1%Z) -> 0 < h -> - h / 2 <= x <= h / 2 -> 0 <= h / 2 + IZR s * x.
Proof. intros [-> | ->] Hh Hx; lra. Qed.

Lemma nonneg2 hx hy hz px py pz : 0 < hx -> 0 < hy ->
  - hx / 2 <= px <= hx / 2 -> - hy / 2 <= py <= hy / 2 ->
  Forall (fun v => 0 <= v) (shape_fun 2 [hx; hy; hz] [px; py; pz]).
Proof.
  intros Hx Hy Bx By. shape_unfold.
  assert (Hv : 0 < 1 / (hx * (hy * 1))).
  { apply Rdiv_lt_0_compat; [lra|]. rewrite Rmult_1_r. apply Rmult_lt_0_compat; lra. }
  repeat (apply Forall_cons;
    [apply Rmult_le_pos; [apply Rmult_le_pos; [lra|]|]; apply fac_nonneg; auto|]).
  apply Forall_nil.
Qed.

Lemma nonneg3 hx hy hz px py pz : 0 < hx -> 0 < hy -> 0 < hz ->
  - hx / 2 <= px <= hx / 2 -> - hy / 2 <= py <= hy / 2 -> - hz / 2 <= pz <= hz / 2 ->
  Forall (fun v => 0 <= v) (shape_fun 3 [hx; hy; hz] [px; py; pz]).
Proof.
  intros Hx Hy Hz Bx By Bz. shape_unfold.
  assert (Hv : 0 < 1 / (hx * (hy * (hz * 1)))).
  { apply Rdiv_lt_0_compat; [lra|]. rewrite Rmult_1_r. repeat apply Rmult_lt_0_compat; lra. }
  repeat (apply Forall_cons;
    [apply Rmult_le_pos; [apply Rmult_le_pos; [apply Rmult_le_pos; [lra|]|]|]; apply fac_nonneg; auto|]).
  apply Forall_nil.
Qed.

(* the reported derivative is the exact gradient: each N_a is affine in each coordinate,
   so the difference quotient is exact for every step t *)
Definition bump (p : list R) (d : nat) (t : R) : list R :=
  map (fun i => nth i p 0 + (if Nat.eqb i d then t else 0)) (seq 0 3).

Ltac list_eq tac := repeat (apply (f_equal2 (@cons R)); [tac|]); try reflexivity.

Lemma der_exact2 hx hy hz px py pz t d : hx <> 0 -> hy <> 0 -> (d < 2)%nat ->
  map (fun q => fst q - snd q)
      (combine (shape_fun 2 [hx; hy; hz] (bump [px; py; pz] d t)) (shape_fun 2 [hx; hy; hz] [px; py; pz]))
  = map (fun v => t * v) (nth d (shape_der 2 [hx; hy; hz] [px; py; pz]) []).
Proof.
  intros Hx Hy Hd.
  do 2 (destruct d as [|d]; [shape_unfold; list_eq ltac:(field; auto)|]). lia.
Qed.

Lemma der_exact3 hx hy hz px py pz t d : hx <> 0 -> hy <> 0 -> hz <> 0 -> (d < 3)%nat ->
  map (fun q => fst q - snd q)
      (combine (shape_fun 3 [hx; hy; hz] (bump [px; py; pz] d t)) (shape_fun 3 [hx; hy; hz] [px; py; pz]))
  = map (fun v => t * v) (nth d (shape_der 3 [hx; hy; hz] [px; py; pz]) []).
Proof.
  intros Hx Hy Hz Hd.
  do 3 (destruct d as [|d]; [shape_unfold; list_eq ltac:(field; auto)|]). lia.
Qed.

(* linear completeness: sum_a dN_{d,a}(p) * (g . nodepos_a) = g_d  (gradient of a linear field is reproduced) *)
Lemma lin2 hx hy hz px py pz gx gy : hx <> 0 -> hy <> 0 ->
  map (fun row => nsum (map (fun q => fst q * snd q)
        (combine row (map (fun n => match nodepos [hx;hy;hz] n with [x;y;_] => gx*x + gy*y | _ => 0 end) (node_numbering 2)))))
      (shape_der 2 [hx;hy;hz] [px;py;pz]) = [gx; gy].
Proof. intros. shape_unfold. list_eq ltac:(field; auto). Qed.

Lemma lin3 hx hy hz px py pz gx gy gz : hx <> 0 -> hy <> 0 -> hz <> 0 ->
  map (fun row => nsum (map (fun q => fst q * snd q)
        (combine row (map (fun n => match nodepos [hx;hy;hz] n with [x;y;z] => gx*x + gy*y + gz*z | _ => 0 end) (node_numbering 3)))))
      (shape_der 3 [hx;hy;hz] [px;py;pz]) = [gx; gy; gz].
Proof. intros. shape_unfold. list_eq ltac:(field; auto). Qed.
