(* Facts about construction histories (Model/HistBuild.v). *)
From Coq Require Import List Bool.
From Pymoto Require Import Base.Num Model.Net Model.Hist Model.HistBuild.
Import ListNotations.

Section HistBuildP.
  Context {K : Type} `{NK : Num K}.
  Context {M : Type}.

  Lemma visible_all : forall (vis : list bool) (mods : list (@hmod K M)),
      all_true vis = true -> visible vis mods = mods.
  Proof.
    induction vis as [|b vis IH]; intros mods Hall; [reflexivity|].
    destruct mods as [|h mods]; [reflexivity|].
    cbn in Hall. apply andb_true_iff in Hall. destruct Hall as [Hb Hall].
    cbn. rewrite Hb. f_equal. apply IH. exact Hall.
  Qed.

  Lemma run_app : forall (keep : nat -> bool) (mods : list (@hmod K M)) (a b : list (@op K)) (x : @nst K M),
      run keep mods (a ++ b) x = run keep mods b (run keep mods a x).
  Proof. intros. unfold run. apply fold_left_app. Qed.

  (* segments that only construct (no op while a module is still missing) are the flat model on the final list *)
  Theorem run_built_complete :
    forall (keep : nat -> bool) (mods : list (@hmod K M)) (segs : list (list bool * list (@op K))) (x : @nst K M),
      (forall sg, In sg segs -> all_true (fst sg) = true \/ snd sg = []) ->
      run_built keep mods segs x = run keep mods (concat (map snd segs)) x.
  Proof.
    intros keep mods segs. induction segs as [|sg segs IH]; intros x Hs; [reflexivity|].
    cbn [map concat]. rewrite run_app.
    change (run_built keep mods (sg :: segs) x)
      with (run_built keep mods segs (run keep (visible (fst sg) mods) (snd sg) x)).
    rewrite IH by (intros s Hin; apply Hs; right; exact Hin).
    f_equal. destruct (Hs sg (or_introl eq_refl)) as [Hall|Hnil].
    - rewrite (visible_all _ _ Hall). reflexivity.
    - rewrite Hnil. reflexivity.
  Qed.

  (* the last segment of a construction history is an ordinary history on the modules reached then *)
  Theorem run_built_snoc :
    forall (keep : nat -> bool) (mods : list (@hmod K M)) (segs : list (list bool * list (@op K))) vis ops (x : @nst K M),
      run_built keep mods (segs ++ [(vis, ops)]) x = run keep (visible vis mods) ops (run_built keep mods segs x).
  Proof. intros. unfold run_built. rewrite fold_left_app. reflexivity. Qed.

  (* a module that is not reached is inert: reset() of the partial network does not touch it *)
  Theorem absent_no_refs : mod_refs (@absent_h K M) = [].
  Proof. reflexivity. Qed.
End HistBuildP.
