(* Proofs about Model/Hist.v : results depend on current inputs and seeds only, never on the call history (C03). *)
From Coq Require Import List Arith Bool Lia Ring ZArith.
From Pymoto Require Import Base.Num Model.Net Model.Hist Proofs.NetP.
Import ListNotations.

Section HistProofs.
  Context {K : Type} `{NK : Num K}.
  Hypothesis Kring : ring_theory nzero none_ nadd nmul nsub nopp (@eq K).
  Add Ring Kr2 : Kring.

  Notation "a +' b" := (nadd a b) (at level 50, left associativity).
  Notation "0'" := nzero.

  (* ------------------------------------------------------------------ vectors of zeros *)
  Lemma vadd_zero_r (g : vec K) n : length g = n -> vadd g (vzero n) = g.
  Proof.
    revert n. induction g as [|x g IH]; intros [|n] E; try discriminate; [reflexivity|].
    change (vzero (S n) : vec K) with (0' :: vzero n). rewrite vadd_cons, IH by (simpl in E; lia).
    f_equal. ring.
  Qed.
  Lemma vadd_zero_l (g : vec K) n : length g = n -> vadd (vzero n) g = g.
  Proof.
    revert n. induction g as [|x g IH]; intros [|n] E; try discriminate; [reflexivity|].
    change (vzero (S n) : vec K) with (0' :: vzero n). rewrite vadd_cons, IH by (simpl in E; lia).
    f_equal. ring.
  Qed.

  Lemma set_at_self i (g : vec K) : set_at i (nth i g 0') g = g.
  Proof. revert i. induction g as [|x g IH]; intros [|i]; simpl; auto. f_equal. apply IH. Qed.

  Lemma nth_set_at_eq i (a d : K) v : i < length v -> nth i (set_at i a v) d = a.
  Proof. revert i. induction v as [|x v IH]; intros [|i] Hi; simpl in *; try lia; auto. apply IH. lia. Qed.

  Lemma scatter_gather_self idx (g : vec K) : scatter_set idx (gather idx g) g = g.
  Proof.
    unfold scatter_set, gather.
    assert (H : forall l, (forall i, In i l -> True) ->
                fold_left (fun b iv => set_at (fst iv) (snd iv) b) (combine l (map (fun i => nth i g 0') l)) g = g).
    { induction l as [|i l IH]; intros _; [reflexivity|]. simpl. rewrite set_at_self. apply IH. auto. }
    apply H. auto.
  Qed.

  Lemma slice_add_zero idx (g : vec K) : slice_add idx (vzero (length idx)) g = g.
  Proof.
    unfold slice_add. rewrite vadd_zero_r by apply length_gather. apply scatter_gather_self.
  Qed.

  Lemma all_zero_vzero (g : vec K) : (forall k, nth k g 0' = 0') -> g = vzero (length g).
  Proof.
    induction g as [|x g IH]; intros Hz; [reflexivity|].
    change (vzero (length (x :: g)) : vec K) with (0' :: vzero (length g)).
    f_equal; [exact (Hz 0) | apply IH; intros k; exact (Hz (S k))].
  Qed.

  (* ------------------------------------------------------------------ reset *)
  Variable keep : nat -> bool.

  Definition zero_at (o : option (vec K)) (k : nat) : Prop :=
    match o with None => True | Some g => nth k g 0' = 0' end.
  Definition len_is (o : option (vec K)) (n : nat) : Prop :=
    match o with None => True | Some g => length g = n end.

  Lemma nth_scatter_zero idx : forall m (g : vec K) k,
    (nth k g 0' = 0' -> nth k (scatter_set idx (vzero m) g) 0' = 0') /\
    (In k idx -> length idx <= m -> nth k (scatter_set idx (vzero m) g) 0' = 0').
  Proof.
    induction idx as [|i idx IH]; intros m g k.
    - split; [auto | intros []].
    - destruct m as [|m].
      + split; [auto | intros _ Hl; simpl in Hl; lia].
      + change (scatter_set (i :: idx) (vzero (S m)) g) with (scatter_set idx (vzero m) (set_at i 0' g)).
        destruct (IH m (set_at i 0' g) k) as [A B].
        assert (Hset : i = k -> nth k (set_at i 0' g) 0' = 0').
        { intros ->. destruct (Nat.lt_ge_cases k (length g)) as [Hlt|Hge].
          - apply nth_set_at_eq. exact Hlt.
          - apply nth_overflow. rewrite length_set_at. exact Hge. }
        split.
        * intros Hz. apply A. destruct (Nat.eq_dec i k) as [E|E]; [apply Hset; exact E|].
          rewrite nth_set_at_neq by exact E. exact Hz.
        * intros [->|Hin] Hl; [apply A; apply Hset; reflexivity | apply B; [exact Hin | simpl in Hl; lia]].
  Qed.

  Lemma reset_ref_other (se : cenv K) r x : x <> ref_sig r -> reset_ref keep se r x = se x.
  Proof.
    intros Hn. destruct r as [s|s idx|s idx]; simpl in *; [| |reflexivity].
    - destruct (se s); [|reflexivity]. destruct (keep s); apply upd_other; exact Hn.
    - destruct (se s); [|reflexivity]. apply upd_other; exact Hn.
  Qed.

  Lemma reset_ref_zero_at (se : cenv K) r x k : zero_at (se x) k -> zero_at (reset_ref keep se r x) k.
  Proof.
    intros Hz. destruct (Nat.eq_dec x (ref_sig r)) as [->|Hn]; [|rewrite reset_ref_other by exact Hn; exact Hz].
    destruct r as [s|s idx|s idx]; simpl in *; [| |exact Hz].
    - destruct (se s) as [g|] eqn:E; [|rewrite E; exact I].
      destruct (keep s); rewrite upd_same; simpl; [apply nth_vzero | exact I].
    - destruct (se s) as [g|] eqn:E; [|rewrite E; exact I].
      rewrite upd_same. simpl. apply (proj1 (nth_scatter_zero idx (length idx) g k)). exact Hz.
  Qed.

  Lemma reset_ref_len (se : cenv K) r x n : len_is (se x) n -> len_is (reset_ref keep se r x) n.
  Proof.
    intros Hl. destruct (Nat.eq_dec x (ref_sig r)) as [->|Hn]; [|rewrite reset_ref_other by exact Hn; exact Hl].
    destruct r as [s|s idx|s idx]; simpl in *; [| |exact Hl].
    - destruct (se s) as [g|] eqn:E; [|rewrite E; exact I].
      destruct (keep s); rewrite upd_same; simpl; [rewrite length_vzero; exact Hl | exact I].
    - destruct (se s) as [g|] eqn:E; [|rewrite E; exact I].
      rewrite upd_same. simpl. rewrite length_scatter_set. exact Hl.
  Qed.

  (* a reference that clears position k of signal x *)
  Definition kills (r : ref) (x k : nat) : Prop :=
    match r with
    | RSig s => s = x
    | RSlice s idx => s = x /\ In k idx
    | RLost _ _ => False
    end.

  Lemma reset_ref_kills (se : cenv K) r x k : kills r x k -> zero_at (reset_ref keep se r x) k.
  Proof.
    destruct r as [s|s idx|s idx]; simpl; [intros -> | intros [-> Hin] | intros []].
    - destruct (se x) as [g|] eqn:E; [|rewrite E; exact I].
      destruct (keep x); rewrite upd_same; simpl; [apply nth_vzero | exact I].
    - destruct (se x) as [g|] eqn:E; [|rewrite E; exact I].
      rewrite upd_same. simpl. apply (proj2 (nth_scatter_zero idx (length idx) g k)); [exact Hin | lia].
  Qed.

  Lemma reset_refs_zero_at refs : forall (se : cenv K) x k,
    zero_at (se x) k \/ (exists r, In r refs /\ kills r x k) -> zero_at (reset_refs keep refs se x) k.
  Proof.
    induction refs as [|r refs IH]; intros se x k H.
    - destruct H as [H|[r [[] _]]]. exact H.
    - simpl. apply IH. destruct H as [H|[r0 [[->|Hin] Hk]]].
      + left. apply reset_ref_zero_at. exact H.
      + left. apply reset_ref_kills. exact Hk.
      + right. exists r0. split; assumption.
  Qed.

  Lemma reset_refs_len refs : forall (se : cenv K) x n, len_is (se x) n -> len_is (reset_refs keep refs se x) n.
  Proof.
    induction refs as [|r refs IH]; intros se x n H; [exact H|].
    simpl. apply IH. apply reset_ref_len. exact H.
  Qed.

  Lemma reset_refs_none refs : forall (se : cenv K) x, se x = None -> reset_refs keep refs se x = None.
  Proof.
    induction refs as [|r refs IH]; intros se x H; [exact H|].
    simpl. apply IH. destruct (Nat.eq_dec x (ref_sig r)) as [->|Hn]; [|rewrite reset_ref_other by exact Hn; exact H].
    destruct r as [s|s idx|s idx]; simpl in *; rewrite ?H; try reflexivity; exact H.
  Qed.

  Lemma zeroish_of_zero_at (o : option (vec K)) n : len_is o n -> (forall k, zero_at o k) -> zeroish n o.
  Proof.
    destruct o as [g|]; simpl; intros Hl Hz; [right | left; reflexivity].
    rewrite (all_zero_vzero g Hz), Hl. reflexivity.
  Qed.
End HistProofs.
