(* Proofs about Model/Hist.v : results depend on current inputs and seeds only, never on the call history (C03). *)
From Coq Require Import List Arith Bool Lia Ring ZArith.
From Pymoto Require Import Base.Num Model.Net Model.Hist Proofs.NetP.
Import ListNotations.

Section HistProofs.
  Context {K : Type} `{NK : Num K}.
  Hypothesis Kring : ring_theory nzero none_ nadd nmul nsub nopp (@eq K).
  Add Ring Kr2 : Kring.

  Notation "a +' b" := (nadd a b) (at level 50, left associativity).
  Notation "0'" := nzero.

  (* ------------------------------------------------------------------ vectors of zeros *)
  Lemma vadd_zero_r (g : vec K) n : length g = n -> vadd g (vzero n) = g.
  Proof.
    revert n. induction g as [|x g IH]; intros [|n] E; try discriminate; [reflexivity|].
    change (vzero (S n) : vec K) with (0' :: vzero n). rewrite vadd_cons, IH by (simpl in E; lia).
    f_equal. ring.
  Qed.
  Lemma vadd_zero_l (g : vec K) n : length g = n -> vadd (vzero n) g = g.
  Proof.
    revert n. induction g as [|x g IH]; intros [|n] E; try discriminate; [reflexivity|].
    change (vzero (S n) : vec K) with (0' :: vzero n). rewrite vadd_cons, IH by (simpl in E; lia).
    f_equal. ring.
  Qed.

  Lemma set_at_self i (g : vec K) : set_at i (nth i g 0') g = g.
  Proof. revert i. induction g as [|x g IH]; intros [|i]; simpl; auto. f_equal. apply IH. Qed.

  Lemma nth_set_at_eq i (a d : K) v : i < length v -> nth i (set_at i a v) d = a.
  Proof. revert i. induction v as [|x v IH]; intros [|i] Hi; simpl in *; try lia; auto. apply IH. lia. Qed.

  Lemma scatter_gather_self idx (g : vec K) : scatter_set idx (gather idx g) g = g.
  Proof.
    unfold scatter_set, gather.
    assert (H : forall l, (forall i, In i l -> True) ->
                fold_left (fun b iv => set_at (fst iv) (snd iv) b) (combine l (map (fun i => nth i g 0') l)) g = g).
    { induction l as [|i l IH]; intros _; [reflexivity|]. simpl. rewrite set_at_self. apply IH. auto. }
    apply H. auto.
  Qed.

  Lemma slice_add_zero idx (g : vec K) : slice_add idx (vzero (length idx)) g = g.
  Proof.
    unfold slice_add. rewrite vadd_zero_r by apply length_gather. apply scatter_gather_self.
  Qed.

  Lemma all_zero_vzero (g : vec K) : (forall k, nth k g 0' = 0') -> g = vzero (length g).
  Proof.
    induction g as [|x g IH]; intros Hz; [reflexivity|].
    change (vzero (length (x :: g)) : vec K) with (0' :: vzero (length g)).
    f_equal; [exact (Hz 0) | apply IH; intros k; exact (Hz (S k))].
  Qed.

  (* ------------------------------------------------------------------ reset *)
  Variable keep : nat -> bool.

  Definition zero_at (o : option (vec K)) (k : nat) : Prop :=
    match o with None => True | Some g => nth k g 0' = 0' end.
  Definition len_is (o : option (vec K)) (n : nat) : Prop :=
    match o with None => True | Some g => length g = n end.

  Lemma nth_scatter_zero idx : forall m (g : vec K) k,
    (nth k g 0' = 0' -> nth k (scatter_set idx (vzero m) g) 0' = 0') /\
    (In k idx -> length idx <= m -> nth k (scatter_set idx (vzero m) g) 0' = 0').
  Proof.
    induction idx as [|i idx IH]; intros m g k.
    - split; [auto | intros []].
    - destruct m as [|m].
      + split; [auto | intros _ Hl; simpl in Hl; lia].
      + change (scatter_set (i :: idx) (vzero (S m)) g) with (scatter_set idx (vzero m) (set_at i 0' g)).
        destruct (IH m (set_at i 0' g) k) as [A B].
        assert (Hset : i = k -> nth k (set_at i 0' g) 0' = 0').
        { intros ->. destruct (Nat.lt_ge_cases k (length g)) as [Hlt|Hge].
          - apply nth_set_at_eq. exact Hlt.
          - apply nth_overflow. rewrite length_set_at. exact Hge. }
        split.
        * intros Hz. apply A. destruct (Nat.eq_dec i k) as [E|E]; [apply Hset; exact E|].
          rewrite nth_set_at_neq by exact E. exact Hz.
        * intros [->|Hin] Hl; [apply A; apply Hset; reflexivity | apply B; [exact Hin | simpl in Hl; lia]].
  Qed.

  Lemma reset_ref_other (se : cenv K) r x : x <> ref_sig r -> reset_ref keep se r x = se x.
  Proof.
    intros Hn. destruct r as [s|s idx|s idx]; simpl in *; [| |reflexivity].
    - destruct (se s); [|reflexivity]. destruct (keep s); apply upd_other; exact Hn.
    - destruct (se s); [|reflexivity]. apply upd_other; exact Hn.
  Qed.

  Lemma reset_ref_zero_at (se : cenv K) r x k : zero_at (se x) k -> zero_at (reset_ref keep se r x) k.
  Proof.
    intros Hz. destruct (Nat.eq_dec x (ref_sig r)) as [->|Hn]; [|rewrite reset_ref_other by exact Hn; exact Hz].
    destruct r as [s|s idx|s idx]; simpl in *; [| |exact Hz].
    - destruct (se s) as [g|] eqn:E; [|rewrite E; exact I].
      destruct (keep s); rewrite upd_same; simpl; [apply nth_vzero | exact I].
    - destruct (se s) as [g|] eqn:E; [|rewrite E; exact I].
      rewrite upd_same. simpl. apply (proj1 (nth_scatter_zero idx (length idx) g k)). exact Hz.
  Qed.

  Lemma reset_ref_len (se : cenv K) r x n : len_is (se x) n -> len_is (reset_ref keep se r x) n.
  Proof.
    intros Hl. destruct (Nat.eq_dec x (ref_sig r)) as [->|Hn]; [|rewrite reset_ref_other by exact Hn; exact Hl].
    destruct r as [s|s idx|s idx]; simpl in *; [| |exact Hl].
    - destruct (se s) as [g|] eqn:E; [|rewrite E; exact I].
      destruct (keep s); rewrite upd_same; simpl; [rewrite length_vzero; exact Hl | exact I].
    - destruct (se s) as [g|] eqn:E; [|rewrite E; exact I].
      rewrite upd_same. simpl. rewrite length_scatter_set. exact Hl.
  Qed.

  (* a reference that clears position k of signal x *)
  Definition kills (r : ref) (x k : nat) : Prop :=
    match r with
    | RSig s => s = x
    | RSlice s idx => s = x /\ In k idx
    | RLost _ _ => False
    end.

  Lemma reset_ref_kills (se : cenv K) r x k : kills r x k -> zero_at (reset_ref keep se r x) k.
  Proof.
    destruct r as [s|s idx|s idx]; simpl; [intros -> | intros [-> Hin] | intros []].
    - destruct (se x) as [g|] eqn:E; [|rewrite E; exact I].
      destruct (keep x); rewrite upd_same; simpl; [apply nth_vzero | exact I].
    - destruct (se x) as [g|] eqn:E; [|rewrite E; exact I].
      rewrite upd_same. simpl. apply (proj2 (nth_scatter_zero idx (length idx) g k)); [exact Hin | lia].
  Qed.

  Lemma reset_refs_zero_at refs : forall (se : cenv K) x k,
    zero_at (se x) k \/ (exists r, In r refs /\ kills r x k) -> zero_at (reset_refs keep refs se x) k.
  Proof.
    induction refs as [|r refs IH]; intros se x k H.
    - destruct H as [H|[r [[] _]]]. exact H.
    - simpl. apply IH. destruct H as [H|[r0 [[->|Hin] Hk]]].
      + left. apply reset_ref_zero_at. exact H.
      + left. apply reset_ref_kills. exact Hk.
      + right. exists r0. split; assumption.
  Qed.

  Lemma reset_refs_len refs : forall (se : cenv K) x n, len_is (se x) n -> len_is (reset_refs keep refs se x) n.
  Proof.
    induction refs as [|r refs IH]; intros se x n H; [exact H|].
    simpl. apply IH. apply reset_ref_len. exact H.
  Qed.

  Lemma reset_refs_none refs : forall (se : cenv K) x, se x = None -> reset_refs keep refs se x = None.
  Proof.
    induction refs as [|r refs IH]; intros se x H; [exact H|].
    simpl. apply IH. destruct (Nat.eq_dec x (ref_sig r)) as [->|Hn]; [|rewrite reset_ref_other by exact Hn; exact H].
    destruct r as [s|s idx|s idx]; simpl in *; rewrite ?H; try reflexivity; exact H.
  Qed.

  Lemma zeroish_of_zero_at (o : option (vec K)) n : len_is o n -> (forall k, zero_at o k) -> zeroish n o.
  Proof.
    destruct o as [g|]; simpl; intros Hl Hz; [right | left; reflexivity].
    rewrite (all_zero_vzero g Hz), Hl. reflexivity.
  Qed.

  (* ------------------------------------------------------------------ congruence of the reverse sweep *)
  Definition mod_ext (m1 m2 : module K) : Prop :=
    m_ins m1 = m_ins m2 /\ m_outs m1 = m_outs m2 /\ forall ws, m_adj m1 ws = m_adj m2 ws.

  Lemma add_sens_congr d1 d2 (c1 c2 : cenv K) r d x :
    (forall s, d1 s = d2 s) -> c1 x = c2 x -> add_sens d1 c1 r d x = add_sens d2 c2 r d x.
  Proof.
    intros Hd E. destruct (Nat.eq_dec x (ref_sig r)) as [->|Hn].
    - destruct d as [d|]; [|exact E].
      destruct r as [s|s idx|s idx]; simpl in *.
      + rewrite E. destruct (c2 s); rewrite !upd_same; reflexivity.
      + rewrite E, (Hd s). rewrite !upd_same. reflexivity.
      + rewrite E, (Hd s). rewrite !upd_same. reflexivity.
    - rewrite !add_sens_other by exact Hn. exact E.
  Qed.

  Lemma add_all_congr d1 d2 rds : forall (c1 c2 : cenv K) x,
    (forall s, d1 s = d2 s) -> c1 x = c2 x -> add_all d1 rds c1 x = add_all d2 rds c2 x.
  Proof.
    induction rds as [|rd rds IH]; intros c1 c2 x Hd E; [exact E|].
    simpl. apply IH; [exact Hd|]. apply add_sens_congr; assumption.
  Qed.

  Lemma fill_congr d1 d2 outs (ws : list (option (vec K))) :
    (forall s, d1 s = d2 s) -> fill d1 outs ws = fill d2 outs ws.
  Proof. intros Hd. unfold fill. apply map_ext. intros [o [g|]]; simpl; [reflexivity | rewrite (Hd o); reflexivity]. Qed.

  Lemma bwd_mod_congr d1 d2 m1 m2 (c1 c2 : cenv K) :
    (forall s, d1 s = d2 s) -> mod_ext m1 m2 -> (forall s, c1 s = c2 s) ->
    forall x, bwd_mod d1 m1 c1 x = bwd_mod d2 m2 c2 x.
  Proof.
    intros Hd [Ei [Eo Ea]] Ec x. unfold bwd_mod, skip, apply_adj.
    rewrite Ei, Eo, (map_ext c1 c2 Ec), (fill_congr d1 d2 _ _ Hd), Ea.
    destruct (negb (is_nil (m_outs m2)) && forallb is_none (map c2 (m_outs m2))); [apply Ec|].
    apply add_all_congr; [exact Hd | apply Ec].
  Qed.

  Lemma bwd_congr d1 d2 ms1 ms2 : (forall s, d1 s = d2 s) -> Forall2 mod_ext ms1 ms2 ->
    forall (c1 c2 : cenv K), (forall s, c1 s = c2 s) -> forall x, bwd d1 ms1 c1 x = bwd d2 ms2 c2 x.
  Proof.
    intros Hd HF. induction HF as [|m1 m2 ms1 ms2 Hm _ IH]; intros c1 c2 Ec x; [apply Ec|].
    rewrite !bwd_cons. apply bwd_mod_congr; auto.
  Qed.

  (* ------------------------------------------------------------------ None = zero array *)
  Variable dims : nat -> nat.

  Definition rel (o1 o2 : option (vec K)) (n : nat) : Prop := o1 = o2 \/ (zeroish n o1 /\ zeroish n o2).

  Lemma rel_sym o1 o2 n : rel o1 o2 n -> rel o2 o1 n.
  Proof. intros [E|[A B]]; [left; symmetry; exact E | right; split; assumption]. Qed.

  Lemma ceq_rel (c1 c2 : cenv K) : ceq dims c1 c2 <-> forall s, rel (c1 s) (c2 s) (dims s).
  Proof. unfold ceq, rel. tauto. Qed.

  (* the adjoint is shape-correct and sends zero seeds to zero (or None) results: linearity in the seed, C04 *)
  Definition adj_shaped (m : module K) : Prop :=
    forallb (wt_ref dims) (m_ins m) = true /\
    forall ws, shapes ws (map dims (m_outs m)) -> oshapes (m_adj m ws) (map (ref_dim dims) (m_ins m)).
  Definition zero_preserving (m : module K) : Prop :=
    Forall2 (fun d n => zeroish n d) (m_adj m (map (fun o => vzero (dims o)) (m_outs m)))
            (map (ref_dim dims) (m_ins m)).

  Lemma zeroish_dshape (d : option (vec K)) n : zeroish n d -> dshape d n.
  Proof. intros [-> | ->] g; [discriminate | intros [= <-]; apply length_vzero]. Qed.

  (* adding the same contribution on both sides *)
  Lemma add_sens_rel_same (c1 c2 : cenv K) r d x :
    wt_ref dims r = true -> dshape d (ref_dim dims r) ->
    rel (c1 x) (c2 x) (dims x) -> rel (add_sens dims c1 r d x) (add_sens dims c2 r d x) (dims x).
  Proof.
    intros Hr Hd H. destruct (Nat.eq_dec x (ref_sig r)) as [->|Hn]; [|rewrite !add_sens_other by exact Hn; exact H].
    destruct H as [E|[Z1 Z2]]; [left; apply add_sens_pointwise; exact E|].
    destruct d as [d|]; [|right; split; assumption].
    specialize (Hd d eq_refl). left.
    destruct r as [s|s idx|s idx]; simpl in *; [| |discriminate].
    - destruct Z1 as [-> | ->], Z2 as [-> | ->]; rewrite !upd_same; rewrite ?vadd_zero_l by exact Hd; reflexivity.
    - destruct Z1 as [-> | ->], Z2 as [-> | ->]; rewrite !upd_same; reflexivity.
  Qed.

  (* adding a zero contribution on one side only *)
  Lemma add_sens_rel_zero (c1 c2 : cenv K) r d x :
    wt_cot dims c1 -> wt_ref dims r = true -> zeroish (ref_dim dims r) d ->
    rel (c1 x) (c2 x) (dims x) -> rel (add_sens dims c1 r d x) (c2 x) (dims x).
  Proof.
    intros Hc Hr Hd H. destruct (Nat.eq_dec x (ref_sig r)) as [->|Hn]; [|rewrite add_sens_other by exact Hn; exact H].
    destruct Hd as [-> | ->]; [exact H|].
    destruct r as [s|s idx|s idx]; simpl in *; [| |discriminate].
    - destruct (c1 s) as [g|] eqn:E; rewrite upd_same.
      + rewrite vadd_zero_r by (apply (Hc s g E)). exact H.
      + destruct H as [E2|[_ Z2]].
        * right. split; [right; reflexivity | rewrite <- E2; left; reflexivity].
        * right. split; [right; reflexivity | exact Z2].
    - rewrite upd_same. rewrite slice_add_zero.
      destruct (c1 s) as [g|] eqn:E; [exact H|].
      destruct H as [E2|[_ Z2]].
      + right. split; [right; reflexivity | rewrite <- E2; left; reflexivity].
      + right. split; [right; reflexivity | exact Z2].
  Qed.

  Lemma add_all_rel_same : forall ins ds (c1 c2 : cenv K),
    oshapes ds (map (ref_dim dims) ins) -> forallb (wt_ref dims) ins = true ->
    (forall x, rel (c1 x) (c2 x) (dims x)) ->
    forall x, rel (add_all dims (combine ins ds) c1 x) (add_all dims (combine ins ds) c2 x) (dims x).
  Proof.
    induction ins as [|r ins IH]; intros ds c1 c2 Hs Hw H x; [apply H|].
    inversion Hs as [|d n ds' ns Hd Hs']; subst.
    simpl in Hw. apply andb_true_iff in Hw as [Hr Hw].
    change (add_all dims (combine (r :: ins) (d :: ds')) c1) with (add_all dims (combine ins ds') (add_sens dims c1 r d)).
    change (add_all dims (combine (r :: ins) (d :: ds')) c2) with (add_all dims (combine ins ds') (add_sens dims c2 r d)).
    apply IH; auto. intros y. apply add_sens_rel_same; auto.
  Qed.

  Lemma add_all_rel_zero : forall ins ds (c1 c2 : cenv K),
    Forall2 (fun d n => zeroish n d) ds (map (ref_dim dims) ins) -> forallb (wt_ref dims) ins = true ->
    wt_cot dims c1 -> (forall x, rel (c1 x) (c2 x) (dims x)) ->
    forall x, rel (add_all dims (combine ins ds) c1 x) (c2 x) (dims x).
  Proof.
    induction ins as [|r ins IH]; intros ds c1 c2 Hs Hw Hc H x; [apply H|].
    inversion Hs as [|d n ds' ns Hd Hs']; subst.
    simpl in Hw. apply andb_true_iff in Hw as [Hr Hw].
    change (add_all dims (combine (r :: ins) (d :: ds')) c1) with (add_all dims (combine ins ds') (add_sens dims c1 r d)).
    apply IH; auto.
    - apply add_sens_wt; auto. apply zeroish_dshape. exact Hd.
    - intros y. apply add_sens_rel_zero; auto.
  Qed.

  Lemma fill_rel outs : forall (c1 c2 : cenv K), (forall o, rel (c1 o) (c2 o) (dims o)) ->
    fill dims outs (map c1 outs) = fill dims outs (map c2 outs).
  Proof.
    intros c1 c2 H. unfold fill. induction outs as [|o outs IH]; [reflexivity|].
    simpl. rewrite IH. f_equal.
    destruct (H o) as [->|[[-> | ->] [-> | ->]]]; reflexivity.
  Qed.

  Lemma fill_all_zeroish outs : forall (c : cenv K), (forall o, In o outs -> zeroish (dims o) (c o)) ->
    fill dims outs (map c outs) = map (fun o => vzero (dims o)) outs.
  Proof.
    intros c H. unfold fill. induction outs as [|o outs IH]; [reflexivity|].
    simpl. rewrite IH by (intros; apply H; right; assumption). f_equal.
    destruct (H o (or_introl eq_refl)) as [-> | ->]; reflexivity.
  Qed.

  Lemma all_none_zeroish outs (c1 c2 : cenv K) :
    forallb is_none (map c1 outs) = true -> (forall o, rel (c1 o) (c2 o) (dims o)) ->
    forall o, In o outs -> zeroish (dims o) (c2 o).
  Proof.
    intros Hb H o Ho. rewrite forallb_forall in Hb.
    assert (E : c1 o = None).
    { specialize (Hb (c1 o) (in_map c1 outs o Ho)). destruct (c1 o); [discriminate | reflexivity]. }
    destruct (H o) as [E2|[_ Z]]; [rewrite <- E2, E; left; reflexivity | exact Z].
  Qed.

  Lemma apply_adj_wt m ws (c : cenv K) : adj_shaped m -> shapes (fill dims (m_outs m) ws) (map dims (m_outs m)) ->
    wt_cot dims c -> wt_cot dims (apply_adj dims m ws c).
  Proof.
    intros [Hw Ha] Hs Hc. unfold apply_adj. apply (add_all_wt dims); auto.
  Qed.

  Lemma bwd_mod_wt m (c : cenv K) : adj_shaped m -> wt_cot dims c -> wt_cot dims (bwd_mod dims m c).
  Proof.
    intros Hm Hc. unfold bwd_mod. destruct (skip m _); [exact Hc|].
    apply apply_adj_wt; auto. apply fill_shapes. exact Hc.
  Qed.

  Lemma bwd_mod_rel m (c1 c2 : cenv K) :
    adj_shaped m -> zero_preserving m -> wt_cot dims c1 -> wt_cot dims c2 ->
    (forall x, rel (c1 x) (c2 x) (dims x)) ->
    forall x, rel (bwd_mod dims m c1 x) (bwd_mod dims m c2 x) (dims x).
  Proof.
    intros Hm Hz W1 W2 H x. pose proof Hm as [Hw Ha]. unfold bwd_mod, skip.
    destruct (negb (is_nil (m_outs m)) && forallb is_none (map c1 (m_outs m))) eqn:S1;
      destruct (negb (is_nil (m_outs m)) && forallb is_none (map c2 (m_outs m))) eqn:S2.
    - apply H.
    - apply andb_true_iff in S1 as [_ S1]. apply rel_sym. unfold apply_adj.
      rewrite (fill_all_zeroish _ c2 (all_none_zeroish _ c1 c2 S1 H)).
      apply add_all_rel_zero; auto. intros y. apply rel_sym. apply H.
    - apply andb_true_iff in S2 as [_ S2]. unfold apply_adj.
      rewrite (fill_all_zeroish _ c1 (all_none_zeroish _ c2 c1 S2 (fun o => rel_sym _ _ _ (H o)))).
      apply add_all_rel_zero; auto.
    - unfold apply_adj. rewrite (fill_rel _ c1 c2 H).
      apply add_all_rel_same; auto. apply Ha. apply fill_shapes. exact W2.
  Qed.

  Lemma bwd_rel ms : Forall adj_shaped ms -> Forall zero_preserving ms ->
    forall (c1 c2 : cenv K), wt_cot dims c1 -> wt_cot dims c2 -> (forall x, rel (c1 x) (c2 x) (dims x)) ->
    (forall x, rel (bwd dims ms c1 x) (bwd dims ms c2 x) (dims x)) /\
    wt_cot dims (bwd dims ms c1) /\ wt_cot dims (bwd dims ms c2).
  Proof.
    intros Hs Hz. induction ms as [|m ms IH]; intros c1 c2 W1 W2 H; [auto|].
    inversion Hs as [|? ? Hs1 Hs2]; inversion Hz as [|? ? Hz1 Hz2]; subst.
    destruct (IH Hs2 Hz2 c1 c2 W1 W2 H) as [R [V1 V2]].
    rewrite !bwd_cons. split; [|split]; try (apply bwd_mod_wt; assumption).
    apply bwd_mod_rel; assumption.
  Qed.

  (* ------------------------------------------------------------------ networks of modules with memory *)
  Variable M : Type.

  (* shape-correct, and the adjoint sends zero seeds to zero (or None) results: for every memory and point *)
  Definition h_shaped (h : hmod M) : Prop :=
    forallb (wt_ref dims) (h_ins h) = true /\
    (forall mu xs, map (@length K) (snd (h_resp h mu xs)) = map dims (h_outs h)) /\
    (forall mu xs ys ws, shapes ws (map dims (h_outs h)) ->
                         oshapes (h_sens h mu xs ys ws) (map (ref_dim dims) (h_ins h))) /\
    (forall mu xs ys, Forall2 (fun d n => zeroish n d)
                              (h_sens h mu xs ys (map (fun o => vzero (dims o)) (h_outs h)))
                              (map (ref_dim dims) (h_ins h))).

  Definition h_memless (h : hmod M) : Prop := exists f g, memoryless M h f g.

  Lemma at_point_shaped st h mu : h_shaped h -> adj_shaped (at_point M st h mu) /\ zero_preserving (at_point M st h mu).
  Proof.
    intros [H1 [H2 [H3 H4]]]. split.
    - split; [exact H1|]. intros ws Hws. simpl. apply H3. exact Hws.
    - unfold zero_preserving. simpl. apply H4.
  Qed.

  Lemma at_points_shaped st mods : Forall h_shaped mods -> forall mems,
    Forall adj_shaped (at_points M st mods mems) /\ Forall zero_preserving (at_points M st mods mems).
  Proof.
    induction 1 as [|h mods Hh _ IH]; intros mems; [split; constructor|].
    destruct mems as [|mu mems]; [split; constructor|].
    simpl. destruct (IH mems) as [A B]. destruct (at_point_shaped st h mu Hh) as [C D].
    split; constructor; assumption.
  Qed.

  (* ---- wiring *)
  Lemma written_shell mods : written (map (shell M) mods) = h_written M mods.
  Proof. unfold written, h_written. induction mods as [|h mods IH]; [reflexivity|]. simpl. rewrite IH. reflexivity. Qed.

  Lemma hwf_cons h mods : hwf M (h :: mods) = true ->
    NoDup (h_outs h) /\ (forall x, In x (h_outs h) -> ~ In x (h_written M mods)) /\
    (forall r, In r (h_ins h) -> ~ In (ref_sig r) (h_outs h) /\ ~ In (ref_sig r) (h_written M mods)) /\
    hwf M mods = true.
  Proof.
    unfold hwf. simpl. intros H. apply (wf_net_cons dims) in H as [H1 [H2 [H3 H4]]].
    rewrite written_shell in *. simpl in *. repeat split; auto.
    - apply (H3 (ref_sig r)). unfold ins_sigs. simpl. apply in_map. assumption.
    - apply (H3 (ref_sig r)). unfold ins_sigs. simpl. apply in_map. assumption.
  Qed.

  (* ---- the states after a response depend on the inputs of the network only *)
  Definition resp_pure (h : hmod M) : Prop := forall mu mu' xs, snd (h_resp h mu xs) = snd (h_resp h mu' xs).

  Lemma shaped_arity h : h_shaped h -> forall mu xs, length (snd (h_resp h mu xs)) = length (h_outs h).
  Proof.
    intros [_ [H2 _]] mu xs. rewrite <- (map_length (@length K)), H2. apply map_length.
  Qed.

  Lemma resp_states_inputs_only mods : hwf M mods = true -> Forall resp_pure mods -> Forall h_shaped mods ->
    forall mems1 mems2 (st1 st2 : tenv K), length mems1 = length mods -> length mems2 = length mods ->
    (forall x, ~ In x (h_written M mods) -> st1 x = st2 x) ->
    forall x, snd (resp_all M mods mems1 st1) x = snd (resp_all M mods mems2 st2) x.
  Proof.
    induction mods as [|h mods IH]; intros Hwf Hp Hs mems1 mems2 st1 st2 L1 L2 Hag x.
    - destruct mems1, mems2; simpl; apply Hag; intros [].
    - destruct mems1 as [|m1 mems1]; [discriminate|]. destruct mems2 as [|m2 mems2]; [discriminate|].
      apply hwf_cons in Hwf as [Hnd [Hdis [Hins Hwf]]].
      inversion Hp as [|? ? Hp1 Hp2]; inversion Hs as [|? ? Hs1 Hs2]; subst.
      simpl. apply IH; auto.
      intros y Hy.
      assert (Hxs : map (read_t st1) (h_ins h) = map (read_t st2) (h_ins h)).
      { apply map_ext_in. intros r Hr. apply read_t_agree. apply Hag.
        change (h_written M (h :: mods)) with (h_outs h ++ h_written M mods). rewrite in_app_iff.
        destruct (Hins r Hr). tauto. }
      rewrite Hxs, (Hp1 m1 m2). apply write_outs_agree.
      rewrite (shaped_arity h Hs1), firstn_all.
      destruct (in_dec Nat.eq_dec y (h_outs h)) as [Hi|Hi]; [right; exact Hi|].
      left. apply Hag. change (h_written M (h :: mods)) with (h_outs h ++ h_written M mods). rewrite in_app_iff. tauto.
  Qed.

  Lemma write_outs_len outs : forall ys (st : tenv K), map (@length K) ys = map dims outs ->
    forall s, (In s outs -> length (write_outs outs ys st s) = dims s) /\
              (~ In s outs -> write_outs outs ys st s = st s).
  Proof.
    induction outs as [|o outs IH]; intros ys st Hs s.
    - split; [intros [] | reflexivity].
    - destruct ys as [|y ys]; [discriminate|]. simpl in Hs. injection Hs as E1 E2. simpl.
      destruct (IH ys (upd st o y) E2 s) as [A B]. split.
      + intros [->|Hin].
        * destruct (in_dec Nat.eq_dec s outs) as [Hi|Hi]; [apply A; exact Hi|].
          rewrite B by exact Hi. rewrite upd_same. exact E1.
        * apply A. exact Hin.
      + intros Hn. rewrite B by tauto. apply upd_other. intros ->. apply Hn. left. reflexivity.
  Qed.

  Lemma resp_all_len mods : Forall h_shaped mods -> forall mems (st : tenv K), length mems = length mods ->
    length (fst (resp_all M mods mems st)) = length mods /\
    forall s, (In s (h_written M mods) -> length (snd (resp_all M mods mems st) s) = dims s) /\
              (~ In s (h_written M mods) -> snd (resp_all M mods mems st) s = st s).
  Proof.
    induction 1 as [|h mods Hh _ IH]; intros mems st L.
    - destruct mems; [|discriminate]. simpl. split; [reflexivity|]. intros s. split; [intros [] | reflexivity].
    - destruct mems as [|mu mems]; [discriminate|]. simpl.
      set (r := h_resp h mu (map (read_t st) (h_ins h))).
      destruct (IH mems (write_outs (h_outs h) (snd r) st)) as [A B]; [simpl in L; lia|].
      split; [simpl; rewrite A; reflexivity|].
      intros s. destruct (B s) as [B1 B2].
      destruct Hh as [_ [H2 _]].
      destruct (write_outs_len (h_outs h) (snd r) st (H2 mu _) s) as [C1 C2].
      change (h_written M (h :: mods)) with (h_outs h ++ h_written M mods). rewrite in_app_iff. split.
      + intros Hin. destruct (in_dec Nat.eq_dec s (h_written M mods)) as [Hi|Hi]; [apply B1; exact Hi|].
        rewrite B2 by exact Hi. apply C1. tauto.
      + intros Hn. rewrite B2 by tauto. apply C2. tauto.
  Qed.
End HistProofs.
