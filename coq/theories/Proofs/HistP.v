(* Proofs about Model/Hist.v : results depend on current inputs and seeds only, never on the call history (C03). *)
From Coq Require Import List Arith Bool Lia Ring ZArith.
From Pymoto Require Import Base.Num Base.Cmp Model.Net Model.Hist Proofs.NetP.
Import ListNotations.

Section HistProofs.
  Context {K : Type} `{NK : Num K}.
  Hypothesis Kring : ring_theory nzero none_ nadd nmul nsub nopp (@eq K).
  Add Ring Kr2 : Kring.

  Notation "a +' b" := (nadd a b) (at level 50, left associativity).
  Notation "0'" := nzero.

  (* ------------------------------------------------------------------ vectors of zeros *)
  Lemma vadd_zero_r (g : vec K) n : length g = n -> vadd g (vzero n) = g.
  Proof.
    revert n. induction g as [|x g IH]; intros [|n] E; try discriminate; [reflexivity|].
    change (vzero (S n) : vec K) with (0' :: vzero n). rewrite vadd_cons, IH by (simpl in E; lia).
    f_equal. ring.
  Qed.
  Lemma vadd_zero_l (g : vec K) n : length g = n -> vadd (vzero n) g = g.
  Proof.
    revert n. induction g as [|x g IH]; intros [|n] E; try discriminate; [reflexivity|].
    change (vzero (S n) : vec K) with (0' :: vzero n). rewrite vadd_cons, IH by (simpl in E; lia).
    f_equal. ring.
  Qed.

  Lemma set_at_self i (g : vec K) : set_at i (nth i g 0') g = g.
  Proof. revert i. induction g as [|x g IH]; intros [|i]; simpl; auto. f_equal. apply IH. Qed.

  Lemma nth_set_at_eq i (a d : K) v : i < length v -> nth i (set_at i a v) d = a.
  Proof. revert i. induction v as [|x v IH]; intros [|i] Hi; simpl in *; try lia; auto. apply IH. lia. Qed.

  Lemma scatter_gather_self idx (g : vec K) : scatter_set idx (gather idx g) g = g.
  Proof.
    unfold scatter_set, gather.
    assert (H : forall l, (forall i, In i l -> True) ->
                fold_left (fun b iv => set_at (fst iv) (snd iv) b) (combine l (map (fun i => nth i g 0') l)) g = g).
    { induction l as [|i l IH]; intros _; [reflexivity|]. simpl. rewrite set_at_self. apply IH. auto. }
    apply H. auto.
  Qed.

  Lemma slice_add_zero idx (g : vec K) : slice_add idx (vzero (length idx)) g = g.
  Proof.
    unfold slice_add. rewrite vadd_zero_r by apply length_gather. apply scatter_gather_self.
  Qed.

  Lemma all_zero_vzero (g : vec K) : (forall k, nth k g 0' = 0') -> g = vzero (length g).
  Proof.
    induction g as [|x g IH]; intros Hz; [reflexivity|].
    change (vzero (length (x :: g)) : vec K) with (0' :: vzero (length g)).
    f_equal; [exact (Hz 0) | apply IH; intros k; exact (Hz (S k))].
  Qed.

  (* ------------------------------------------------------------------ reset *)
  Variable keep : nat -> bool.

  Definition zero_at (o : option (vec K)) (k : nat) : Prop :=
    match o with None => True | Some g => nth k g 0' = 0' end.
  Definition len_is (o : option (vec K)) (n : nat) : Prop :=
    match o with None => True | Some g => length g = n end.

  Lemma nth_scatter_zero idx : forall m (g : vec K) k,
    (nth k g 0' = 0' -> nth k (scatter_set idx (vzero m) g) 0' = 0') /\
    (In k idx -> length idx <= m -> nth k (scatter_set idx (vzero m) g) 0' = 0').
  Proof.
    induction idx as [|i idx IH]; intros m g k.
    - split; [auto | intros []].
    - destruct m as [|m].
      + split; [auto | intros _ Hl; simpl in Hl; lia].
      + change (scatter_set (i :: idx) (vzero (S m)) g) with (scatter_set idx (vzero m) (set_at i 0' g)).
        destruct (IH m (set_at i 0' g) k) as [A B].
        assert (Hset : i = k -> nth k (set_at i 0' g) 0' = 0').
        { intros ->. destruct (Nat.lt_ge_cases k (length g)) as [Hlt|Hge].
          - apply nth_set_at_eq. exact Hlt.
          - apply nth_overflow. rewrite length_set_at. exact Hge. }
        split.
        * intros Hz. apply A. destruct (Nat.eq_dec i k) as [E|E]; [apply Hset; exact E|].
          rewrite nth_set_at_neq by exact E. exact Hz.
        * intros [->|Hin] Hl; [apply A; apply Hset; reflexivity | apply B; [exact Hin | simpl in Hl; lia]].
  Qed.

  Lemma reset_ref_other (se : cenv K) r x : x <> ref_sig r -> reset_ref keep se r x = se x.
  Proof.
    intros Hn. destruct r as [s|s idx|s idx]; simpl in *; [| |reflexivity].
    - destruct (se s); [|reflexivity]. destruct (keep s); apply upd_other; exact Hn.
    - destruct (se s); [|reflexivity]. apply upd_other; exact Hn.
  Qed.

  Lemma reset_ref_zero_at (se : cenv K) r x k : zero_at (se x) k -> zero_at (reset_ref keep se r x) k.
  Proof.
    intros Hz. destruct (Nat.eq_dec x (ref_sig r)) as [->|Hn]; [|rewrite reset_ref_other by exact Hn; exact Hz].
    destruct r as [s|s idx|s idx]; simpl in *; [| |exact Hz].
    - destruct (se s) as [g|] eqn:E; [|rewrite E; exact I].
      destruct (keep s); rewrite upd_same; simpl; [apply nth_vzero | exact I].
    - destruct (se s) as [g|] eqn:E; [|rewrite E; exact I].
      rewrite upd_same. simpl. apply (proj1 (nth_scatter_zero idx (length idx) g k)). exact Hz.
  Qed.

  Lemma reset_ref_len (se : cenv K) r x n : len_is (se x) n -> len_is (reset_ref keep se r x) n.
  Proof.
    intros Hl. destruct (Nat.eq_dec x (ref_sig r)) as [->|Hn]; [|rewrite reset_ref_other by exact Hn; exact Hl].
    destruct r as [s|s idx|s idx]; simpl in *; [| |exact Hl].
    - destruct (se s) as [g|] eqn:E; [|rewrite E; exact I].
      destruct (keep s); rewrite upd_same; simpl; [rewrite length_vzero; exact Hl | exact I].
    - destruct (se s) as [g|] eqn:E; [|rewrite E; exact I].
      rewrite upd_same. simpl. rewrite length_scatter_set. exact Hl.
  Qed.

  (* a reference that clears position k of signal x *)
  Definition kills (r : ref) (x k : nat) : Prop :=
    match r with
    | RSig s => s = x
    | RSlice s idx => s = x /\ In k idx
    | RLost _ _ => False
    end.

  Lemma reset_ref_kills (se : cenv K) r x k : kills r x k -> zero_at (reset_ref keep se r x) k.
  Proof.
    destruct r as [s|s idx|s idx]; simpl; [intros -> | intros [-> Hin] | intros []].
    - destruct (se x) as [g|] eqn:E; [|rewrite E; exact I].
      destruct (keep x); rewrite upd_same; simpl; [apply nth_vzero | exact I].
    - destruct (se x) as [g|] eqn:E; [|rewrite E; exact I].
      rewrite upd_same. simpl. apply (proj2 (nth_scatter_zero idx (length idx) g k)); [exact Hin | lia].
  Qed.

  Lemma reset_refs_zero_at refs : forall (se : cenv K) x k,
    zero_at (se x) k \/ (exists r, In r refs /\ kills r x k) -> zero_at (reset_refs keep refs se x) k.
  Proof.
    induction refs as [|r refs IH]; intros se x k H.
    - destruct H as [H|[r [[] _]]]. exact H.
    - simpl. apply IH. destruct H as [H|[r0 [[->|Hin] Hk]]].
      + left. apply reset_ref_zero_at. exact H.
      + left. apply reset_ref_kills. exact Hk.
      + right. exists r0. split; assumption.
  Qed.

  Lemma reset_refs_len refs : forall (se : cenv K) x n, len_is (se x) n -> len_is (reset_refs keep refs se x) n.
  Proof.
    induction refs as [|r refs IH]; intros se x n H; [exact H|].
    simpl. apply IH. apply reset_ref_len. exact H.
  Qed.

  Lemma reset_refs_none refs : forall (se : cenv K) x, se x = None -> reset_refs keep refs se x = None.
  Proof.
    induction refs as [|r refs IH]; intros se x H; [exact H|].
    simpl. apply IH. destruct (Nat.eq_dec x (ref_sig r)) as [->|Hn]; [|rewrite reset_ref_other by exact Hn; exact H].
    destruct r as [s|s idx|s idx]; simpl in *; rewrite ?H; try reflexivity; exact H.
  Qed.

  Lemma zeroish_of_zero_at (o : option (vec K)) n : len_is o n -> (forall k, zero_at o k) -> zeroish n o.
  Proof.
    destruct o as [g|]; simpl; intros Hl Hz; [right | left; reflexivity].
    rewrite (all_zero_vzero g Hz), Hl. reflexivity.
  Qed.

  (* ------------------------------------------------------------------ congruence of the reverse sweep *)
  Definition mod_ext (m1 m2 : module K) : Prop :=
    m_ins m1 = m_ins m2 /\ m_outs m1 = m_outs m2 /\ forall ws, m_adj m1 ws = m_adj m2 ws.

  Lemma add_sens_congr d1 d2 (c1 c2 : cenv K) r d x :
    (forall s, d1 s = d2 s) -> c1 x = c2 x -> add_sens d1 c1 r d x = add_sens d2 c2 r d x.
  Proof.
    intros Hd E. destruct (Nat.eq_dec x (ref_sig r)) as [->|Hn].
    - destruct d as [d|]; [|exact E].
      destruct r as [s|s idx|s idx]; simpl in *.
      + rewrite E. destruct (c2 s); rewrite !upd_same; reflexivity.
      + rewrite E, (Hd s). rewrite !upd_same. reflexivity.
      + rewrite E, (Hd s). rewrite !upd_same. reflexivity.
    - rewrite !add_sens_other by exact Hn. exact E.
  Qed.

  Lemma add_all_congr d1 d2 rds : forall (c1 c2 : cenv K) x,
    (forall s, d1 s = d2 s) -> c1 x = c2 x -> add_all d1 rds c1 x = add_all d2 rds c2 x.
  Proof.
    induction rds as [|rd rds IH]; intros c1 c2 x Hd E; [exact E|].
    simpl. apply IH; [exact Hd|]. apply add_sens_congr; assumption.
  Qed.

  Lemma fill_congr d1 d2 outs (ws : list (option (vec K))) :
    (forall s, d1 s = d2 s) -> fill d1 outs ws = fill d2 outs ws.
  Proof. intros Hd. unfold fill. apply map_ext. intros [o [g|]]; simpl; [reflexivity | rewrite (Hd o); reflexivity]. Qed.

  Lemma bwd_mod_congr d1 d2 m1 m2 (c1 c2 : cenv K) :
    (forall s, d1 s = d2 s) -> mod_ext m1 m2 -> (forall s, c1 s = c2 s) ->
    forall x, bwd_mod d1 m1 c1 x = bwd_mod d2 m2 c2 x.
  Proof.
    intros Hd [Ei [Eo Ea]] Ec x. unfold bwd_mod, skip, apply_adj.
    rewrite Ei, Eo, (map_ext c1 c2 Ec), (fill_congr d1 d2 _ _ Hd), Ea.
    destruct (negb (is_nil (m_outs m2)) && forallb is_none (map c2 (m_outs m2))); [apply Ec|].
    apply add_all_congr; [exact Hd | apply Ec].
  Qed.

  Lemma bwd_congr d1 d2 ms1 ms2 : (forall s, d1 s = d2 s) -> Forall2 mod_ext ms1 ms2 ->
    forall (c1 c2 : cenv K), (forall s, c1 s = c2 s) -> forall x, bwd d1 ms1 c1 x = bwd d2 ms2 c2 x.
  Proof.
    intros Hd HF. induction HF as [|m1 m2 ms1 ms2 Hm _ IH]; intros c1 c2 Ec x; [apply Ec|].
    rewrite !bwd_cons. apply bwd_mod_congr; auto.
  Qed.

  (* ------------------------------------------------------------------ None = zero array *)
  Variable dims : nat -> nat.

  Definition rel (o1 o2 : option (vec K)) (n : nat) : Prop := o1 = o2 \/ (zeroish n o1 /\ zeroish n o2).

  Lemma rel_sym o1 o2 n : rel o1 o2 n -> rel o2 o1 n.
  Proof. intros [E|[A B]]; [left; symmetry; exact E | right; split; assumption]. Qed.

  Lemma ceq_rel (c1 c2 : cenv K) : ceq dims c1 c2 <-> forall s, rel (c1 s) (c2 s) (dims s).
  Proof. unfold ceq, rel. tauto. Qed.

  (* the adjoint is shape-correct and sends zero seeds to zero (or None) results: linearity in the seed, C04 *)
  Definition adj_shaped (m : module K) : Prop :=
    forallb (wt_ref dims) (m_ins m) = true /\
    forall ws, shapes ws (map dims (m_outs m)) -> oshapes (m_adj m ws) (map (ref_dim dims) (m_ins m)).
  Definition zero_preserving (m : module K) : Prop :=
    Forall2 (fun d n => zeroish n d) (m_adj m (map (fun o => vzero (dims o)) (m_outs m)))
            (map (ref_dim dims) (m_ins m)).

  Lemma zeroish_dshape (d : option (vec K)) n : zeroish n d -> dshape d n.
  Proof. intros [-> | ->] g; [discriminate | intros [= <-]; apply length_vzero]. Qed.

  (* adding the same contribution on both sides *)
  Lemma add_sens_rel_same (c1 c2 : cenv K) r d x :
    wt_ref dims r = true -> dshape d (ref_dim dims r) ->
    rel (c1 x) (c2 x) (dims x) -> rel (add_sens dims c1 r d x) (add_sens dims c2 r d x) (dims x).
  Proof.
    intros Hr Hd H. destruct (Nat.eq_dec x (ref_sig r)) as [->|Hn]; [|rewrite !add_sens_other by exact Hn; exact H].
    destruct H as [E|[Z1 Z2]]; [left; apply add_sens_pointwise; exact E|].
    destruct d as [d|]; [|right; split; assumption].
    specialize (Hd d eq_refl). left.
    destruct r as [s|s idx|s idx]; simpl in *; [| |discriminate].
    - destruct Z1 as [-> | ->], Z2 as [-> | ->]; rewrite !upd_same; rewrite ?vadd_zero_l by exact Hd; reflexivity.
    - destruct Z1 as [-> | ->], Z2 as [-> | ->]; rewrite !upd_same; reflexivity.
  Qed.

  (* adding a zero contribution on one side only *)
  Lemma add_sens_rel_zero (c1 c2 : cenv K) r d x :
    wt_cot dims c1 -> wt_ref dims r = true -> zeroish (ref_dim dims r) d ->
    rel (c1 x) (c2 x) (dims x) -> rel (add_sens dims c1 r d x) (c2 x) (dims x).
  Proof.
    intros Hc Hr Hd H. destruct (Nat.eq_dec x (ref_sig r)) as [->|Hn]; [|rewrite add_sens_other by exact Hn; exact H].
    destruct Hd as [-> | ->]; [exact H|].
    destruct r as [s|s idx|s idx]; simpl in *; [| |discriminate].
    - destruct (c1 s) as [g|] eqn:E; rewrite upd_same.
      + rewrite vadd_zero_r by (apply (Hc s g E)). exact H.
      + destruct H as [E2|[_ Z2]].
        * right. split; [right; reflexivity | rewrite <- E2; left; reflexivity].
        * right. split; [right; reflexivity | exact Z2].
    - rewrite upd_same. rewrite slice_add_zero.
      destruct (c1 s) as [g|] eqn:E; [exact H|].
      destruct H as [E2|[_ Z2]].
      + right. split; [right; reflexivity | rewrite <- E2; left; reflexivity].
      + right. split; [right; reflexivity | exact Z2].
  Qed.

  Lemma add_all_rel_same : forall ins ds (c1 c2 : cenv K),
    oshapes ds (map (ref_dim dims) ins) -> forallb (wt_ref dims) ins = true ->
    (forall x, rel (c1 x) (c2 x) (dims x)) ->
    forall x, rel (add_all dims (combine ins ds) c1 x) (add_all dims (combine ins ds) c2 x) (dims x).
  Proof.
    induction ins as [|r ins IH]; intros ds c1 c2 Hs Hw H x; [apply H|].
    inversion Hs as [|d n ds' ns Hd Hs']; subst.
    simpl in Hw. apply andb_true_iff in Hw as [Hr Hw].
    change (add_all dims (combine (r :: ins) (d :: ds')) c1) with (add_all dims (combine ins ds') (add_sens dims c1 r d)).
    change (add_all dims (combine (r :: ins) (d :: ds')) c2) with (add_all dims (combine ins ds') (add_sens dims c2 r d)).
    apply IH; auto. intros y. apply add_sens_rel_same; auto.
  Qed.

  Lemma add_all_rel_zero : forall ins ds (c1 c2 : cenv K),
    Forall2 (fun d n => zeroish n d) ds (map (ref_dim dims) ins) -> forallb (wt_ref dims) ins = true ->
    wt_cot dims c1 -> (forall x, rel (c1 x) (c2 x) (dims x)) ->
    forall x, rel (add_all dims (combine ins ds) c1 x) (c2 x) (dims x).
  Proof.
    induction ins as [|r ins IH]; intros ds c1 c2 Hs Hw Hc H x; [apply H|].
    inversion Hs as [|d n ds' ns Hd Hs']; subst.
    simpl in Hw. apply andb_true_iff in Hw as [Hr Hw].
    change (add_all dims (combine (r :: ins) (d :: ds')) c1) with (add_all dims (combine ins ds') (add_sens dims c1 r d)).
    apply IH; auto.
    - apply add_sens_wt; auto. apply zeroish_dshape. exact Hd.
    - intros y. apply add_sens_rel_zero; auto.
  Qed.

  Lemma fill_rel outs : forall (c1 c2 : cenv K), (forall o, rel (c1 o) (c2 o) (dims o)) ->
    fill dims outs (map c1 outs) = fill dims outs (map c2 outs).
  Proof.
    intros c1 c2 H. unfold fill. induction outs as [|o outs IH]; [reflexivity|].
    simpl. rewrite IH. f_equal.
    destruct (H o) as [->|[[-> | ->] [-> | ->]]]; reflexivity.
  Qed.

  Lemma fill_all_zeroish outs : forall (c : cenv K), (forall o, In o outs -> zeroish (dims o) (c o)) ->
    fill dims outs (map c outs) = map (fun o => vzero (dims o)) outs.
  Proof.
    intros c H. unfold fill. induction outs as [|o outs IH]; [reflexivity|].
    simpl. rewrite IH by (intros; apply H; right; assumption). f_equal.
    destruct (H o (or_introl eq_refl)) as [-> | ->]; reflexivity.
  Qed.

  Lemma all_none_zeroish outs (c1 c2 : cenv K) :
    forallb is_none (map c1 outs) = true -> (forall o, rel (c1 o) (c2 o) (dims o)) ->
    forall o, In o outs -> zeroish (dims o) (c2 o).
  Proof.
    intros Hb H o Ho. rewrite forallb_forall in Hb.
    assert (E : c1 o = None).
    { specialize (Hb (c1 o) (in_map c1 outs o Ho)). destruct (c1 o); [discriminate | reflexivity]. }
    destruct (H o) as [E2|[_ Z]]; [rewrite <- E2, E; left; reflexivity | exact Z].
  Qed.

  Lemma apply_adj_wt m ws (c : cenv K) : adj_shaped m -> shapes (fill dims (m_outs m) ws) (map dims (m_outs m)) ->
    wt_cot dims c -> wt_cot dims (apply_adj dims m ws c).
  Proof.
    intros [Hw Ha] Hs Hc. unfold apply_adj. apply (add_all_wt dims); auto.
  Qed.

  Lemma bwd_mod_wt m (c : cenv K) : adj_shaped m -> wt_cot dims c -> wt_cot dims (bwd_mod dims m c).
  Proof.
    intros Hm Hc. unfold bwd_mod. destruct (skip m _); [exact Hc|].
    apply apply_adj_wt; auto. apply fill_shapes. exact Hc.
  Qed.

  Lemma bwd_mod_rel m (c1 c2 : cenv K) :
    adj_shaped m -> zero_preserving m -> wt_cot dims c1 -> wt_cot dims c2 ->
    (forall x, rel (c1 x) (c2 x) (dims x)) ->
    forall x, rel (bwd_mod dims m c1 x) (bwd_mod dims m c2 x) (dims x).
  Proof.
    intros Hm Hz W1 W2 H x. pose proof Hm as [Hw Ha]. unfold bwd_mod, skip.
    destruct (negb (is_nil (m_outs m)) && forallb is_none (map c1 (m_outs m))) eqn:S1;
      destruct (negb (is_nil (m_outs m)) && forallb is_none (map c2 (m_outs m))) eqn:S2.
    - apply H.
    - apply andb_true_iff in S1 as [_ S1]. apply rel_sym. unfold apply_adj.
      rewrite (fill_all_zeroish _ c2 (all_none_zeroish _ c1 c2 S1 H)).
      apply add_all_rel_zero; auto. intros y. apply rel_sym. apply H.
    - apply andb_true_iff in S2 as [_ S2]. unfold apply_adj.
      rewrite (fill_all_zeroish _ c1 (all_none_zeroish _ c2 c1 S2 (fun o => rel_sym _ _ _ (H o)))).
      apply add_all_rel_zero; auto.
    - unfold apply_adj. rewrite (fill_rel _ c1 c2 H).
      apply add_all_rel_same; auto. apply Ha. apply fill_shapes. exact W2.
  Qed.

  Lemma bwd_rel ms : Forall adj_shaped ms -> Forall zero_preserving ms ->
    forall (c1 c2 : cenv K), wt_cot dims c1 -> wt_cot dims c2 -> (forall x, rel (c1 x) (c2 x) (dims x)) ->
    (forall x, rel (bwd dims ms c1 x) (bwd dims ms c2 x) (dims x)) /\
    wt_cot dims (bwd dims ms c1) /\ wt_cot dims (bwd dims ms c2).
  Proof.
    intros Hs Hz. induction ms as [|m ms IH]; intros c1 c2 W1 W2 H; [auto|].
    inversion Hs as [|? ? Hs1 Hs2]; inversion Hz as [|? ? Hz1 Hz2]; subst.
    destruct (IH Hs2 Hz2 c1 c2 W1 W2 H) as [R [V1 V2]].
    rewrite !bwd_cons. split; [|split]; try (apply bwd_mod_wt; assumption).
    apply bwd_mod_rel; assumption.
  Qed.

  (* ------------------------------------------------------------------ networks of modules with memory *)
  Variable M : Type.

  Local Notation h_shaped := (@Hist.h_shaped K NK M dims).
  Local Notation h_memless := (@Hist.h_memless K M).

  Lemma at_point_shaped st h mu : wt_tan dims st -> h_shaped h ->
    adj_shaped (at_point st h mu) /\ zero_preserving (at_point st h mu).
  Proof.
    intros Hst [H1 [H2 [H3 H4]]]. pose proof (shapes_read dims st (h_ins h) Hst) as Hxs. split.
    - split; [exact H1|]. intros ws Hws. simpl. apply H3; assumption.
    - unfold zero_preserving. simpl. apply H4. exact Hxs.
  Qed.

  Lemma at_points_shaped st mods : wt_tan dims st -> Forall h_shaped mods -> forall mems,
    Forall adj_shaped (at_points st mods mems) /\ Forall zero_preserving (at_points st mods mems).
  Proof.
    intros Hst. induction 1 as [|h mods Hh _ IH]; intros mems; [split; constructor|].
    destruct mems as [|mu mems]; [split; constructor|].
    simpl. destruct (IH mems) as [A B]. destruct (at_point_shaped st h mu Hst Hh) as [C D].
    split; constructor; assumption.
  Qed.

  (* ---- wiring *)
  Lemma written_shell (mods : list (@hmod K M)) : written (map (shell) mods) = h_written mods.
  Proof. unfold written, h_written. induction mods as [|h mods IH]; [reflexivity|]. simpl. rewrite IH. reflexivity. Qed.

  Lemma hwf_cons (h : @hmod K M) mods : hwf (h :: mods) = true ->
    NoDup (h_outs h) /\ (forall x, In x (h_outs h) -> ~ In x (h_written mods)) /\
    (forall r, In r (h_ins h) -> ~ In (ref_sig r) (h_outs h) /\ ~ In (ref_sig r) (h_written mods)) /\
    hwf mods = true.
  Proof.
    unfold hwf. intros H. change (map shell (h :: mods)) with (shell h :: map shell mods) in H.
    apply (wf_net_cons dims) in H as [H1 [H2 [H3 H4]]].
    rewrite written_shell in *. simpl in *. repeat split; auto.
    - apply (H3 (ref_sig r)). unfold ins_sigs. simpl. apply in_map. assumption.
    - apply (H3 (ref_sig r)). unfold ins_sigs. simpl. apply in_map. assumption.
  Qed.

  (* ---- the states after a response depend on the inputs of the network only *)
  Definition resp_pure (h : @hmod K M) : Prop := forall mu mu' xs, snd (h_resp h mu xs) = snd (h_resp h mu' xs).

  Lemma read_shapes_local (st : tenv K) ins :
    (forall r, In r ins -> length (st (ref_sig r)) = dims (ref_sig r)) ->
    shapes (map (read_t st) ins) (map (ref_dim dims) ins).
  Proof.
    intros H. unfold shapes. rewrite map_map. apply map_ext_in. intros r Hr.
    destruct r as [s|s idx|s idx]; simpl; [apply (H (RSig s) Hr) | apply length_gather | apply length_gather].
  Qed.

  Lemma shaped_arity h : h_shaped h -> forall mu xs, shapes xs (map (ref_dim dims) (h_ins h)) ->
    length (snd (h_resp h mu xs)) = length (h_outs h).
  Proof.
    intros [_ [H2 _]] mu xs Hxs. rewrite <- (map_length (@length K)), (H2 mu xs Hxs). apply map_length.
  Qed.

  Lemma write_outs_len outs : forall ys (st : tenv K), map (@length K) ys = map dims outs ->
    forall s, (In s outs -> length (write_outs outs ys st s) = dims s) /\
              (~ In s outs -> write_outs outs ys st s = st s).
  Proof.
    induction outs as [|o outs IH]; intros ys st Hs s.
    - split; [intros [] | reflexivity].
    - destruct ys as [|y ys]; [discriminate|]. simpl in Hs. injection Hs as E1 E2. simpl.
      destruct (IH ys (upd st o y) E2 s) as [A B]. split.
      + intros [->|Hin].
        * destruct (in_dec Nat.eq_dec s outs) as [Hi|Hi]; [apply A; exact Hi|].
          rewrite B by exact Hi. rewrite upd_same. exact E1.
        * apply A. exact Hin.
      + intros Hn. rewrite B by tauto. apply upd_other. intros ->. apply Hn. left. reflexivity.
  Qed.

  (* the signals a module reads have been given their shape: inputs of the network, or written before *)
  Definition lens_ok (mods : list (@hmod K M)) (st : tenv K) : Prop :=
    forall s, ~ In s (h_written mods) -> length (st s) = dims s.

  Lemma ins_shapes (h : @hmod K M) mods (st : tenv K) :
    (forall r, In r (h_ins h) -> ~ In (ref_sig r) (h_outs h) /\ ~ In (ref_sig r) (h_written mods)) ->
    lens_ok (h :: mods) st -> shapes (map (read_t st) (h_ins h)) (map (ref_dim dims) (h_ins h)).
  Proof.
    intros Hins Hl. apply read_shapes_local. intros r Hr. apply Hl.
    change (h_written (h :: mods)) with (h_outs h ++ h_written mods). rewrite in_app_iff.
    destruct (Hins r Hr). tauto.
  Qed.

  Lemma lens_ok_step (h : @hmod K M) mods (st : tenv K) ys :
    map (@length K) ys = map dims (h_outs h) -> lens_ok (h :: mods) st ->
    lens_ok mods (write_outs (h_outs h) ys st).
  Proof.
    intros Hys Hl s Hs. destruct (write_outs_len (h_outs h) ys st Hys s) as [C1 C2].
    destruct (in_dec Nat.eq_dec s (h_outs h)) as [Hi|Hi]; [apply C1; exact Hi|].
    rewrite C2 by exact Hi. apply Hl.
    change (h_written (h :: mods)) with (h_outs h ++ h_written mods). rewrite in_app_iff. tauto.
  Qed.

  Lemma resp_states_inputs_only (mods : list (@hmod K M)) : hwf mods = true -> Forall resp_pure mods -> Forall h_shaped mods ->
    forall mems1 mems2 (st1 st2 : tenv K), length mems1 = length mods -> length mems2 = length mods ->
    lens_ok mods st1 -> (forall x, ~ In x (h_written mods) -> st1 x = st2 x) ->
    forall x, snd (resp_all mods mems1 st1) x = snd (resp_all mods mems2 st2) x.
  Proof.
    induction mods as [|h mods IH]; intros Hwf Hp Hs mems1 mems2 st1 st2 L1 L2 Hl Hag x.
    - destruct mems1, mems2; simpl; apply Hag; intros [].
    - destruct mems1 as [|m1 mems1]; [discriminate|]. destruct mems2 as [|m2 mems2]; [discriminate|].
      apply hwf_cons in Hwf as [Hnd [Hdis [Hins Hwf]]].
      inversion Hp as [|? ? Hp1 Hp2]; inversion Hs as [|? ? Hs1 Hs2]; subst.
      pose proof (ins_shapes h mods st1 Hins Hl) as Hxs.
      assert (Exs : map (read_t st1) (h_ins h) = map (read_t st2) (h_ins h)).
      { apply map_ext_in. intros r Hr. apply read_t_agree. apply Hag.
        change (h_written (h :: mods)) with (h_outs h ++ h_written mods). rewrite in_app_iff.
        destruct (Hins r Hr). tauto. }
      simpl. apply IH; auto.
      + apply lens_ok_step; [|exact Hl]. destruct Hs1 as [_ [H2 _]]. apply H2. exact Hxs.
      + intros y Hy. rewrite <- Exs, (Hp1 m1 m2). apply write_outs_agree.
        rewrite (shaped_arity h Hs1 m2 _ Hxs), firstn_all.
        destruct (in_dec Nat.eq_dec y (h_outs h)) as [Hi|Hi]; [right; exact Hi|].
        left. apply Hag. change (h_written (h :: mods)) with (h_outs h ++ h_written mods). rewrite in_app_iff. tauto.
  Qed.

  Lemma resp_all_len mods : hwf mods = true -> Forall h_shaped mods -> forall mems (st : tenv K),
    length mems = length mods -> lens_ok mods st ->
    length (fst (resp_all mods mems st)) = length mods /\
    forall s, length (snd (resp_all mods mems st) s) = dims s /\
              (~ In s (h_written mods) -> snd (resp_all mods mems st) s = st s).
  Proof.
    induction mods as [|h mods IH]; intros Hwf Hs mems st L Hl.
    - destruct mems; [|discriminate]. simpl. split; [reflexivity|]. intros s. split; [apply Hl; intros [] | reflexivity].
    - destruct mems as [|mu mems]; [discriminate|].
      apply hwf_cons in Hwf as [Hnd [Hdis [Hins Hwf]]]. inversion Hs as [|? ? Hs1 Hs2]; subst.
      pose proof (ins_shapes h mods st Hins Hl) as Hxs.
      simpl. set (r := h_resp h mu (map (read_t st) (h_ins h))).
      assert (Hys : map (@length K) (snd r) = map dims (h_outs h)) by (destruct Hs1 as [_ [H2 _]]; apply H2; exact Hxs).
      destruct (IH Hwf Hs2 mems (write_outs (h_outs h) (snd r) st)) as [A B];
        [simpl in L; lia | apply lens_ok_step; assumption|].
      split; [simpl; rewrite A; reflexivity|].
      intros s. destruct (B s) as [B1 B2]. split; [exact B1|].
      change (h_written (h :: mods)) with (h_outs h ++ h_written mods). rewrite in_app_iff.
      intros Hn. rewrite B2 by tauto. apply (write_outs_len (h_outs h) (snd r) st Hys s). tauto.
  Qed.
  Lemma write_outs_untouched outs : forall ys (st : tenv K) s, ~ In s outs -> write_outs outs ys st s = st s.
  Proof.
    induction outs as [|o outs IH]; intros ys st s Hn; [reflexivity|].
    destruct ys as [|y ys]; [reflexivity|]. simpl. rewrite IH by (intros H; apply Hn; right; exact H).
    apply upd_other. intros ->. apply Hn. left. reflexivity.
  Qed.

  Lemma resp_all_unwritten (mods : list (@hmod K M)) : forall mems (st : tenv K) s,
    ~ In s (h_written mods) -> snd (resp_all mods mems st) s = st s.
  Proof.
    induction mods as [|h mods IH]; intros mems st s Hn; [destruct mems; reflexivity|].
    destruct mems as [|mu mems]; [reflexivity|]. simpl.
    change (h_written (h :: mods)) with (h_outs h ++ h_written mods) in Hn. rewrite in_app_iff in Hn.
    rewrite IH by tauto. apply write_outs_untouched. tauto.
  Qed.

  (* ------------------------------------------------------------------ what Network.reset reaches *)
  Notation hmodK := (@hmod K M).

  Lemma direct_intro (mods : list hmodK) s : In (RSig s) (net_refs mods) -> direct mods s = true.
  Proof.
    intros Hin. unfold direct. apply mem_In. unfold sig_refs. apply in_flat_map.
    exists (RSig s). split; [exact Hin | left; reflexivity].
  Qed.

  Lemma direct_kills (mods : list hmodK) s k : direct mods s = true -> exists r, In r (net_refs mods) /\ kills r s k.
  Proof.
    unfold direct. intros H. apply mem_In in H. unfold sig_refs in H. apply in_flat_map in H as [r [Hr Hs]].
    exists r. split; [exact Hr|]. destruct r as [s'|s' idx|s' idx]; simpl in *; try contradiction.
    destruct Hs as [->|[]]. reflexivity.
  Qed.

  Lemma covered_intro (mods : list hmodK) s idx k : In (RSlice s idx) (net_refs mods) -> In k idx -> covered mods s k = true.
  Proof.
    intros Hin Hk. unfold covered. apply existsb_exists. exists (RSlice s idx). split; [exact Hin|].
    rewrite Nat.eqb_refl. simpl. apply mem_In. exact Hk.
  Qed.

  Lemma covered_kills (mods : list hmodK) s k : covered mods s k = true -> exists r, In r (net_refs mods) /\ kills r s k.
  Proof.
    unfold covered. intros H. apply existsb_exists in H as [r [Hr Hb]]. exists r. split; [exact Hr|].
    destruct r as [s'|s' idx|s' idx]; try discriminate.
    apply andb_true_iff in Hb as [E Hm]. apply Nat.eqb_eq in E. apply mem_In in Hm. simpl. auto.
  Qed.

  Lemma ins_in_net_refs (mods : list hmodK) h r : In h mods -> In r (h_ins h) -> In r (net_refs mods).
  Proof.
    intros Hh Hr. unfold net_refs. apply in_flat_map. exists h. split; [apply in_rev in Hh; exact Hh|].
    unfold mod_refs. apply in_or_app. right. exact Hr.
  Qed.

  Definition cov (mods : list hmodK) (c : cenv K) : Prop :=
    forall s g, c s = Some g -> direct mods s = true \/ forall k, covered mods s k = true \/ nth k g 0' = 0'.

  Lemma nth_scatter_notin idx : forall vals (base : vec K) k, ~ In k idx -> nth k (scatter_set idx vals base) 0' = nth k base 0'.
  Proof.
    induction idx as [|i idx IH]; intros vals base k Hn; [reflexivity|].
    destruct vals as [|v vals]; [reflexivity|].
    change (scatter_set (i :: idx) (v :: vals) base) with (scatter_set idx vals (set_at i v base)).
    rewrite IH by (intros H; apply Hn; right; exact H).
    apply nth_set_at_neq. intros ->. apply Hn. left. reflexivity.
  Qed.

  Lemma add_sens_cov (mods : list hmodK) d (c : cenv K) r dd : cov mods c -> In r (net_refs mods) -> cov mods (add_sens d c r dd).
  Proof.
    intros Hc Hr s g. destruct (Nat.eq_dec s (ref_sig r)) as [->|Hn]; [|rewrite add_sens_other by exact Hn; apply Hc].
    destruct dd as [dv|]; [|apply Hc].
    destruct r as [s|s idx|s idx]; simpl.
    - intros _. left. apply direct_intro. exact Hr.
    - rewrite upd_same. intros [= <-].
      destruct (c s) as [g0|] eqn:E.
      + destruct (Hc s g0 E) as [Hd|Hk]; [left; exact Hd|]. right. intros k.
        destruct (in_dec Nat.eq_dec k idx) as [Hi|Hi]; [left; apply (covered_intro mods s idx k Hr Hi)|].
        unfold slice_add. rewrite nth_scatter_notin by exact Hi. apply Hk.
      + right. intros k.
        destruct (in_dec Nat.eq_dec k idx) as [Hi|Hi]; [left; apply (covered_intro mods s idx k Hr Hi)|].
        unfold slice_add. rewrite nth_scatter_notin by exact Hi. right. apply nth_vzero.
    - rewrite upd_same. intros [= <-].
      destruct (c s) as [g0|] eqn:E; [apply (Hc s g0 E)|]. right. intros k. right. apply nth_vzero.
  Qed.

  Lemma add_all_cov (mods : list hmodK) d rds : forall (c : cenv K), cov mods c ->
    (forall rd, In rd rds -> In (fst rd) (net_refs mods)) -> cov mods (add_all d rds c).
  Proof.
    induction rds as [|rd rds IH]; intros c Hc Hin; [exact Hc|].
    simpl. apply IH; [|intros; apply Hin; right; assumption].
    apply add_sens_cov; [exact Hc | apply Hin; left; reflexivity].
  Qed.

  Lemma bwd_cov (mods : list hmodK) d ms : (forall m r, In m ms -> In r (m_ins m) -> In r (net_refs mods)) ->
    forall c : cenv K, cov mods c -> cov mods (bwd d ms c).
  Proof.
    induction ms as [|m ms IH]; intros Hin c Hc; [exact Hc|].
    rewrite bwd_cons. unfold bwd_mod.
    assert (IHc : cov mods (bwd d ms c)) by (apply IH; [intros; eapply Hin; [right|]; eassumption | exact Hc]).
    destruct (skip m _); [exact IHc|].
    unfold apply_adj. apply add_all_cov; [exact IHc|].
    intros [r dd] Hrd. simpl. apply (Hin m r); [left; reflexivity | eapply in_combine_l; exact Hrd].
  Qed.

  Lemma at_points_In st (mods : list hmodK) : forall mems m, In m (at_points st mods mems) ->
    exists h mu, In h mods /\ m = at_point st h mu.
  Proof.
    induction mods as [|h mods IH]; intros mems m Hm; [destruct mems; contradiction|].
    destruct mems as [|mu mems]; [contradiction|]. simpl in Hm. destruct Hm as [<-|Hm].
    - exists h, mu. split; [left; reflexivity | reflexivity].
    - destruct (IH mems m Hm) as [h' [mu' [A B]]]. exists h', mu'. split; [right; exact A | exact B].
  Qed.

  Lemma reset_refs_cov (mods : list hmodK) refs (c : cenv K) : cov mods c -> cov mods (reset_refs keep refs c).
  Proof.
    intros Hc s g' E.
    destruct (c s) as [g|] eqn:Ec; [|rewrite (reset_refs_none refs c s Ec) in E; discriminate].
    destruct (Hc s g Ec) as [Hd|Hk]; [left; exact Hd|]. right. intros k.
    destruct (Hk k) as [A|A]; [left; exact A|]. right.
    assert (Z : zero_at (reset_refs keep refs c s) k).
    { apply reset_refs_zero_at. left. rewrite Ec. exact A. }
    rewrite E in Z. exact Z.
  Qed.

  (* ------------------------------------------------------------------ the invariant of admissible histories *)
  Definition inv (mods : list hmodK) (x : nst M) : Prop :=
    length (s_mem x) = length mods /\
    (forall s, ~ In s (h_written mods) -> length (s_st x s) = dims s) /\
    (s_fresh x = true -> forall s, length (s_st x s) = dims s) /\
    wt_cot dims (s_se x) /\ cov mods (s_se x).

  Lemma mod_ext_refl (ms : list (module K)) : Forall2 mod_ext ms ms.
  Proof. induction ms; constructor; auto. repeat split; reflexivity. Qed.

  Lemma bwd_shaped_wt ms : Forall adj_shaped ms -> forall c : cenv K, wt_cot dims c -> wt_cot dims (bwd dims ms c).
  Proof.
    induction 1 as [|m ms Hm _ IH]; intros c Hc; [exact Hc|].
    rewrite bwd_cons. apply bwd_mod_wt; auto.
  Qed.

  Lemma inv_step (mods : list hmodK) x o : hwf mods = true -> Forall h_shaped mods -> inv mods x -> admissible mods x o ->
    inv mods (step keep mods x o).
  Proof.
    intros Hwf Hs [I0 [I1 [I2 [I3 I4]]]] Ha. unfold inv.
    destruct o as [s v| |s w| |]; cbn [step admissible s_st s_se s_mem s_fresh] in *.
    - destruct Ha as [Hw Hl]. split; [exact I0|]. split; [|split; [discriminate|split; assumption]].
      intros s' Hs'. unfold upd. destruct (Nat.eqb s' s) eqn:E; [|apply I1; exact Hs'].
      apply Nat.eqb_eq in E. subst. rewrite Hl. apply I1. exact Hw.
    - destruct (resp_all_len mods Hwf Hs (s_mem x) (s_st x) I0 I1) as [A B].
      split; [exact A|]. split; [|split; [|split; assumption]].
      + intros s Hn. apply B.
      + intros _ s. apply B.
    - destruct Ha as [Hd [Hl Hf]]. split; [exact I0|]. split; [exact I1|]. split; [exact I2|]. split.
      + intros s' g. unfold upd. destruct (Nat.eqb s' s) eqn:E; [|apply I3].
        apply Nat.eqb_eq in E. subst. intros [= <-]. rewrite Hl. apply I2. exact Hf.
      + intros s' g. unfold upd. destruct (Nat.eqb s' s) eqn:E; [|apply I4].
        apply Nat.eqb_eq in E. subst. intros _. left. exact Hd.
    - split; [exact I0|]. split; [exact I1|]. split; [exact I2|]. split.
      + unfold sens_all. intros s g E.
        rewrite (bwd_congr (sdims (s_st x)) dims _ _ (fun s0 => I2 Ha s0) (mod_ext_refl _) (s_se x) (s_se x)
                           (fun _ => eq_refl) s) in E.
        revert s g E. apply bwd_shaped_wt; [|exact I3]. apply at_points_shaped; [exact (I2 Ha) | exact Hs].
      + unfold sens_all. apply bwd_cov; [|exact I4].
        intros m r Hm Hr. destruct (at_points_In _ _ _ _ Hm) as [h [mu [Hh ->]]]. simpl in Hr.
        apply (ins_in_net_refs mods h r Hh Hr).
    - split; [exact I0|]. split; [exact I1|]. split; [exact I2|]. split.
      + unfold reset_all. intros s g E.
        pose proof (reset_refs_len (net_refs mods) (s_se x) s (dims s)) as L.
        rewrite E in L. apply L. destruct (s_se x s) as [g0|] eqn:E0; simpl; [apply (I3 s g0 E0) | exact I].
      + apply reset_refs_cov. exact I4.
  Qed.

  Lemma inv_fresh (mods : list hmodK) mem0 (inputs : tenv K) :
    length mem0 = length mods -> (forall s, ~ In s (h_written mods) -> length (inputs s) = dims s) ->
    inv mods (fresh dims keep mods mem0 inputs).
  Proof.
    intros L Hi. unfold inv, fresh. simpl. repeat split; auto; try discriminate.
    - intros s Hn. pose proof Hn as Hn'. apply mem_false in Hn. rewrite Hn. apply Hi. exact Hn'.
    - intros s g. destruct (keep s); [|discriminate]. intros [= <-]. apply length_vzero.
    - intros s g. destruct (keep s); [|discriminate]. intros [= <-]. right. intros k. right. apply nth_vzero.
  Qed.

  Lemma inv_run (mods : list hmodK) : hwf mods = true -> Forall h_shaped mods -> forall ops x,
    inv mods x -> admissible_run keep mods ops x -> inv mods (run keep mods ops x).
  Proof.
    intros Hwf Hs. induction ops as [|o ops IH]; intros x Hi Ha; [exact Hi|].
    destruct Ha as [A B]. simpl. apply IH; [apply inv_step; assumption | exact B].
  Qed.

  Lemma admissible_run_app (mods : list hmodK) a : forall b x,
    admissible_run keep mods (a ++ b) x <-> admissible_run keep mods a x /\ admissible_run keep mods b (run keep mods a x).
  Proof.
    induction a as [|o a IH]; intros b x; simpl; [tauto|]. rewrite IH. tauto.
  Qed.

  Lemma run_app (mods : list hmodK) a b x : run keep mods (a ++ b) x = run keep mods b (run keep mods a x).
  Proof. unfold run. apply fold_left_app. Qed.

  (* ------------------------------------------------------------------ reset() leaves no sensitivity behind *)
  Theorem reset_clears (mods : list hmodK) x : inv mods x ->
    forall s, zeroish (dims s) (s_se (step keep mods x OReset) s).
  Proof.
    intros [_ [_ [_ [I3 I4]]]] s. simpl. unfold reset_all.
    apply zeroish_of_zero_at.
    - apply reset_refs_len. destruct (s_se x s) as [g|] eqn:E; simpl; [apply (I3 s g E) | exact I].
    - intros k. apply reset_refs_zero_at.
      destruct (s_se x s) as [g|] eqn:E; [|left; exact I].
      destruct (I4 s g E) as [Hd|Hk].
      + right. apply direct_kills. exact Hd.
      + destruct (Hk k) as [A|A]; [right; apply covered_kills; exact A | left; exact A].
  Qed.

  Lemma run_cons (mods : list hmodK) o ops x : run keep mods (o :: ops) x = run keep mods ops (step keep mods x o).
  Proof. reflexivity. Qed.

  (* ------------------------------------------------------------------ seeding *)
  Definition seed_env (seeds : list (nat * vec K)) (c : cenv K) : cenv K :=
    fold_left (fun c sw => upd c (fst sw) (Some (snd sw))) seeds c.

  Lemma run_seed_ops (mods : list hmodK) seeds : forall x,
    s_st (run keep mods (seed_ops seeds) x) = s_st x /\ s_mem (run keep mods (seed_ops seeds) x) = s_mem x /\
    s_fresh (run keep mods (seed_ops seeds) x) = s_fresh x /\
    s_se (run keep mods (seed_ops seeds) x) = seed_env seeds (s_se x).
  Proof.
    induction seeds as [|sw seeds IH]; intros x; [repeat split; reflexivity|].
    change (seed_ops (sw :: seeds)) with (OSeed (fst sw) (snd sw) :: seed_ops seeds).
    rewrite run_cons. destruct (IH (step keep mods x (OSeed (fst sw) (snd sw)))) as [A [B [C D]]].
    rewrite A, B, C, D. repeat split; reflexivity.
  Qed.

  Lemma seed_env_rel seeds : forall c1 c2 : cenv K, (forall x, rel (c1 x) (c2 x) (dims x)) ->
    forall x, rel (seed_env seeds c1 x) (seed_env seeds c2 x) (dims x).
  Proof.
    induction seeds as [|sw seeds IH]; intros c1 c2 H x; [apply H|].
    simpl. apply IH. intros y. unfold upd. destruct (Nat.eqb y (fst sw)); [left; reflexivity | apply H].
  Qed.

  Local Notation seeds_shaped := (@Hist.seeds_shaped K dims).

  Lemma seed_env_wt seeds : seeds_shaped seeds -> forall c : cenv K, wt_cot dims c -> wt_cot dims (seed_env seeds c).
  Proof.
    induction 1 as [|sw seeds Hsw _ IH]; intros c Hc; [exact Hc|].
    simpl. apply IH. intros s g. unfold upd. destruct (Nat.eqb s (fst sw)) eqn:E; [|apply Hc].
    apply Nat.eqb_eq in E. subst. intros [= <-]. exact Hsw.
  Qed.

  Lemma memless_resp_pure h : h_memless h -> resp_pure h.
  Proof. intros [f [g [Hr _]]] mu mu' xs. rewrite !Hr. reflexivity. Qed.

  Lemma at_points_ext (mods : list hmodK) : Forall h_memless mods -> forall mx my (stx sty : tenv K),
    length mx = length mods -> length my = length mods -> (forall s, stx s = sty s) ->
    Forall2 mod_ext (at_points sty mods my) (at_points stx mods mx).
  Proof.
    induction 1 as [|h mods Hh _ IH]; intros mx my stx sty Lx Ly E.
    - destruct mx, my; constructor.
    - destruct mx as [|m1 mx]; [discriminate|]. destruct my as [|m2 my]; [discriminate|].
      simpl. constructor; [|apply IH; simpl in *; auto].
      repeat split; try reflexivity. intros ws. simpl.
      destruct Hh as [f [g [_ Hg]]]. rewrite !Hg.
      rewrite (map_ext_in (read_t sty) (read_t stx)) by (intros r _; apply read_t_agree; symmetry; apply E).
      rewrite (map_ext sty stx) by (intros; symmetry; apply E). reflexivity.
  Qed.


  (* ------------------------------------------------------------------ MAIN (memoryless modules):
     from any state of an admissible history whose sensitivities are clean (what reset() establishes),
     response; seeds; sensitivity gives what a freshly constructed network gives on the same inputs and seeds *)
  Theorem cycle_from_clean (mods : list hmodK) mem0 x seeds :
    hwf mods = true -> Forall h_shaped mods -> Forall h_memless mods -> length mem0 = length mods ->
    inv mods x -> (forall s, zeroish (dims s) (s_se x s)) -> seeds_shaped seeds ->
    (forall s, s_st (run keep mods (fresh_cycle seeds) x) s
               = s_st (run keep mods (fresh_cycle seeds) (fresh dims keep mods mem0 (s_st x))) s) /\
    ceq dims (s_se (run keep mods (fresh_cycle seeds) x))
             (s_se (run keep mods (fresh_cycle seeds) (fresh dims keep mods mem0 (s_st x)))).
  Proof.
    intros Hwf Hs Hm L0 Hi Hz Hsd.
    set (y0 := fresh dims keep mods mem0 (s_st x)).
    assert (Hiy : inv mods y0) by (apply inv_fresh; [exact L0 | apply Hi]).
    unfold fresh_cycle. change ([OResp] ++ seed_ops seeds ++ [OSens]) with (OResp :: (seed_ops seeds ++ [OSens])).
    rewrite !run_cons, !run_app.
    set (x1 := step keep mods x OResp). set (y1 := step keep mods y0 OResp).
    assert (Hi1 : inv mods x1) by (apply inv_step; [exact Hwf | exact Hs | exact Hi | exact I]).
    assert (Hiy1 : inv mods y1) by (apply inv_step; [exact Hwf | exact Hs | exact Hiy | exact I]).
    destruct (run_seed_ops mods seeds x1) as [A1 [B1 [C1 D1]]].
    destruct (run_seed_ops mods seeds y1) as [A2 [B2 [C2 D2]]].
    cbn [run fold_left step s_st s_se s_mem s_fresh].
    fold (run keep mods (seed_ops seeds) x1). fold (run keep mods (seed_ops seeds) y1).
    rewrite A1, A2, B1, B2, D1, D2.
    (* states *)
    assert (S : forall s, s_st x1 s = s_st y1 s).
    { intros s. unfold x1, y1. cbn [step s_st].
      apply resp_states_inputs_only.
      - exact Hwf.
      - apply Forall_impl with (2 := Hm). apply memless_resp_pure.
      - exact Hs.
      - apply Hi.
      - exact L0.
      - exact (proj1 (proj2 Hi)).
      - intros z Hz'. unfold y0, fresh. cbn [s_st]. apply mem_false in Hz'. rewrite Hz'. reflexivity. }
    split; [exact S|].
    (* sensitivities *)
    assert (Dx : forall s, sdims (s_st x1) s = dims s).
    { intros s. destruct Hi1 as [_ [_ [I2 _]]]. apply I2. reflexivity. }
    assert (Dy : forall s, sdims (s_st y1) s = dims s).
    { intros s. unfold sdims. rewrite <- S. apply Dx. }
    assert (Lx : length (s_mem x1) = length mods) by apply Hi1.
    assert (Ly : length (s_mem y1) = length mods) by apply Hiy1.
    set (P := at_points (s_st x1) mods (s_mem x1)).
    set (c1 := seed_env seeds (s_se x1)). set (c2 := seed_env seeds (s_se y1)).
    assert (Ex : forall s, sens_all mods (s_mem x1) (s_st x1) c1 s = bwd dims P c1 s).
    { intros s. unfold sens_all. apply bwd_congr; [exact Dx | apply mod_ext_refl | reflexivity]. }
    assert (Ey : forall s, sens_all mods (s_mem y1) (s_st y1) c2 s = bwd dims P c2 s).
    { intros s. unfold sens_all. apply bwd_congr; [exact Dy | | reflexivity].
      apply at_points_ext; auto. }
    destruct (at_points_shaped (s_st x1) mods Dx Hs (s_mem x1)) as [PA PZ].
    assert (W1 : wt_cot dims c1) by (apply seed_env_wt; [exact Hsd | apply Hi1]).
    assert (W2 : wt_cot dims c2) by (apply seed_env_wt; [exact Hsd | apply Hiy1]).
    assert (R : forall s, rel (c1 s) (c2 s) (dims s)).
    { apply seed_env_rel. intros s. right. split; [apply Hz|].
      unfold y1, y0, fresh. cbn [step s_se]. destruct (keep s); [right | left]; reflexivity. }
    destruct (bwd_rel P PA PZ c1 c2 W1 W2 R) as [RR _].
    apply ceq_rel. intros s. rewrite Ex, Ey. apply RR.
  Qed.

  (* ------------------------------------------------------------------ any history, then the final cycle *)
  Lemma run_sets_se (mods : list hmodK) ops : only_sets ops -> forall x, s_se (run keep mods ops x) = s_se x.
  Proof.
    induction 1 as [|o ops [s [v ->]] _ IH]; intros x; [reflexivity|].
    rewrite run_cons, IH. reflexivity.
  Qed.

  Theorem history_independent (mods : list hmodK) mem0 (inputs0 : tenv K) hist sets seeds :
    hwf mods = true -> Forall h_shaped mods -> Forall h_memless mods -> length mem0 = length mods ->
    (forall s, ~ In s (h_written mods) -> length (inputs0 s) = dims s) ->
    only_sets sets -> seeds_shaped seeds ->
    admissible_run keep mods (hist ++ [OReset] ++ sets) (fresh dims keep mods mem0 inputs0) ->
    let xh := run keep mods (hist ++ [OReset] ++ sets) (fresh dims keep mods mem0 inputs0) in
    let xf := run keep mods (fresh_cycle seeds) xh in
    let yf := run keep mods (fresh_cycle seeds) (fresh dims keep mods mem0 (s_st xh)) in
    (forall s, s_st xf s = s_st yf s) /\ ceq dims (s_se xf) (s_se yf).
  Proof.
    intros Hwf Hs Hm L0 Hin Hsets Hsd Hadm. cbv zeta.
    apply cycle_from_clean; auto.
    - apply inv_run; [exact Hwf | exact Hs | apply inv_fresh; assumption | exact Hadm].
    - intros s. rewrite app_assoc, run_app, (run_sets_se mods sets Hsets), run_app.
      apply reset_clears.
      rewrite app_assoc in Hadm. apply admissible_run_app in Hadm as [Hadm _].
      apply admissible_run_app in Hadm as [Hadm _].
      apply inv_run; [exact Hwf | exact Hs | apply inv_fresh; assumption | exact Hadm].
  Qed.

  (* ------------------------------------------------------------------ sensitivity() without any seed *)
  Theorem unseeded_sensitivity_noop (mods : list hmodK) x :
    Forall (fun h : hmodK => h_outs h <> []) mods -> (forall s, s_se x s = None) ->
    forall s, s_se (step keep mods x OSens) s = None.
  Proof.
    intros Hne Hnone. cbn [step s_se]. unfold sens_all.
    generalize (s_mem x) as mems. generalize (sdims (s_st x)) as d. intros d.
    induction Hne as [|h mods Hh _ IH]; intros mems s; [destruct mems; apply Hnone|].
    destruct mems as [|mu mems]; [apply Hnone|].
    cbn [at_points]. rewrite bwd_cons.
    rewrite (unseeded_module_noop d (at_point (s_st x) h mu)); [apply IH | exact Hh | intros o _; apply IH].
  Qed.

  (* with zeroed arrays kept by keep_alloc the modules do run, but only zeros are added *)
  Lemma rel_zeroish_l (a b : option (vec K)) n : rel a b n -> zeroish n b -> zeroish n a.
  Proof. intros [->|[Z _]] Hb; assumption. Qed.

  Lemma bwd_mod_zeroish m (c : cenv K) : adj_shaped m -> zero_preserving m -> wt_cot dims c ->
    (forall s, zeroish (dims s) (c s)) -> forall s, zeroish (dims s) (bwd_mod dims m c s).
  Proof.
    intros [Hw Ha] Hz Hc Hall s. unfold bwd_mod. destruct (skip m _); [apply Hall|].
    unfold apply_adj. rewrite (fill_all_zeroish _ c (fun o _ => Hall o)).
    apply (rel_zeroish_l _ (c s)); [|apply Hall].
    apply add_all_rel_zero; auto. intros y. left. reflexivity.
  Qed.

  Lemma bwd_zeroish ms : Forall adj_shaped ms -> Forall zero_preserving ms -> forall c : cenv K,
    wt_cot dims c -> (forall s, zeroish (dims s) (c s)) -> forall s, zeroish (dims s) (bwd dims ms c s).
  Proof.
    intros Hs Hz c Hc Hall. induction ms as [|m ms IH]; [exact Hall|].
    inversion Hs as [|? ? Hs1 Hs2]; inversion Hz as [|? ? Hz1 Hz2]; subst.
    intros s. rewrite bwd_cons. apply bwd_mod_zeroish; auto. apply bwd_shaped_wt; assumption.
  Qed.

  Theorem clean_sensitivity_stays_clean (mods : list hmodK) x :
    Forall h_shaped mods -> inv mods x -> s_fresh x = true -> (forall s, zeroish (dims s) (s_se x s)) ->
    forall s, zeroish (dims s) (s_se (step keep mods x OSens) s).
  Proof.
    intros Hs Hi Hf Hz s. cbn [step s_se].
    assert (D : forall s0, sdims (s_st x) s0 = dims s0) by (destruct Hi as [_ [_ [I2 _]]]; apply I2; exact Hf).
    unfold sens_all.
    rewrite (bwd_congr (sdims (s_st x)) dims _ _ D (mod_ext_refl _) (s_se x) (s_se x) (fun _ => eq_refl) s).
    destruct (at_points_shaped (s_st x) mods D Hs (s_mem x)) as [PA PZ].
    apply bwd_zeroish; auto. apply Hi.
  Qed.

  (* ---- the same two facts for the states an admissible history can reach *)
  Theorem reset_clears_after_history (mods : list hmodK) mem0 (inputs0 : tenv K) hist :
    hwf mods = true -> Forall h_shaped mods -> length mem0 = length mods ->
    (forall s, ~ In s (h_written mods) -> length (inputs0 s) = dims s) ->
    admissible_run keep mods hist (fresh dims keep mods mem0 inputs0) ->
    forall s, zeroish (dims s) (s_se (run keep mods (hist ++ [OReset]) (fresh dims keep mods mem0 inputs0)) s).
  Proof.
    intros Hwf Hs L Hin Ha s. rewrite run_app. apply reset_clears.
    apply inv_run; auto. apply inv_fresh; assumption.
  Qed.

  Theorem unseeded_cycle_stays_clean (mods : list hmodK) mem0 (inputs0 : tenv K) hist sets :
    hwf mods = true -> Forall h_shaped mods -> length mem0 = length mods ->
    (forall s, ~ In s (h_written mods) -> length (inputs0 s) = dims s) -> only_sets sets ->
    admissible_run keep mods (hist ++ [OReset] ++ sets) (fresh dims keep mods mem0 inputs0) ->
    forall s, zeroish (dims s)
                (s_se (run keep mods ((hist ++ [OReset] ++ sets) ++ [OResp; OSens]) (fresh dims keep mods mem0 inputs0)) s).
  Proof.
    intros Hwf Hs L Hin Hsets Ha s.
    rewrite run_app. set (x := run keep mods (hist ++ [OReset] ++ sets) (fresh dims keep mods mem0 inputs0)).
    assert (Hi : inv mods x) by (apply inv_run; auto; apply inv_fresh; assumption).
    assert (Hz : forall s0, zeroish (dims s0) (s_se x s0)).
    { intros s0. unfold x. rewrite app_assoc, run_app, (run_sets_se mods sets Hsets).
      rewrite app_assoc in Ha. apply admissible_run_app in Ha as [Ha _]. apply admissible_run_app in Ha as [Ha _].
      apply reset_clears_after_history; auto. }
    change (run keep mods [OResp; OSens] x) with (step keep mods (step keep mods x OResp) OSens).
    apply clean_sensitivity_stays_clean; auto.
    apply inv_step; auto. exact I.
  Qed.

  (* ------------------------------------------------------------------ caching modules: `Good mem inputs` *)
  Local Notation cspec := (@Hist.cspec K M).
  Local Notation cc := (@Hist.cc K M).

  (* every memory is Good for the inputs of the latest response; directly after a response (fr = true) these are
     the current input states and the current output states are f of them *)
  Fixpoint good_all (st : tenv K) (fr : bool) (mods : list hmodK) (specs : list cspec) (mems : list M) : Prop :=
    match mods, specs, mems with
    | h :: mods', sp :: specs', mu :: mems' =>
      (exists last, c_good sp mu last /\
                    (fr = true -> last = Some (map (read_t st) (h_ins h)) /\
                                  map st (h_outs h) = c_f sp (map (read_t st) (h_ins h)))) /\
      good_all st fr mods' specs' mems'
    | [], [], [] => True
    | _, _, _ => False
    end.

  Lemma good_all_weaken st st' (mods : list hmodK) : forall specs mems, good_all st true mods specs mems \/ good_all st false mods specs mems ->
    good_all st' false mods specs mems.
  Proof.
    induction mods as [|h mods IH]; intros [|sp specs] [|mu mems] H; simpl in *; try tauto; try (destruct H; tauto).
    destruct H as [[[last [G _]] H]|[[last [G _]] H]]; (split; [exists last; split; [exact G | discriminate] | apply IH; auto]).
  Qed.

  Lemma good_all_ext st st' fr (mods : list hmodK) : (forall s, st s = st' s) -> forall specs mems,
    good_all st fr mods specs mems -> good_all st' fr mods specs mems.
  Proof.
    intros E. induction mods as [|h mods IH]; intros [|sp specs] [|mu mems] H; simpl in *; try tauto.
    destruct H as [[last [G F]] H]. split; [|apply IH; exact H].
    exists last. split; [exact G|]. intros Hf. destruct (F Hf) as [A B].
    rewrite <- (map_ext_in (read_t st) (read_t st')) by (intros r _; apply read_t_agree; apply E).
    rewrite <- (map_ext st st' E). split; assumption.
  Qed.

  Lemma good_all_len st fr (mods : list hmodK) : forall specs mems, good_all st fr mods specs mems -> length mems = length mods.
  Proof.
    induction mods as [|h mods IH]; intros [|sp specs] [|mu mems] H; simpl in *; try tauto.
    destruct H as [_ H]. rewrite (IH _ _ H). reflexivity.
  Qed.

  Lemma pures_written (mods : list hmodK) : forall specs, length specs = length mods -> h_written (pures mods specs) = h_written mods.
  Proof.
    induction mods as [|h mods IH]; intros [|sp specs] L; try discriminate; [reflexivity|].
    simpl. unfold h_written in *. simpl. rewrite IH by (simpl in L; lia). reflexivity.
  Qed.

  Lemma pures_refs (mods : list hmodK) : forall specs, length specs = length mods ->
    map mod_refs (pures mods specs) = map mod_refs mods.
  Proof.
    induction mods as [|h mods IH]; intros [|sp specs] L; try discriminate; [reflexivity|].
    simpl. rewrite IH by (simpl in L; lia). reflexivity.
  Qed.

  Lemma net_refs_map (a b : list hmodK) : map mod_refs a = map mod_refs b -> net_refs a = net_refs b.
  Proof.
    intros E. unfold net_refs. rewrite !flat_map_concat_map, !map_rev, E. reflexivity.
  Qed.

  Lemma reset_ref_congr (c1 c2 : cenv K) r x : c1 x = c2 x -> reset_ref keep c1 r x = reset_ref keep c2 r x.
  Proof.
    intros E. destruct (Nat.eq_dec x (ref_sig r)) as [->|Hn]; [|rewrite !reset_ref_other by exact Hn; exact E].
    destruct r as [s|s idx|s idx]; simpl in *; [| |exact E].
    - rewrite <- E. destruct (c1 s) eqn:E1; [|congruence]. destruct (keep s); rewrite !upd_same; reflexivity.
    - rewrite <- E. destruct (c1 s) eqn:E1; [|congruence]. rewrite !upd_same; reflexivity.
  Qed.

  Lemma reset_refs_congr refs : forall (c1 c2 : cenv K), (forall x, c1 x = c2 x) ->
    forall x, reset_refs keep refs c1 x = reset_refs keep refs c2 x.
  Proof.
    induction refs as [|r refs IH]; intros c1 c2 E x; [apply E|].
    simpl. apply IH. intros y. apply reset_ref_congr. apply E.
  Qed.

  Lemma map_write_outs outs : forall ys (st : tenv K), NoDup outs -> length ys = length outs ->
    map (write_outs outs ys st) outs = ys.
  Proof.
    induction outs as [|o outs IH]; intros ys st Hnd L; [destruct ys; [reflexivity | discriminate]|].
    destruct ys as [|y ys]; [discriminate|]. inversion Hnd as [|? ? Ho Hnd']; subst.
    simpl. f_equal.
    - assert (H : forall ys0 (st0 : tenv K), write_outs outs ys0 st0 o = st0 o).
      { clear -Ho. induction outs as [|o' outs IH]; intros ys0 st0; [reflexivity|].
        destruct ys0 as [|y0 ys0]; [reflexivity|]. simpl. rewrite IH by (intros H; apply Ho; right; exact H).
        apply upd_other. intros ->. apply Ho. left. reflexivity. }
      rewrite H. apply upd_same.
    - apply IH; [exact Hnd' | simpl in L; lia].
  Qed.

  (* one response of the whole network: the network with memory and its memoryless counterpart stay together *)
  Lemma resp_sim (mods : list hmodK) : forall specs mems memsp (st stp : tenv K),
    hwf mods = true -> Forall h_shaped (pures mods specs) -> Forall2 cc mods specs ->
    good_all st false mods specs mems -> length memsp = length mods -> lens_ok mods st -> (forall s, st s = stp s) ->
    (forall s, snd (resp_all mods mems st) s = snd (resp_all (pures mods specs) memsp stp) s) /\
    good_all (snd (resp_all mods mems st)) true mods specs (fst (resp_all mods mems st)) /\
    length (fst (resp_all (pures mods specs) memsp stp)) = length mods.
  Proof.
    induction mods as [|h mods IH]; intros specs mems memsp st stp Hwf Hs Hcc Hg Lp Hl E.
    - inversion Hcc; subst. destruct mems; [|contradiction]. destruct memsp; [|discriminate].
      simpl. auto.
    - inversion Hcc as [|? sp ? specs' Hc Hcc']; subst.
      destruct mems as [|mu mems]; [contradiction|]. destruct memsp as [|mup memsp]; [discriminate|].
      apply hwf_cons in Hwf as [Hnd [Hdis [Hins Hwf]]].
      cbn [pures] in Hs. inversion Hs as [|? ? Hs1 Hs2]; subst.
      destruct Hg as [[last [G _]] Hg].
      destruct Hc as [_ [Hresp Hsens]].
      set (xs := map (read_t st) (h_ins h)).
      destruct (Hresp mu last xs G) as [G' Ef].
      assert (Exs : map (read_t stp) (h_ins h) = xs).
      { unfold xs. apply map_ext_in. intros r _. apply read_t_agree. symmetry. apply E. }
      cbn [resp_all pures pure_h pure_of h_resp h_ins h_outs fst snd]. rewrite Exs. fold xs. rewrite Ef.
      set (st1 := write_outs (h_outs h) (c_f sp xs) st).
      set (stp1 := write_outs (h_outs h) (c_f sp xs) stp).
      assert (E1 : forall s, st1 s = stp1 s).
      { intros s. unfold st1, stp1. apply write_outs_agree. left. apply E. }
      assert (Hg1 : good_all st1 false mods specs' mems) by (apply (good_all_weaken st); right; exact Hg).
      assert (Hys : map (@length K) (c_f sp xs) = map dims (h_outs h)).
      { destruct Hs1 as [_ [H2 _]]. apply (H2 mu xs). apply (ins_shapes h mods st Hins Hl). }
      assert (Hl1 : lens_ok mods st1) by (apply lens_ok_step; assumption).
      destruct (IH specs' mems memsp st1 stp1 Hwf Hs2 Hcc' Hg1 ltac:(simpl in Lp; lia) Hl1 E1) as [A [B C]].
      split; [exact A|]. split; [|simpl; rewrite C; reflexivity].
      cbn [good_all]. split; [|exact B].
      exists (Some xs). split; [exact G'|]. intros _.
      pose proof (fun s => resp_all_unwritten mods mems st1 s) as U.
      set (stf := snd (resp_all mods mems st1)) in *.
      assert (Hxs : map (read_t stf) (h_ins h) = xs).
      { unfold xs. apply map_ext_in. intros r Hr. apply read_t_agree.
        destruct (Hins r Hr) as [N1 N2]. rewrite (U (ref_sig r)) by exact N2.
        unfold st1. apply (write_outs_len (h_outs h) (c_f sp xs) st Hys (ref_sig r)). exact N1. }
      rewrite Hxs. split; [reflexivity|].
      rewrite (map_ext_in stf st1) by (intros o Ho; apply (U o); apply Hdis; exact Ho).
      unfold st1. apply map_write_outs; [exact Hnd|].
      rewrite <- (map_length (@length K)), Hys. apply map_length.
  Qed.

  Definition sim (mods : list hmodK) (specs : list cspec) (x p : nst M) : Prop :=
    (forall s, s_st x s = s_st p s) /\ (forall s, s_se x s = s_se p s) /\ s_fresh x = s_fresh p /\
    length (s_mem p) = length mods /\ good_all (s_st x) (s_fresh x) mods specs (s_mem x) /\
    lens_ok mods (s_st x).

  Lemma at_points_sim (mods : list hmodK) : forall specs mems memsp (stx stp : tenv K),
    Forall2 cc mods specs -> good_all stx true mods specs mems -> length memsp = length mods ->
    (forall s, stx s = stp s) ->
    Forall2 mod_ext (at_points stx mods mems) (at_points stp (pures mods specs) memsp).
  Proof.
    induction mods as [|h mods IH]; intros specs mems memsp stx stp Hcc Hg Lp E.
    - inversion Hcc; subst. destruct mems; [|contradiction]. constructor.
    - inversion Hcc as [|? sp ? specs' Hc Hcc']; subst.
      destruct mems as [|mu mems]; [contradiction|]. destruct memsp as [|mup memsp]; [discriminate|].
      destruct Hg as [[last [G F]] Hg]. destruct (F eq_refl) as [-> Eo].
      cbn [at_points pures]. constructor; [|apply IH; auto].
      repeat split; try reflexivity. intros ws. cbn [at_point m_adj pure_h pure_of h_sens h_ins h_outs].
      destruct Hc as [_ [_ Hsens]].
      rewrite Eo, (Hsens mu _ ws G).
      rewrite <- (map_ext_in (read_t stx) (read_t stp)) by (intros r _; apply read_t_agree; apply E).
      rewrite <- (map_ext stx stp E), Eo. reflexivity.
  Qed.

  Lemma cc_length (mods : list hmodK) specs : Forall2 cc mods specs -> length specs = length mods.
  Proof. induction 1; simpl; auto. Qed.

  Lemma sim_step (mods : list hmodK) specs x p o :
    hwf mods = true -> Forall h_shaped (pures mods specs) -> Forall2 cc mods specs -> sim mods specs x p ->
    (o = OSens -> s_fresh x = true) -> (forall s v, o = OSet s v -> length v = dims s) ->
    sim mods specs (step keep mods x o) (step keep (pures mods specs) p o).
  Proof.
    intros Hwf Hs Hcc [S1 [S2 [S3 [S4 [S5 S6]]]]] Hf Hv. unfold sim.
    destruct o as [s v| |s w| |]; cbn [step s_st s_se s_mem s_fresh].
    - split; [|split; [exact S2|split; [reflexivity|split; [exact S4|split]]]].
      + intros s'. unfold upd. destruct (Nat.eqb s' s); [reflexivity | apply S1].
      + apply (good_all_weaken (s_st x)). destruct (s_fresh x); [left | right]; exact S5.
      + intros s' Hs'. unfold upd. destruct (Nat.eqb s' s) eqn:E; [|apply S6; exact Hs'].
        apply Nat.eqb_eq in E. subst s'. apply (Hv s v eq_refl).
    - assert (G0 : good_all (s_st x) false mods specs (s_mem x)).
      { apply (good_all_weaken (s_st x)). destruct (s_fresh x); [left | right]; exact S5. }
      destruct (resp_sim mods specs (s_mem x) (s_mem p) (s_st x) (s_st p) Hwf Hs Hcc G0 S4 S6 S1) as [A [B C]].
      split; [exact A|]. split; [exact S2|]. split; [reflexivity|]. split; [exact C|]. split; [exact B|].
      intros s Hn. rewrite resp_all_unwritten by exact Hn. apply S6. exact Hn.
    - split; [exact S1|]. split; [|split; [exact S3|split; [exact S4 | split; [exact S5 | exact S6]]]].
      intros s'. unfold upd. destruct (Nat.eqb s' s); [reflexivity | apply S2].
    - split; [exact S1|]. split; [|split; [exact S3|split; [exact S4 | split; [exact S5 | exact S6]]]].
      intros s. unfold sens_all. apply bwd_congr; [| |exact S2].
      + intros s0. unfold sdims. rewrite S1. reflexivity.
      + apply at_points_sim; auto. rewrite (Hf eq_refl) in S5. exact S5.
    - split; [exact S1|]. split; [|split; [exact S3|split; [exact S4 | split; [exact S5 | exact S6]]]].
      intros s. unfold reset_all.
      rewrite (net_refs_map (pures mods specs) mods (pures_refs mods specs (cc_length _ _ Hcc))).
      apply reset_refs_congr. exact S2.
  Qed.

  (* the part of the protocol that matters here: sensitivity() only directly after a response(),
     inputs keep their shape *)
  Fixpoint proto_ok (fr : bool) (ops : list (@op K)) : Prop :=
    match ops with
    | [] => True
    | OSet s v :: r => length v = dims s /\ proto_ok false r
    | OResp :: r => proto_ok true r
    | OSens :: r => fr = true /\ proto_ok fr r
    | _ :: r => proto_ok fr r
    end.

  Lemma admissible_proto_ok (mods : list hmodK) : hwf mods = true -> Forall h_shaped mods -> forall ops x,
    inv mods x -> admissible_run keep mods ops x -> proto_ok (s_fresh x) ops.
  Proof.
    intros Hwf Hs. induction ops as [|o ops IH]; intros x Hi Ha; [exact I|].
    destruct Ha as [A B]. pose proof (IH _ (inv_step mods x o Hwf Hs Hi A) B) as P.
    destruct o as [s v| |s w| |]; cbn [proto_ok step s_fresh admissible] in *.
    - destruct A as [Hw Hl]. split; [|exact P]. rewrite Hl. apply (proj1 (proj2 Hi)). exact Hw.
    - exact P.
    - exact P.
    - split; [exact A | exact P].
    - exact P.
  Qed.

  Theorem cache_network_behaves_pure (mods : list hmodK) specs :
    hwf mods = true -> Forall h_shaped (pures mods specs) -> Forall2 cc mods specs ->
    forall ops x p, sim mods specs x p -> proto_ok (s_fresh x) ops ->
    sim mods specs (run keep mods ops x) (run keep (pures mods specs) ops p).
  Proof.
    intros Hwf Hs Hcc. induction ops as [|o ops IH]; intros x p Hsim Hf; [exact Hsim|].
    rewrite !run_cons. apply IH.
    - apply sim_step; auto.
      + intros ->. simpl in Hf. tauto.
      + intros s v ->. simpl in Hf. tauto.
    - destruct o; cbn [proto_ok step s_fresh] in *; tauto.
  Qed.

  Lemma good_all_init st (mods : list hmodK) : forall specs, Forall2 cc mods specs ->
    good_all st false mods specs (map c_mu0 specs).
  Proof.
    induction mods as [|h mods IH]; intros specs Hcc; inversion Hcc as [|? sp ? specs' Hc Hcc']; subst; [exact I|].
    simpl. split; [|apply IH; exact Hcc'].
    exists None. split; [apply Hc | discriminate].
  Qed.

  Lemma sim_fresh (mods : list hmodK) specs memp (i1 i2 : tenv K) :
    Forall2 cc mods specs -> length memp = length mods -> (forall s, i1 s = i2 s) ->
    (forall s, ~ In s (h_written mods) -> length (i1 s) = dims s) ->
    sim mods specs (fresh dims keep mods (map c_mu0 specs) i1) (fresh dims keep (pures mods specs) memp i2).
  Proof.
    intros Hcc L E Hl. unfold sim, fresh. cbn [s_st s_se s_mem s_fresh].
    rewrite (pures_written mods specs (cc_length _ _ Hcc)).
    split; [intros s; destruct (mem s (h_written mods)); [reflexivity | apply E]|].
    split; [reflexivity|]. split; [reflexivity|]. split; [exact L|].
    split; [apply good_all_init; exact Hcc|].
    intros s Hs. pose proof Hs as Hs'. apply mem_false in Hs. rewrite Hs. apply Hl. exact Hs'.
  Qed.

  Lemma pures_shell (mods : list hmodK) : forall specs, length specs = length mods ->
    map shell (pures mods specs) = map shell mods.
  Proof.
    induction mods as [|h mods IH]; intros [|sp specs] L; try discriminate; [reflexivity|].
    simpl. rewrite IH by (simpl in L; lia). reflexivity.
  Qed.

  Lemma pures_memless (mods : list hmodK) : forall specs, Forall h_memless (pures mods specs).
  Proof.
    induction mods as [|h mods IH]; intros [|sp specs]; simpl; constructor; [|apply IH].
    exists (c_f sp), (c_g sp). split; reflexivity.
  Qed.

  Lemma pures_length (mods : list hmodK) : forall specs, length specs = length mods ->
    length (pures mods specs) = length mods.
  Proof.
    induction mods as [|h mods IH]; intros [|sp specs] L; try discriminate; [reflexivity|].
    simpl. rewrite IH by (simpl in L; lia). reflexivity.
  Qed.

  Lemma admissible_sim (mods : list hmodK) specs x p o : Forall2 cc mods specs -> sim mods specs x p ->
    admissible mods x o -> admissible (pures mods specs) p o.
  Proof.
    intros Hcc [S1 [S2 [S3 _]]] Ha. pose proof (cc_length _ _ Hcc) as L.
    destruct o as [s v| |s w| |]; simpl in *; auto.
    - rewrite (pures_written mods specs L), <- S1. exact Ha.
    - unfold direct in *. rewrite (net_refs_map (pures mods specs) mods (pures_refs mods specs L)), <- S1, <- S3. exact Ha.
    - rewrite <- S3. exact Ha.
  Qed.

  Lemma admissible_run_sim (mods : list hmodK) specs : hwf mods = true -> Forall h_shaped (pures mods specs) ->
    Forall2 cc mods specs ->
    forall ops x p, sim mods specs x p -> admissible_run keep mods ops x ->
    proto_ok (s_fresh x) ops /\ admissible_run keep (pures mods specs) ops p.
  Proof.
    intros Hwf Hs Hcc. induction ops as [|o ops IH]; intros x p Hsim Ha; [split; exact I|].
    destruct Ha as [A B].
    assert (Hf : o = OSens -> s_fresh x = true) by (intros ->; exact A).
    assert (Hv : forall s v, o = OSet s v -> length v = dims s).
    { intros s v ->. destruct A as [Hw Hl]. rewrite Hl. destruct Hsim as [_ [_ [_ [_ [_ S6]]]]]. apply S6. exact Hw. }
    destruct (IH (step keep mods x o) (step keep (pures mods specs) p o)
                 (sim_step mods specs x p o Hwf Hs Hcc Hsim Hf Hv) B) as [P Q].
    split; [|split; [eapply admissible_sim; eassumption | exact Q]].
    destruct o as [s v| |s w| |]; cbn [proto_ok step s_fresh] in *; auto.
  Qed.

  Lemma proto_ok_cycle seeds fr : proto_ok fr (fresh_cycle seeds).
  Proof.
    unfold fresh_cycle. cbn [app proto_ok]. induction seeds as [|sw seeds IH]; [simpl; auto | exact IH].
  Qed.

  (* networks of cache-correct modules are history independent as well *)
  Theorem cache_history_independent (mods : list hmodK) specs (inputs0 : tenv K) hist sets seeds :
    hwf mods = true -> Forall2 cc mods specs -> Forall h_shaped (pures mods specs) ->
    (forall s, ~ In s (h_written mods) -> length (inputs0 s) = dims s) ->
    only_sets sets -> seeds_shaped seeds ->
    admissible_run keep mods (hist ++ [OReset] ++ sets) (fresh dims keep mods (map c_mu0 specs) inputs0) ->
    let xh := run keep mods (hist ++ [OReset] ++ sets) (fresh dims keep mods (map c_mu0 specs) inputs0) in
    let xf := run keep mods (fresh_cycle seeds) xh in
    let yf := run keep mods (fresh_cycle seeds) (fresh dims keep mods (map c_mu0 specs) (s_st xh)) in
    (forall s, s_st xf s = s_st yf s) /\ ceq dims (s_se xf) (s_se yf).
  Proof.
    intros Hwf Hcc Hsp Hin Hsets Hsd Hadm. cbv zeta.
    pose proof (cc_length _ _ Hcc) as L.
    set (P := pures mods specs). set (mem0 := map c_mu0 specs).
    set (ops := hist ++ [OReset] ++ sets).
    assert (Lm : length mem0 = length mods) by (unfold mem0; rewrite map_length; exact L).
    assert (LP : length mem0 = length P) by (unfold P; rewrite pures_length; assumption).
    set (x0 := fresh dims keep mods mem0 inputs0). set (p0 := fresh dims keep P mem0 inputs0).
    assert (S0 : sim mods specs x0 p0) by (apply sim_fresh; auto).
    destruct (admissible_run_sim mods specs Hwf Hsp Hcc ops x0 p0 S0 Hadm) as [Pr AdmP].
    assert (Sh : sim mods specs (run keep mods ops x0) (run keep P ops p0)).
    { apply cache_network_behaves_pure; auto. }
    set (xh := run keep mods ops x0) in *. set (ph := run keep P ops p0) in *.
    assert (Sf : sim mods specs (run keep mods (fresh_cycle seeds) xh) (run keep P (fresh_cycle seeds) ph)).
    { apply cache_network_behaves_pure; auto. apply proto_ok_cycle. }
    assert (Sy : sim mods specs (run keep mods (fresh_cycle seeds) (fresh dims keep mods mem0 (s_st xh)))
                                (run keep P (fresh_cycle seeds) (fresh dims keep P mem0 (s_st ph)))).
    { apply cache_network_behaves_pure; auto; [|apply proto_ok_cycle]. apply sim_fresh; auto; apply Sh. }
    assert (HP : hwf P = true) by (unfold hwf, P; rewrite pures_shell by exact L; exact Hwf).
    assert (HinP : forall s, ~ In s (h_written P) -> length (inputs0 s) = dims s).
    { unfold P. rewrite pures_written by exact L. exact Hin. }
    destruct (history_independent P mem0 inputs0 hist sets seeds HP Hsp (pures_memless mods specs) LP HinP Hsets Hsd AdmP)
      as [A B].
    fold ops p0 ph in A, B.
    destruct Sf as [F1 [F2 _]]. destruct Sy as [Y1 [Y2 _]].
    split.
    - intros s. rewrite F1, Y1. apply A.
    - intros s. rewrite F2, Y2. apply B.
  Qed.

  (* ------------------------------------------------------------------ one more pass on the SAME response
     (memoryless modules): from a state reached by response(); [seeds | sensitivity() | reset()]* ; reset(),
     seeds; sensitivity() -- WITHOUT a new response() -- gives what a freshly constructed network gives with
     response(); seeds; sensitivity() on the same inputs *)
  Lemma pass_ops_keep (mods : list hmodK) mid : forallb pass_op mid = true -> forall x,
    s_st (run keep mods mid x) = s_st x /\ s_mem (run keep mods mid x) = s_mem x /\
    s_fresh (run keep mods mid x) = s_fresh x.
  Proof.
    induction mid as [|o mid IH]; intros Hp x; [repeat split; reflexivity|].
    simpl in Hp. apply andb_true_iff in Hp as [Ho Hp]. rewrite run_cons.
    destruct (IH Hp (step keep mods x o)) as [A [B C]]. rewrite A, B, C.
    destruct o; try discriminate; repeat split; reflexivity.
  Qed.

  Theorem pass_from_clean (mods : list hmodK) mem0 x' mid seeds :
    hwf mods = true -> Forall h_shaped mods -> Forall h_memless mods -> length mem0 = length mods ->
    inv mods x' -> forallb pass_op mid = true ->
    admissible_run keep mods mid (step keep mods x' OResp) ->
    let x := step keep mods (run keep mods mid (step keep mods x' OResp)) OReset in
    seeds_shaped seeds ->
    (forall s, s_st (run keep mods (pass_only seeds) x) s
               = s_st (run keep mods (fresh_cycle seeds) (fresh dims keep mods mem0 (s_st x))) s) /\
    ceq dims (s_se (run keep mods (pass_only seeds) x))
             (s_se (run keep mods (fresh_cycle seeds) (fresh dims keep mods mem0 (s_st x)))).
  Proof.
    intros Hwf Hs Hm L0 Hi' Hp Hadm x Hsd.
    set (xr := step keep mods x' OResp) in *.
    assert (Hir : inv mods xr) by (apply inv_step; [exact Hwf | exact Hs | exact Hi' | exact I]).
    assert (Him : inv mods (run keep mods mid xr)) by (apply inv_run; assumption).
    assert (Hi : inv mods x) by (apply inv_step; [exact Hwf | exact Hs | exact Him | exact I]).
    destruct (pass_ops_keep mods mid Hp xr) as [Kst [Kmem Kfr]].
    assert (Xst : s_st x = s_st xr) by (unfold x; cbn [step s_st]; exact Kst).
    assert (Xfr : s_fresh x = true) by (unfold x; cbn [step s_fresh]; rewrite Kfr; reflexivity).
    assert (Hz : forall s, zeroish (dims s) (s_se x s)) by (intros s; apply reset_clears; exact Him).
    set (y0 := fresh dims keep mods mem0 (s_st x)).
    assert (Hiy : inv mods y0) by (apply inv_fresh; [exact L0 | apply Hi]).
    unfold fresh_cycle, pass_only.
    change ([OResp] ++ seed_ops seeds ++ [OSens]) with (OResp :: (seed_ops seeds ++ [OSens])).
    rewrite run_cons, !run_app.
    set (y1 := step keep mods y0 OResp).
    assert (Hiy1 : inv mods y1) by (apply inv_step; [exact Hwf | exact Hs | exact Hiy | exact I]).
    destruct (run_seed_ops mods seeds x) as [A1 [B1 [C1 D1]]].
    destruct (run_seed_ops mods seeds y1) as [A2 [B2 [C2 D2]]].
    cbn [run fold_left step s_st s_se s_mem s_fresh].
    fold (run keep mods (seed_ops seeds) x). fold (run keep mods (seed_ops seeds) y1).
    rewrite A1, A2, B1, B2, D1, D2.
    (* states: the states of the history ARE the response of the current inputs *)
    assert (S : forall s, s_st x s = s_st y1 s).
    { intros s. rewrite Xst. unfold xr, y1. cbn [step s_st].
      apply resp_states_inputs_only.
      - exact Hwf.
      - apply Forall_impl with (2 := Hm). apply memless_resp_pure.
      - exact Hs.
      - apply Hi'.
      - exact L0.
      - exact (proj1 (proj2 Hi')).
      - intros z Hz'. unfold y0, fresh. cbn [s_st]. pose proof Hz' as Hz2. apply mem_false in Hz'. rewrite Hz'.
        rewrite Xst. unfold xr. cbn [step s_st]. rewrite resp_all_unwritten by exact Hz2. reflexivity. }
    split; [exact S|].
    assert (Dx : forall s, sdims (s_st x) s = dims s).
    { intros s. destruct Hi as [_ [_ [I2 _]]]. apply I2. exact Xfr. }
    assert (Dy : forall s, sdims (s_st y1) s = dims s).
    { intros s. unfold sdims. rewrite <- S. apply Dx. }
    assert (Lx : length (s_mem x) = length mods) by apply Hi.
    assert (Ly : length (s_mem y1) = length mods) by apply Hiy1.
    set (P := at_points (s_st x) mods (s_mem x)).
    set (c1 := seed_env seeds (s_se x)). set (c2 := seed_env seeds (s_se y1)).
    assert (Ex : forall s, sens_all mods (s_mem x) (s_st x) c1 s = bwd dims P c1 s).
    { intros s. unfold sens_all. apply bwd_congr; [exact Dx | apply mod_ext_refl | reflexivity]. }
    assert (Ey : forall s, sens_all mods (s_mem y1) (s_st y1) c2 s = bwd dims P c2 s).
    { intros s. unfold sens_all. apply bwd_congr; [exact Dy | | reflexivity].
      apply at_points_ext; auto. }
    destruct (at_points_shaped (s_st x) mods Dx Hs (s_mem x)) as [PA PZ].
    assert (W1 : wt_cot dims c1) by (apply seed_env_wt; [exact Hsd | apply Hi]).
    assert (W2 : wt_cot dims c2) by (apply seed_env_wt; [exact Hsd | apply Hiy1]).
    assert (R : forall s, rel (c1 s) (c2 s) (dims s)).
    { apply seed_env_rel. intros s. right. split; [apply Hz|].
      unfold y1, y0, fresh. cbn [step s_se]. destruct (keep s); [right | left]; reflexivity. }
    destruct (bwd_rel P PA PZ c1 c2 W1 W2 R) as [RR _].
    apply ceq_rel. intros s. rewrite Ex, Ey. apply RR.
  Qed.

  (* ------------------------------------------------------------------ sensitivities that WRITE the memory *)
  Local Notation smodK := (@smod K M).
  Local Notation scc := (@Hist.scc K M).
  Local Notation mods_of := (map (@sm_mod K M)).

  Lemma sens_sweep_snd (mods : list smodK) : forall mems st (c : cenv K),
    snd (sens_sweep mods mems st c) = sens_all (mods_of mods) mems st c.
  Proof.
    unfold sens_all. induction mods as [|h mods IH]; intros [|mu mems] st c; try reflexivity.
    cbn [sens_sweep map at_points]. rewrite bwd_cons, <- IH. unfold bwd_mod.
    cbn [at_point m_outs].
    destruct (skip _ _); reflexivity.
  Qed.

  Lemma scc_cc (mods : list smodK) specs : Forall2 scc mods specs -> Forall2 cc (mods_of mods) specs.
  Proof. induction 1 as [|h sp mods specs [Hc _] _ IH]; simpl; constructor; assumption. Qed.

  Lemma sens_sweep_good (mods : list smodK) : forall specs mems st (c : cenv K),
    Forall2 scc mods specs -> good_all st true (mods_of mods) specs mems ->
    good_all st true (mods_of mods) specs (fst (sens_sweep mods mems st c)).
  Proof.
    induction mods as [|h mods IH]; intros specs mems st c Hcc Hg.
    - inversion Hcc; subst. destruct mems; [exact Hg | contradiction].
    - inversion Hcc as [|? sp ? specs' [Hc Hafter] Hcc']; subst.
      destruct mems as [|mu mems]; [contradiction|].
      cbn [map good_all] in Hg. destruct Hg as [[last [G F]] Hg].
      destruct (F eq_refl) as [El Eo].
      cbn [sens_sweep].
      destruct (skip _ _); cbn [fst map good_all].
      + split; [|apply IH; assumption]. exists last. split; [exact G | intros _; split; assumption].
      + split; [|apply IH; assumption]. exists last. split; [|intros _; split; assumption].
        subst last. rewrite Eo. apply Hafter. exact G.
  Qed.

  Lemma sens_sweep_len (mods : list smodK) : forall mems st (c : cenv K),
    length (fst (sens_sweep mods mems st c)) = length mems.
  Proof.
    induction mods as [|h mods IH]; intros [|mu mems] st c; try reflexivity.
    cbn [sens_sweep]. destruct (skip _ _); cbn [fst length]; rewrite IH; reflexivity.
  Qed.

  Lemma sim_step_s (mods : list smodK) specs x p o :
    hwf (mods_of mods) = true -> Forall h_shaped (pures (mods_of mods) specs) -> Forall2 scc mods specs ->
    sim (mods_of mods) specs x p ->
    (o = OSens -> s_fresh x = true) -> (forall s v, o = OSet s v -> length v = dims s) ->
    sim (mods_of mods) specs (step_s keep mods x o) (step keep (pures (mods_of mods) specs) p o).
  Proof.
    intros Hwf Hs Hcc Hsim Hf Hv.
    pose proof (sim_step (mods_of mods) specs x p o Hwf Hs (scc_cc mods specs Hcc) Hsim Hf Hv) as St.
    destruct o as [s v| |s w| |]; try exact St.
    destruct St as [T1 [T2 [T3 [T4 [T5 T6]]]]]. destruct Hsim as [S1 [S2 [S3 [S4 [S5 S6]]]]].
    unfold sim. cbn [step_s step s_st s_se s_mem s_fresh] in *.
    split; [exact T1|]. split; [|split; [exact T3|split; [exact T4|split; [|exact T6]]]].
    - intros s. rewrite sens_sweep_snd. apply T2.
    - rewrite (Hf eq_refl) in *. apply sens_sweep_good; assumption.
  Qed.

  Lemma run_s_cons (mods : list smodK) o ops x : run_s keep mods (o :: ops) x = run_s keep mods ops (step_s keep mods x o).
  Proof. reflexivity. Qed.
  Lemma run_s_app (mods : list smodK) a b x : run_s keep mods (a ++ b) x = run_s keep mods b (run_s keep mods a x).
  Proof. unfold run_s. apply fold_left_app. Qed.

  Lemma step_s_fresh (mods : list smodK) x o : s_fresh (step_s keep mods x o) = s_fresh (step keep (mods_of mods) x o).
  Proof. destruct o; reflexivity. Qed.

  Theorem sens_cache_network_behaves_pure (mods : list smodK) specs :
    hwf (mods_of mods) = true -> Forall h_shaped (pures (mods_of mods) specs) -> Forall2 scc mods specs ->
    forall ops x p, sim (mods_of mods) specs x p -> proto_ok (s_fresh x) ops ->
    sim (mods_of mods) specs (run_s keep mods ops x) (run keep (pures (mods_of mods) specs) ops p).
  Proof.
    intros Hwf Hs Hcc. induction ops as [|o ops IH]; intros x p Hsim Hf; [exact Hsim|].
    rewrite run_s_cons, run_cons. apply IH.
    - apply sim_step_s; auto.
      + intros ->. simpl in Hf. tauto.
      + intros s v ->. simpl in Hf. tauto.
    - rewrite step_s_fresh. destruct o; cbn [proto_ok step s_fresh] in *; tauto.
  Qed.

  Lemma admissible_run_sim_s (mods : list smodK) specs : hwf (mods_of mods) = true ->
    Forall h_shaped (pures (mods_of mods) specs) -> Forall2 scc mods specs ->
    forall ops x p, sim (mods_of mods) specs x p -> admissible_run_s keep mods ops x ->
    proto_ok (s_fresh x) ops /\ admissible_run keep (pures (mods_of mods) specs) ops p.
  Proof.
    intros Hwf Hs Hcc. induction ops as [|o ops IH]; intros x p Hsim Ha; [split; exact I|].
    destruct Ha as [A B].
    assert (Hf : o = OSens -> s_fresh x = true) by (intros ->; exact A).
    assert (Hv : forall s v, o = OSet s v -> length v = dims s).
    { intros s v ->. destruct A as [Hw Hl]. rewrite Hl. destruct Hsim as [_ [_ [_ [_ [_ S6]]]]]. apply S6. exact Hw. }
    destruct (IH (step_s keep mods x o) (step keep (pures (mods_of mods) specs) p o)
                 (sim_step_s mods specs x p o Hwf Hs Hcc Hsim Hf Hv) B) as [P Q].
    split; [|split; [eapply admissible_sim; [apply scc_cc; exact Hcc | exact Hsim | exact A] | exact Q]].
    rewrite step_s_fresh in P.
    destruct o as [s v| |s w| |]; cbn [proto_ok step s_fresh] in *; auto.
  Qed.

  Lemma admissible_run_s_app (mods : list smodK) a : forall b x,
    admissible_run_s keep mods (a ++ b) x <->
    admissible_run_s keep mods a x /\ admissible_run_s keep mods b (run_s keep mods a x).
  Proof.
    induction a as [|o a IH]; intros b x; simpl; [tauto|]. rewrite IH. tauto.
  Qed.

  (* networks of modules whose sensitivity writes a cache-correct memory are history independent *)
  Theorem sens_cache_history_independent (mods : list smodK) specs (inputs0 : tenv K) hist sets seeds :
    hwf (mods_of mods) = true -> Forall2 scc mods specs -> Forall h_shaped (pures (mods_of mods) specs) ->
    (forall s, ~ In s (h_written (mods_of mods)) -> length (inputs0 s) = dims s) ->
    only_sets sets -> seeds_shaped seeds ->
    admissible_run_s keep mods (hist ++ [OReset] ++ sets) (fresh dims keep (mods_of mods) (map c_mu0 specs) inputs0) ->
    let xh := run_s keep mods (hist ++ [OReset] ++ sets) (fresh dims keep (mods_of mods) (map c_mu0 specs) inputs0) in
    let xf := run_s keep mods (fresh_cycle seeds) xh in
    let yf := run_s keep mods (fresh_cycle seeds) (fresh dims keep (mods_of mods) (map c_mu0 specs) (s_st xh)) in
    (forall s, s_st xf s = s_st yf s) /\ ceq dims (s_se xf) (s_se yf).
  Proof.
    intros Hwf Hscc Hsp Hin Hsets Hsd Hadm. cbv zeta.
    pose proof (scc_cc mods specs Hscc) as Hcc.
    pose proof (cc_length _ _ Hcc) as L.
    set (H := mods_of mods) in *.
    set (P := pures H specs). set (mem0 := map c_mu0 specs).
    set (ops := hist ++ [OReset] ++ sets).
    assert (Lm : length mem0 = length H) by (unfold mem0; rewrite map_length; exact L).
    assert (LP : length mem0 = length P) by (unfold P; rewrite pures_length; assumption).
    set (x0 := fresh dims keep H mem0 inputs0). set (p0 := fresh dims keep P mem0 inputs0).
    assert (S0 : sim H specs x0 p0) by (apply sim_fresh; auto).
    destruct (admissible_run_sim_s mods specs Hwf Hsp Hscc ops x0 p0 S0 Hadm) as [Pr AdmP].
    assert (Sh : sim H specs (run_s keep mods ops x0) (run keep P ops p0)).
    { apply sens_cache_network_behaves_pure; auto. }
    set (xh := run_s keep mods ops x0) in *. set (ph := run keep P ops p0) in *.
    assert (Sf : sim H specs (run_s keep mods (fresh_cycle seeds) xh) (run keep P (fresh_cycle seeds) ph)).
    { apply sens_cache_network_behaves_pure; auto. apply proto_ok_cycle. }
    assert (Sy : sim H specs (run_s keep mods (fresh_cycle seeds) (fresh dims keep H mem0 (s_st xh)))
                             (run keep P (fresh_cycle seeds) (fresh dims keep P mem0 (s_st ph)))).
    { apply sens_cache_network_behaves_pure; auto; [|apply proto_ok_cycle]. apply sim_fresh; auto; apply Sh. }
    assert (HP : hwf P = true) by (unfold hwf, P; rewrite pures_shell by exact L; exact Hwf).
    assert (HinP : forall s, ~ In s (h_written P) -> length (inputs0 s) = dims s).
    { unfold P. rewrite pures_written by exact L. exact Hin. }
    destruct (history_independent P mem0 inputs0 hist sets seeds HP Hsp (pures_memless H specs) LP HinP Hsets Hsd AdmP)
      as [A B].
    fold ops p0 ph in A, B.
    destruct Sf as [F1 [F2 _]]. destruct Sy as [Y1 [Y2 _]].
    split.
    - intros s. rewrite F1, Y1. apply A.
    - intros s. rewrite F2, Y2. apply B.
  Qed.

  Lemma proto_ok_pass seeds : proto_ok true (pass_only seeds).
  Proof.
    unfold pass_only. induction seeds as [|sw seeds IH]; [simpl; auto | exact IH].
  Qed.

  Lemma proto_ok_app a : forall b fr, proto_ok fr (a ++ b) ->
    proto_ok fr a.
  Proof.
    induction a as [|o a IH]; intros b fr Hp; [exact I|].
    destruct o; cbn [app proto_ok] in *; try (destruct Hp as [Hq Hp]; split; [exact Hq|]); eapply IH; eassumption.
  Qed.

  (* ... and so is a FURTHER pass on the same response: after any history, response(); then any number of seed /
     sensitivity() / reset() calls; reset(); seeds; sensitivity() -- without a new response() -- leaves what a freshly
     constructed network leaves after response(); seeds; sensitivity() *)
  Theorem sens_cache_further_pass_independent (mods : list smodK) specs (inputs0 : tenv K) hist mid seeds :
    hwf (mods_of mods) = true -> Forall2 scc mods specs -> Forall h_shaped (pures (mods_of mods) specs) ->
    (forall s, ~ In s (h_written (mods_of mods)) -> length (inputs0 s) = dims s) ->
    forallb pass_op mid = true -> seeds_shaped seeds ->
    admissible_run_s keep mods (hist ++ [OResp] ++ mid ++ [OReset])
                     (fresh dims keep (mods_of mods) (map c_mu0 specs) inputs0) ->
    let xh := run_s keep mods (hist ++ [OResp] ++ mid ++ [OReset])
                    (fresh dims keep (mods_of mods) (map c_mu0 specs) inputs0) in
    let xf := run_s keep mods (pass_only seeds) xh in
    let yf := run_s keep mods (fresh_cycle seeds) (fresh dims keep (mods_of mods) (map c_mu0 specs) (s_st xh)) in
    (forall s, s_st xf s = s_st yf s) /\ ceq dims (s_se xf) (s_se yf).
  Proof.
    intros Hwf Hscc Hsp Hin Hmid Hsd Hadm. cbv zeta.
    pose proof (scc_cc mods specs Hscc) as Hcc.
    pose proof (cc_length _ _ Hcc) as L.
    set (H := mods_of mods) in *.
    set (P := pures H specs). set (mem0 := map c_mu0 specs).
    set (ops := hist ++ [OResp] ++ mid ++ [OReset]).
    assert (Lm : length mem0 = length H) by (unfold mem0; rewrite map_length; exact L).
    assert (LP : length mem0 = length P) by (unfold P; rewrite pures_length; assumption).
    set (x0 := fresh dims keep H mem0 inputs0). set (p0 := fresh dims keep P mem0 inputs0).
    assert (S0 : sim H specs x0 p0) by (apply sim_fresh; auto).
    destruct (admissible_run_sim_s mods specs Hwf Hsp Hscc ops x0 p0 S0 Hadm) as [Pr AdmP].
    assert (Sh : sim H specs (run_s keep mods ops x0) (run keep P ops p0)).
    { apply sens_cache_network_behaves_pure; auto. }
    set (xh := run_s keep mods ops x0) in *. set (ph := run keep P ops p0) in *.
    assert (HP : hwf P = true) by (unfold hwf, P; rewrite pures_shell by exact L; exact Hwf).
    assert (HinP : forall s, ~ In s (h_written P) -> length (inputs0 s) = dims s).
    { unfold P. rewrite pures_written by exact L. exact Hin. }
    (* the pure network: split the history at the response *)
    unfold ops in AdmP. apply admissible_run_app in AdmP as [AdmH AdmR].
    change ([OResp] ++ mid ++ [OReset]) with (OResp :: (mid ++ [OReset])) in AdmR.
    destruct AdmR as [_ AdmR]. apply admissible_run_app in AdmR as [AdmM _].
    set (p' := run keep P hist p0) in *.
    assert (Hip' : inv P p') by (apply inv_run; [exact HP | exact Hsp | apply inv_fresh; assumption | exact AdmH]).
    assert (Eph : ph = step keep P (run keep P mid (step keep P p' OResp)) OReset).
    { unfold ph, ops. rewrite run_app. fold p'.
      change ([OResp] ++ mid ++ [OReset]) with (OResp :: (mid ++ [OReset])). rewrite run_cons, run_app. reflexivity. }
    assert (Fr : s_fresh ph = true).
    { rewrite Eph. destruct (pass_ops_keep P mid Hmid (step keep P p' OResp)) as [_ [_ C]].
      change (s_fresh (run keep P mid (step keep P p' OResp)) = true). rewrite C. reflexivity. }
    assert (Frx : s_fresh xh = true) by (destruct Sh as [_ [_ [E _]]]; rewrite E; exact Fr).
    assert (Sf : sim H specs (run_s keep mods (pass_only seeds) xh) (run keep P (pass_only seeds) ph)).
    { apply sens_cache_network_behaves_pure; auto. rewrite Frx. apply proto_ok_pass. }
    assert (Sy : sim H specs (run_s keep mods (fresh_cycle seeds) (fresh dims keep H mem0 (s_st xh)))
                             (run keep P (fresh_cycle seeds) (fresh dims keep P mem0 (s_st ph)))).
    { apply sens_cache_network_behaves_pure; auto; [|apply proto_ok_cycle]. apply sim_fresh; auto; apply Sh. }
    destruct (pass_from_clean P mem0 p' mid seeds HP Hsp (pures_memless H specs) LP Hip' Hmid AdmM Hsd) as [A B].
    rewrite <- Eph in A, B.
    destruct Sf as [F1 [F2 _]]. destruct Sy as [Y1 [Y2 _]].
    split.
    - intros s. rewrite F1, Y1. apply A.
    - intros s. rewrite F2, Y2. apply B.
  Qed.

  (* an ordinary cache-correct module is one whose sensitivity writes nothing *)
  Lemma lift_scc (h : hmodK) sp : cc h sp -> scc (lift_s h) sp.
  Proof. intros Hc. split; [exact Hc|]. intros mu xs ws G. exact G. Qed.
End HistProofs.

(* ====================================================================================================
   The caching modules of /repo satisfy the `Good mem inputs` discipline *)
Section LinSolveProofs.
  Context {K : Type} `{NK : Num K}.
  Variable solve : list K -> list K -> option (list K) -> list K.
  Variable solveT : list K -> list K -> list K.
  Variable outer_neg : list K -> list K -> list K.

  (* an exact solver of a regular matrix does not depend on its initial guess *)
  Section ExactSolver.
    Variable mulA : list K -> list K -> list K.
    Variable regular : list K -> Prop.
    Hypothesis solve_exact : forall A b x0, regular A -> mulA A (solve A b x0) = b.
    Hypothesis regular_inj : forall A x y, regular A -> mulA A x = mulA A y -> x = y.
    Lemma exact_solver_ignores_guess A b x0 : regular A -> solve A b x0 = solve A b None.
    Proof. intros R. apply (regular_inj A); [exact R|]. rewrite !solve_exact by exact R. reflexivity. Qed.
  End ExactSolver.

  Hypothesis solve_ignores_guess : forall A b x0, solve A b x0 = solve A b None.

  Theorem linsolve_cache_correct ins out :
    cache_correct (linsolve_h solve solveT outer_neg ins out) None
                  (linsolve_good solve) (linsolve_f solve) (linsolve_g solveT outer_neg).
  Proof.
    split; [exact I|]. split.
    - intros mu last xs _. simpl. rewrite solve_ignores_guess. split; reflexivity.
    - intros mu xs ws G. simpl in G. subst mu. reflexivity.
  Qed.
End LinSolveProofs.

Section OverhangProofs.
  Context {K : Type} `{NK : Num K}.
  Variable P : Type.
  Variable params_of_dtype : P.
  Variable sweep : P -> list K -> list K * list K.
  Variable sweep_adj : P -> list K -> list K -> list K -> list K -> list K.

  Theorem overhang_cache_correct r out :
    cache_correct (overhang_h P params_of_dtype sweep sweep_adj r out) (None, [])
                  (overhang_good P params_of_dtype sweep) (overhang_f P params_of_dtype sweep)
                  (overhang_g P params_of_dtype sweep sweep_adj).
  Proof.
    split; [split; [left; reflexivity | exact I]|]. split.
    - intros [mp sm] last xs [[E|E] _]; simpl in E; subst mp; simpl; (split; [split; [right; reflexivity | split; reflexivity] | reflexivity]).
    - intros [mp sm] xs ws [_ [E1 E2]]. simpl in *. subst. reflexivity.
  Qed.
End OverhangProofs.

Section SoEProofs.
  Context {K : Type} `{NK : Num K}.
  Variable n_of : list (list K) -> nat.
  Variable complete : nat -> list nat * list nat.
  Variable soe : list nat * list nat -> list (list K) -> list (list K).
  Variable soe_adj : list nat * list nat -> list (list K) -> list (list K) -> list (list K) -> list (option (list K)).
  Variable n : nat.
  (* "a new matrix of the same structure": the size of the system does not change within a history *)
  Hypothesis same_structure : forall xs, n_of xs = n.

  Theorem soe_cache_correct ins outs :
    cache_correct (soe_h n_of complete soe soe_adj ins outs) None
                  (soe_good complete n) (soe_f complete soe n) (soe_g complete soe_adj n).
  Proof.
    split; [left; reflexivity|]. split.
    - intros mu last xs [E|E]; subst mu; simpl; rewrite ?same_structure; (split; [right; reflexivity | reflexivity]).
    - intros mu xs ws [E|E]; subst mu; simpl; rewrite ?same_structure; reflexivity.
  Qed.
End SoEProofs.

Section EigenSolveProofs.
  Context {K : Type} `{NK : Num K}.
  Variable F : Type.
  Variable factorise : list K -> F.
  Variable shifted : list (list K) -> list K.
  Variable sigma_nonzero : bool.
  Variable eigs : F -> list (list K) -> list (list K).
  Variable eig_adj : list (list K) -> list (list K) -> list (list K) -> list (option (list K)).

  (* by induction over the calls (this is what cache_correct packages): the shift-invert factorisation used by
     call k is that of the k-th shifted matrix *)
  Theorem eigensolve_cache_correct ins outs :
    cache_correct (eigensolve_h F factorise shifted sigma_nonzero eigs eig_adj ins outs) (None, false)
                  (eigensolve_good F factorise shifted) (eigensolve_f F factorise shifted eigs)
                  (fun xs ys ws => eig_adj xs ys ws).
  Proof.
    split; [reflexivity|]. split.
    - intros mu last xs G. destruct last as [xs0|]; simpl in G; subst mu; simpl; split; reflexivity.
    - intros mu xs ws _. reflexivity.
  Qed.
End EigenSolveProofs.

Section CholeskyFallbackProofs.
  Context {K : Type} `{NK : Num K}.
  Variable FU FL : Type.
  Variable chol : list K -> option FU.
  Variable ldl : list K -> FL.
  Variable usolve : FU -> bool -> list K -> list K.
  Variable lsolve : FL -> bool -> list K -> list K.
  Variable unfactorised : list K.
  Variable outer_neg : list K -> list K -> list K.

  (* after update(A) the solver answers for A, whatever it held before (a stale U or a stale backup factorisation) *)
  Lemma chol_update_answers s A tr b :
    chol_solve FU FL usolve lsolve unfactorised (chol_update FU FL chol ldl s A) tr b
    = chol_fresh_solve FU FL chol ldl usolve lsolve A tr b.
  Proof.
    unfold chol_update, chol_fresh_solve, chol_solve. destruct (chol A) as [U|]; reflexivity.
  Qed.

  Theorem chol_linsolve_cache_correct ins out :
    cache_correct (chol_linsolve_h FU FL chol ldl usolve lsolve unfactorised outer_neg ins out)
                  (cs_init FU FL, None)
                  (chol_good FU FL chol ldl usolve lsolve unfactorised)
                  (chol_f FU FL chol ldl usolve lsolve)
                  (chol_g FU FL chol ldl usolve lsolve outer_neg).
  Proof.
    split; [exact I|]. split.
    - intros mu last xs _. cbn [chol_linsolve_h h_resp fst snd chol_good chol_f].
      rewrite chol_update_answers. split; [|reflexivity].
      split; [intros tr b; apply chol_update_answers | reflexivity].
    - intros mu xs ws [G1 G2]. cbn [chol_linsolve_h h_sens chol_g chol_f nth] in *.
      rewrite G1, G2. reflexivity.
  Qed.

  (* the solver-level statement: the k-th pair of answers of ONE solver object fed A_1, A_2, ... is that of a fresh
     solver that has only seen A_k *)
  Theorem chol_answers_fresh As : forall s b,
    chol_answers FU FL chol ldl usolve lsolve unfactorised s As b
    = flat_map (fun A => [chol_fresh_solve FU FL chol ldl usolve lsolve A false b;
                          chol_fresh_solve FU FL chol ldl usolve lsolve A true b]) As.
  Proof.
    induction As as [|A As IH]; intros s b; [reflexivity|].
    cbn [chol_answers flat_map app]. rewrite !chol_update_answers, IH. reflexivity.
  Qed.
End CholeskyFallbackProofs.

Section EigenAdjointProofs.
  Context {K : Type} `{NK : Num K}.
  Variable FA : Type.
  Variable afact : list K -> FA.
  Variable F : Type.
  Variable factorise : list K -> F.
  Variable shifted : list (list K) -> list K.
  Variable sigma_nonzero : bool.
  Variable eigs : F -> list (list K) -> list (list K).
  Variable nmodes : list (list K) -> nat.
  Variable modes_of : list (list K) -> list (list K) -> list (list K) -> list (nat * bool * list K).
  Variable eig_adj_with : list (list K) -> list (list K) -> list (list K) -> list (nat * option FA) -> list (option (list K)).

  (* while the flag is set every visited mode is refactorised: the loop reads current factorisations only and
     leaves the flag set -- whatever the solvers held before (nothing, or factorisations of earlier responses) *)
  Lemma adj_visit_flag_set n sv i Z :
    adj_visit FA afact n (true, sv) i Z
    = ((true, Some (put_nth i (Some (Some (afact Z))) match sv with Some l => l | None => repeat None n end)),
       Some (afact Z)).
  Proof. reflexivity. Qed.

  Lemma adj_loop_flag_set n modes : forall sv,
    fst (fst (adj_loop FA afact n (true, sv) modes)) = true /\
    snd (adj_loop FA afact n (true, sv) modes) = adj_current FA afact modes.
  Proof.
    induction modes as [|[[i sd] Z] modes IH]; intros sv; [split; reflexivity|].
    cbn [adj_loop adj_current flat_map fst snd]. destruct sd.
    - rewrite adj_visit_flag_set. cbn [fst snd].
      destruct (IH (Some (put_nth i (Some (Some (afact Z))) match sv with Some l => l | None => repeat None n end)))
        as [A B].
      split; [exact A|]. cbn [app]. f_equal. exact B.
    - destruct (IH sv) as [A B]. split; [exact A | exact B].
  Qed.

  Theorem eigadj_scc ins outs :
    Hist.scc (eigadj_s FA afact F factorise shifted sigma_nonzero eigs nmodes modes_of eig_adj_with ins outs)
             {| c_mu0 := ((None, false), amem0 FA);
                c_good := eigadj_good FA F factorise shifted;
                c_f := eigadj_f F factorise shifted eigs;
                c_g := eigadj_g FA afact modes_of eig_adj_with |}.
  Proof.
    split; [split; [split; reflexivity|split]|].
    - intros [mu [nd sv]] last xs [G Gn]. cbn [fst snd] in *.
      destruct (eigensolve_cache_correct F factorise shifted sigma_nonzero eigs (fun _ _ _ => []) ins outs)
        as [_ [Hr _]].
      destruct (Hr mu last xs G) as [G' Ef].
      cbn [eigadj_s sm_mod h_resp c_good c_f eigadj_good fst snd]. split; [split; [exact G' | reflexivity] | exact Ef].
    - intros [mu [nd sv]] xs ws [G Gn]. cbn [fst snd] in *. subst nd.
      cbn [eigadj_s sm_mod h_sens c_g c_f eigadj_g snd].
      rewrite (proj2 (adj_loop_flag_set _ _ sv)). reflexivity.
    - intros [mu [nd sv]] xs ws [G Gn]. cbn [fst snd] in *. subst nd.
      cbn [eigadj_s sm_after c_good eigadj_good fst snd]. split; [exact G|].
      apply (proj1 (adj_loop_flag_set _ _ sv)).
  Qed.
End EigenAdjointProofs.

(* ====================================================================================================
   The executable test modules meet the hypotheses of the theorems (non-vacuity) *)
Section ExecProofs.
  Context {K : Type} `{NK : Num K}.
  Hypothesis Kring : ring_theory nzero none_ nadd nmul nsub nopp (@eq K).
  Add Ring Kr3 : Kring.

  Lemma vscale_zero (row : vec K) : vscale nzero row = vzero (length row).
  Proof.
    induction row as [|x row IH]; [reflexivity|].
    change (vscale nzero (x :: row)) with (nmul nzero x :: vscale nzero row). rewrite IH.
    change (vzero (length (x :: row)) : vec K) with (nzero :: vzero (length row)). f_equal. ring.
  Qed.

  Lemma mtv_zero n (M : mat K) : rows_len n M -> forall r, mtv n M (vzero r) = vzero n.
  Proof.
    induction 1 as [|row M Hr _ IH]; intros r; [reflexivity|].
    destruct r as [|r]; [reflexivity|].
    change (mtv n (row :: M) (vzero (S r))) with (vadd (vscale nzero row) (mtv n M (vzero r))).
    rewrite IH, vscale_zero, Hr. apply (vadd_zero_l Kring). apply length_vzero.
  Qed.

  Lemma add_nth_zero i : forall ds, add_nth i (vzero (nth i ds 0) : vec K) (map vzero ds) = map vzero ds.
  Proof.
    induction i as [|i IH]; intros [|d ds]; try reflexivity.
    - simpl. f_equal. apply (vadd_zero_l Kring). apply length_vzero.
    - simpl. f_equal. apply IH.
  Qed.

  Lemma fold_adj_zero (L : lin K) bl : Forall (blk_ok L) bl ->
    fold_adj L (map vzero (l_odims L)) bl (map vzero (l_idims L)) = map vzero (l_idims L).
  Proof.
    induction 1 as [|b bl Hb _ IH]; [reflexivity|].
    destruct Hb as [H1 [H2 [H3 H4]]].
    change (fold_adj L (map vzero (l_odims L)) (b :: bl) (map vzero (l_idims L)))
      with (fold_adj L (map vzero (l_odims L)) bl
                     (add_nth (blk_i b) (mtv (nth (blk_i b) (l_idims L) 0) (blk_m b)
                                             (nth (blk_o b) (map vzero (l_odims L)) [])) (map vzero (l_idims L)))).
    replace (nth (blk_o b) (map vzero (l_odims L)) []) with (vzero (nth (blk_o b) (l_odims L) 0) : vec K).
    - rewrite (mtv_zero _ _ H4), add_nth_zero. exact IH.
    - symmetry. rewrite (nth_indep _ [] (vzero 0)) by (rewrite map_length; exact H1).
      apply (map_nth vzero (l_odims L) 0).
  Qed.

  Lemma mask_zeros flags : forall ds, length flags = length ds ->
    Forall2 (fun (d : option (vec K)) n => zeroish n d) (mask flags (map vzero ds)) ds.
  Proof.
    unfold mask. induction flags as [|f flags IH]; intros [|d ds] L; try discriminate; [constructor|].
    simpl. constructor; [destruct f; [left | right]; reflexivity | apply IH; simpl in L; lia].
  Qed.

  Lemma lin_adj_zero (L : lin K) : lin_ok L = true ->
    Forall2 (fun d n => zeroish n d) (lin_adj L (map vzero (l_odims L))) (l_idims L).
  Proof.
    intros Hok. destruct (lin_ok_blocks L Hok) as [Hlen Hbl].
    unfold lin_adj, lin_adj_dense. fold (fold_adj L (map vzero (l_odims L)) (eff_blocks L) (map vzero (l_idims L))).
    rewrite (fold_adj_zero L _ Hbl). apply mask_zeros. exact Hlen.
  Qed.
End ExecProofs.

(* ====================================================================================================
   integer instances: the test modules of tools/checks/C03.py meet the hypotheses *)
Section ExecZ.
  Variable dims : nat -> nat.
  Local Open Scope Z_scope.

  Lemma lin_resp_shapes ins outs (L : lin Z) : linmod_ok dims ins outs L = true ->
    forall xs, map (@length Z) (lin_fwd L xs) = map dims outs.
  Proof.
    unfold linmod_ok. intros Hb xs.
    apply andb_true_iff in Hb as [Hb Ho]. apply andb_true_iff in Hb as [Hb Hi]. apply andb_true_iff in Hb as [Hok Hr].
    apply list_eqb_nat_eq in Ho. destruct (lin_ok_blocks L Hok) as [Hlen Hbl].
    rewrite <- Ho. apply (fold_fwd_shapes L xs (eff_blocks L) Hbl). apply shapes_zeros.
  Qed.

  Lemma lin_sens_shapes ins outs (L : lin Z) : linmod_ok dims ins outs L = true ->
    forall ws, oshapes (lin_adj L ws) (map (ref_dim dims) ins).
  Proof.
    unfold linmod_ok. intros Hb ws.
    apply andb_true_iff in Hb as [Hb Ho]. apply andb_true_iff in Hb as [Hb Hi]. apply andb_true_iff in Hb as [Hok Hr].
    apply list_eqb_nat_eq in Hi. destruct (lin_ok_blocks L Hok) as [Hlen Hbl].
    rewrite <- Hi. apply oshapes_mask; [exact Hlen|].
    apply (fold_adj_shapes L ws (eff_blocks L) Hbl). apply shapes_zeros.
  Qed.

  Lemma lin_sens_zero ins outs (L : lin Z) : linmod_ok dims ins outs L = true ->
    Forall2 (fun d n => zeroish n d) (lin_adj L (map (fun o => vzero (dims o)) outs)) (map (ref_dim dims) ins).
  Proof.
    unfold linmod_ok. intros Hb.
    apply andb_true_iff in Hb as [Hb Ho]. apply andb_true_iff in Hb as [Hb Hi]. apply andb_true_iff in Hb as [Hok Hr].
    apply list_eqb_nat_eq in Hi, Ho. rewrite <- Hi.
    replace (map (fun o => vzero (dims o)) outs) with (map (@vzero Z _) (l_odims L)) by (rewrite Ho, map_map; reflexivity).
    apply (lin_adj_zero Zring_theory). exact Hok.
  Qed.

  Lemma linmod_ok_refs ins outs (L : lin Z) : linmod_ok dims ins outs L = true -> forallb (wt_ref dims) ins = true.
  Proof.
    unfold linmod_ok. intros Hb.
    apply andb_true_iff in Hb as [Hb Ho]. apply andb_true_iff in Hb as [Hb Hi]. apply andb_true_iff in Hb as [Hok Hr].
    exact Hr.
  Qed.

  Theorem lin_h_shaped ins outs (L : lin Z) : linmod_ok dims ins outs L = true -> h_shaped dims (lin_h ins outs L).
  Proof.
    intros Hok. split; [apply (linmod_ok_refs ins outs L Hok)|]. split; [|split].
    - intros mu xs _. apply (lin_resp_shapes ins outs L Hok).
    - intros mu xs ys ws _ _. apply (lin_sens_shapes ins outs L Hok).
    - intros mu xs ys _. apply (lin_sens_zero ins outs L Hok).
  Qed.

  Theorem lin_h_memless ins outs (L : lin Z) : h_memless (lin_h ins outs L).
  Proof. exists (lin_fwd L), (fun _ _ ws => lin_adj L ws). split; reflexivity. Qed.

  (* the user module with a cache is cache-correct; its memoryless counterpart is a block-matrix module *)
  Definition cached_spec (L : lin Z) : cspec zmem :=
    {| c_mu0 := None; c_good := cached_good L; c_f := lin_fwd L; c_g := fun _ _ ws => lin_adj L ws |}.

  Lemma Zll_eqb_eq (a b : list (list Z)) : Zll_eqb a b = true -> a = b.
  Proof.
    apply list_eqb_spec. intros x y. apply list_eqb_spec. intros u v. apply Z.eqb_eq.
  Qed.

  Theorem cached_h_cache_correct ins outs (L : lin Z) : cc (cached_h ins outs L) (cached_spec L).
  Proof.
    split; [exact I|]. split.
    - intros mu last xs G. simpl in *. destruct mu as [[xs0 ys0]|].
      + destruct (Zll_eqb xs0 xs) eqn:E; simpl.
        * apply Zll_eqb_eq in E. subst xs0. split; [exact G | exact G].
        * split; reflexivity.
      + simpl. split; reflexivity.
    - intros mu xs ws _. reflexivity.
  Qed.

  Theorem pure_lin_shaped (h : hmod zmem) (L : lin Z) : linmod_ok dims (h_ins h) (h_outs h) L = true ->
    h_shaped dims (pure_of h (lin_fwd L) (fun _ _ ws => lin_adj L ws)).
  Proof.
    intros Hok. split; [apply (linmod_ok_refs _ _ L Hok)|]. split; [|split].
    - intros mu xs _. apply (lin_resp_shapes _ _ L Hok).
    - intros mu xs ys ws _ _. apply (lin_sens_shapes _ _ L Hok).
    - intros mu xs ys _. apply (lin_sens_zero _ _ L Hok).
  Qed.

  (* elementwise square and product *)
  Lemma shapes1 (xs : list (list Z)) n : shapes xs [n] -> exists x, xs = [x] /\ length x = n.
  Proof.
    unfold shapes. destruct xs as [|x [|y xs]]; simpl; intros [=]. exists x. auto.
  Qed.
  Lemma shapes2 (xs : list (list Z)) n m : shapes xs [n; m] -> exists x y, xs = [x; y] /\ length x = n /\ length y = m.
  Proof.
    unfold shapes. destruct xs as [|x [|y [|z xs]]]; simpl; intros [=]. exists x, y. auto.
  Qed.

  Lemma map_combine_zero (f : Z * Z -> Z) : (forall a, f (a, 0) = 0) -> forall (x : list Z) n, length x = n ->
    map f (combine x (vzero n)) = vzero n.
  Proof.
    intros Hf. induction x as [|a x IH]; intros [|n] E; try discriminate; [reflexivity|].
    change (vzero (S n) : list Z) with (0 :: vzero n). simpl. rewrite Hf, IH by (simpl in E; lia). reflexivity.
  Qed.

  Theorem sq_h_shaped r out : wt_ref dims r = true -> ref_dim dims r = dims out -> h_shaped dims (sq_h r out).
  Proof.
    intros Hr Hd. split; [simpl; rewrite Hr; reflexivity|]. split; [|split].
    - intros mu xs Hxs. destruct (shapes1 _ _ Hxs) as [x [-> Hl]]. simpl. rewrite map_length, Hl, Hd. reflexivity.
    - intros mu xs ys ws Hxs Hws. destruct (shapes1 _ _ Hxs) as [x [-> Hl]]. destruct (shapes1 _ _ Hws) as [w [-> Hw]].
      simpl. constructor; [|constructor]. intros g [= <-]. rewrite map_length, combine_length, Hl, Hw, Hd. apply Nat.min_id.
    - intros mu xs ys Hxs. destruct (shapes1 _ _ Hxs) as [x [-> Hl]]. simpl.
      constructor; [|constructor]. right. f_equal. rewrite <- Hd.
      apply map_combine_zero; [intros a; simpl; lia | exact Hl].
  Qed.

  Theorem mul_h_shaped r1 r2 out : wt_ref dims r1 = true -> wt_ref dims r2 = true ->
    ref_dim dims r1 = dims out -> ref_dim dims r2 = dims out -> h_shaped dims (mul_h r1 r2 out).
  Proof.
    intros Hr1 Hr2 Hd1 Hd2. split; [simpl; rewrite Hr1, Hr2; reflexivity|]. split; [|split].
    - intros mu xs Hxs. destruct (shapes2 _ _ _ Hxs) as [x [y [-> [Hx Hy]]]]. simpl.
      rewrite map_length, combine_length, Hx, Hy, Hd1, Hd2, Nat.min_id. reflexivity.
    - intros mu xs ys ws Hxs Hws. destruct (shapes2 _ _ _ Hxs) as [x [y [-> [Hx Hy]]]].
      destruct (shapes1 _ _ Hws) as [w [-> Hw]]. simpl.
      constructor; [|constructor; [|constructor]]; intros g [= <-]; rewrite map_length, combine_length, ?Hx, ?Hy, Hw, ?Hd1, ?Hd2;
        apply Nat.min_id.
    - intros mu xs ys Hxs. destruct (shapes2 _ _ _ Hxs) as [x [y [-> [Hx Hy]]]]. simpl.
      constructor; [|constructor; [|constructor]]; right; f_equal.
      + rewrite Hd1. apply map_combine_zero; [intros a; simpl; lia | rewrite Hy; exact Hd2].
      + rewrite Hd2. apply map_combine_zero; [intros a; simpl; lia | rewrite Hx; exact Hd1].
  Qed.

  Theorem sq_h_memless r out : h_memless (sq_h r out).
  Proof.
    exists (fun xs => [map (fun a => a * a) (nth 0 xs [])]),
           (fun xs (_ : list (list Z)) ws => [Some (map (fun p => 2 * fst p * snd p) (combine (nth 0 xs []) (nth 0 ws [])))]).
    split; reflexivity.
  Qed.
  Theorem mul_h_memless r1 r2 out : h_memless (mul_h r1 r2 out).
  Proof.
    exists (fun xs => [map (fun p => fst p * snd p) (combine (nth 0 xs []) (nth 1 xs []))]),
           (fun xs (_ : list (list Z)) ws =>
              [Some (map (fun p => fst p * snd p) (combine (nth 1 xs []) (nth 0 ws [])));
               Some (map (fun p => fst p * snd p) (combine (nth 0 xs []) (nth 0 ws [])))]).
    split; reflexivity.
  Qed.
End ExecZ.

(* a memoryless module is trivially cache-correct *)
Lemma memless_cc {K : Type} {M : Type} (h : @hmod K M) f g mu0 :
  memoryless h f g -> cc h {| c_mu0 := mu0; c_good := fun _ _ => True; c_f := f; c_g := g |}.
Proof.
  intros [Hr Hs]. split; [exact I|]. split.
  - intros mu last xs _. simpl. rewrite Hr. split; [exact I | reflexivity].
  - intros mu xs ws _. simpl. rewrite Hs. reflexivity.
Qed.

(* ---- the example of Props/C03.v meets every hypothesis of the history theorem *)
Lemma ex_shaped : Forall (h_shaped (dims_of ex_dims)) ex_mods.
Proof.
  apply Forall_cons; [|apply Forall_cons; [|apply Forall_cons; [|apply Forall_nil]]].
  - apply lin_h_shaped. vm_compute. reflexivity.
  - apply sq_h_shaped; reflexivity.
  - apply lin_h_shaped. vm_compute. reflexivity.
Qed.

Lemma ex_memless : Forall h_memless ex_mods.
Proof.
  apply Forall_cons; [apply lin_h_memless|apply Forall_cons; [apply sq_h_memless|apply Forall_cons; [apply lin_h_memless|apply Forall_nil]]].
Qed.

Lemma ex_admissible :
  admissible_run (keep_of ex_keep) ex_mods (ex_hist ++ [OReset] ++ ex_sets) (start ex_dims ex_keep ex_mods ex_inputs).
Proof.
  cbn [ex_hist ex_sets app admissible_run admissible].
  repeat split; try (vm_compute; reflexivity); try (vm_compute; intuition discriminate).
Qed.

Lemma ex_facts :
  hwf ex_mods = true /\ Forall (h_shaped (dims_of ex_dims)) ex_mods /\ Forall h_memless ex_mods /\
  admissible_run (keep_of ex_keep) ex_mods (ex_hist ++ [OReset] ++ ex_sets) (start ex_dims ex_keep ex_mods ex_inputs) /\
  only_sets ex_sets /\ seeds_shaped (dims_of ex_dims) ex_seeds /\
  observe 5 (run (keep_of ex_keep) ex_mods (ex_hist ++ [OReset] ++ ex_sets ++ fresh_cycle ex_seeds)
                 (start ex_dims ex_keep ex_mods ex_inputs))
  = ([[0; 1; 2]; [1; 1]; [4; -2]; [16; 4]; [15]]%Z,
     [Some [16; 0; 24]; Some [4; 2]; Some [16; 8]; Some [2; -2]; Some [2]]%Z).
Proof.
  split; [vm_compute; reflexivity|]. split; [exact ex_shaped|]. split; [exact ex_memless|].
  split; [exact ex_admissible|]. split; [repeat constructor; eexists _, _; reflexivity|].
  split; [repeat constructor|]. vm_compute. reflexivity.
Qed.

Section LinSolveDetectProofs.
  Context {K : Type} `{NK : Num K}.
  Variable C P : Type.
  Variable cls_of : list K -> C.
  Variable is_cplx : list K -> bool.
  Variable part_of : list K -> P.
  Variable solve_with : C -> P -> list K -> bool -> list K -> list K.
  Variable dmat_of : bool -> list K -> list K -> list K.
  Variable db_of : list K -> list K -> list K.

  (* after the detections of a response on A the module holds the value kind and the partition of A, whatever it held *)
  Lemma det_update_current s A :
    d_cplx C P (det_update C P cls_of is_cplx part_of s A) = is_cplx A /\
    d_part C P (det_update C P cls_of is_cplx part_of s A) = Some (part_of A).
  Proof. split; reflexivity. Qed.

  (* ONE module fed A_1, A_2, ... from ANY earlier state: what it holds after the k-th response is what a fresh module
     holds after a response on A_k only -- no bound on the number of matrices, any order of kinds and patterns *)
  Theorem det_trace_fresh As : forall s,
    det_trace C P cls_of is_cplx part_of s As = map (fun A => (is_cplx A, Some (part_of A))) As.
  Proof.
    induction As as [|A As IH]; intros s; [reflexivity|].
    cbn [det_trace map]. rewrite IH. reflexivity.
  Qed.

  (* "the matrix class is constant within a history" (agreed scope; C03_linsolve_class_change_refuted shows why) *)
  Variable c0 : C.
  Hypothesis same_class : forall A, cls_of A = c0.

  Theorem det_linsolve_cache_correct ins out :
    cache_correct (det_linsolve_h C P cls_of is_cplx part_of solve_with dmat_of db_of ins out) (d_init C P)
                  (det_good C P is_cplx part_of solve_with c0)
                  (det_f C P cls_of part_of solve_with)
                  (det_g C P cls_of is_cplx part_of solve_with dmat_of db_of).
  Proof.
    split; [split; [left; reflexivity | exact I]|]. split.
    - intros mu last xs [Hc _].
      assert (E : d_cls C P (det_update C P cls_of is_cplx part_of mu (nth 0 xs [])) = Some c0).
      { unfold det_update. cbn [d_cls]. destruct Hc as [Hc|Hc]; rewrite Hc; [rewrite same_class|]; reflexivity. }
      cbn [det_linsolve_h h_resp fst snd det_good det_f d_cls d_cplx d_part d_u].
      unfold det_solve. rewrite E. cbn [det_update d_part d_cplx].
      unfold det_f, det_good. cbn [d_cls d_cplx d_part d_u]. rewrite same_class.
      split; [|reflexivity].
      split; [right; reflexivity|]. repeat split; reflexivity.
    - intros mu xs ws [_ [G1 [G2 [G3 G4]]]].
      cbn [det_linsolve_h h_sens]. unfold det_g, det_f, det_solve. cbn [nth].
      rewrite G1, G2, G3, G4, same_class. reflexivity.
  Qed.
End LinSolveDetectProofs.

(* non-vacuity of the detection model on tags: a real matrix whose dof 0 is decoupled, then a complex fully coupled one
   of the same shape, then a real one whose dof 2 is decoupled: every entry names the kind and partition of the current
   matrix *)
Lemma detections_nonvacuous :
  tag_det_trace [[0; 3;  1;0;0; 0;1;1; 0;1;1]; [1; 3;  1;1;0; 1;1;1; 0;1;1]; [0; 3;  1;1;0; 1;1;0; 0;0;1]]%Z
  = [[0; 0]; [1]; [0; 2]]%Z.
Proof. vm_compute; reflexivity. Qed.

(* the class flag cached from the first (symmetric) matrix makes the second (non-symmetric) solve wrong *)
Lemma memories_nonvacuous :
  tag_adj_trace 3 [None; Some [true; false; false]; None; Some [false; true; true]; Some [true; false; false]]
  = [[Some [1; 0]; None; None]; [Some [1; 0]; Some [2; 1]; Some [2; 2]]; [Some [2; 0]; Some [2; 1]; Some [2; 2]]]%Z /\
  tag_answers [[1; 1]; [2; 0]; [3; 1]]%Z = [[1]; [1]; [2]; [2]; [3]; [3]]%Z.
Proof. split; vm_compute; reflexivity. Qed.

Lemma class_change_counterexample :
  s_st (run (fun _ => false) [flagged_linsolve_h] cls_hist cls_start) 2 = [3; 1]%Z /\
  s_st (run (fun _ => false) [flagged_linsolve_h] cls_fresh cls_start) 2 = [1; 1]%Z.
Proof. split; vm_compute; reflexivity. Qed.
