(* C17: an explicit bound on the volume gap left by the bisection of minimize_oc (real-number instance of Model/OC.v).
   The update entry  clip(x * sqrt(-g/lam), lo, hi)  with lo, hi >= 0 satisfies  entry(a) <= sqrt(b/a) * entry(b)
   for 0 < a <= b, so the volume at the lower end of the final bisection interval is at most sqrt(b/a) times the volume
   at its upper end; with vol(b) <= maxvol < vol(a) the volume of the new design differs from maxvol by at most
   (sqrt(b/a) - 1) * maxvol <= (sqrt(1 + l1l2tol/a) - 1) * maxvol. *)
From Coq Require Import ZArith List Bool Reals Lra Lia.
From Pymoto Require Import Model.Concat Model.OC Proofs.OCP.
Import ListNotations.
Open Scope R_scope.

Lemma oclip_scale_le a a' lo hi r : 1 <= r -> 0 <= lo -> 0 <= hi -> a <= r * a' ->
  oclipR a lo hi <= r * oclipR a' lo hi.
Proof.
  intros Hr Hlo Hhi Ha. unfold oclip.
  destruct (omax_spec a lo) as [[M1 M2] M3]. destruct (omax_spec a' lo) as [[N1 N2] N3].
  set (m := omaxR a lo) in *. set (m' := omaxR a' lo) in *.
  assert (Hm' : 0 <= m') by lra.
  assert (Hmm : m <= r * m').
  { assert (0 <= (r - 1) * m') by (apply Rmult_le_pos; lra).
    assert (r * a' <= r * m') by (apply Rmult_le_compat_l; lra).
    destruct M3 as [-> | ->]; lra. }
  destruct (omin_spec m hi) as [[P1 P2] _]. destruct (omin_spec m' hi) as [_ [Q | Q]]; rewrite Q.
  - lra.
  - assert (0 <= (r - 1) * hi) by (apply Rmult_le_pos; lra). lra.
Qed.

Lemma ratio_ge_1 a b : 0 < a <= b -> 1 <= b / a.
Proof.
  intros [Ha Hab]. apply Rmult_le_reg_r with a; [exact Ha|]. unfold Rdiv.
  rewrite Rmult_assoc, Rinv_l by lra. lra.
Qed.

Lemma sqrt_ratio_ge_1 a b : 0 < a <= b -> 1 <= sqrt (b / a).
Proof. intros H. rewrite <- sqrt_1 at 1. apply sqrt_le_1_alt. apply ratio_ge_1; exact H. Qed.

Theorem oc_elem_ratio a b mv xmn xmx x g : 0 < a <= b -> 0 <= x -> g <= 0 ->
  0 <= omaxR xmn (x - mv) -> 0 <= ominR xmx (x + mv) ->
  oc_elem ROOps a mv xmn xmx x g <= sqrt (b / a) * oc_elem ROOps b mv xmn xmx x g.
Proof.
  intros Hab Hx Hg Hlo Hhi. unfold oc_elem. cbn [omul osqrt odiv oopp osub oadd ROOps] in *.
  apply oclip_scale_le; [apply sqrt_ratio_ge_1; exact Hab | exact Hlo | exact Hhi |].
  assert (Hba : 0 <= b / a) by (pose proof (ratio_ge_1 a b Hab); lra).
  assert (Hgb : 0 <= - g / b).
  { unfold Rdiv. apply Rmult_le_pos; [lra|]. left. apply Rinv_0_lt_compat. lra. }
  assert (E : - g / a = b / a * (- g / b)) by (field; lra).
  rewrite E, sqrt_mult by assumption. right. ring.
Qed.

Lemma osum_le_scale r (u v : list R) : length u = length v ->
  (forall j, (j < length u)%nat -> nth j u 0 <= r * nth j v 0) -> osum ROOps u <= r * osum ROOps v.
Proof.
  revert v. induction u as [|p u IH]; intros [|q v] Hl H; cbn in Hl; try lia.
  - unfold osum. cbn. lra.
  - rewrite !osum_cons. pose proof (H 0%nat ltac:(cbn; lia)) as H0. cbn in H0.
    assert (osum ROOps u <= r * osum ROOps v).
    { apply IH; [lia|]. intros j Hj. apply (H (S j)). cbn. lia. }
    lra.
Qed.

Definition bmin_nonneg (pr : @oc_params R) (n : nat) : Prop := forall j, (j < n)%nat -> 0 <= bget ROOps (bmin pr) j.

(* the volume at a smaller multiplier exceeds the volume at a larger one by at most the factor sqrt(b/a) *)
Theorem volume_ratio pr a b (x g : list R) : 0 < a <= b -> in_box pr x -> 0 <= move pr -> nonneg x -> nonpos g ->
  length g = length x -> bmin_nonneg pr (length x) ->
  osum ROOps (oc_xnew ROOps pr a x g) <= sqrt (b / a) * osum ROOps (oc_xnew ROOps pr b x g).
Proof.
  intros Hab Hb Hm Hx Hg Hlen Hmin. apply osum_le_scale.
  - rewrite !oc_xnew_length by exact Hlen. reflexivity.
  - intros j Hj. rewrite oc_xnew_length in Hj by exact Hlen. rewrite !oc_xnew_nth by assumption.
    pose proof (Hb j Hj) as Hbj. pose proof (Hx j Hj) as Hxj. pose proof (Hmin j Hj) as Hmj.
    apply oc_elem_ratio; [exact Hab | exact Hxj | apply Hg; lia | |].
    + destruct (omax_spec (bget ROOps (bmin pr) j) (nth j x 0 - move pr)) as [[M1 _] _]. lra.
    + destruct (omin_spec (bget ROOps (bmax pr) j) (nth j x 0 + move pr)) as [_ [-> | ->]]; lra.
Qed.

(* one OC step: the volume of the new design equals the target up to the relative gap sqrt(b/a) - 1 of the final
   bisection interval [a, b], which is at most sqrt(1 + l1l2tol/a) - 1 *)
Theorem oc_step_volume_gap (pr : @oc_params R) maxvol (x g : list R) gfuel bfuel l2g xng a b xnew :
  in_box pr x -> 0 <= move pr -> nonneg x -> nonpos g -> length g = length x -> bmin_nonneg pr (length x) ->
  0 <= l1l2tol pr -> 0 <= l1init pr <= l2init pr ->
  grow ROOps pr maxvol x g gfuel (l2init pr) (oc_xnew ROOps pr (l2init pr) x g) = GrowDone l2g xng ->
  bisect ROOps pr maxvol x g bfuel (l1init pr) l2g (Some xng) = BisDone a b (Some xnew) ->
  osum ROOps (oc_lower ROOps pr x) <= maxvol -> l2g < 10 ^ 40 -> a <> l1init pr ->
  0 < a /\ Rabs (osum ROOps xnew - maxvol) <= (sqrt (b / a) - 1) * maxvol /\
  sqrt (b / a) <= sqrt (1 + l1l2tol pr / a).
Proof.
  intros Hb Hm Hx Hg Hlen Hmin Htol H0 Eg Eb Hreach Hh Ha.
  destruct (oc_step_volume pr maxvol x g gfuel bfuel l2g xng a b xnew Hb Hm Hx Hg Hlen Htol H0 Eg Eb Hreach Hh Ha)
    as [[Q1 Q2] [Q3 [_ [[Q4 Q5] [_ Q6]]]]].
  assert (Hapos : 0 < a) by lra.
  pose proof (volume_ratio pr a b x g (conj Hapos Q2) Hb Hm Hx Hg Hlen Hmin) as Hr.
  pose proof (sqrt_ratio_ge_1 a b (conj Hapos Q2)) as Hr1.
  set (va := osum ROOps (oc_xnew ROOps pr a x g)) in *. set (vb := osum ROOps (oc_xnew ROOps pr b x g)) in *.
  set (r := sqrt (b / a)) in *.
  split; [exact Hapos|]. split.
  - assert ((r - 1) * vb <= (r - 1) * maxvol) by (apply Rmult_le_compat_l; lra). lra.
  - apply sqrt_le_1_alt. assert (Hi : 0 < / a) by (apply Rinv_0_lt_compat; exact Hapos).
    assert (E : 1 + l1l2tol pr / a = (a + l1l2tol pr) * / a) by (field; lra). rewrite E. unfold Rdiv.
    apply Rmult_le_compat_r; lra.
Qed.

Lemma c17b_nonvacuous :
  let pr := @mkParams R 0 0 1%nat (BScalar 0) (BScalar 1) (1 / 5) 0 100000 (1 / 10000) 0 in
  0 < 1 <= 4 /\ in_box pr [1 / 2] /\ 0 <= move pr /\ nonneg [1 / 2] /\ nonpos [-1] /\ bmin_nonneg pr 1 /\
  0 <= l1l2tol pr /\ 0 <= l1init pr <= l2init pr.
Proof.
  cbv zeta. unfold in_box, nonneg, nonpos, bmin_nonneg. cbn [move l1l2tol l1init l2init bmin bmax bget length].
  assert (T : forall k : nat, (S k < 1)%nat -> False) by (intros k Hk; lia).
  split; [lra|]. split; [intros [|k] Hk; [cbn; lra | destruct (T k Hk)]|]. split; [lra|].
  split; [intros [|k] Hk; [cbn; lra | destruct (T k Hk)]|]. split; [intros [|k] Hk; [cbn; lra | destruct (T k Hk)]|].
  split; [intros [|k] Hk; [cbn; lra | destruct (T k Hk)]|]. split; lra.
Qed.
