(* Lemmas about Model/OverhangAdj.v (OverhangFilter._sensitivity):
   (A) over any commutative ring, for arbitrary factor functions and arbitrary stored arrays, the reverse sweep is the
       exact adjoint (transpose) of the tangent sweep:  <w, tangent v> = <sensitivity w, v>;
   (B) over R, with the smooth min / max of Model/Overhang.v and the partial derivatives as the code computes them, the
       tangent sweep is the directional derivative of the response sweep (chain rule, induction over the layers);
   (C) together: <sensitivity w, v> is the derivative of t |-> <w, response (x + t v)> at t = 0.                       *)
From Coq Require Import ZArith QArith List Bool Lia Ring Permutation Reals Psatz.
From Pymoto Require Import Base.Num Model.Grid Model.Overhang Model.OverhangAdj Proofs.GridP Proofs.OverhangP.
Import ListNotations.
Open Scope Z_scope.

(* ---------------------------------------------------------------------------------------------- *)
(* lists                                                                                            *)
Lemma NoDup_app_intro {A} (l l' : list A) : NoDup l -> NoDup l' -> (forall x, In x l -> ~ In x l') -> NoDup (l ++ l').
Proof.
  induction l as [|a l IH]; intros Hl Hl' Hd; cbn; auto.
  inversion Hl as [|? ? Hna Hl0]; subst. constructor.
  - rewrite in_app_iff. intros [Hi | Hi]; [auto | apply (Hd a); cbn; auto].
  - apply IH; auto. intros x Hx. apply Hd. right; auto.
Qed.

Lemma NoDup_map_inj_in {A B} (f : A -> B) l :
  (forall x y, In x l -> In y l -> f x = f y -> x = y) -> NoDup l -> NoDup (map f l).
Proof.
  induction l as [|a l IH]; intros Hinj Hl; cbn; [constructor|].
  inversion Hl as [|? ? Hna Hl0]; subst. constructor.
  - rewrite in_map_iff. intros (y & E & Hy). apply Hna. rewrite (Hinj a y); cbn; auto.
  - apply IH; auto. intros x y Hx Hy. apply Hinj; right; auto.
Qed.

Lemma zrange_NoDup n : NoDup (zrange n).
Proof.
  unfold zrange. apply NoDup_map_inj_in; [|apply seq_NoDup]. intros x y _ _ E. lia.
Qed.

Lemma entire_layer_NoDup m1 m2 : NoDup (entire_layer m1 m2).
Proof.
  unfold entire_layer. generalize (zrange_NoDup m1). generalize (zrange m1) as la.
  induction la as [|a la IH]; intros Hla; cbn; [constructor|].
  inversion Hla as [|? ? Hna Hla0]; subst. apply NoDup_app_intro; auto.
  - apply NoDup_map_inj_in; [|apply zrange_NoDup]. intros x y _ _ E. congruence.
  - intros (u, w) Hin Hin2. apply in_map_iff in Hin as (b & E & _). inversion E; subst.
    apply in_flat_map in Hin2 as (a' & Ha' & Hin2). apply in_map_iff in Hin2 as (b' & E' & _). inversion E'; subst. auto.
Qed.

(* ---------------------------------------------------------------------------------------------- *)
(* sums and dot products over a commutative ring                                                    *)
Section RingLemmas.
  Context {K : Type} `{Num K}.
  Hypothesis Rth : ring_theory (@nzero K _) none_ nadd nmul nsub nopp (@eq K).
  Add Ring KringOvhA : Rth.
  Infix "+'" := nadd (at level 50, left associativity).
  Infix "*'" := nmul (at level 40, left associativity).
  Notation "0'" := nzero.

  Lemma nsum_map_cons {A} (f : A -> K) a l : nsum (map f (a :: l)) = f a +' nsum (map f l).
  Proof. reflexivity. Qed.

  Lemma nsum_map_ext {A} (f h : A -> K) l : (forall a, In a l -> f a = h a) -> nsum (map f l) = nsum (map h l).
  Proof. intros E. f_equal. apply map_ext_in. exact E. Qed.

  Lemma nsum_map_nil {A} (f : A -> K) : nsum (map f []) = 0'.
  Proof. reflexivity. Qed.

  Lemma nsum_map_add {A} (f h : A -> K) l : nsum (map (fun a => f a +' h a) l) = nsum (map f l) +' nsum (map h l).
  Proof. induction l as [|a l IH]; rewrite ?nsum_map_nil, ?nsum_map_cons; [ring|]. rewrite IH. ring. Qed.

  Lemma nsum_map_mul_l {A} c (f : A -> K) l : c *' nsum (map f l) = nsum (map (fun a => c *' f a) l).
  Proof. induction l as [|a l IH]; rewrite ?nsum_map_nil, ?nsum_map_cons; [ring|]. rewrite <- IH. ring. Qed.

  Lemma nsum_map_zero {A} (f : A -> K) l : (forall a, In a l -> f a = 0') -> nsum (map f l) = 0'.
  Proof.
    induction l as [|a l IH]; intros E; rewrite ?nsum_map_nil, ?nsum_map_cons; [reflexivity|].
    rewrite IH by (intros; apply E; right; auto). rewrite E by (left; auto). ring.
  Qed.

  Lemma nsum_filter {A} (phi : A -> bool) (f : A -> K) l :
    nsum (map f (filter phi l)) = nsum (map (fun a => if phi a then f a else 0') l).
  Proof.
    induction l as [|a l IH]; cbn [filter]; [reflexivity|].
    rewrite (nsum_map_cons (fun a => if phi a then f a else 0')). rewrite <- IH.
    destruct (phi a); rewrite ?nsum_map_cons; [reflexivity | ring].
  Qed.

  Lemma nsum_swap {A B} (f : A -> B -> K) la lb :
    nsum (map (fun a => nsum (map (fun b => f a b) lb)) la) = nsum (map (fun b => nsum (map (fun a => f a b) la)) lb).
  Proof.
    induction la as [|a la IH].
    - rewrite nsum_map_nil. symmetry. apply nsum_map_zero. reflexivity.
    - rewrite nsum_map_cons, IH. rewrite <- nsum_map_add. apply nsum_map_ext. intros b _. rewrite nsum_map_cons. reflexivity.
  Qed.

  (* sum over p of the sum over the o allowed for p  =  sum over o of the sum over the p for which o is allowed *)
  Lemma nsum_swap_filter {A B} (phi : A -> B -> bool) (f : A -> B -> K) la lb :
    nsum (map (fun a => nsum (map (fun b => f a b) (filter (phi a) lb))) la) =
    nsum (map (fun b => nsum (map (fun a => f a b) (filter (fun a => phi a b) la))) lb).
  Proof.
    rewrite (nsum_map_ext _ (fun a => nsum (map (fun b => if phi a b then f a b else 0') lb))) by (intros; apply nsum_filter).
    rewrite nsum_swap. apply nsum_map_ext. intros b _. symmetry. apply (nsum_filter (fun a => phi a b) (fun a => f a b)).
  Qed.

  Lemma dot_cons2 a b (x y : list K) : dot (a :: x) (b :: y) = a *' b +' dot x y.
  Proof. reflexivity. Qed.

  Lemma dot_comm (a b : list K) : dot a b = dot b a.
  Proof.
    revert b; induction a as [|x a IH]; intros [|y b]; try reflexivity. rewrite !dot_cons2, IH. ring.
  Qed.

  Lemma dot_zeros_l n (b : list K) : dot (vzero n) b = 0'.
  Proof.
    revert b; induction n as [|n IH]; intros [|y b]; try reflexivity.
    unfold vzero; cbn [repeat]. rewrite dot_cons2. fold (@vzero K _ n). rewrite IH. ring.
  Qed.

  Lemma nth_zeros n i : nth i (@vzero K _ n) 0' = 0'.
  Proof. unfold vzero. revert i; induction n as [|n IH]; intros [|i]; cbn; auto. Qed.

  (* xs[i] = y against a fixed vector *)
  Lemma dot_upd_l (xs b : list K) i y : (i < length xs)%nat -> length xs = length b ->
    dot (upd xs i y) b +' nth i xs 0' *' nth i b 0' = dot xs b +' y *' nth i b 0'.
  Proof.
    revert b i; induction xs as [|x xs IH]; intros [|c b] [|i] Hi Hl; cbn in Hi, Hl; try lia.
    - cbn [upd nth]. rewrite !dot_cons2. ring.
    - cbn [upd nth]. rewrite !dot_cons2.
      assert (E := IH b i ltac:(lia) ltac:(lia)).
      transitivity (x *' c +' (dot (upd xs i y) b +' nth i xs 0' *' nth i b 0')); [ring|]. rewrite E. ring.
  Qed.

  (* numpy  xs[keys] = vals  with distinct keys, measured against a fixed vector b *)
  Lemma scatter_dot_l {P} (key : P -> Z) (val : P -> K) ps (xs b : list K) :
    NoDup (map key ps) -> (forall p, In p ps -> 0 <= key p < Z.of_nat (length xs)) -> length xs = length b ->
    dot (scatter_by key val ps xs) b +' nsum (map (fun p => gk xs (key p) *' gk b (key p)) ps) =
    dot xs b +' nsum (map (fun p => val p *' gk b (key p)) ps).
  Proof.
    revert xs. induction ps as [|q r IH]; intros xs Hnd Hr Hl.
    - cbn. reflexivity.
    - change (scatter_by key val (q :: r) xs) with (scatter_by key val r (upd xs (Z.to_nat (key q)) (val q))).
      cbn [map] in Hnd. inversion Hnd as [|? ? Hnq Hnd0]; subst.
      rewrite !nsum_map_cons.
      assert (Hq := Hr q (or_introl eq_refl)).
      assert (E := IH (upd xs (Z.to_nat (key q)) (val q)) Hnd0).
      rewrite upd_length in E. specialize (E (fun p Hp => Hr p (or_intror Hp)) Hl).
      rewrite (nsum_map_ext (fun p => gk (upd xs (Z.to_nat (key q)) (val q)) (key p) *' gk b (key p))
                            (fun p => gk xs (key p) *' gk b (key p))) in E.
      2:{ intros p Hp. f_equal. unfold gk, getT. apply nth_upd_other.
          assert (Hp' := Hr p (or_intror Hp)). intros C. apply Hnq. apply in_map_iff. exists p. split; auto. lia. }
      assert (E2 := dot_upd_l xs b (Z.to_nat (key q)) (val q) ltac:(lia) Hl).
      unfold gk, getT in *.
      set (D1 := dot (scatter_by key val r (upd xs (Z.to_nat (key q)) (val q))) b) in *.
      set (D2 := dot (upd xs (Z.to_nat (key q)) (val q)) b) in *.
      set (S1 := nsum (map (fun p => nth (Z.to_nat (key p)) xs 0' *' nth (Z.to_nat (key p)) b 0') r)) in *.
      set (S2 := nsum (map (fun p => val p *' nth (Z.to_nat (key p)) b 0') r)) in *.
      set (a1 := nth (Z.to_nat (key q)) xs 0') in *. set (b1 := nth (Z.to_nat (key q)) b 0') in *.
      transitivity ((D1 +' S1) +' a1 *' b1); [ring|]. rewrite E.
      transitivity ((D2 +' a1 *' b1) +' S2); [ring|]. rewrite E2. ring.
  Qed.

  Lemma scatter_dot_r {P} (key : P -> Z) (val : P -> K) ps (xs b : list K) :
    NoDup (map key ps) -> (forall p, In p ps -> 0 <= key p < Z.of_nat (length xs)) -> length xs = length b ->
    dot b (scatter_by key val ps xs) +' nsum (map (fun p => gk b (key p) *' gk xs (key p)) ps) =
    dot b xs +' nsum (map (fun p => gk b (key p) *' val p) ps).
  Proof.
    intros Hnd Hr Hl. rewrite (dot_comm b), (dot_comm b xs).
    rewrite (nsum_map_ext (fun p => gk b (key p) *' gk xs (key p)) (fun p => gk xs (key p) *' gk b (key p))) by (intros; ring).
    rewrite (nsum_map_ext (fun p => gk b (key p) *' val p) (fun p => val p *' gk b (key p))) by (intros; ring).
    apply scatter_dot_l; auto.
  Qed.

  (* numpy  xs[keys] += a  (gather, add, scatter; distinct keys) *)
  Lemma scatter_add_dot {P} (key : P -> Z) (a : P -> K) ps (xs b : list K) :
    NoDup (map key ps) -> (forall p, In p ps -> 0 <= key p < Z.of_nat (length xs)) -> length xs = length b ->
    dot (scatter_by key (fun p => gk xs (key p) +' a p) ps xs) b = dot xs b +' nsum (map (fun p => a p *' gk b (key p)) ps).
  Proof.
    intros Hnd Hr Hl. assert (E := scatter_dot_l key (fun p => gk xs (key p) +' a p) ps xs b Hnd Hr Hl).
    cbv beta in E.
    rewrite (nsum_map_ext (fun p => (gk xs (key p) +' a p) *' gk b (key p))
                          (fun p => gk xs (key p) *' gk b (key p) +' a p *' gk b (key p))) in E by (intros; ring).
    rewrite nsum_map_add in E.
    set (D := dot (scatter_by key (fun p => gk xs (key p) +' a p) ps xs) b) in *.
    set (S0 := nsum (map (fun p => gk xs (key p) *' gk b (key p)) ps)) in *.
    set (S1 := nsum (map (fun p => a p *' gk b (key p)) ps)) in *.
    assert (E' : D +' S0 +' (nopp S0) = dot xs b +' (S0 +' S1) +' (nopp S0)) by (rewrite E; reflexivity).
    transitivity (D +' S0 +' nopp S0); [ring|]. rewrite E'. ring.
  Qed.
End RingLemmas.

(* ---------------------------------------------------------------------------------------------- *)
(* element numbers of the layered coordinates                                                       *)
Section KeyFacts.
  Variables (g : grid) (dl dx : Z).
  Hypothesis Hwf : wf g.
  Hypothesis Hdl : 0 <= dl <= 2.
  Hypothesis Hdx : dx = 1 \/ dx = -1.

  Definition inl (p : Z * Z) : Prop := 0 <= fst p < n1 g dl /\ 0 <= snd p < n2 g dl.

  Lemma in_layer_iff p : In p (layer g dl) <-> inl p.
  Proof. destruct p as (a, b). unfold layer, inl. apply in_entire_layer. Qed.

  Lemma in_layer_b p : in_layer g dl p = true <-> inl p.
  Proof. unfold in_layer, inl. apply inside_iff. Qed.

  Lemma nlay_pos : 1 <= nlay g dl.
  Proof.
    destruct Hwf as (Hx & Hy & Hz). pose proof (nz1_pos g Hwf). unfold nlay, zth, size3.
    assert (dl = 0 \/ dl = 1 \/ dl = 2) as [-> | [-> | ->]] by lia; simpl; lia.
  Qed.

  Lemma lkey_range L p : 0 <= L < nlay g dl -> inl p -> 0 <= lkey g dl L p < nel g.
  Proof.
    intros HL (Ha & Hb). unfold lkey. apply (elnum3_range g dl (o1 g dl) (o2 g dl)); auto.
    - apply dir_orth_valid; auto.
    - split; [exact HL | split; auto].
  Qed.

  Lemma lkey_inj L p L' p' : 0 <= L < nlay g dl -> 0 <= L' < nlay g dl -> inl p -> inl p' ->
    lkey g dl L p = lkey g dl L' p' -> L = L' /\ p = p'.
  Proof.
    intros HL HL' (Ha & Hb) (Ha' & Hb') E. unfold lkey in E.
    apply (elnum3_inj g dl (o1 g dl) (o2 g dl)) in E as (E1 & E2 & E3); auto.
    - split; auto. destruct p, p'; cbn in *; congruence.
    - apply dir_orth_valid; auto.
    - split; [exact HL | split; auto].
    - split; [exact HL' | split; auto].
  Qed.

  Lemma lkey_surj e : 0 <= e < nel g -> exists L p, 0 <= L < nlay g dl /\ inl p /\ lkey g dl L p = e.
  Proof.
    intros He. destruct (elnum3_surj g dl (o1 g dl) (o2 g dl) e Hwf (dir_orth_valid g dl Hdl) He) as (L & a & b & (HL & Ha & Hb) & E).
    exists L, (a, b). split; [exact HL|]. split; [split; assumption | exact E].
  Qed.

  Lemma physr l : 0 <= l < nlay g dl -> 0 <= phys g dl dx l < nlay g dl.
  Proof. intros Hl. unfold phys. dxsplit Hdx; lia. Qed.
  Lemma phys_eq l l' : phys g dl dx l = phys g dl dx l' -> l = l'.
  Proof. unfold phys. destruct (dx >=? 0); lia. Qed.
  Lemma phys_pred l : phys g dl dx l - dx = phys g dl dx (l - 1).
  Proof. unfold phys. dxsplit Hdx; lia. Qed.
  Lemma phys_succ l : phys g dl dx l + dx = phys g dl dx (l + 1).
  Proof. unfold phys. dxsplit Hdx; lia. Qed.

  Lemma layer_keys_NoDup L : 0 <= L < nlay g dl -> NoDup (map (lkey g dl L) (layer g dl)).
  Proof.
    intros HL. apply NoDup_map_inj_in; [|apply entire_layer_NoDup].
    intros p q Hp Hq E. apply in_layer_iff in Hp, Hq. apply (lkey_inj L p L q) in E; tauto.
  Qed.

  Lemma padd_inj p q o : padd p o = padd q o -> p = q.
  Proof. destruct p, q, o. unfold padd; cbn. intros E. inversion E. f_equal; lia. Qed.

  Lemma shifted_keys_NoDup L o : 0 <= L < nlay g dl ->
    NoDup (map (fun p => lkey g dl L (padd p o)) (filter (fun p => in_layer g dl (padd p o)) (layer g dl))).
  Proof.
    intros HL. apply NoDup_map_inj_in; [|apply NoDup_filter, entire_layer_NoDup].
    intros p q Hp Hq E. apply filter_In in Hp as (_ & Hp), Hq as (_ & Hq). apply in_layer_b in Hp, Hq.
    apply (lkey_inj L _ L _) in E; auto. apply (padd_inj p q o). tauto.
  Qed.

  (* the physical layer numbers of the layers t, t+1, ..., t+n-1 counted from the base plate *)
  Fixpoint lays (t n : nat) : list Z :=
    match n with O => [] | S m => phys g dl dx (Z.of_nat t) :: lays (S t) m end.

  Lemma lays_snoc t n : lays t (S n) = lays t n ++ [phys g dl dx (Z.of_nat (t + n))].
  Proof.
    revert t; induction n as [|n IH]; intros t.
    - cbn. rewrite Nat.add_0_r. reflexivity.
    - change (lays t (S (S n))) with (phys g dl dx (Z.of_nat t) :: lays (S t) (S n)). rewrite IH.
      cbn. replace (t + S n)%nat with (S (t + n)) by lia. reflexivity.
  Qed.

  (* the loop of _response visits the layers 1, 2, ..., nlay-1 (counted from the base plate) in this order *)
  Lemma up_loop_unroll {St : Type} (step : St -> Z -> St) fuel : forall (t : nat) st,
    (1 <= t)%nat -> Z.of_nat t <= nlay g dl -> nlay g dl - Z.of_nat t <= Z.of_nat fuel ->
    up_loop step (nlay g dl) dx fuel st (phys g dl dx (Z.of_nat t)) =
    fold_left step (lays t (Z.to_nat (nlay g dl - Z.of_nat t))) st.
  Proof.
    induction fuel as [|f IH]; intros t st Ht1 Ht Hf.
    - cbn [up_loop]. replace (Z.to_nat (nlay g dl - Z.of_nat t)) with O by lia. reflexivity.
    - cbn [up_loop].
      assert (Etest : ((0 <=? phys g dl dx (Z.of_nat t)) && (phys g dl dx (Z.of_nat t) <? nlay g dl)) = (Z.of_nat t <=? nlay g dl - 1)).
      { unfold phys. dxsplit Hdx;
        destruct (Z.of_nat t <=? nlay g dl - 1) eqn:E; rewrite ?andb_true_iff, ?andb_false_iff, ?Z.leb_le, ?Z.leb_gt, ?Z.ltb_lt, ?Z.ltb_ge in *; lia. }
      rewrite Etest. destruct (Z.of_nat t <=? nlay g dl - 1) eqn:E.
      + apply Z.leb_le in E. rewrite phys_succ. replace (Z.of_nat t + 1) with (Z.of_nat (S t)) by lia.
        rewrite IH by lia.
        replace (Z.to_nat (nlay g dl - Z.of_nat t)) with (S (Z.to_nat (nlay g dl - Z.of_nat (S t)))) by lia.
        reflexivity.
      + apply Z.leb_gt in E. replace (Z.to_nat (nlay g dl - Z.of_nat t)) with O by lia. reflexivity.
  Qed.

  Lemma ind_start_phys : ind_start g dl dx = phys g dl dx (Z.of_nat 1).
  Proof. unfold ind_start, phys. dxsplit Hdx; lia. Qed.

  Lemma up_loop_layers {St : Type} (step : St -> Z -> St) st :
    up_loop step (nlay g dl) dx (Z.to_nat (nlay g dl)) st (ind_start g dl dx) =
    fold_left step (lays 1 (Z.to_nat (nlay g dl - 1))) st.
  Proof.
    pose proof nlay_pos. rewrite ind_start_phys, up_loop_unroll by lia. reflexivity.
  Qed.

  Lemma list_eq_get {K : Type} (d : K) (a b : list K) : Z.of_nat (length a) = nel g -> length b = length a ->
    (forall L p, 0 <= L < nlay g dl -> inl p -> getT d a (lkey g dl L p) = getT d b (lkey g dl L p)) -> a = b.
  Proof.
    intros Ha Hb E. apply (nth_ext a b d d); [auto|].
    intros i Hi. destruct (lkey_surj (Z.of_nat i) ltac:(lia)) as (L & p & HL & Hp & Ek).
    specialize (E L p HL Hp). rewrite Ek in E. unfold getT in E. rewrite Nat2Z.id in E. exact E.
  Qed.
End KeyFacts.

(* ---------------------------------------------------------------------------------------------- *)
(* (A) the reverse sweep is the adjoint of the tangent sweep                                        *)
Section AlgebraicAdjoint.
  Context {K : Type} `{Num K}.
  Hypothesis Rth : ring_theory (@nzero K _) none_ nadd nmul nsub nopp (@eq K).
  Add Ring KringOvhB : Rth.
  Infix "+'" := nadd (at level 50, left associativity).
  Infix "*'" := nmul (at level 40, left associativity).
  Notation "0'" := nzero.

  Variables dmin_x dmin_s dmax : K -> K -> K.
  Variables (g : grid) (dl dx nsamp : Z).
  Hypothesis Hwf : wf g.
  Hypothesis Hdl : 0 <= dl <= 2.
  Hypothesis Hdx : dx = 1 \/ dx = -1.
  Variables x yp sm : list K.                 (* input, printed densities, stored smooth maxima: ANY arrays *)
  Variable v : list K.
  Hypothesis Hv : Z.of_nat (length v) = nel g.

  Let NL := nlay g dl.
  Let lay := layer g dl.
  Let offs := layer_offsets nsamp.
  Let key := lkey g dl.
  Let ph := phys g dl dx.
  Let okp := fun (p o : Z * Z) => in_layer g dl (padd p o).
  Let tstep := tangent_step dmin_x dmin_s dmax g dl dx nsamp x yp sm v.
  Let slayer := sens_layer dmin_x dmin_s dmax g dl dx nsamp x yp sm.
  Let A := fun L p => dmin_x (gk x (key L p)) (gk sm (key L p)).
  Let Sm := fun L p => dmin_s (gk x (key L p)) (gk sm (key L p)).
  Let B := fun L p o => dmax (gk sm (key L p)) (gk yp (key (L - dx) (padd p o))).

  Lemma tstep_length t L : length (tstep t L) = length t.
  Proof. unfold tstep, tangent_step. apply scatter_length. Qed.

  Lemma fold_tstep_length ls t : length (fold_left tstep ls t) = length t.
  Proof. revert t; induction ls as [|L ls IH]; intros t; cbn [fold_left]; auto. rewrite IH. apply tstep_length. Qed.

  (* ---- the tangent sweep in layered coordinates: T_0 = t0 on the base layer,
          T_l(p) = dmin_x v_l(p) + dmin_s sum_o dmax T_{l-1}(p+o)                                  ---- *)
  Fixpoint TS (t0 : list K) (l : nat) (p : Z * Z) : K :=
    match l with
    | O => gk t0 (key (ph 0) p)
    | S l' => A (ph (Z.of_nat l)) p *' gk v (key (ph (Z.of_nat l)) p) +'
              Sm (ph (Z.of_nat l)) p *'
                nsum (map (fun o => B (ph (Z.of_nat l)) p o *' TS t0 l' (padd p o)) (filter (okp p) offs))
    end.

  Lemma TS_base_ext t0 t0' : (forall p, inl g dl p -> gk t0 (key (ph 0) p) = gk t0' (key (ph 0) p)) ->
    forall l p, inl g dl p -> TS t0 l p = TS t0' l p.
  Proof.
    intros E. induction l as [|l IH]; intros p Hp; cbn [TS]; auto.
    f_equal. f_equal. apply nsum_map_ext. intros o Ho. apply filter_In in Ho as (_ & Ho).
    f_equal. apply IH. apply in_layer_b. exact Ho.
  Qed.

  Lemma tangent_inv t0 : Z.of_nat (length t0) = nel g -> forall n : nat, Z.of_nat n <= NL - 1 ->
    forall l p, 0 <= l < NL -> inl g dl p ->
      gk (fold_left tstep (lays g dl dx 1 n) t0) (key (ph l) p) =
      if l <=? Z.of_nat n then TS t0 (Z.to_nat l) p else gk t0 (key (ph l) p).
  Proof.
    intros Ht0. induction n as [|n IH]; intros Hn l p Hl Hp.
    - cbn [lays fold_left]. destruct (l <=? Z.of_nat 0) eqn:E; auto.
      apply Z.leb_le in E. assert (l = 0) as -> by lia. reflexivity.
    - rewrite lays_snoc, fold_left_app. cbn [fold_left].
      set (tn := fold_left tstep (lays g dl dx 1 n) t0) in *.
      assert (Hlen : Z.of_nat (length tn) = nel g) by (unfold tn; rewrite fold_tstep_length; auto).
      set (L := phys g dl dx (Z.of_nat (1 + n))).
      assert (HL : 0 <= L < nlay g dl) by (apply physr; auto; fold NL; lia).
      unfold tstep at 1, tangent_step. fold lay. fold key.
      destruct (Z.eq_dec l (Z.of_nat (1 + n))) as [-> | Hne].
      + change (ph (Z.of_nat (1 + n))) with L.
        replace (Z.of_nat (1 + n) <=? Z.of_nat (S n)) with true by (symmetry; apply Z.leb_le; lia).
        unfold gk at 1. rewrite (scatter_hit 0' (key L) _ lay tn p).
        * rewrite Nat2Z.id. cbn [TS plus]. unfold tangent_value. fold key. fold L. fold ph.
          change (ph (Z.of_nat (S n))) with L. unfold A, Sm, B. fold offs. unfold okp.
          f_equal. f_equal. apply nsum_map_ext. intros o Ho. apply filter_In in Ho as (_ & Ho). apply in_layer_b in Ho.
          cbv zeta. f_equal.
          assert (EL : L - dx = ph (Z.of_nat n)).
          { unfold L, ph. rewrite phys_pred by auto. f_equal. lia. }
          rewrite EL. unfold tn. rewrite IH by (auto; lia). rewrite Z.leb_refl. rewrite Nat2Z.id. reflexivity.
        * apply in_layer_iff. exact Hp.
        * intros q Hq. apply in_layer_iff in Hq. rewrite Hlen. apply lkey_range; auto.
        * intros q Hq E. apply in_layer_iff in Hq. apply (lkey_inj g dl Hwf Hdl L q L p) in E as (_ & ->); auto.
      + unfold gk at 1. rewrite (scatter_other 0'). fold (gk tn (key (ph l) p)).
        * unfold tn. rewrite IH by (auto; lia).
          destruct (l <=? Z.of_nat n) eqn:E1, (l <=? Z.of_nat (S n)) eqn:E2; auto;
            rewrite ?Z.leb_le, ?Z.leb_gt in *; lia.
        * apply lkey_range; auto. apply physr; auto.
        * intros q Hq. apply in_layer_iff in Hq. split; [apply lkey_range; auto|].
          intros E. apply (lkey_inj g dl Hwf Hdl) in E as (E & _); auto; [|apply physr; auto].
          apply phys_eq in E. lia.
  Qed.

  (* ---- one layer of the reverse sweep against one layer of the tangent sweep ---- *)
  Lemma acc_length c L gc o : length (accumulate_offset dmax g dl dx yp sm c L gc o) = length gc.
  Proof. unfold accumulate_offset. apply scatter_length. Qed.

  Lemma acc_fold_length c L os gc : length (fold_left (accumulate_offset dmax g dl dx yp sm c L) os gc) = length gc.
  Proof. revert gc; induction os as [|o os IH]; intros gc; cbn [fold_left]; auto. rewrite IH. apply acc_length. Qed.

  Lemma acc_fold_dot c L t os : 0 <= L - dx < NL -> forall gc, Z.of_nat (length gc) = nel g -> length t = length gc ->
    dot (fold_left (accumulate_offset dmax g dl dx yp sm c L) os gc) t =
    dot gc t +' nsum (map (fun o => nsum (map (fun p => (c p *' B L p o) *' gk t (key (L - dx) (padd p o)))
                                               (filter (fun p => okp p o) lay))) os).
  Proof.
    intros HL. induction os as [|o os IH]; intros gc Hgc Ht; cbn [fold_left].
    - rewrite nsum_map_nil. ring.
    - rewrite IH by (rewrite acc_length; auto). rewrite nsum_map_cons.
      unfold accumulate_offset. fold lay. fold key.
      rewrite (scatter_add_dot Rth (fun p => key (L - dx) (padd p o))
                 (fun p => c p *' dmax (gk sm (key L p)) (gk yp (key (L - dx) (padd p o))))).
      + unfold B, okp. ring.
      + apply (shifted_keys_NoDup g dl dx Hwf Hdl Hdx); auto.
      + intros p Hp. apply filter_In in Hp as (_ & Hp). apply in_layer_b in Hp. rewrite Hgc. apply lkey_range; auto.
      + auto.
  Qed.

  Lemma acc_fold_other c L os e : 0 <= L - dx < NL -> 0 <= e ->
    (forall p, inl g dl p -> key (L - dx) p <> e) ->
    forall gc, gk (fold_left (accumulate_offset dmax g dl dx yp sm c L) os gc) e = gk gc e.
  Proof.
    intros HL He Hne. induction os as [|o os IH]; intros gc; cbn [fold_left]; auto.
    rewrite IH. unfold accumulate_offset, gk. apply scatter_other; auto.
    intros p Hp. apply filter_In in Hp as (_ & Hp). apply in_layer_b in Hp. split.
    - apply lkey_range; auto.
    - apply Hne; auto.
  Qed.

  Lemma adj_step L t gz d : 0 <= L < NL -> 0 <= L - dx < NL ->
    Z.of_nat (length t) = nel g -> Z.of_nat (length gz) = nel g -> Z.of_nat (length d) = nel g ->
    (forall p, inl g dl p -> gk d (key L p) = 0') ->
    (forall p, inl g dl p -> gk t (key L p) = 0') ->
    dot gz (tstep t L) +' dot d v = dot (fst (slayer (gz, d) L)) t +' dot (snd (slayer (gz, d) L)) v.
  Proof.
    intros HL HL' Ht Hgz Hd Hd0 Ht0.
    assert (Hrange : forall p, In p lay -> 0 <= key L p < nel g).
    { intros p Hp. apply in_layer_iff in Hp. apply lkey_range; auto. }
    (* tangent layer against gz *)
    assert (E1 := scatter_dot_r Rth (key L) (tangent_value dmin_x dmin_s dmax g dl dx nsamp x yp sm v t L) lay t gz
                    (layer_keys_NoDup g dl dx Hwf Hdl Hdx L HL) ltac:(intros p Hp; rewrite Ht; auto) ltac:(lia)).
    rewrite (nsum_map_zero Rth (fun p => gk gz (key L p) *' gk t (key L p))) in E1.
    2:{ intros p Hp. apply in_layer_iff in Hp. rewrite Ht0 by auto. ring. }
    (* dx of the layer against v *)
    assert (E2 := scatter_dot_l Rth (key L) (dx_value dmin_x g dl x sm gz L) lay d v
                    (layer_keys_NoDup g dl dx Hwf Hdl Hdx L HL) ltac:(intros p Hp; rewrite Hd; auto) ltac:(lia)).
    rewrite (nsum_map_zero Rth (fun p => gk d (key L p) *' gk v (key L p))) in E2.
    2:{ intros p Hp. apply in_layer_iff in Hp. rewrite Hd0 by auto. ring. }
    (* accumulation into the layer below against t *)
    assert (E3 := acc_fold_dot (dfdsmax dmin_s g dl x sm gz L) L t offs HL' gz Hgz ltac:(lia)).
    unfold slayer, sens_layer. cbn [fst snd]. fold offs. fold lay. fold key.
    unfold tstep, tangent_step. fold lay. fold key.
    rewrite E3.
    set (D1 := dot gz (scatter_by (key L) (tangent_value dmin_x dmin_s dmax g dl dx nsamp x yp sm v t L) lay t)) in *.
    set (D2 := dot (scatter_by (key L) (dx_value dmin_x g dl x sm gz L) lay d) v) in *.
    (* the three sums *)
    assert (Esum : nsum (map (fun p => gk gz (key L p) *' tangent_value dmin_x dmin_s dmax g dl dx nsamp x yp sm v t L p) lay) =
                   nsum (map (fun p => dx_value dmin_x g dl x sm gz L p *' gk v (key L p)) lay) +'
                   nsum (map (fun o => nsum (map (fun p => (dfdsmax dmin_s g dl x sm gz L p *' B L p o) *' gk t (key (L - dx) (padd p o)))
                                                 (filter (fun p => okp p o) lay))) offs)).
    { rewrite <- (nsum_swap_filter Rth okp (fun p o => (dfdsmax dmin_s g dl x sm gz L p *' B L p o) *' gk t (key (L - dx) (padd p o))) lay offs).
      rewrite <- nsum_map_add by exact Rth. apply nsum_map_ext. intros p _.
      unfold tangent_value, dx_value, dfdsmax. fold key. fold offs. cbv zeta.
      rewrite (nsum_map_ext (fun b => gk gz (key L p) *' dmin_s (gk x (key L p)) (gk sm (key L p)) *' B L p b *' gk t (key (L - dx) (padd p b)))
                 (fun b => (gk gz (key L p) *' dmin_s (gk x (key L p)) (gk sm (key L p))) *'
                           (dmax (gk sm (key L p)) (gk yp (key (L - dx) (padd p b))) *' gk t (key (L - dx) (padd p b)))))
        by (intros; unfold B; ring).
      rewrite <- (nsum_map_mul_l Rth). unfold okp.
      set (SS := nsum _). ring. }
    rewrite Esum in E1.
    set (S1 := nsum (map (fun p => dx_value dmin_x g dl x sm gz L p *' gk v (key L p)) lay)) in *.
    set (S2 := nsum (map (fun o => nsum _) offs)) in *.
    transitivity ((D1 +' 0') +' dot d v); [ring|]. rewrite E1.
    transitivity (dot gz t +' S2 +' (D2 +' 0')); [|ring]. rewrite E2. ring.
  Qed.

  (* ---- the loop of _sensitivity visits the layers nlay-1, ..., 1 and stops with ind_layer at the base layer ---- *)
  Lemma sens_loop_unroll fuel : forall (k : nat) st, (1 <= k)%nat -> Z.of_nat k <= NL - 1 -> (k <= fuel)%nat ->
    sens_loop dmin_x dmin_s dmax g dl dx nsamp x yp sm fuel st (ph (Z.of_nat k)) =
    (fold_left slayer (rev (lays g dl dx 1 k)) st, ph 0).
  Proof.
    induction fuel as [|f IH]; intros k st Hk1 Hk Hf; [lia|].
    destruct k as [|k]; [lia|].
    cbn [sens_loop]. fold slayer. unfold ph. rewrite phys_pred by auto. fold ph. fold NL.
    replace (Z.of_nat (S k) - 1) with (Z.of_nat k) by lia.
    rewrite lays_snoc, rev_app_distr. cbn [rev app fold_left]. replace (1 + k)%nat with (S k) by lia. fold ph.
    assert (Etest : ((1 <=? ph (Z.of_nat k)) && (ph (Z.of_nat k) <? NL - 1)) = (1 <=? Z.of_nat k)).
    { unfold ph, phys. fold NL. dxsplit Hdx;
      destruct (1 <=? Z.of_nat k) eqn:E; rewrite ?andb_true_iff, ?andb_false_iff, ?Z.leb_le, ?Z.leb_gt, ?Z.ltb_lt, ?Z.ltb_ge in *; lia. }
    rewrite Etest. destruct (1 <=? Z.of_nat k) eqn:E.
    - apply Z.leb_le in E. apply IH; lia.
    - apply Z.leb_gt in E. assert (k = O) as -> by lia. reflexivity.
  Qed.

  (* v restricted to the base layer *)
  Let vb := scatter_by (key (ph 0)) (fun p => gk v (key (ph 0) p)) lay (vzero (length v)).
  Let TZ := fun n => fold_left tstep (lays g dl dx 1 n) vb.

  Lemma vb_length : Z.of_nat (length vb) = nel g.
  Proof. unfold vb. rewrite scatter_length. unfold vzero. rewrite repeat_length. exact Hv. Qed.

  Lemma NL_pos' : 1 <= NL.
  Proof. apply nlay_pos; auto. Qed.

  Lemma vb_base p : inl g dl p -> gk vb (key (ph 0) p) = gk v (key (ph 0) p).
  Proof.
    intros Hp. pose proof NL_pos'. unfold vb, gk at 1.
    rewrite (scatter_hit 0' (key (ph 0)) (fun p => gk v (key (ph 0) p)) lay (vzero (length v)) p); auto.
    - apply in_layer_iff; auto.
    - intros q Hq. apply in_layer_iff in Hq. unfold vzero. rewrite repeat_length, Hv. apply lkey_range; auto. apply physr; auto. fold NL; lia.
    - intros q Hq E. apply in_layer_iff in Hq. apply (lkey_inj g dl Hwf Hdl) in E as (_ & ->); auto; apply physr; auto; fold NL; lia.
  Qed.

  Lemma vb_above l p : 1 <= l < NL -> inl g dl p -> gk vb (key (ph l) p) = 0'.
  Proof.
    intros Hl Hp. unfold vb, gk. rewrite (scatter_other 0').
    - apply nth_zeros.
    - apply lkey_range; auto. apply physr; auto. fold NL; lia.
    - intros q Hq. apply in_layer_iff in Hq. split; [apply lkey_range; auto; apply physr; auto; fold NL; lia|].
      intros E. apply (lkey_inj g dl Hwf Hdl) in E as (E & _); auto; [| apply physr; auto; fold NL; lia | apply physr; auto; fold NL; lia].
      apply phys_eq in E. lia.
  Qed.

  Lemma adj_main : forall n : nat, Z.of_nat n <= NL - 1 -> forall gz d,
    Z.of_nat (length gz) = nel g -> Z.of_nat (length d) = nel g ->
    (forall l p, 0 <= l <= Z.of_nat n -> inl g dl p -> gk d (key (ph l) p) = 0') ->
    dot gz (TZ n) +' dot d v =
      dot (fst (fold_left slayer (rev (lays g dl dx 1 n)) (gz, d))) vb +' dot (snd (fold_left slayer (rev (lays g dl dx 1 n)) (gz, d))) v
    /\ Z.of_nat (length (snd (fold_left slayer (rev (lays g dl dx 1 n)) (gz, d)))) = nel g
    /\ (forall p, inl g dl p -> gk (snd (fold_left slayer (rev (lays g dl dx 1 n)) (gz, d))) (key (ph 0) p) = 0').
  Proof.
    induction n as [|n IH]; intros Hn gz d Hgz Hd Hd0.
    - cbn [lays rev fold_left fst snd]. unfold TZ. cbn [lays fold_left]. repeat split; auto.
      intros p Hp. apply Hd0; auto. lia.
    - rewrite lays_snoc, rev_app_distr. cbn [rev app fold_left].
      set (L := phys g dl dx (Z.of_nat (1 + n))).
      assert (HL : 0 <= L < NL) by (apply physr; auto; fold NL; lia).
      assert (HL' : L - dx = ph (Z.of_nat n)).
      { unfold L, ph. rewrite phys_pred by auto. f_equal. lia. }
      assert (HL'r : 0 <= L - dx < NL) by (rewrite HL'; apply physr; auto; fold NL; lia).
      assert (ETZ : TZ (S n) = tstep (TZ n) L).
      { unfold TZ. rewrite lays_snoc, fold_left_app. reflexivity. }
      assert (HTZlen : Z.of_nat (length (TZ n)) = nel g).
      { unfold TZ. rewrite fold_tstep_length. apply vb_length. }
      assert (Estep := adj_step L (TZ n) gz d HL HL'r HTZlen Hgz Hd).
      rewrite ETZ, Estep.
      + rewrite (surjective_pairing (slayer (gz, d) L)).
        apply IH.
        * lia.
        * unfold slayer, sens_layer. cbn [fst]. rewrite acc_fold_length. exact Hgz.
        * unfold slayer, sens_layer. cbn [snd]. rewrite scatter_length. exact Hd.
        * intros l p Hl Hp. unfold slayer, sens_layer. cbn [snd]. unfold gk. rewrite (scatter_other 0').
          -- apply Hd0; auto. lia.
          -- apply lkey_range; auto. apply physr; auto. fold NL; lia.
          -- intros q Hq. apply in_layer_iff in Hq. split; [apply lkey_range; auto|].
             intros E. apply (lkey_inj g dl Hwf Hdl) in E as (E & _); auto; [| apply physr; auto; fold NL; lia].
             apply phys_eq in E. lia.
      + intros p Hp. apply Hd0; auto. lia.
      + intros p Hp. unfold TZ. fold key. change L with (ph (Z.of_nat (1 + n))).
        rewrite (tangent_inv vb vb_length n) by (auto; lia).
        replace (Z.of_nat (1 + n) <=? Z.of_nat n) with false by (symmetry; apply Z.leb_gt; lia).
        apply vb_above; auto. lia.
  Qed.

  Lemma tangent_from_base_only : fold_left tstep (lays g dl dx 1 (Z.to_nat (NL - 1))) v = TZ (Z.to_nat (NL - 1)).
  Proof.
    pose proof NL_pos' as Hpos.
    apply (list_eq_get g dl Hwf Hdl 0').
    - rewrite fold_tstep_length. exact Hv.
    - unfold TZ. rewrite !fold_tstep_length. pose proof vb_length. lia.
    - intros L p HL Hp. fold NL in HL.
      assert (EL : L = ph (ph L)) by (unfold ph; rewrite phys_invol; reflexivity).
      assert (HphL : 0 <= ph L < NL) by (apply physr; auto).
      rewrite EL. fold key. fold (gk (fold_left tstep (lays g dl dx 1 (Z.to_nat (NL - 1))) v) (key (ph (ph L)) p)).
      fold (gk (TZ (Z.to_nat (NL - 1))) (key (ph (ph L)) p)). unfold TZ.
      rewrite (tangent_inv v Hv) by (auto; lia). rewrite (tangent_inv vb vb_length) by (auto; lia).
      replace (ph L <=? Z.of_nat (Z.to_nat (NL - 1))) with true by (symmetry; apply Z.leb_le; lia).
      apply TS_base_ext; auto. intros q Hq. symmetry. apply vb_base; auto.
  Qed.

  (* <w, tangent_sweep v> = <sens_sweep w, v> *)
  Theorem sens_sweep_adjoint w : Z.of_nat (length w) = nel g ->
    dot w (tangent_sweep dmin_x dmin_s dmax g dl dx nsamp x yp sm v) =
    dot (sens_sweep dmin_x dmin_s dmax g dl dx nsamp x yp sm w) v.
  Proof.
    intros Hw. pose proof NL_pos' as Hpos.
    unfold tangent_sweep, tangent_from. fold tstep. rewrite (up_loop_layers g dl dx Hwf Hdl Hdx). fold NL.
    unfold sens_sweep. fold NL. destruct (NL <? 2) eqn:E2.
    - apply Z.ltb_lt in E2. replace (Z.to_nat (NL - 1)) with O by lia. reflexivity.
    - apply Z.ltb_ge in E2. rewrite tangent_from_base_only.
      set (n := Z.to_nat (NL - 1)).
      assert (Estart : (if dx >=? 0 then NL - 1 else 0) = ph (Z.of_nat n)).
      { unfold ph, phys, n. fold NL. dxsplit Hdx; lia. }
      rewrite Estart, sens_loop_unroll by (unfold n; lia). cbn [fst snd].
      destruct (adj_main n ltac:(unfold n; lia) w (vzero (length w)) Hw) as (E & Hlen & Hbase).
      { unfold vzero. rewrite repeat_length. exact Hw. }
      { intros l p _ _. apply nth_zeros. }
      set (st := fold_left slayer (rev (lays g dl dx 1 n)) (w, vzero (length w))) in *.
      fold lay. fold key.
      assert (Hb : 0 <= ph 0 < nlay g dl) by (apply physr; auto; fold NL; lia).
      assert (Hrange : forall p, In p lay -> 0 <= key (ph 0) p < nel g).
      { intros p Hp. apply in_layer_iff in Hp. apply lkey_range; auto. }
      assert (F1 := scatter_dot_l Rth (key (ph 0)) (fun p => gk (fst st) (key (ph 0) p)) lay (snd st) v
                      (layer_keys_NoDup g dl dx Hwf Hdl Hdx (ph 0) Hb) ltac:(intros p Hp; rewrite Hlen; auto) ltac:(lia)).
      rewrite (nsum_map_zero Rth (fun p => gk (snd st) (key (ph 0) p) *' gk v (key (ph 0) p))) in F1.
      2:{ intros p Hp. apply in_layer_iff in Hp. rewrite Hbase by auto. ring. }
      assert (F2 := scatter_dot_r Rth (key (ph 0)) (fun p => gk v (key (ph 0) p)) lay (vzero (length v)) (fst st)
                      (layer_keys_NoDup g dl dx Hwf Hdl Hdx (ph 0) Hb)).
      fold vb in F2.
      assert (Hfst : length (fst st) = length w).
      { unfold st. clear. generalize (rev (lays g dl dx 1 n)) as ls. generalize (vzero (length w)) as d0. generalize w as gz.
        intros gz d0 ls; revert gz d0. induction ls as [|L ls IHl]; intros gz d0; cbn [fold_left fst]; auto.
        rewrite (surjective_pairing (slayer (gz, d0) L)). rewrite IHl. unfold slayer, sens_layer. cbn [fst]. apply acc_fold_length. }
      specialize (F2 ltac:(intros p Hp; unfold vzero; rewrite repeat_length, Hv; auto)
                     ltac:(unfold vzero; rewrite repeat_length; lia)).
      rewrite (nsum_map_zero Rth (fun p => gk (fst st) (key (ph 0) p) *' gk (vzero (length v)) (key (ph 0) p))) in F2.
      2:{ intros p Hp. unfold gk at 2, getT. rewrite nth_zeros. ring. }
      rewrite (dot_comm Rth (fst st) (vzero (length v))), (dot_zeros_l Rth) in F2.
      rewrite (dot_zeros_l Rth) in E.
      set (D := dot (scatter_by (key (ph 0)) (fun p => gk (fst st) (key (ph 0) p)) lay (snd st)) v) in *.
      set (S0 := nsum (map (fun p => gk (fst st) (key (ph 0) p) *' gk v (key (ph 0) p)) lay)) in *.
      transitivity (dot w (TZ n) +' 0'); [ring|]. rewrite E.
      transitivity ((dot (fst st) vb +' 0') +' dot (snd st) v); [ring|]. rewrite F2.
      transitivity (D +' 0'); [|ring]. rewrite F1. ring.
  Qed.
End AlgebraicAdjoint.

(* ---------------------------------------------------------------------------------------------- *)
(* what _response stores: xprint is the sweep of Model/Overhang.v, self.smax holds the smooth maxima  *)
Section Sweep2Facts.
  Context {K : Type} `{Num K}.
  Variable smin : K -> K -> K.
  Variable smax : list K -> K.
  Variables (g : grid) (dl dx nsamp : Z) (x : list K).
  Hypothesis Hwf : wf g.
  Hypothesis Hdl : 0 <= dl <= 2.
  Hypothesis Hdx : dx = 1 \/ dx = -1.
  Hypothesis Hlen : Z.of_nat (length x) = nel g.

  Let NL := nlay g dl.
  Let key := lkey g dl.
  Let ph := phys g dl dx.
  Let step2 := layer_step2 smin smax g dl dx nsamp x.
  Let Y := spec smin smax nzero g dl dx nsamp x.

  Lemma fst_sweep2_loop fuel : forall st ind,
    fst (up_loop step2 (nlay g dl) dx fuel st ind) = sweep_loop smin smax nzero g dl dx nsamp fuel x (fst st) ind.
  Proof.
    induction fuel as [|f IH]; intros st ind; cbn [up_loop sweep_loop]; auto.
    destruct ((0 <=? ind) && (ind <? nlay g dl)); auto. rewrite IH. reflexivity.
  Qed.

  Lemma fst_sweep2 : fst (sweep2 smin smax g dl dx nsamp x) = sweep smin smax nzero g dl dx nsamp x.
  Proof. unfold sweep2, sweep. fold step2. apply fst_sweep2_loop. Qed.

  Definition smax_below (l : Z) (p : Z * Z) : K :=
    smax (map (fun o => Y (Z.to_nat (l - 1)) (padd p o)) (filter (fun o => in_layer g dl (padd p o)) (layer_offsets nsamp))).

  Lemma sweep2_inv : forall n : nat, Z.of_nat n <= NL - 1 ->
    Inv smin smax nzero g dl dx nsamp x (Z.of_nat n) (fst (fold_left step2 (lays g dl dx 1 n) (x, x))) /\
    length (snd (fold_left step2 (lays g dl dx 1 n) (x, x))) = length x /\
    forall l p, 1 <= l <= Z.of_nat n -> inl g dl p ->
      gk (snd (fold_left step2 (lays g dl dx 1 n) (x, x))) (key (ph l) p) = smax_below l p.
  Proof.
    induction n as [|n IH]; intros Hn.
    - cbn [lays fold_left fst snd]. split; [apply inv_init|]. split; auto. intros; lia.
    - destruct IH as (HI & HL2 & HS); [lia|].
      rewrite lays_snoc, fold_left_app. cbn [fold_left].
      set (st := fold_left step2 (lays g dl dx 1 n) (x, x)) in *.
      set (L := phys g dl dx (Z.of_nat (1 + n))).
      assert (HLr : 0 <= L < nlay g dl) by (apply physr; auto; fold NL; lia).
      unfold step2, layer_step2. cbn [fst snd].
      split; [|split].
      + assert (Hs := inv_step smin smax nzero g dl dx nsamp x Hwf Hdl Hdx Hlen (Z.of_nat (S n)) (fst st) ltac:(fold NL; lia)).
        replace (Z.of_nat (S n) - 1) with (Z.of_nat n) in Hs by lia. specialize (Hs HI). exact Hs.
      + rewrite scatter_length. exact HL2.
      + intros l p Hl Hp. fold key. destruct (Z.eq_dec l (Z.of_nat (1 + n))) as [-> | Hne].
        * change (ph (Z.of_nat (1 + n))) with L. unfold gk.
          rewrite (scatter_hit nzero (key L) _ (layer g dl) (snd st) p).
          -- unfold smax_below. f_equal. unfold supports. apply map_ext_in. intros o Ho.
             apply filter_In in Ho as (_ & Ho). apply inside_iff in Ho as (Ha & Hb).
             assert (EL : L - dx = phys g dl dx (Z.of_nat n)).
             { unfold L. rewrite phys_pred by auto. f_equal. lia. }
             rewrite EL. destruct HI as (_ & HI).
             fold (coord g dl dx (Z.of_nat n) (fst (padd p o)) (snd (padd p o))).
             rewrite HI by (auto; fold NL; lia). rewrite Z.leb_refl. rewrite Nat2Z.id.
             replace (Z.to_nat (Z.of_nat (1 + n) - 1)) with n by lia. destruct (padd p o); reflexivity.
          -- apply in_layer_iff. exact Hp.
          -- intros q Hq. apply in_layer_iff in Hq. rewrite HL2, Hlen. apply lkey_range; auto.
          -- intros q Hq E. apply in_layer_iff in Hq. apply (lkey_inj g dl Hwf Hdl L q L p) in E as (_ & ->); auto.
        * unfold gk. rewrite (scatter_other nzero).
          -- apply HS; auto. lia.
          -- apply lkey_range; auto. apply physr; auto. fold NL; lia.
          -- intros q Hq. apply in_layer_iff in Hq. split; [apply lkey_range; auto|].
             intros E. apply (lkey_inj g dl Hwf Hdl) in E as (E & _); auto; [| apply physr; auto; fold NL; lia].
             apply phys_eq in E. lia.
  Qed.

  Theorem sweep2_smax l p : 1 <= l < NL -> inl g dl p ->
    gk (snd (sweep2 smin smax g dl dx nsamp x)) (key (ph l) p) = smax_below l p.
  Proof.
    intros Hl Hp. unfold sweep2. fold step2. rewrite (up_loop_layers g dl dx Hwf Hdl Hdx). fold NL.
    destruct (sweep2_inv (Z.to_nat (NL - 1)) ltac:(lia)) as (_ & _ & HS). apply HS; auto. lia.
  Qed.

  Theorem sweep2_xprint l p : 0 <= l < NL -> inl g dl p ->
    gk (fst (sweep2 smin smax g dl dx nsamp x)) (key (ph l) p) = Y (Z.to_nat l) p.
  Proof.
    intros Hl (Ha & Hb). rewrite fst_sweep2. destruct p as (a, b).
    apply (sweep_refines_spec smin smax nzero g dl dx nsamp x Hwf Hdl Hdx Hlen); auto.
  Qed.

  Lemma sweep2_lengths : length (fst (sweep2 smin smax g dl dx nsamp x)) = length x /\ length (snd (sweep2 smin smax g dl dx nsamp x)) = length x.
  Proof.
    split; [rewrite fst_sweep2; apply sweep_length; auto|].
    unfold sweep2. fold step2. rewrite (up_loop_layers g dl dx Hwf Hdl Hdx). fold NL.
    pose proof (nlay_pos g dl Hwf Hdl) as Hpos. fold NL in Hpos. destruct (sweep2_inv (Z.to_nat (NL - 1)) ltac:(lia)) as (_ & HL2 & _). exact HL2.
  Qed.
End Sweep2Facts.

(* ---------------------------------------------------------------------------------------------- *)
(* (B) over R: the tangent sweep is the directional derivative of the response sweep               *)
From Coquelicot Require Import Coquelicot.
Open Scope R_scope.

Lemma rpower_comp_derive (f : R -> R) (d a : R) : is_derive f 0 d -> 0 < f 0 ->
  is_derive (fun t => Rpower (f t) a) 0 (a * Rpower (f 0) (a - 1) * d).
Proof.
  intros Hf Hpos. unfold Rpower.
  auto_derive.
  - split; [exists d; exact Hf|]. split; auto.
  - replace (Derive (fun x => f x) 0) with d by (symmetry; apply is_derive_unique; exact Hf).
    assert (E : exp ((a - 1) * ln (f 0)) = exp (a * ln (f 0)) / f 0).
    { replace ((a - 1) * ln (f 0)) with (a * ln (f 0) + - ln (f 0)) by ring.
      rewrite exp_plus, exp_Ropp, exp_ln by auto. reflexivity. }
    rewrite E. field. lra.
Qed.

Lemma smin_derive eps (a s : R -> R) (a' s' : R) : is_derive a 0 a' -> is_derive s 0 s' ->
  0 < (a 0 - s 0) * (a 0 - s 0) + eps ->
  is_derive (fun t => smin_R eps (a t) (s t)) 0 (dmin_x_R eps (a 0) (s 0) * a' + dmin_s_R eps (a 0) (s 0) * s').
Proof.
  intros Ha Hs Hpos. unfold smin_R, dmin_x_R, dmin_s_R.
  auto_derive.
  - assert (Ea : ex_derive (fun x => a x) 0) by (exists a'; exact Ha).
    assert (Es : ex_derive (fun x => s x) 0) by (exists s'; exact Hs).
    repeat split; auto.
  - replace (Derive (fun x => a x) 0) with a' by (symmetry; apply is_derive_unique; exact Ha).
    replace (Derive (fun x => s x) 0) with s' by (symmetry; apply is_derive_unique; exact Hs).
    assert (Hsq : sqrt ((a 0 - s 0) * (a 0 - s 0) + eps) <> 0) by (apply Rgt_not_eq, sqrt_lt_R0; exact Hpos).
    unfold Rminus in *. field. exact Hsq.
Qed.

Lemma rsum_scal c {O} (h : O -> R) os : c * rsum (map h os) = rsum (map (fun o => c * h o) os).
Proof. induction os as [|o os IH]; cbn [map rsum fold_right]; [ring|]. fold (rsum (map h os)) (rsum (map (fun o => c * h o) os)). rewrite <- IH. ring. Qed.

Lemma rsum_pow_derive {O} (os : list O) (f : O -> R -> R) (d : O -> R) p shift :
  (forall o, In o os -> is_derive (f o) 0 (d o) /\ 0 < f o 0 + shift) ->
  is_derive (fun t => rsum (map (fun o => Rpower (f o t + shift) p) os)) 0
            (rsum (map (fun o => p * Rpower (f o 0 + shift) (p - 1) * d o) os)).
Proof.
  induction os as [|o os IH]; intros Hf; cbn [map rsum fold_right].
  - apply (is_derive_const (K := R_AbsRing) (V := R_NormedModule) 0 0).
  - apply (is_derive_plus (K := R_AbsRing) (V := R_NormedModule) (fun t => Rpower (f o t + shift) p)
                          (fun t => fold_right Rplus 0 (map (fun o0 => Rpower (f o0 t + shift) p) os))).
    + destruct (Hf o (or_introl eq_refl)) as (Hd & Hpos).
      apply (rpower_comp_derive (fun t => f o t + shift)); auto.
      auto_derive; [exists (d o); exact Hd|].
      replace (Derive (fun x => f o x) 0) with (d o) by (symmetry; apply is_derive_unique; exact Hd). ring.
    + apply IH. intros o' Ho'. apply Hf. right; auto.
Qed.

Lemma smax_derive {O} (os : list O) (f : O -> R -> R) (d : O -> R) p q shift backshift :
  q <> 0 ->
  (forall o, In o os -> is_derive (f o) 0 (d o) /\ 0 < f o 0 + shift) ->
  0 < rsum (map (fun o => Rpower (f o 0 + shift) p) os) ->
  is_derive (fun t => smax_R p q shift backshift (map (fun o => f o t) os)) 0
            (rsum (map (fun o => dmax_R p q shift backshift (smax_R p q shift backshift (map (fun o => f o 0) os)) (f o 0) * d o) os)).
Proof.
  intros Hq Hf Hkeep. unfold smax_R.
  set (keep := fun t => rsum (map (fun o => Rpower (f o t + shift) p) os)).
  apply (is_derive_ext (fun t => Rpower (keep t) (1 / q) - backshift)).
  { intros t. unfold keep. rewrite map_map. reflexivity. }
  assert (Hk := rsum_pow_derive os f d p shift Hf). fold keep in Hk.
  assert (Hr := rpower_comp_derive keep _ (1 / q) Hk Hkeep).
  set (k' := rsum (map (fun o => p * Rpower (f o 0 + shift) (p - 1) * d o) os)) in *.
  assert (Hm : is_derive (fun t => Rpower (keep t) (1 / q) - backshift) 0 (1 / q * Rpower (keep 0) (1 / q - 1) * k')).
  { replace (1 / q * Rpower (keep 0) (1 / q - 1) * k') with (minus (1 / q * Rpower (keep 0) (1 / q - 1) * k') zero)
      by (unfold minus, plus, opp, zero; cbn; ring).
    apply (is_derive_minus (K := R_AbsRing) (V := R_NormedModule) (fun t => Rpower (keep t) (1 / q)) (fun _ => backshift));
      [exact Hr | apply (is_derive_const (K := R_AbsRing) (V := R_NormedModule))]. }
  replace (rsum (map (fun o => dmax_R p q shift backshift (Rpower (rsum (map (fun v => Rpower (v + shift) p) (map (fun o0 => f o0 0) os))) (1 / q) - backshift) (f o 0) * d o) os))
    with (1 / q * Rpower (keep 0) (1 / q - 1) * k'); [exact Hm|].
  unfold k'. rewrite rsum_scal. f_equal. apply map_ext. intros o. unfold dmax_R.
  rewrite map_map. fold (keep 0).
  replace (Rpower (keep 0) (1 / q) - backshift + backshift) with (Rpower (keep 0) (1 / q)) by ring.
  assert (Ek : Rpower (Rpower (keep 0) (1 / q)) q = keep 0).
  { rewrite Rpower_mult. replace (1 / q * q) with 1 by (field; exact Hq). apply Rpower_1. exact Hkeep. }
  rewrite Ek.
  field. exact Hq.
Qed.

(* the line x + t v *)
Lemma get_line (x v : list R) t e : length x = length v ->
  getT 0 (vadd x (vscale t v)) e = getT 0 x e + t * getT 0 v e.
Proof.
  intros Hl. unfold getT. generalize (Z.to_nat e) as i. revert v Hl. unfold vadd, vscale.
  induction x as [|a x IH]; intros [|b v] Hl i; cbn in Hl; try discriminate.
  - destruct i; cbn; ring.
  - destruct i as [|i]; [cbn; ring|]. cbn [map combine nth fst snd]. apply IH. lia.
Qed.

Lemma line_length (x v : list R) t : length x = length v -> length (vadd x (vscale t v)) = length x.
Proof. intros Hl. unfold vadd, vscale. rewrite map_length, combine_length, map_length. lia. Qed.

Lemma line_0 (x v : list R) : length x = length v -> vadd x (vscale 0 v) = x.
Proof.
  unfold vadd, vscale. revert v; induction x as [|a x IH]; intros [|b v] Hl; cbn in Hl; try discriminate; auto.
  cbn [map combine fst snd]. rewrite IH by lia. f_equal. cbn. ring.
Qed.

Lemma dot_derive (w : list R) : forall (Yf : R -> list R) (T : list R),
  (forall t, length (Yf t) = length w) -> length T = length w ->
  (forall i, (i < length w)%nat -> is_derive (fun t => nth i (Yf t) 0) 0 (nth i T 0)) ->
  is_derive (fun t => dot w (Yf t)) 0 (dot w T).
Proof.
  induction w as [|a w IH]; intros Yf T HY HT Hd.
  - apply (is_derive_const (K := R_AbsRing) (V := R_NormedModule) 0 0).
  - destruct T as [|b T]; [discriminate|].
    apply (is_derive_ext (fun t => a * nth 0 (Yf t) 0 + dot w (tl (Yf t)))).
    { intros t. specialize (HY t). destruct (Yf t) as [|y ys]; [discriminate|]. reflexivity. }
    change (dot (a :: w) (b :: T)) with (a * b + dot w T).
    apply (is_derive_plus (K := R_AbsRing) (V := R_NormedModule) (fun t => a * nth 0 (Yf t) 0) (fun t => dot w (tl (Yf t)))).
    + assert (H0 := Hd O ltac:(cbn; lia)). cbn [nth] in H0.
      apply (is_derive_scal (fun t => nth 0 (Yf t) 0) 0 a b). exact H0.
    + apply IH.
      * intros t. specialize (HY t). destruct (Yf t); cbn in *; lia.
      * cbn in HT. lia.
      * intros i Hi. assert (Hi' := Hd (S i) ltac:(cbn; lia)). cbn [nth] in Hi'.
        apply (is_derive_ext (fun t => nth (S i) (Yf t) 0)); [|exact Hi'].
        intros t. specialize (HY t). destruct (Yf t); [discriminate|]. reflexivity.
Qed.

Lemma offsets_has_center nsamp : (2 <= nsamp)%Z -> In (0, 0)%Z (layer_offsets nsamp).
Proof.
  intros Hn. unfold layer_offsets. destruct (Z.to_nat nsamp) as [|[|k]] eqn:E; try lia.
  cbn. right. left. reflexivity.
Qed.

Section Analytic.
  Variables (g : grid) (dl dx nsamp : Z) (x v : list R) (eps p q shift backshift : R).
  Hypothesis Hwf : wf g.
  Hypothesis Hdl : (0 <= dl <= 2)%Z.
  Hypothesis Hdx : dx = 1%Z \/ dx = (-1)%Z.
  Hypothesis Hns : (2 <= nsamp)%Z.
  Hypothesis Hx : Z.of_nat (length x) = nel g.
  Hypothesis Hv : Z.of_nat (length v) = nel g.
  Hypothesis Hq : q <> 0.

  Let sminR := smin_R eps.
  Let smaxR := smax_R p q shift backshift.
  Let yp := fst (sweep2 sminR smaxR g dl dx nsamp x).       (* sig_out[0].state *)
  Let sm := snd (sweep2 sminR smaxR g dl dx nsamp x).       (* self.smax *)
  (* differentiability of the response at x: the radicand of the smooth minimum and the bases of the powers are positive *)
  Hypothesis Hmin : forall e, (0 <= e < nel g)%Z -> 0 < (gk x e - gk sm e) * (gk x e - gk sm e) + eps.
  Hypothesis Hpos : forall e, (0 <= e < nel g)%Z -> 0 < gk yp e + shift.

  Let NL := nlay g dl.
  Let offs := layer_offsets nsamp.
  Let key := lkey g dl.
  Let ph := phys g dl dx.
  Let line := fun t => vadd x (vscale t v).
  Let Yl := fun t l pp => print_spec sminR smaxR (n1 g dl) (n2 g dl) offs (xlay 0 g dl dx (line t)) l pp.
  Let TSR := TS (dmin_x_R eps) (dmin_s_R eps) (dmax_R p q shift backshift) g dl dx nsamp x yp sm v v.

  Lemma Hxv : length x = length v.
  Proof. lia. Qed.

  Lemma Y0_yp l pp : (Z.of_nat l < NL)%Z -> inl g dl pp -> Yl 0 l pp = gk yp (key (ph (Z.of_nat l)) pp).
  Proof.
    intros Hl Hp. unfold Yl, line. rewrite (line_0 x v Hxv). unfold yp. unfold key, ph.
    rewrite (sweep2_xprint sminR smaxR g dl dx nsamp x Hwf Hdl Hdx Hx) by (auto; fold NL; lia).
    rewrite Nat2Z.id. reflexivity.
  Qed.

  Lemma sm_char l pp : (Z.of_nat (S l) < NL)%Z -> inl g dl pp ->
    gk sm (key (ph (Z.of_nat (S l))) pp) =
    smaxR (map (fun o => Yl 0 l (padd pp o)) (filter (fun o => in_layer g dl (padd pp o)) offs)).
  Proof.
    intros Hl Hp. unfold sm, key, ph.
    rewrite (sweep2_smax sminR smaxR g dl dx nsamp x Hwf Hdl Hdx Hx) by (auto; fold NL; lia).
    unfold smax_below. replace (Z.to_nat (Z.of_nat (S l) - 1)) with l by lia.
    unfold Yl, line. rewrite (line_0 x v Hxv). reflexivity.
  Qed.

  Lemma xlay_line_derive l pp : is_derive (fun t => xlay 0 g dl dx (line t) l pp) 0 (gk v (key (ph (Z.of_nat l)) pp)).
  Proof.
    unfold xlay, line.
    apply (is_derive_ext (fun t => getT 0 x (coord g dl dx (Z.of_nat l) (fst pp) (snd pp)) + t * getT 0 v (coord g dl dx (Z.of_nat l) (fst pp) (snd pp)))).
    { intros t. symmetry. apply get_line. exact Hxv. }
    change (gk v (key (ph (Z.of_nat l)) pp)) with (getT 0 v (coord g dl dx (Z.of_nat l) (fst pp) (snd pp))).
    auto_derive; [exact I | ring].
  Qed.

  Lemma spec_derive : forall l : nat, (Z.of_nat l < NL)%Z -> forall pp, inl g dl pp ->
    is_derive (fun t => Yl t l pp) 0 (TSR l pp).
  Proof.
    induction l as [|l IH]; intros Hl pp Hp.
    - unfold Yl. cbn [print_spec]. unfold TSR. cbn [TS]. apply (xlay_line_derive O pp).
    - unfold Yl. cbn [print_spec]. fold Yl.
      set (os := filter (fun o => inside (n1 g dl) (n2 g dl) (padd pp o)) offs).
      assert (Hos : forall o, In o os -> inl g dl (padd pp o)).
      { intros o Ho. apply filter_In in Ho as (_ & Ho). apply inside_iff in Ho. exact Ho. }
      assert (Hf : forall o, In o os -> is_derive (fun t => Yl t l (padd pp o)) 0 (TSR l (padd pp o)) /\ 0 < Yl 0 l (padd pp o) + shift).
      { intros o Ho. split; [apply IH; auto; lia|].
        rewrite Y0_yp by (auto; lia). apply Hpos. apply lkey_range; auto. apply physr; auto. fold NL. lia. }
      assert (Hkeep : 0 < rsum (map (fun o => Rpower (Yl 0 l (padd pp o) + shift) p) os)).
      { rewrite <- (map_map (fun o => Yl 0 l (padd pp o)) (fun u => Rpower (u + shift) p)). apply rsum_pow_pos.
        assert (Hc : In (0, 0)%Z os).
        { apply filter_In. split; [apply offsets_has_center; auto|]. apply inside_iff. destruct pp as (a, b), Hp as (Ha & Hb).
          unfold padd; cbn [fst snd] in *. lia. }
        intros E. apply (in_map (fun o => Yl 0 l (padd pp o))) in Hc. rewrite E in Hc. destruct Hc. }
      assert (Hs := smax_derive os (fun o t => Yl t l (padd pp o)) (fun o => TSR l (padd pp o)) p q shift backshift Hq Hf Hkeep).
      assert (Ha := xlay_line_derive (S l) pp).
      assert (Esm : smaxR (map (fun o => Yl 0 l (padd pp o)) os) = gk sm (key (ph (Z.of_nat (S l))) pp)).
      { symmetry. apply sm_char; auto. }
      assert (Ex0 : xlay 0 g dl dx (line 0) (S l) pp = gk x (key (ph (Z.of_nat (S l))) pp)).
      { unfold line. rewrite (line_0 x v Hxv). reflexivity. }
      assert (Hmin' : 0 < (xlay 0 g dl dx (line 0) (S l) pp - smaxR (map (fun o => Yl 0 l (padd pp o)) os)) *
                          (xlay 0 g dl dx (line 0) (S l) pp - smaxR (map (fun o => Yl 0 l (padd pp o)) os)) + eps).
      { rewrite Esm, Ex0. apply Hmin. apply lkey_range; auto. apply physr; auto. fold NL. lia. }
      assert (Hd := smin_derive eps (fun t => xlay 0 g dl dx (line t) (S l) pp)
                       (fun t => smaxR (map (fun o => Yl t l (padd pp o)) os)) _ _ Ha Hs Hmin').
      cbv beta in Hd. unfold smaxR in Hd at 1. fold smaxR in Hd. rewrite Esm, Ex0 in Hd.
      replace (TSR (S l) pp) with
        (dmin_x_R eps (gk x (key (ph (Z.of_nat (S l))) pp)) (gk sm (key (ph (Z.of_nat (S l))) pp)) * gk v (key (ph (Z.of_nat (S l))) pp) +
         dmin_s_R eps (gk x (key (ph (Z.of_nat (S l))) pp)) (gk sm (key (ph (Z.of_nat (S l))) pp)) *
           rsum (map (fun o => dmax_R p q shift backshift (gk sm (key (ph (Z.of_nat (S l))) pp)) (Yl 0 l (padd pp o)) * TSR l (padd pp o)) os)).
      { exact Hd. }
      symmetry. unfold TSR at 1. cbn [TS]. fold TSR. fold key. fold ph. cbn [nadd nmul NumR].
      f_equal. f_equal. change (@nsum R NumR) with rsum. apply (f_equal rsum).
      change (filter (fun o => in_layer g dl (padd pp o)) (layer_offsets nsamp)) with os.
      apply map_ext_in. intros o Ho. f_equal. f_equal.
      rewrite Y0_yp by (auto; try lia; apply Hos; exact Ho).
      assert (EL : (ph (Z.of_nat (S l)) - dx)%Z = ph (Z.of_nat l)).
      { unfold ph. rewrite phys_pred by auto. f_equal. lia. }
      rewrite EL. reflexivity.
  Qed.
  Let tan := tangent_sweep (dmin_x_R eps) (dmin_s_R eps) (dmax_R p q shift backshift) g dl dx nsamp x yp sm v.

  Lemma line_len t : Z.of_nat (length (line t)) = nel g.
  Proof. unfold line. rewrite line_length by exact Hxv. exact Hx. Qed.

  Lemma tan_length : length tan = length v.
  Proof.
    unfold tan, tangent_sweep, tangent_from. rewrite (up_loop_layers g dl dx Hwf Hdl Hdx).
    generalize (lays g dl dx 1 (Z.to_nat (nlay g dl - 1))) as ls. generalize v at 2 3 as t0.
    intros t0 ls; revert t0; induction ls as [|L ls IHl]; intros t0; cbn [fold_left]; auto.
    rewrite IHl. unfold tangent_step. apply scatter_length.
  Qed.

  (* every entry of the tangent sweep is the derivative of the corresponding entry of the response along x + t v *)
  Theorem tangent_is_derivative e : (0 <= e < nel g)%Z ->
    is_derive (fun t => getT 0 (sweep sminR smaxR 0 g dl dx nsamp (line t)) e) 0 (getT 0 tan e).
  Proof.
    intros He. destruct (sweep_elem g dl dx e Hwf Hdl He) as (l & a & b & Hl & Ha & Hb & <-).
    apply (is_derive_ext (fun t => Yl t (Z.to_nat l) (a, b))).
    { intros t. symmetry. apply (sweep_refines_spec sminR smaxR 0 g dl dx nsamp (line t) Hwf Hdl Hdx (line_len t)); auto. }
    replace (getT 0 tan (coord g dl dx l a b)) with (TSR (Z.to_nat l) (a, b)).
    { apply spec_derive; [fold NL in Hl; lia | split; auto]. }
    unfold tan, tangent_sweep, tangent_from. rewrite (up_loop_layers g dl dx Hwf Hdl Hdx).
    change (coord g dl dx l a b) with (lkey g dl (phys g dl dx l) (a, b)).
    pose proof (nlay_pos g dl Hwf Hdl) as Hpos1.
    assert (E := tangent_inv (dmin_x_R eps) (dmin_s_R eps) (dmax_R p q shift backshift) g dl dx nsamp Hwf Hdl Hdx
                   x yp sm v v Hv (Z.to_nat (nlay g dl - 1)) ltac:(lia) l (a, b) Hl (conj Ha Hb)).
    replace (l <=? Z.of_nat (Z.to_nat (nlay g dl - 1)))%Z with true in E by (symmetry; apply Z.leb_le; lia).
    symmetry. exact E.
  Qed.

  (* (C) the module: for every seed w, <sensitivity, v> is the derivative of <w, response(x + t v)> at t = 0 *)
  Theorem sensitivity_is_adjoint_derivative (w : list R) : Z.of_nat (length w) = nel g ->
    is_derive (fun t => dot w (sweep sminR smaxR 0 g dl dx nsamp (line t))) 0
              (dot (sens_sweep (dmin_x_R eps) (dmin_s_R eps) (dmax_R p q shift backshift) g dl dx nsamp x yp sm w) v).
  Proof.
    intros Hw.
    rewrite <- (sens_sweep_adjoint num_ring_R (dmin_x_R eps) (dmin_s_R eps) (dmax_R p q shift backshift) g dl dx nsamp
                  Hwf Hdl Hdx x yp sm v Hv w Hw).
    fold tan. apply dot_derive.
    - intros t. rewrite (sweep_length sminR smaxR 0 g dl dx nsamp (line t) Hwf Hdl Hdx (line_len t)).
      pose proof (line_len t). lia.
    - rewrite tan_length. lia.
    - intros i Hi.
      assert (E := tangent_is_derivative (Z.of_nat i) ltac:(lia)). unfold getT in E. rewrite Nat2Z.id in E. exact E.
  Qed.
End Analytic.

(* ---------------------------------------------------------------------------------------------- *)
(* statements in the form used by Props/C01c.v                                                      *)

(* sufficient conditions for differentiability that do not mention the computed arrays:
   eps > 0 (radicand of the smooth minimum) and x >= 0, 0 <= backshift < shift (bases of the powers) *)
Theorem overhang_adjoint_eps_pos g dl dx nsamp (x v w : list R) eps p q shift backshift :
  wf g -> (0 <= dl <= 2)%Z -> dx = 1%Z \/ dx = (-1)%Z -> (2 <= nsamp)%Z ->
  Z.of_nat (length x) = nel g -> Z.of_nat (length v) = nel g -> Z.of_nat (length w) = nel g ->
  0 < eps -> q <> 0 -> 0 <= backshift < shift -> List.Forall (fun u => 0 <= u) x ->
  is_derive (fun t => dot w (sweep (smin_R eps) (smax_R p q shift backshift) 0 g dl dx nsamp (vadd x (vscale t v)))) 0
            (dot (sens_sweep (dmin_x_R eps) (dmin_s_R eps) (dmax_R p q shift backshift) g dl dx nsamp x
                    (fst (sweep2 (smin_R eps) (smax_R p q shift backshift) g dl dx nsamp x))
                    (snd (sweep2 (smin_R eps) (smax_R p q shift backshift) g dl dx nsamp x)) w) v).
Proof.
  intros Hwf Hdl Hdx Hns Hx Hv Hw Heps Hq Hbs Hx0.
  apply (sensitivity_is_adjoint_derivative g dl dx nsamp x v eps p q shift backshift Hwf Hdl Hdx Hns Hx Hv Hq); auto.
  - intros e He. set (r := gk x e - gk _ e). nra.
  - intros e He. rewrite (fst_sweep2 (smin_R eps) (smax_R p q shift backshift) g dl dx nsamp x).
    assert (Hl := sweep_lower g dl dx nsamp x eps Hwf Hdl Hdx Hx ltac:(lra) p q shift backshift Hbs e Hx0 He).
    unfold gk. change (@nzero R NumR) with 0. lra.
Qed.

(* the module with a direction vector: dir_layer / dx_layer of an axis-aligned vector of any non-zero length *)
Lemma sensitivity_axis {K : Type} `{Num K} (smin : K -> K -> K) (smax : list K -> K) (dmin_x dmin_s dmax : K -> K -> K)
      g axis c nsamp (x w : list K) :
  (0 <= axis <= 2)%Z -> ~ (c == 0)%Q ->
  sensitivity smin smax dmin_x dmin_s dmax g (axis_vec 3 axis c) nsamp x w =
  sens_sweep dmin_x dmin_s dmax g axis (qsign c) nsamp x
             (fst (sweep2 smin smax g axis (qsign c) nsamp x)) (snd (sweep2 smin smax g axis (qsign c) nsamp x)) w.
Proof.
  intros Hax Hc. unfold sensitivity.
  destruct (parse_vectors 3 3 axis c (or_intror eq_refl) (or_intror eq_refl) ltac:(lia) Hc) as (_ & _ & -> & ->).
  reflexivity.
Qed.

Theorem overhang_module_adjoint g axis c nsamp (x v w : list R) eps p q shift backshift :
  wf g -> (0 <= axis <= 2)%Z -> ~ (c == 0)%Q -> (2 <= nsamp)%Z ->
  Z.of_nat (length x) = nel g -> Z.of_nat (length v) = nel g -> Z.of_nat (length w) = nel g ->
  0 < eps -> q <> 0 -> 0 <= backshift < shift -> List.Forall (fun u => 0 <= u) x ->
  is_derive (fun t => dot w (response (smin_R eps) (smax_R p q shift backshift) 0 g (axis_vec 3 axis c) nsamp (vadd x (vscale t v)))) 0
            (dot (sensitivity (smin_R eps) (smax_R p q shift backshift) (dmin_x_R eps) (dmin_s_R eps) (dmax_R p q shift backshift)
                              g (axis_vec 3 axis c) nsamp x w) v).
Proof.
  intros Hwf Hax Hc Hns Hx Hv Hw Heps Hq Hbs Hx0.
  rewrite sensitivity_axis by auto.
  apply (is_derive_ext (fun t => dot w (sweep (smin_R eps) (smax_R p q shift backshift) 0 g axis (qsign c) nsamp (vadd x (vscale t v))))).
  { intros t. rewrite response_axis by auto. reflexivity. }
  apply overhang_adjoint_eps_pos; auto. apply (qsign_cases c Hc).
Qed.

(* one layer in print direction: the seed is returned as it is (and the response is the identity: C14) *)
Lemma sens_single_layer {K : Type} `{Num K} (dmin_x dmin_s dmax : K -> K -> K) g dl dx nsamp (x yp sm w : list K) :
  nlay g dl = 1%Z -> sens_sweep dmin_x dmin_s dmax g dl dx nsamp x yp sm w = w.
Proof. intros E. unfold sens_sweep. rewrite E. reflexivity. Qed.

(* the default parameters (p = 40, xi_0 = 0.5, eps = 1e-4, float64) meet the conditions, for nsampling 3, 5, 9 *)
Lemma default_params_differentiable n : n = 3 \/ n = 5 \/ n = 9 ->
  let q := q_of 40 n (1 / 2) in
  let s := shift_of 40 dbl_tiny in
  let b := backshift_of n 40 q s in
  0 < 1 / 10000 /\ q <> 0 /\ 0 <= b < s.
Proof.
  intros Hn. destruct (default_params n Hn) as (Hq & Hs & Hb & _). cbv zeta. repeat split; try lra; tauto.
Qed.

(* a concrete instance of the hypotheses of overhang_module_adjoint (non-vacuity) *)
Lemma hypotheses_met_example :
  wf {| nelx := 2; nely := 3; nelz := 0 |} /\ (0 <= 1 <= 2)%Z /\ ~ (1 == 0)%Q /\ (2 <= 3)%Z /\
  Z.of_nat (length [1; 0; 1 / 2; 1; 1 / 4; 0]) = nel {| nelx := 2; nely := 3; nelz := 0 |} /\
  List.Forall (fun u => 0 <= u) [1; 0; 1 / 2; 1; 1 / 4; 0].
Proof.
  split; [unfold wf; cbn; lia|]. split; [lia|]. split; [discriminate|]. split; [lia|]. split; [reflexivity|].
  repeat constructor; lra.
Qed.
