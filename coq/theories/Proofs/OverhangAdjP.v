(* Lemmas about Model/OverhangAdj.v (OverhangFilter._sensitivity):
   (A) over any commutative ring, for arbitrary factor functions and arbitrary stored arrays, the reverse sweep is the
       exact adjoint (transpose) of the tangent sweep:  <w, tangent v> = <sensitivity w, v>;
   (B) over R, with the smooth min / max of Model/Overhang.v and the partial derivatives as the code computes them, the
       tangent sweep is the directional derivative of the response sweep (chain rule, induction over the layers);
   (C) together: <sensitivity w, v> is the derivative of t |-> <w, response (x + t v)> at t = 0.                       *)
From Coq Require Import ZArith QArith List Bool Lia Ring Permutation Reals Psatz.
From Pymoto Require Import Base.Num Model.Grid Model.Overhang Model.OverhangAdj Proofs.GridP Proofs.OverhangP.
Import ListNotations.
Open Scope Z_scope.

(* ---------------------------------------------------------------------------------------------- *)
(* lists                                                                                            *)
Lemma NoDup_app_intro {A} (l l' : list A) : NoDup l -> NoDup l' -> (forall x, In x l -> ~ In x l') -> NoDup (l ++ l').
Proof.
  induction l as [|a l IH]; intros Hl Hl' Hd; cbn; auto.
  inversion Hl as [|? ? Hna Hl0]; subst. constructor.
  - rewrite in_app_iff. intros [Hi | Hi]; [auto | apply (Hd a); cbn; auto].
  - apply IH; auto. intros x Hx. apply Hd. right; auto.
Qed.

Lemma NoDup_map_inj_in {A B} (f : A -> B) l :
  (forall x y, In x l -> In y l -> f x = f y -> x = y) -> NoDup l -> NoDup (map f l).
Proof.
  induction l as [|a l IH]; intros Hinj Hl; cbn; [constructor|].
  inversion Hl as [|? ? Hna Hl0]; subst. constructor.
  - rewrite in_map_iff. intros (y & E & Hy). apply Hna. rewrite (Hinj a y); cbn; auto.
  - apply IH; auto. intros x y Hx Hy. apply Hinj; right; auto.
Qed.

Lemma zrange_NoDup n : NoDup (zrange n).
Proof.
  unfold zrange. apply NoDup_map_inj_in; [|apply seq_NoDup]. intros x y _ _ E. lia.
Qed.

Lemma entire_layer_NoDup m1 m2 : NoDup (entire_layer m1 m2).
Proof.
  unfold entire_layer. generalize (zrange_NoDup m1). generalize (zrange m1) as la.
  induction la as [|a la IH]; intros Hla; cbn; [constructor|].
  inversion Hla as [|? ? Hna Hla0]; subst. apply NoDup_app_intro; auto.
  - apply NoDup_map_inj_in; [|apply zrange_NoDup]. intros x y _ _ E. congruence.
  - intros (u, w) Hin Hin2. apply in_map_iff in Hin as (b & E & _). inversion E; subst.
    apply in_flat_map in Hin2 as (a' & Ha' & Hin2). apply in_map_iff in Hin2 as (b' & E' & _). inversion E'; subst. auto.
Qed.

(* ---------------------------------------------------------------------------------------------- *)
(* sums and dot products over a commutative ring                                                    *)
Section RingLemmas.
  Context {K : Type} `{Num K}.
  Hypothesis Rth : ring_theory (@nzero K _) none_ nadd nmul nsub nopp (@eq K).
  Add Ring KringOvhA : Rth.
  Infix "+'" := nadd (at level 50, left associativity).
  Infix "*'" := nmul (at level 40, left associativity).
  Notation "0'" := nzero.

  Lemma nsum_map_cons {A} (f : A -> K) a l : nsum (map f (a :: l)) = f a +' nsum (map f l).
  Proof. reflexivity. Qed.

  Lemma nsum_map_ext {A} (f h : A -> K) l : (forall a, In a l -> f a = h a) -> nsum (map f l) = nsum (map h l).
  Proof. intros E. f_equal. apply map_ext_in. exact E. Qed.

  Lemma nsum_map_nil {A} (f : A -> K) : nsum (map f []) = 0'.
  Proof. reflexivity. Qed.

  Lemma nsum_map_add {A} (f h : A -> K) l : nsum (map (fun a => f a +' h a) l) = nsum (map f l) +' nsum (map h l).
  Proof. induction l as [|a l IH]; rewrite ?nsum_map_nil, ?nsum_map_cons; [ring|]. rewrite IH. ring. Qed.

  Lemma nsum_map_mul_l {A} c (f : A -> K) l : c *' nsum (map f l) = nsum (map (fun a => c *' f a) l).
  Proof. induction l as [|a l IH]; rewrite ?nsum_map_nil, ?nsum_map_cons; [ring|]. rewrite <- IH. ring. Qed.

  Lemma nsum_map_zero {A} (f : A -> K) l : (forall a, In a l -> f a = 0') -> nsum (map f l) = 0'.
  Proof.
    induction l as [|a l IH]; intros E; rewrite ?nsum_map_nil, ?nsum_map_cons; [reflexivity|].
    rewrite IH by (intros; apply E; right; auto). rewrite E by (left; auto). ring.
  Qed.

  Lemma nsum_filter {A} (phi : A -> bool) (f : A -> K) l :
    nsum (map f (filter phi l)) = nsum (map (fun a => if phi a then f a else 0') l).
  Proof.
    induction l as [|a l IH]; cbn [filter]; [reflexivity|].
    rewrite (nsum_map_cons (fun a => if phi a then f a else 0')). rewrite <- IH.
    destruct (phi a); rewrite ?nsum_map_cons; [reflexivity | ring].
  Qed.

  Lemma nsum_swap {A B} (f : A -> B -> K) la lb :
    nsum (map (fun a => nsum (map (fun b => f a b) lb)) la) = nsum (map (fun b => nsum (map (fun a => f a b) la)) lb).
  Proof.
    induction la as [|a la IH].
    - rewrite nsum_map_nil. symmetry. apply nsum_map_zero. reflexivity.
    - rewrite nsum_map_cons, IH. rewrite <- nsum_map_add. apply nsum_map_ext. intros b _. rewrite nsum_map_cons. reflexivity.
  Qed.

  (* sum over p of the sum over the o allowed for p  =  sum over o of the sum over the p for which o is allowed *)
  Lemma nsum_swap_filter {A B} (phi : A -> B -> bool) (f : A -> B -> K) la lb :
    nsum (map (fun a => nsum (map (fun b => f a b) (filter (phi a) lb))) la) =
    nsum (map (fun b => nsum (map (fun a => f a b) (filter (fun a => phi a b) la))) lb).
  Proof.
    rewrite (nsum_map_ext _ (fun a => nsum (map (fun b => if phi a b then f a b else 0') lb))) by (intros; apply nsum_filter).
    rewrite nsum_swap. apply nsum_map_ext. intros b _. symmetry. apply (nsum_filter (fun a => phi a b) (fun a => f a b)).
  Qed.

  Lemma dot_cons2 a b (x y : list K) : dot (a :: x) (b :: y) = a *' b +' dot x y.
  Proof. reflexivity. Qed.

  Lemma dot_comm (a b : list K) : dot a b = dot b a.
  Proof.
    revert b; induction a as [|x a IH]; intros [|y b]; try reflexivity. rewrite !dot_cons2, IH. ring.
  Qed.

  Lemma dot_zeros_l n (b : list K) : dot (vzero n) b = 0'.
  Proof.
    revert b; induction n as [|n IH]; intros [|y b]; try reflexivity.
    unfold vzero; cbn [repeat]. rewrite dot_cons2. fold (@vzero K _ n). rewrite IH. ring.
  Qed.

  Lemma nth_zeros n i : nth i (@vzero K _ n) 0' = 0'.
  Proof. unfold vzero. revert i; induction n as [|n IH]; intros [|i]; cbn; auto. Qed.

  (* xs[i] = y against a fixed vector *)
  Lemma dot_upd_l (xs b : list K) i y : (i < length xs)%nat -> length xs = length b ->
    dot (upd xs i y) b +' nth i xs 0' *' nth i b 0' = dot xs b +' y *' nth i b 0'.
  Proof.
    revert b i; induction xs as [|x xs IH]; intros [|c b] [|i] Hi Hl; cbn in Hi, Hl; try lia.
    - cbn [upd nth]. rewrite !dot_cons2. ring.
    - cbn [upd nth]. rewrite !dot_cons2.
      assert (E := IH b i ltac:(lia) ltac:(lia)).
      transitivity (x *' c +' (dot (upd xs i y) b +' nth i xs 0' *' nth i b 0')); [ring|]. rewrite E. ring.
  Qed.

  (* numpy  xs[keys] = vals  with distinct keys, measured against a fixed vector b *)
  Lemma scatter_dot_l {P} (key : P -> Z) (val : P -> K) ps (xs b : list K) :
    NoDup (map key ps) -> (forall p, In p ps -> 0 <= key p < Z.of_nat (length xs)) -> length xs = length b ->
    dot (scatter_by key val ps xs) b +' nsum (map (fun p => gk xs (key p) *' gk b (key p)) ps) =
    dot xs b +' nsum (map (fun p => val p *' gk b (key p)) ps).
  Proof.
    revert xs. induction ps as [|q r IH]; intros xs Hnd Hr Hl.
    - cbn. reflexivity.
    - change (scatter_by key val (q :: r) xs) with (scatter_by key val r (upd xs (Z.to_nat (key q)) (val q))).
      cbn [map] in Hnd. inversion Hnd as [|? ? Hnq Hnd0]; subst.
      rewrite !nsum_map_cons.
      assert (Hq := Hr q (or_introl eq_refl)).
      assert (E := IH (upd xs (Z.to_nat (key q)) (val q)) Hnd0).
      rewrite upd_length in E. specialize (E (fun p Hp => Hr p (or_intror Hp)) Hl).
      rewrite (nsum_map_ext (fun p => gk (upd xs (Z.to_nat (key q)) (val q)) (key p) *' gk b (key p))
                            (fun p => gk xs (key p) *' gk b (key p))) in E.
      2:{ intros p Hp. f_equal. unfold gk, getT. apply nth_upd_other.
          assert (Hp' := Hr p (or_intror Hp)). intros C. apply Hnq. apply in_map_iff. exists p. split; auto. lia. }
      assert (E2 := dot_upd_l xs b (Z.to_nat (key q)) (val q) ltac:(lia) Hl).
      unfold gk, getT in *.
      set (D1 := dot (scatter_by key val r (upd xs (Z.to_nat (key q)) (val q))) b) in *.
      set (D2 := dot (upd xs (Z.to_nat (key q)) (val q)) b) in *.
      set (S1 := nsum (map (fun p => nth (Z.to_nat (key p)) xs 0' *' nth (Z.to_nat (key p)) b 0') r)) in *.
      set (S2 := nsum (map (fun p => val p *' nth (Z.to_nat (key p)) b 0') r)) in *.
      set (a1 := nth (Z.to_nat (key q)) xs 0') in *. set (b1 := nth (Z.to_nat (key q)) b 0') in *.
      transitivity ((D1 +' S1) +' a1 *' b1); [ring|]. rewrite E.
      transitivity ((D2 +' a1 *' b1) +' S2); [ring|]. rewrite E2. ring.
  Qed.

  Lemma scatter_dot_r {P} (key : P -> Z) (val : P -> K) ps (xs b : list K) :
    NoDup (map key ps) -> (forall p, In p ps -> 0 <= key p < Z.of_nat (length xs)) -> length xs = length b ->
    dot b (scatter_by key val ps xs) +' nsum (map (fun p => gk b (key p) *' gk xs (key p)) ps) =
    dot b xs +' nsum (map (fun p => gk b (key p) *' val p) ps).
  Proof.
    intros Hnd Hr Hl. rewrite (dot_comm b), (dot_comm b xs).
    rewrite (nsum_map_ext (fun p => gk b (key p) *' gk xs (key p)) (fun p => gk xs (key p) *' gk b (key p))) by (intros; ring).
    rewrite (nsum_map_ext (fun p => gk b (key p) *' val p) (fun p => val p *' gk b (key p))) by (intros; ring).
    apply scatter_dot_l; auto.
  Qed.

  (* numpy  xs[keys] += a  (gather, add, scatter; distinct keys) *)
  Lemma scatter_add_dot {P} (key : P -> Z) (a : P -> K) ps (xs b : list K) :
    NoDup (map key ps) -> (forall p, In p ps -> 0 <= key p < Z.of_nat (length xs)) -> length xs = length b ->
    dot (scatter_by key (fun p => gk xs (key p) +' a p) ps xs) b = dot xs b +' nsum (map (fun p => a p *' gk b (key p)) ps).
  Proof.
    intros Hnd Hr Hl. assert (E := scatter_dot_l key (fun p => gk xs (key p) +' a p) ps xs b Hnd Hr Hl).
    cbv beta in E.
    rewrite (nsum_map_ext (fun p => (gk xs (key p) +' a p) *' gk b (key p))
                          (fun p => gk xs (key p) *' gk b (key p) +' a p *' gk b (key p))) in E by (intros; ring).
    rewrite nsum_map_add in E.
    set (D := dot (scatter_by key (fun p => gk xs (key p) +' a p) ps xs) b) in *.
    set (S0 := nsum (map (fun p => gk xs (key p) *' gk b (key p)) ps)) in *.
    set (S1 := nsum (map (fun p => a p *' gk b (key p)) ps)) in *.
    assert (E' : D +' S0 +' (nopp S0) = dot xs b +' (S0 +' S1) +' (nopp S0)) by (rewrite E; reflexivity).
    transitivity (D +' S0 +' nopp S0); [ring|]. rewrite E'. ring.
  Qed.
End RingLemmas.
